//! Implementation side of the correspondence check: reads one case per line
//! on stdin, runs the real crate (built from /repo with --cfg e57_verif),
//! prints one result line per case in the same format as the model driver.
mod bits;
mod dev;
mod file;
mod page;
mod util;
mod ext {
    include!(concat!(env!("OUT_DIR"), "/ext.rs"));
}

use std::io::{BufRead, Write};

fn main() {
    std::panic::set_hook(Box::new(|_| {}));
    let stdin = std::io::stdin();
    let stdout = std::io::stdout();
    let mut out = std::io::BufWriter::new(stdout.lock());
    for line in stdin.lock().lines() {
        let line = line.unwrap();
        let toks: Vec<&str> = line.split(' ').filter(|x| !x.is_empty()).collect();
        let res = if toks.is_empty() {
            String::new()
        } else {
            match toks[0] {
                "BASE" => {
                    util::register_base(toks[1], toks[2]);
                    String::new()
                }
                "PW" => page::run_pw(&toks[1..]),
                "PR" => page::run_pr(&toks[1..]),
                "CRCPAGE" => page::run_crc(&toks[1..]),
                "FW" => file::run_fw(&toks[1..]),
                "RD" => file::run_rd(&toks[1..]),
                "SESS" => file::run_sess(&toks[1..]),
                "OPEN" => file::run_open(&toks[1..]),
                "BLOBRD" => file::run_blobrd(&toks[1..]),
                "BLOBRDS" => file::run_blobrds(&toks[1..]),
                "VCRC" => file::run_vcrc(&toks[1..]),
                "RAWXML" => file::run_rawxml(&toks[1..]),
                "BITS" => bits::run_bits(&toks[1..]),
                "BW" => bits::run_bw(&toks[1..]),
                "BR" => bits::run_br(&toks[1..]),
                k => ext::dispatch(k, &toks[1..]).unwrap_or_else(|| format!("unknown-kind {}", k)),
            }
        };
        writeln!(out, "{}", res).unwrap();
    }
}
