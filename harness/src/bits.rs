//! BITS / BW / BR cases: the bit-packing layer driven through the e57_verif hooks.
use crate::util::*;
use e57::verif::{dtype_bit_size, dtype_write, unpack, ByteStreamReadBuffer, ByteStreamWriteBuffer};
use e57::{RecordDataType, RecordValue};
use std::collections::VecDeque;

pub fn parse_type(s: &str) -> RecordDataType {
    let p: Vec<&str> = s.split('/').collect();
    match p[0] {
        "F" => RecordDataType::Single { min: None, max: None },
        "D" => RecordDataType::Double { min: None, max: None },
        "I" => RecordDataType::Integer { min: p[1].parse().unwrap(), max: p[2].parse().unwrap() },
        "S" => RecordDataType::ScaledInteger {
            min: p[1].parse().unwrap(),
            max: p[2].parse().unwrap(),
            scale: if p.len() > 3 { f64::from_bits(u64::from_str_radix(p[3], 16).unwrap()) } else { 1.0 },
            offset: if p.len() > 4 { f64::from_bits(u64::from_str_radix(p[4], 16).unwrap()) } else { 0.0 },
        },
        _ => panic!("bad type"),
    }
}

/// value token: f<hex32> d<hex64> s<dec> i<dec>
pub fn parse_value(s: &str) -> RecordValue {
    let a = &s[1..];
    match s.as_bytes()[0] {
        b'f' => RecordValue::Single(f32::from_bits(u32::from_str_radix(a, 16).unwrap())),
        b'd' => RecordValue::Double(f64::from_bits(u64::from_str_radix(a, 16).unwrap())),
        b's' => RecordValue::ScaledInteger(a.parse().unwrap()),
        b'i' => RecordValue::Integer(a.parse().unwrap()),
        _ => panic!("bad value"),
    }
}

pub fn show_value(v: &RecordValue) -> String {
    match v {
        RecordValue::Single(x) => format!("f{:08x}", x.to_bits()),
        RecordValue::Double(x) => format!("d{:016x}", x.to_bits()),
        RecordValue::ScaledInteger(x) => format!("s{}", x),
        RecordValue::Integer(x) => format!("i{}", x),
    }
}

/// BITS <type> c<cuts> values...
pub fn run_bits(toks: &[&str]) -> String {
    let dt = parse_type(toks[0]);
    let cuts: Vec<usize> = toks[1][1..].split(',').filter(|x| !x.is_empty()).map(|x| x.parse().unwrap()).collect();
    let vals: Vec<RecordValue> = toks[2..].iter().map(|t| parse_value(t)).collect();
    let w = dtype_bit_size(&dt);
    let mut buf = ByteStreamWriteBuffer::new();
    for (i, v) in vals.iter().enumerate() {
        match guard(|| dtype_write(&dt, v, &mut buf)) {
            None => return format!("w={} wP@{}", w, i),
            Some(Err(e)) => return format!("w={} we{}@{}", w, err_name(&e), i),
            Some(Ok(())) => {}
        }
    }
    let stream = buf.get_all_bytes();
    let mut out = format!("w={} stream={}", w, hex(&stream));
    if w == 0 {
        return out;
    }
    // decode with the given cuts
    let mut rb = ByteStreamReadBuffer::new();
    let mut q = VecDeque::new();
    let mut pos = 0usize;
    let mut chunks: Vec<&[u8]> = Vec::new();
    for c in cuts {
        let e = (pos + c).min(stream.len());
        chunks.push(&stream[pos..e]);
        pos = e;
    }
    chunks.push(&stream[pos..]);
    for c in chunks {
        rb.append(c);
        match guard(|| unpack(&dt, &mut rb, &mut q)) {
            None => return out + " rP",
            Some(Err(e)) => return out + &format!(" re{}", err_name(&e)),
            Some(Ok(())) => {}
        }
    }
    out += " out=";
    out += &q.iter().map(show_value).collect::<Vec<_>>().join(",");
    out
}

/// BW ops: b<bits>:<hex> (add_bits) y<hex> (add_bytes) g (get_full_bytes) G (get_all_bytes) n (full/all counts)
pub fn run_bw(toks: &[&str]) -> String {
    let mut b = ByteStreamWriteBuffer::new();
    let mut outs = Vec::new();
    for t in toks {
        let a = &t[1..];
        let o = match t.as_bytes()[0] {
            b'b' => {
                let (bits, h) = a.split_once(':').unwrap();
                let bits: usize = bits.parse().unwrap();
                let data = unhex(h);
                match guard(|| b.add_bits(&data, bits)) { None => "P".to_string(), Some(()) => "o".to_string() }
            }
            b'y' => {
                let data = unhex(a);
                match guard(|| b.add_bytes(&data)) { None => "P".to_string(), Some(()) => "o".to_string() }
            }
            b'g' => match guard(|| b.get_full_bytes()) { None => "P".to_string(), Some(v) => format!("[{}]", hex(&v)) },
            b'G' => match guard(|| b.get_all_bytes()) { None => "P".to_string(), Some(v) => format!("[{}]", hex(&v)) },
            b'n' => match guard(|| (b.full_bytes(), b.all_bytes())) { None => "P".to_string(), Some((f, a)) => format!("{}/{}", f, a) },
            _ => panic!("bad bw op"),
        };
        let stop = o == "P";
        outs.push(o);
        if stop { break; }
    }
    outs.join(" ")
}

/// BR ops: a<hex> (append) e<bits> (extract) v (available)
pub fn run_br(toks: &[&str]) -> String {
    let mut b = ByteStreamReadBuffer::new();
    let mut outs = Vec::new();
    for t in toks {
        let a = &t[1..];
        let o = match t.as_bytes()[0] {
            b'a' => {
                let data = unhex(a);
                match guard(|| b.append(&data)) { None => "P".to_string(), Some(()) => "o".to_string() }
            }
            b'e' => {
                let bits: usize = a.parse().unwrap();
                match guard(|| b.extract(bits)) { None => "P".to_string(), Some(None) => "none".to_string(), Some(Some(v)) => format!("{}", v) }
            }
            b'v' => match guard(|| b.available()) { None => "P".to_string(), Some(v) => format!("{}", v) },
            _ => panic!("bad br op"),
        };
        let stop = o == "P";
        outs.push(o);
        if stop { break; }
    }
    outs.join(" ")
}
