//! FW / RD / OPEN / BLOBRD / VCRC / RAWXML cases: the file level through the public API.
use crate::bits::{parse_type, parse_value, show_value};
use crate::dev::Dev;
use crate::page::dev_summary;
use crate::util::*;
use e57::{Blob, E57Reader, E57Writer, Record, RecordDataType, RecordName, RecordValue};

pub fn parse_name(s: &str) -> RecordName {
    match s {
        "x" => RecordName::CartesianX,
        "y" => RecordName::CartesianY,
        "z" => RecordName::CartesianZ,
        "cis" => RecordName::CartesianInvalidState,
        "sr" => RecordName::SphericalRange,
        "sa" => RecordName::SphericalAzimuth,
        "se" => RecordName::SphericalElevation,
        "sis" => RecordName::SphericalInvalidState,
        "in" => RecordName::Intensity,
        "iin" => RecordName::IsIntensityInvalid,
        "r" => RecordName::ColorRed,
        "g" => RecordName::ColorGreen,
        "b" => RecordName::ColorBlue,
        "ici" => RecordName::IsColorInvalid,
        "row" => RecordName::RowIndex,
        "col" => RecordName::ColumnIndex,
        "rc" => RecordName::ReturnCount,
        "ri" => RecordName::ReturnIndex,
        "ts" => RecordName::TimeStamp,
        "its" => RecordName::IsTimeStampInvalid,
        _ => {
            // u.<namespace>.<name>
            let p: Vec<&str> = s.splitn(3, '.').collect();
            RecordName::Unknown { namespace: p[1].to_string(), name: p[2].to_string() }
        }
    }
}

pub fn parse_proto(s: &str) -> Vec<Record> {
    s.split(',')
        .filter(|x| !x.is_empty())
        .map(|nt| {
            let (n, t) = nt.split_once('=').unwrap();
            Record { name: parse_name(n), data_type: parse_type(t) }
        })
        .collect()
}

pub fn parse_points(s: &str) -> Vec<Vec<RecordValue>> {
    if s.is_empty() {
        return Vec::new();
    }
    s.split(';').map(|p| p.split(',').filter(|x| !x.is_empty()).map(parse_value).collect()).collect()
}

pub fn show_type(dt: &RecordDataType) -> String {
    match dt {
        RecordDataType::Single { .. } => "F".to_string(),
        RecordDataType::Double { .. } => "D".to_string(),
        RecordDataType::ScaledInteger { min, max, scale, offset } => {
            format!("S/{}/{}/{:016x}/{:016x}", min, max, scale.to_bits(), offset.to_bits())
        }
        RecordDataType::Integer { min, max } => format!("I/{}/{}", min, max),
    }
}

fn res_s<T>(r: Option<e57::Result<T>>, f: impl FnOnce(T) -> String) -> String {
    match r {
        None => "P".to_string(),
        Some(Ok(v)) => f(v),
        Some(Err(e)) => format!("e{}", err_name(&e)),
    }
}

/// a `Read` source that hands out at most `chunk` bytes per call (None: as many as fit) - legal for `Read`,
/// as pipes, `chain`ed readers and decoders do
struct Src {
    data: Vec<u8>,
    pos: usize,
    chunk: Option<usize>,
}
impl std::io::Read for Src {
    fn read(&mut self, buf: &mut [u8]) -> std::io::Result<usize> {
        let mut n = buf.len().min(self.data.len() - self.pos);
        if let Some(c) = self.chunk {
            n = n.min(c);
        }
        buf[..n].copy_from_slice(&self.data[self.pos..self.pos + n]);
        self.pos += n;
        Ok(n)
    }
}

/// FW <fault> item... [X:...ignored]      fault: `-` | <operation number> | `-s<n>` (no fault; every blob / image
/// source hands out at most n bytes per read)
pub fn run_fw(toks: &[&str]) -> String {
    let chunk: Option<usize> = toks[0].strip_prefix("-s").map(|n| n.parse().unwrap());
    let fault = if toks[0] == "-" || chunk.is_some() { None } else { Some(toks[0].parse().unwrap()) };
    let dev = Dev::new(Vec::new(), fault);
    let w = guard(|| E57Writer::new(dev.clone(), "file-guid"));
    let mut w = match w {
        None => return "new:P".to_string(),
        // the model distinguishes PagedWriter::new from the header write
        Some(Err(e)) => {
            let ops = dev.ops();
            return if ops <= 1 {
                format!("new:e{} | {}", err_name(&e), dev_summary(&dev))
            } else {
                format!("e{} | {}", err_name(&e), dev_summary(&dev))
            };
        }
        Some(Ok(w)) => w,
    };
    let mut outs = vec!["o".to_string()];
    let mut pc_slots = Vec::new();
    let mut img_slots: Vec<(usize, String, Vec<bool>)> = Vec::new();
    for t in &toks[1..] {
        if t.starts_with("X:") || *t == "DUMP" {
            continue;
        }
        let parts: Vec<&str> = t.split(':').collect();
        match parts[0] {
            "B" => {
                let data = unhex(parts[1]);
                let mut src = Src { data, pos: 0, chunk };
                outs.push(res_s(guard(|| w.add_blob(&mut src)), |b: Blob| format!("b{}:{}", b.offset, b.length)));
            }
            "I" => {
                // image: kinds (one or two of v|p|s|c: visual reference and/or one projection), then for each
                // kind its data and optional mask; binary-wise one blob section per data/mask
                let kinds: Vec<char> = parts[1].chars().collect();
                let mut reps: Vec<(char, Vec<u8>, Option<Vec<u8>>)> = Vec::new();
                for (k, c) in kinds.iter().enumerate() {
                    let data = unhex(parts[2 + 2 * k]);
                    let mask = if parts[3 + 2 * k] == "-" { None } else { Some(unhex(parts[3 + 2 * k])) };
                    reps.push((*c, data, mask));
                }
                let masks: Vec<bool> = reps.iter().map(|r| r.2.is_some()).collect();
                let r = guard(|| -> e57::Result<()> {
                    let mut iw = w.add_image("img-guid")?;
                    for (kind, data, mask) in reps {
                        let mut src = Src { data, pos: 0, chunk };
                        let mut msrc = mask.map(|data| Src { data, pos: 0, chunk });
                        let m: Option<&mut dyn std::io::Read> = match msrc.as_mut() {
                            Some(c) => Some(c),
                            None => None,
                        };
                        match kind {
                            'v' => iw.add_visual_reference(
                                e57::ImageFormat::Png,
                                &mut src,
                                e57::VisualReferenceImageProperties { width: 3, height: 2 },
                                m,
                            )?,
                            'p' => iw.add_pinhole(
                                e57::ImageFormat::Jpeg,
                                &mut src,
                                e57::PinholeImageProperties {
                                    width: 3,
                                    height: 2,
                                    focal_length: 1.5,
                                    pixel_width: 0.25,
                                    pixel_height: 0.5,
                                    principal_x: 1.0,
                                    principal_y: 2.0,
                                },
                                m,
                            )?,
                            's' => iw.add_spherical(
                                e57::ImageFormat::Png,
                                &mut src,
                                e57::SphericalImageProperties { width: 3, height: 2, pixel_width: 0.25, pixel_height: 0.5 },
                                m,
                            )?,
                            _ => iw.add_cylindrical(
                                e57::ImageFormat::Jpeg,
                                &mut src,
                                e57::CylindricalImageProperties {
                                    width: 3,
                                    height: 2,
                                    radius: 2.5,
                                    principal_y: 1.0,
                                    pixel_width: 0.25,
                                    pixel_height: 0.5,
                                },
                                m,
                            )?,
                        }
                    }
                    iw.finalize()
                });
                let o = res_s(r, |_| "i?".to_string());
                if o == "i?" {
                    img_slots.push((outs.len(), parts[1].to_string(), masks));
                }
                outs.push(o);
            }
            "P" => {
                let proto = parse_proto(parts[1]);
                let pts = parse_points(if parts.len() > 2 { parts[2] } else { "" });
                let r = guard(|| -> e57::Result<u64> {
                    let mut pcw = w.add_pointcloud("pc-guid", proto)?;
                    let mut n = 0;
                    for p in pts {
                        pcw.add_point(p)?;
                        n += 1;
                    }
                    pcw.finalize()?;
                    Ok(n)
                });
                let o = res_s(r, |n| format!("p?:{}", n));
                if o.starts_with("p?") {
                    pc_slots.push(outs.len());
                }
                outs.push(o);
            }
            _ => panic!("bad item"),
        }
    }
    outs.push(res_s(guard(|| w.finalize()), |_| "o".to_string()));
    if guard(move || drop(w)).is_none() {
        outs.push("dropP".to_string());
    }
    // read the file back: section offsets of the point clouds, their points, every blob
    let mut xml_hex = String::new();
    let mut rb = String::new();
    if let Some(Ok(mut r)) = guard(|| E57Reader::new(std::io::Cursor::new(dev.snapshot()))) {
        let pcs = r.pointclouds();
        for (k, slot) in pc_slots.iter().enumerate() {
            if let Some(pc) = pcs.get(k) {
                outs[*slot] = format!("p{}:{}", pc.file_offset, pc.records);
            }
        }
        xml_hex = hex(r.xml().as_bytes());
        // images: publish the blob descriptors of each image (data, then mask) like blob results
        let imgs = r.images();
        for (k, (slot, kinds, masks)) in img_slots.iter().enumerate() {
            if let Some(img) = imgs.get(k) {
                let mut o = String::new();
                let mut complete = true;
                for (idx, kind) in kinds.chars().enumerate() {
                    let found: Option<(Blob, Option<Blob>)> = match kind {
                        'v' => img.visual_reference.as_ref().map(|v| (v.blob.data.clone(), v.mask.clone())),
                        _ => match (&img.projection, kind) {
                            (Some(e57::Projection::Pinhole(p)), 'p') => Some((p.blob.data.clone(), p.mask.clone())),
                            (Some(e57::Projection::Spherical(p)), 's') => Some((p.blob.data.clone(), p.mask.clone())),
                            (Some(e57::Projection::Cylindrical(p)), 'c') => Some((p.blob.data.clone(), p.mask.clone())),
                            _ => None,
                        },
                    };
                    match found {
                        Some((d, m)) => {
                            if !o.is_empty() {
                                o.push(' ');
                            }
                            o += &format!("b{}:{}", d.offset, d.length);
                            match (m, masks[idx]) {
                                (Some(m), true) => o += &format!(" b{}:{}", m.offset, m.length),
                                (None, false) => {}
                                _ => o += " mask-mismatch",
                            }
                        }
                        None => complete = false,
                    }
                }
                if complete {
                    outs[*slot] = o;
                }
            }
        }
        let outs_flat: Vec<String> = outs.iter().flat_map(|o| o.split(' ').map(|x| x.to_string()).collect::<Vec<_>>()).collect();
        let mut k = 0;
        for o in outs_flat.iter() {
            if o.starts_with('p') {
                if let Some(pc) = pcs.get(k) {
                    let s = match guard(|| r.pointcloud_raw(pc)) {
                        None => "new:P".to_string(),
                        Some(Err(e)) => format!("new:e{}", err_name(&e)),
                        Some(Ok(it)) => iter_summary(it),
                    };
                    rb += &format!(" # pc {}", s);
                }
                k += 1;
            } else if o.starts_with('b') {
                let (a, b) = o[1..].split_once(':').unwrap();
                let blob = Blob::new(a.parse().unwrap(), b.parse().unwrap());
                let mut out = Vec::new();
                let s = match guard(|| r.blob(&blob, &mut out)) {
                    None => "P".to_string(),
                    Some(Ok(n)) => format!("ok n={} h={}", n, fnv_hex(fnv_bytes(FNV_INIT, &out))),
                    Some(Err(e)) => format!("e{}", err_name(&e)),
                };
                rb += &format!(" # bl {}", s);
            }
        }
    } else {
        rb = " # reopen-failed".to_string();
    }
    let dump = if toks.contains(&"DUMP") { format!(" dev={}", hex(&dev.snapshot())) } else { String::new() };
    format!("{} | {}{} xml={}{}", outs.join(" "), dev_summary(&dev), rb, xml_hex, dump)
}

fn iter_summary<I: Iterator<Item = e57::Result<Vec<RecordValue>>>>(it: I) -> String {
    let mut txt = String::new();
    let mut count = 0usize;
    let mut fin = "none".to_string();
    let mut it = it;
    loop {
        match guard(|| it.next()) {
            None => {
                fin = "P".to_string();
                break;
            }
            Some(None) => break,
            Some(Some(Ok(p))) => {
                if count > 0 {
                    txt.push(';');
                }
                txt += &p.iter().map(show_value).collect::<Vec<_>>().join(",");
                count += 1;
            }
            Some(Some(Err(e))) => {
                fin = format!("e{}", err_name(&e));
                break;
            }
        }
    }
    let h = fnv_hex(fnv_bytes(FNV_INIT, txt.as_bytes()));
    if txt.len() <= 1500 {
        format!("n={} end={} h={} pts={}", count, fin, h, txt)
    } else {
        format!("n={} end={} h={}", count, fin, h)
    }
}

/// RD <fault> <devhex>: open, list point clouds, read each with the raw iterator
pub fn run_rd(toks: &[&str]) -> String {
    let fault = if toks[0] == "-" { None } else { Some(toks[0].parse().unwrap()) };
    let dev = Dev::new(resolve_dev(toks[1]), fault);
    let r = guard(|| E57Reader::new(dev.clone()));
    let mut r = match r {
        None => return "open:P".to_string(),
        Some(Err(e)) => return format!("open:e{}", err_name(&e)),
        Some(Ok(r)) => r,
    };
    let pcs = r.pointclouds();
    let mut out = format!("ok xml={} pcs={}", fnv_hex(fnv_bytes(FNV_INIT, r.xml().as_bytes())), pcs.len());
    for pc in pcs {
        let proto = pc.prototype.iter().map(|p| show_type(&p.data_type)).collect::<Vec<_>>().join(",");
        let s = match guard(|| r.pointcloud_raw(&pc)) {
            None => "new:P".to_string(),
            Some(Err(e)) => format!("new:e{}", err_name(&e)),
            Some(Ok(it)) => iter_summary(it),
        };
        out += &format!(" # pc {} {} {} # {}", pc.file_offset, pc.records, proto, s);
    }
    out
}

/// OPEN <fault> <devhex>
pub fn run_open(toks: &[&str]) -> String {
    let fault = if toks[0] == "-" { None } else { Some(toks[0].parse().unwrap()) };
    let dev = Dev::new(resolve_dev(toks[1]), fault);
    // stop counting operations once the XML is in memory: the model's reader_open ends there
    match guard(|| E57Reader::new(dev.clone())) {
        None => "P".to_string(),
        Some(Ok(r)) => {
            let h = r.header();
            format!(
                "ok phys={} xoff={} xlen={} xml={} ops={}",
                h.phys_length,
                h.phys_xml_offset,
                h.xml_length,
                fnv_hex(fnv_bytes(FNV_INIT, r.xml().as_bytes())),
                dev.ops()
            )
        }
        Some(Err(e)) => format!("e{} ops={}", err_name(&e), dev.ops()),
    }
}

/// BLOBRD <fault> <devhex> <offset> <length>
pub fn run_blobrd(toks: &[&str]) -> String {
    let fault = if toks[0] == "-" { None } else { Some(toks[0].parse().unwrap()) };
    let dev = Dev::new(resolve_dev(toks[1]), fault);
    let mut r = match guard(|| E57Reader::new(dev.clone())) {
        None => return "open:P".to_string(),
        Some(Err(e)) => return format!("open:e{}", err_name(&e)),
        Some(Ok(r)) => r,
    };
    let blob = Blob::new(toks[2].parse().unwrap(), toks[3].parse().unwrap());
    let mut out = Vec::new();
    match guard(|| r.blob(&blob, &mut out)) {
        None => "P".to_string(),
        Some(Ok(n)) => {
            if n as usize != out.len() {
                return format!("ok-mismatch returned={} written={}", n, out.len());
            }
            format!("ok n={} h={}", out.len(), fnv_hex(fnv_bytes(FNV_INIT, &out)))
        }
        Some(Err(e)) => format!("e{}", err_name(&e)),
    }
}

/// BLOBRDS <fault> <dev> <offset> <length> <capacity>: blob extraction into a target of FIXED capacity
/// (`&mut [u8]`: its `write` returns Ok(0) once it is full, which is legal for `Write`).  The extraction runs in a
/// thread of its own; when it has not returned after 20 s the result is `HANG` (the thread is abandoned).
/// Result: `ok n=<returned> filled=<bytes stored> h=<fnv of them>` | `e<Variant>` | `P` | `HANG`
pub fn run_blobrds(toks: &[&str]) -> String {
    // the instrumented device is not Send: the thread reads from a plain in-memory cursor (no fault injection here)
    let bytes = resolve_dev(toks[1]);
    let offset: u64 = toks[2].parse().unwrap();
    let length: u64 = toks[3].parse().unwrap();
    let cap: usize = toks[4].parse().unwrap();
    let (tx, rx) = std::sync::mpsc::channel();
    std::thread::spawn(move || {
        let res = (|| {
            let mut r = match guard(|| E57Reader::new(std::io::Cursor::new(bytes))) {
                None => return "open:P".to_string(),
                Some(Err(e)) => return format!("open:e{}", err_name(&e)),
                Some(Ok(r)) => r,
            };
            let blob = Blob::new(offset, length);
            let mut store = vec![0u8; cap];
            let r = {
                let mut target: &mut [u8] = &mut store[..];
                let r = guard(|| r.blob(&blob, &mut target));
                let left = target.len();
                (r, cap - left)
            };
            match r {
                (None, _) => "P".to_string(),
                (Some(Ok(n)), filled) => format!("ok n={} filled={} h={}", n, filled, fnv_hex(fnv_bytes(FNV_INIT, &store[..filled]))),
                (Some(Err(e)), _) => format!("e{}", err_name(&e)),
            }
        })();
        let _ = tx.send(res);
    });
    match rx.recv_timeout(std::time::Duration::from_secs(20)) {
        Ok(s) => s,
        Err(_) => "HANG".to_string(),
    }
}

pub fn run_vcrc(toks: &[&str]) -> String {
    let fault = if toks[0] == "-" { None } else { Some(toks[0].parse().unwrap()) };
    let dev = Dev::new(resolve_dev(toks[1]), fault);
    match guard(|| E57Reader::validate_crc(dev.clone())) {
        None => "P".to_string(),
        Some(Ok(ps)) => format!("ok {}", ps),
        Some(Err(e)) => format!("e{}", err_name(&e)),
    }
}

pub fn run_rawxml(toks: &[&str]) -> String {
    let fault = if toks[0] == "-" { None } else { Some(toks[0].parse().unwrap()) };
    let dev = Dev::new(resolve_dev(toks[1]), fault);
    match guard(|| E57Reader::raw_xml(dev.clone())) {
        None => "P".to_string(),
        Some(Ok(x)) => format!("ok n={} h={}", x.len(), fnv_hex(fnv_bytes(FNV_INIT, &x))),
        Some(Err(e)) => format!("e{}", err_name(&e)),
    }
}

fn limited_summary<I: Iterator<Item = e57::Result<Vec<RecordValue>>>>(it: I, limit: Option<usize>) -> String {
    match limit {
        None => iter_summary(it),
        Some(n) => iter_summary(it.take(n)),
    }
}

/// SESS <fault> <devhex> op... : several read operations on ONE reader
///   X                                   the XML
///   R:<off>:<records>:<types>:<limit>   raw iteration of a point cloud given by descriptor (limit = number or all)
///   B:<off>:<len>                       blob
pub fn run_sess(toks: &[&str]) -> String {
    let fault = if toks[0] == "-" { None } else { Some(toks[0].parse().unwrap()) };
    let dev = Dev::new(resolve_dev(toks[1]), fault);
    let mut r = match guard(|| E57Reader::new(dev.clone())) {
        None => return "open:P".to_string(),
        Some(Err(e)) => return format!("open:e{}", err_name(&e)),
        Some(Ok(r)) => r,
    };
    let mut outs = vec!["open:ok".to_string()];
    for t in &toks[2..] {
        let parts: Vec<&str> = t.split(':').collect();
        let o = match parts[0] {
            "X" => format!("xml={}", fnv_hex(fnv_bytes(FNV_INIT, r.xml().as_bytes()))),
            "R" => {
                let mut pc = e57::PointCloud::default();
                pc.file_offset = parts[1].parse().unwrap();
                pc.records = parts[2].parse().unwrap();
                pc.prototype = parts[3]
                    .split(',')
                    .filter(|x| !x.is_empty())
                    .enumerate()
                    .map(|(i, t)| Record {
                        name: RecordName::Unknown { namespace: "v".to_string(), name: format!("a{}", i) },
                        data_type: parse_type(t),
                    })
                    .collect();
                let limit = if parts[4] == "all" { None } else { Some(parts[4].parse().unwrap()) };
                match guard(|| r.pointcloud_raw(&pc)) {
                    None => "new:P".to_string(),
                    Some(Err(e)) => format!("new:e{}", err_name(&e)),
                    Some(Ok(it)) => limited_summary(it, limit),
                }
            }
            "B" => {
                let blob = Blob::new(parts[1].parse().unwrap(), parts[2].parse().unwrap());
                let mut out = Vec::new();
                match guard(|| r.blob(&blob, &mut out)) {
                    None => "P".to_string(),
                    Some(Ok(n)) => format!("ok n={} h={}", n, fnv_hex(fnv_bytes(FNV_INIT, &out))),
                    Some(Err(e)) => format!("e{}", err_name(&e)),
                }
            }
            _ => panic!("bad sess op"),
        };
        outs.push(o);
    }
    outs.join(" # ")
}
