//! Slice "tools" (C20): library-side reference values for the checks of the bundled
//! command-line tools, and the std functions the tool model takes as oracles.
//!
//! F32PARSE <texthex|-> ...   str::parse::<f32>  -> f32 bits (8 hex digits, NaN canonical) | `x` (error) | `u` (not UTF-8)
//! F64PARSE <texthex|-> ...   str::parse::<f64>  -> f64 bits (16 hex digits, NaN canonical) | `x` | `u`
//! F32DISP <f32 bits> ...     f32::to_string     -> hex of the text
//! F64DISP <f64 bits> ...     f64::to_string     -> hex of the text
//! U8PARSE <texthex|-> ...    str::parse::<u8>   -> decimal | `x` | `u`
//! RAWPTS <fault> <dev>       every point cloud read with the raw iterator, all values, no truncation:
//!                            `ok <points|-> # <points|-> ...` ; a cloud whose iteration fails: `<points so far>!e<Variant>`
//!                            (or `new:e<Variant>`); open failure `open:e<Variant>`
//! IMGS <fault> <dev>         every image with its blobs as e57-unpack names them:
//!                            `ok img [V <fmt> <len> <fnv> [M <len> <fnv>]] [P <pinhole|spherical|cylindrical> <fmt> <len> <fnv> [M <len> <fnv>]] # ...`
//!                            a blob that cannot be read: `<len> e<Variant>`
use crate::bits::show_value;
use crate::dev::Dev;
use crate::util::*;
use e57::{Blob, E57Reader, Projection};

fn text_of(tok: &str) -> Option<String> {
    let b = if tok == "-" { Vec::new() } else { unhex(tok) };
    String::from_utf8(b).ok()
}

fn blob_sum<T: std::io::Read + std::io::Seek>(r: &mut E57Reader<T>, b: &Blob) -> String {
    let mut out = Vec::new();
    match guard(|| r.blob(b, &mut out)) {
        None => format!("{} P", b.length),
        Some(Ok(n)) => {
            if n as usize != out.len() {
                format!("{} mismatch", b.length)
            } else {
                format!("{} {}", out.len(), fnv_hex(fnv_bytes(FNV_INIT, &out)))
            }
        }
        Some(Err(e)) => format!("{} e{}", b.length, err_name(&e)),
    }
}

pub fn run(kind: &str, toks: &[&str]) -> Option<String> {
    match kind {
        "F32PARSE" => Some(
            toks.iter()
                .map(|t| match text_of(t) {
                    None => "u".to_string(),
                    Some(s) => match s.parse::<f32>() {
                        Ok(v) => format!("{:08x}", if v.is_nan() { 0x7fc00000 } else { v.to_bits() }),
                        Err(_) => "x".to_string(),
                    },
                })
                .collect::<Vec<_>>()
                .join(" "),
        ),
        "F64PARSE" => Some(
            toks.iter()
                .map(|t| match text_of(t) {
                    None => "u".to_string(),
                    Some(s) => match s.parse::<f64>() {
                        Ok(v) => format!("{:016x}", if v.is_nan() { 0x7ff8000000000000 } else { v.to_bits() }),
                        Err(_) => "x".to_string(),
                    },
                })
                .collect::<Vec<_>>()
                .join(" "),
        ),
        "U8PARSE" => Some(
            toks.iter()
                .map(|t| match text_of(t) {
                    None => "u".to_string(),
                    Some(s) => match s.parse::<u8>() {
                        Ok(v) => format!("{}", v),
                        Err(_) => "x".to_string(),
                    },
                })
                .collect::<Vec<_>>()
                .join(" "),
        ),
        "F32DISP" => Some(
            toks.iter()
                .map(|t| hex(f32::from_bits(u32::from_str_radix(t, 16).expect("f32 bits")).to_string().as_bytes()))
                .collect::<Vec<_>>()
                .join(" "),
        ),
        "F64DISP" => Some(
            toks.iter()
                .map(|t| hex(f64::from_bits(u64::from_str_radix(t, 16).expect("f64 bits")).to_string().as_bytes()))
                .collect::<Vec<_>>()
                .join(" "),
        ),
        "RAWPTS" => {
            let fault = if toks[0] == "-" { None } else { Some(toks[0].parse().unwrap()) };
            let dev = Dev::new(resolve_dev(toks[1]), fault);
            let mut r = match guard(|| E57Reader::new(dev.clone())) {
                None => return Some("open:P".to_string()),
                Some(Err(e)) => return Some(format!("open:e{}", err_name(&e))),
                Some(Ok(r)) => r,
            };
            let mut outs = Vec::new();
            for pc in r.pointclouds() {
                let s = match guard(|| r.pointcloud_raw(&pc)) {
                    None => "new:P".to_string(),
                    Some(Err(e)) => format!("new:e{}", err_name(&e)),
                    Some(Ok(mut it)) => {
                        let mut pts: Vec<String> = Vec::new();
                        let mut fin = String::new();
                        loop {
                            match guard(|| it.next()) {
                                None => {
                                    fin = "!P".to_string();
                                    break;
                                }
                                Some(None) => break,
                                Some(Some(Ok(p))) => pts.push(p.iter().map(show_value).collect::<Vec<_>>().join(",")),
                                Some(Some(Err(e))) => {
                                    fin = format!("!e{}", err_name(&e));
                                    break;
                                }
                            }
                        }
                        format!("{}{}", if pts.is_empty() { "-".to_string() } else { pts.join(";") }, fin)
                    }
                };
                outs.push(s);
            }
            Some(format!("ok {}", outs.join(" # ")))
        }
        "IMGS" => {
            let fault = if toks[0] == "-" { None } else { Some(toks[0].parse().unwrap()) };
            let dev = Dev::new(resolve_dev(toks[1]), fault);
            let mut r = match guard(|| E57Reader::new(dev.clone())) {
                None => return Some("open:P".to_string()),
                Some(Err(e)) => return Some(format!("open:e{}", err_name(&e))),
                Some(Ok(r)) => r,
            };
            let mut outs = Vec::new();
            for img in r.images() {
                let mut s = "img".to_string();
                if let Some(v) = &img.visual_reference {
                    s += &format!(" V {} {}", format!("{:?}", v.blob.format).to_lowercase(), blob_sum(&mut r, &v.blob.data));
                    if let Some(m) = &v.mask {
                        s += &format!(" M {}", blob_sum(&mut r, m));
                    }
                }
                if let Some(p) = &img.projection {
                    let (b, m, name) = match p {
                        Projection::Pinhole(x) => (&x.blob, &x.mask, "pinhole"),
                        Projection::Spherical(x) => (&x.blob, &x.mask, "spherical"),
                        Projection::Cylindrical(x) => (&x.blob, &x.mask, "cylindrical"),
                    };
                    s += &format!(" P {} {} {}", name, format!("{:?}", b.format).to_lowercase(), blob_sum(&mut r, &b.data));
                    if let Some(m) = m {
                        s += &format!(" M {}", blob_sum(&mut r, m));
                    }
                }
                outs.push(s);
            }
            Some(format!("ok {}", outs.join(" # ")))
        }
        _ => None,
    }
}
