//! Slice "flt": the float layer and the normalisation of intensity and colour (C13).
//!
//! NORM <channel> <type> <lmin> <lmax> <valuebits-hex> ...
//!   channel   0 intensity, 1 red, 2 green, 3 blue
//!   type      data type of the prototype record of that channel:
//!             `-` (no such record) | `F/<min|->/<max|->` (f32 bits, 8 hex digits) |
//!             `D/<min|->/<max|->` (f64 bits, 16 hex digits) |
//!             `S/<min>/<max>/<scale f64 bits>/<offset f64 bits>` | `I/<min>/<max>` (decimal i64)
//!   lmin,lmax limit values of the channel: `-` absent | `f<8 hex>` | `d<16 hex>` | `s<decimal>` | `i<decimal>`;
//!             lmin = `~` : the whole limits structure of the point cloud is absent
//!   values    f64 bit patterns
//!   The point cloud also gets a CartesianX record, the three other channels with decoy Integer types
//!   and (for colours) decoy limits of the two other colours, so that picking the wrong record or
//!   the wrong limits shows.
//!   Result: one token per value: `ok:<f32 bits>` (NaN canonical) | `none` | `e<Variant>` | `P`.
//! F2S <f64 bits> ...      `x as f32`            -> f32 bits (NaN canonical)
//! S2D <f32 bits> ...      `x as f64`            -> f64 bits (NaN canonical)
//! I2D <i64 decimal> ...   `x as f64`            -> f64 bits
//! D2I <f64 bits> ...      `x as i64`            -> decimal
//! U8C <f32 bits> ...      `(c * 255.0) as u8`   -> decimal
//! ARITH <op> <a> [<b> [<c>]]  f64 bits in, f64 bits out (NaN canonical):
//!   add sub mul div min max (a,b) | sqrt neg abs (a) | lt le eq gt (a,b -> 0/1) |
//!   nan fin inf (a -> 0/1) | clamp (v lo hi -> bits or `P`)
use crate::util::*;
use e57::{ColorLimits, IntensityLimits, PointCloud, Record, RecordDataType, RecordName, RecordValue};

fn f64b(s: &str) -> f64 {
    f64::from_bits(u64::from_str_radix(s, 16).expect("f64 bits"))
}
fn f32b(s: &str) -> f32 {
    f32::from_bits(u32::from_str_radix(s, 16).expect("f32 bits"))
}
fn c64(x: f64) -> String {
    if x.is_nan() {
        "7ff8000000000000".to_string()
    } else {
        format!("{:016x}", x.to_bits())
    }
}
fn c32(x: f32) -> String {
    if x.is_nan() {
        "7fc00000".to_string()
    } else {
        format!("{:08x}", x.to_bits())
    }
}

fn parse_dtype(s: &str) -> Option<RecordDataType> {
    let p: Vec<&str> = s.split('/').collect();
    let of32 = |t: &str| if t == "-" { None } else { Some(f32b(t)) };
    let of64 = |t: &str| if t == "-" { None } else { Some(f64b(t)) };
    match p[0] {
        "-" => None,
        "F" => Some(RecordDataType::Single {
            min: of32(p[1]),
            max: of32(p[2]),
        }),
        "D" => Some(RecordDataType::Double {
            min: of64(p[1]),
            max: of64(p[2]),
        }),
        "S" => Some(RecordDataType::ScaledInteger {
            min: p[1].parse().unwrap(),
            max: p[2].parse().unwrap(),
            scale: f64b(p[3]),
            offset: f64b(p[4]),
        }),
        "I" => Some(RecordDataType::Integer {
            min: p[1].parse().unwrap(),
            max: p[2].parse().unwrap(),
        }),
        _ => panic!("bad type token {s}"),
    }
}

fn parse_limit(s: &str) -> Option<RecordValue> {
    if s == "-" || s == "~" {
        return None;
    }
    let a = &s[1..];
    Some(match &s[..1] {
        "f" => RecordValue::Single(f32b(a)),
        "d" => RecordValue::Double(f64b(a)),
        "s" => RecordValue::ScaledInteger(a.parse().unwrap()),
        "i" => RecordValue::Integer(a.parse().unwrap()),
        _ => panic!("bad limit token {s}"),
    })
}

const NAMES: [RecordName; 4] = [
    RecordName::Intensity,
    RecordName::ColorRed,
    RecordName::ColorGreen,
    RecordName::ColorBlue,
];

fn build_pc(channel: usize, ty: &str, lmin: &str, lmax: &str) -> PointCloud {
    let mut pc = PointCloud::default();
    pc.prototype.push(Record {
        name: RecordName::CartesianX,
        data_type: RecordDataType::Double { min: None, max: None },
    });
    let target = parse_dtype(ty);
    for (k, name) in NAMES.iter().enumerate() {
        if k == channel {
            if let Some(t) = &target {
                pc.prototype.push(Record {
                    name: name.clone(),
                    data_type: t.clone(),
                });
            }
        } else {
            pc.prototype.push(Record {
                name: name.clone(),
                data_type: RecordDataType::Integer {
                    min: 10 + k as i64,
                    max: 20 + 3 * k as i64,
                },
            });
        }
    }
    if lmin != "~" {
        let mn = parse_limit(lmin);
        let mx = parse_limit(lmax);
        let decoy = |k: i64| (Some(RecordValue::Integer(3 + k)), Some(RecordValue::Integer(9 + 2 * k)));
        if channel == 0 {
            pc.intensity_limits = Some(IntensityLimits {
                intensity_min: mn,
                intensity_max: mx,
            });
            let (r, g, b) = (decoy(1), decoy(2), decoy(3));
            pc.color_limits = Some(ColorLimits {
                red_min: r.0,
                red_max: r.1,
                green_min: g.0,
                green_max: g.1,
                blue_min: b.0,
                blue_max: b.1,
            });
        } else {
            let i = decoy(0);
            pc.intensity_limits = Some(IntensityLimits {
                intensity_min: i.0,
                intensity_max: i.1,
            });
            let mut l = [decoy(1), decoy(2), decoy(3)];
            l[channel - 1] = (mn, mx);
            let [r, g, b] = l;
            pc.color_limits = Some(ColorLimits {
                red_min: r.0,
                red_max: r.1,
                green_min: g.0,
                green_max: g.1,
                blue_min: b.0,
                blue_max: b.1,
            });
        }
    }
    pc
}

fn run_norm(toks: &[&str]) -> String {
    let channel: usize = toks[0].parse().unwrap();
    let pc = build_pc(channel, toks[1], toks[2], toks[3]);
    let mut out = Vec::new();
    for v in &toks[4..] {
        let value = f64b(v);
        let r = guard(|| e57::verif::normalize(&pc, channel as u8, value));
        out.push(match r {
            None => "P".to_string(),
            Some(Err(e)) => format!("e{}", err_name(&e)),
            Some(Ok(None)) => "none".to_string(),
            Some(Ok(Some(x))) => format!("ok:{}", c32(x)),
        });
    }
    out.join(" ")
}

fn b01(b: bool) -> String {
    if b { "1" } else { "0" }.to_string()
}

fn run_arith(toks: &[&str]) -> String {
    let a = f64b(toks[1]);
    let b = if toks.len() > 2 { f64b(toks[2]) } else { 0.0 };
    let c = if toks.len() > 3 { f64b(toks[3]) } else { 0.0 };
    // black_box: the operations must be carried out by the hardware at run time
    let (a, b, c) = (std::hint::black_box(a), std::hint::black_box(b), std::hint::black_box(c));
    match toks[0] {
        "add" => c64(a + b),
        "sub" => c64(a - b),
        "mul" => c64(a * b),
        "div" => c64(a / b),
        "min" => c64(a.min(b)),
        "max" => c64(a.max(b)),
        "sqrt" => c64(a.sqrt()),
        "neg" => c64(-a),
        "abs" => c64(a.abs()),
        "lt" => b01(a < b),
        "le" => b01(a <= b),
        "eq" => b01(a == b),
        "gt" => b01(a > b),
        "nan" => b01(a.is_nan()),
        "fin" => b01(a.is_finite()),
        "inf" => b01(a.is_infinite()),
        "clamp" => match guard(|| a.clamp(b, c)) {
            Some(x) => c64(x),
            None => "P".to_string(),
        },
        _ => panic!("bad ARITH op"),
    }
}

pub fn run(kind: &str, toks: &[&str]) -> Option<String> {
    use std::hint::black_box as bb;
    let each = |f: &dyn Fn(&str) -> String| Some(toks.iter().map(|t| f(t)).collect::<Vec<_>>().join(" "));
    match kind {
        "NORM" => Some(run_norm(toks)),
        "F2S" => each(&|t| c32(bb(f64b(t)) as f32)),
        "S2D" => each(&|t| c64(bb(f32b(t)) as f64)),
        "I2D" => each(&|t| c64(bb(t.parse::<i64>().unwrap()) as f64)),
        "D2I" => each(&|t| format!("{}", bb(f64b(t)) as i64)),
        "U8C" => each(&|t| format!("{}", (bb(f32b(t)) * 255.0) as u8)),
        "ARITH" => Some(run_arith(toks)),
        _ => None,
    }
}
