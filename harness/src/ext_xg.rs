//! Slice "xg": the XML the writer generates for a whole writer program restricted to metadata (C04).
//!
//! METAW <cmd>...        run the program on the real writer API (in-memory device), finalize, read the file back
//! METAWDEV <cmd>...     the same program; prints `<results joined by ,> | <hex of the whole device image>` (the writer
//!                       and its sub-writers are dropped before the image is taken)
//! FDISPLAY <f64 bits hex>...    Rust's `{}` of each f64, as `=hex` strings
//! FDISPLAY32 <f32 bits hex>...  the same for f32
//! FPARSE <=hex of text>...     Rust's `str::parse::<f64>()` of each text: 16 hex digits of the bit pattern (NaN canonical) or `err`
//! FPARSE32 <=hex of text>...   the same for f32 (8 hex digits)
//! IDISPLAY <i64 decimal>...     `{}` of i64 (sanity leg of the integer printing model), as `=hex`
//!
//! Tokens: string `=<hex of UTF-8 bytes>` (`=` alone: empty), absent `-`; f64 = 16 hex digits of the bit
//! pattern, f32 = 8; integers decimal;
//!   dt  = <f64>:<0|1>                         DateTime { gps_time, atomic_reference }
//!   tr  = <rw>:<rx>:<ry>:<rz>:<tx>:<ty>:<tz>  Transform (seven f64)
//!   lim = - | f<f32> | d<f64> | s<i64> | i<i64>            Option<RecordValue>
//!   rec = <name>~<type>   name: x y z cis sr sa se sis in iin r g b ici row col rc ri ts its | u.<ns hex>.<name hex>
//!                         type: F/<min f32|->/<max f32|-> | D/<min f64|->/<max f64|-> | S/<min>/<max>/<scale f64>/<offset f64> | I/<min>/<max>
//!   val = f<f32> | d<f64> | s<i64> | i<i64>                RecordValue
//! Commands (executed in order; [r] = contributes one result token `o` | `e<Variant>` | `P`):
//!   G <s>                      E57Writer::new(device, s) [r]        (first command)
//!   CM <s|->                   set_coordinate_metadata
//!   CR <dt|->                  set_creation
//!   X <s ns> <s url>           register_extension [r]
//!   BLOB <s data>              add_blob [r]
//!   PC <s guid> <n> <rec>*n    add_pointcloud [r]; the P* commands that follow act on this PointCloudWriter
//!                              (when it failed they are skipped); the writer is dropped at the first other command
//!     PN PD PSV PSM PSS PSH PSW PSF <s|->   set_name set_description set_sensor_vendor _model _serial _hw_version _sw_version _fw_version
//!     POG <-|n> <s>*n          set_original_guids
//!     PT <tr|->  PAS <dt|->  PAE <dt|->     set_transform set_acquisition_start set_acquisition_end
//!     PTE PHU PAP <f64|->      set_temperature set_humidity set_atmospheric_pressure
//!     PIL - | PIL + <lim> <lim>             set_intensity_limits(None | Some{min,max})
//!     PCL - | PCL + <lim>*6                 set_color_limits (red min,max, green min,max, blue min,max)
//!     PP <n> <val>*n           add_point [r]
//!     PE                       finalize [r]
//!   IMG <s guid>               add_image [r]; the I* commands that follow act on this ImageWriter
//!     IN ID IG ISV ISM ISS <s> set_name set_description set_pointcloud_guid set_sensor_vendor _model _serial
//!     IT <tr>  IA <dt>         set_transform set_acquisition
//!     IVR <p|j> <s data> <s mask|-> <w> <h>                               add_visual_reference [r]
//!     IPH <p|j> <s data> <s mask|-> <w> <h> <focal> <pw> <ph> <px> <py>   add_pinhole [r]
//!     ISP <p|j> <s data> <s mask|-> <w> <h> <pw> <ph>                     add_spherical [r]
//!     ICY <p|j> <s data> <s mask|-> <w> <h> <radius> <ppy> <pw> <ph>      add_cylindrical [r]
//!     IE                       finalize [r]
//!   FIN                        E57Writer::finalize [r]
//! Result line:  <results joined by ,> | <hex of the XML (E57Reader::raw_xml) or -> | <read-back dump> | <XMLTREE dump of the XML>
//! Read-back dump (everything E57Reader exposes; NaNs canonical), or `err-open:<Variant>` / `P`:
//!   ROOT fmt:<s> guid:<s> lv:<s|-> cr:<dt|-> cm:<s|->  EXT <n> (<s ns> <s url>)*n
//!   PCS <n> then per point cloud:
//!     PC guid:<s|-> off:<u64> rec:<u64> proto:<n> <rec>*n og:<-|n[,<s>]*> name: desc: cb:<-|v,v,v,v,v,v> sb:<..> ib:<..>
//!        il:<-|lim,lim> cl:<-|lim*6> tr:<tr|-> as:<dt|-> ae: sv: sm: ss: shw: ssw: sfw: te:<f64|-> hu: ap:
//!        (cb: x_min,x_max,y_min,y_max,z_min,z_max  sb: range_min,range_max,elevation_min,elevation_max,azimuth_start,azimuth_end
//!         ib: row_min,row_max,column_min,column_max,return_min,return_max - the field order of the structs)
//!   IMGS <n> then per image:
//!     IMG guid: vr:<-|blob,mask,w,h> pr:<-|P,blob,mask,w,h,focal,pw,ph,px,py|S,blob,mask,w,h,pw,ph|C,blob,mask,w,h,radius,ppy,pw,ph>
//!         tr: pg: name: desc: aq:<dt|-> sv: sm: ss:       blob = <p|j>/<offset>/<length>   mask = -|<offset>/<length>
use crate::dev::Dev;
use crate::util::*;
use e57::*;

fn hs(s: &str) -> String {
    format!("={}", hex(s.as_bytes()))
}
fn hso(s: Option<&str>) -> String {
    match s {
        Some(s) => hs(s),
        None => "-".to_string(),
    }
}
fn unstr(t: &str) -> String {
    String::from_utf8(unhex(&t[1..])).expect("string token is not UTF-8")
}
fn unstro(t: &str) -> Option<String> {
    if t == "-" {
        None
    } else {
        Some(unstr(t))
    }
}
fn f64b(s: &str) -> f64 {
    f64::from_bits(u64::from_str_radix(s, 16).expect("f64 bits"))
}
fn f32b(s: &str) -> f32 {
    f32::from_bits(u32::from_str_radix(s, 16).expect("f32 bits"))
}
fn c64(x: f64) -> String {
    if x.is_nan() {
        "7ff8000000000000".to_string()
    } else {
        format!("{:016x}", x.to_bits())
    }
}
fn c32(x: f32) -> String {
    if x.is_nan() {
        "7fc00000".to_string()
    } else {
        format!("{:08x}", x.to_bits())
    }
}
fn o64(t: &str) -> Option<f64> {
    if t == "-" {
        None
    } else {
        Some(f64b(t))
    }
}

fn parse_dt(t: &str) -> Option<DateTime> {
    if t == "-" {
        return None;
    }
    let (a, b) = t.split_once(':').unwrap();
    Some(DateTime { gps_time: f64b(a), atomic_reference: b == "1" })
}
fn show_dt(d: &Option<DateTime>) -> String {
    match d {
        None => "-".to_string(),
        Some(d) => format!("{}:{}", c64(d.gps_time), if d.atomic_reference { 1 } else { 0 }),
    }
}
fn parse_tr(t: &str) -> Option<Transform> {
    if t == "-" {
        return None;
    }
    let p: Vec<f64> = t.split(':').map(f64b).collect();
    Some(Transform {
        rotation: Quaternion { w: p[0], x: p[1], y: p[2], z: p[3] },
        translation: Translation { x: p[4], y: p[5], z: p[6] },
    })
}
fn show_tr(t: &Option<Transform>) -> String {
    match t {
        None => "-".to_string(),
        Some(t) => [t.rotation.w, t.rotation.x, t.rotation.y, t.rotation.z, t.translation.x, t.translation.y, t.translation.z]
            .iter()
            .map(|x| c64(*x))
            .collect::<Vec<_>>()
            .join(":"),
    }
}
fn parse_lim(t: &str) -> Option<RecordValue> {
    if t == "-" {
        return None;
    }
    Some(parse_val(t))
}
fn parse_val(t: &str) -> RecordValue {
    let a = &t[1..];
    match t.as_bytes()[0] {
        b'f' => RecordValue::Single(f32b(a)),
        b'd' => RecordValue::Double(f64b(a)),
        b's' => RecordValue::ScaledInteger(a.parse().unwrap()),
        b'i' => RecordValue::Integer(a.parse().unwrap()),
        _ => panic!("bad value token {t}"),
    }
}
fn show_lim(v: &Option<RecordValue>) -> String {
    match v {
        None => "-".to_string(),
        Some(RecordValue::Single(x)) => format!("f{}", c32(*x)),
        Some(RecordValue::Double(x)) => format!("d{}", c64(*x)),
        Some(RecordValue::ScaledInteger(x)) => format!("s{}", x),
        Some(RecordValue::Integer(x)) => format!("i{}", x),
    }
}

fn parse_name(s: &str) -> RecordName {
    match s {
        "x" => RecordName::CartesianX,
        "y" => RecordName::CartesianY,
        "z" => RecordName::CartesianZ,
        "cis" => RecordName::CartesianInvalidState,
        "sr" => RecordName::SphericalRange,
        "sa" => RecordName::SphericalAzimuth,
        "se" => RecordName::SphericalElevation,
        "sis" => RecordName::SphericalInvalidState,
        "in" => RecordName::Intensity,
        "iin" => RecordName::IsIntensityInvalid,
        "r" => RecordName::ColorRed,
        "g" => RecordName::ColorGreen,
        "b" => RecordName::ColorBlue,
        "ici" => RecordName::IsColorInvalid,
        "row" => RecordName::RowIndex,
        "col" => RecordName::ColumnIndex,
        "rc" => RecordName::ReturnCount,
        "ri" => RecordName::ReturnIndex,
        "ts" => RecordName::TimeStamp,
        "its" => RecordName::IsTimeStampInvalid,
        _ => {
            let p: Vec<&str> = s.splitn(3, '.').collect();
            assert!(p.len() == 3 && p[0] == "u", "bad record name {s}");
            RecordName::Unknown {
                namespace: String::from_utf8(unhex(p[1])).unwrap(),
                name: String::from_utf8(unhex(p[2])).unwrap(),
            }
        }
    }
}
fn show_name(n: &RecordName) -> String {
    match n {
        RecordName::CartesianX => "x".into(),
        RecordName::CartesianY => "y".into(),
        RecordName::CartesianZ => "z".into(),
        RecordName::CartesianInvalidState => "cis".into(),
        RecordName::SphericalRange => "sr".into(),
        RecordName::SphericalAzimuth => "sa".into(),
        RecordName::SphericalElevation => "se".into(),
        RecordName::SphericalInvalidState => "sis".into(),
        RecordName::Intensity => "in".into(),
        RecordName::IsIntensityInvalid => "iin".into(),
        RecordName::ColorRed => "r".into(),
        RecordName::ColorGreen => "g".into(),
        RecordName::ColorBlue => "b".into(),
        RecordName::IsColorInvalid => "ici".into(),
        RecordName::RowIndex => "row".into(),
        RecordName::ColumnIndex => "col".into(),
        RecordName::ReturnCount => "rc".into(),
        RecordName::ReturnIndex => "ri".into(),
        RecordName::TimeStamp => "ts".into(),
        RecordName::IsTimeStampInvalid => "its".into(),
        RecordName::Unknown { namespace, name } => format!("u.{}.{}", hex(namespace.as_bytes()), hex(name.as_bytes())),
    }
}
fn parse_type(s: &str) -> RecordDataType {
    let p: Vec<&str> = s.split('/').collect();
    let of32 = |t: &str| if t == "-" { None } else { Some(f32b(t)) };
    match p[0] {
        "F" => RecordDataType::Single { min: of32(p[1]), max: of32(p[2]) },
        "D" => RecordDataType::Double { min: o64(p[1]), max: o64(p[2]) },
        "S" => RecordDataType::ScaledInteger {
            min: p[1].parse().unwrap(),
            max: p[2].parse().unwrap(),
            scale: f64b(p[3]),
            offset: f64b(p[4]),
        },
        "I" => RecordDataType::Integer { min: p[1].parse().unwrap(), max: p[2].parse().unwrap() },
        _ => panic!("bad type token {s}"),
    }
}
fn show_type(t: &RecordDataType) -> String {
    let s32 = |o: &Option<f32>| o.map(c32).unwrap_or("-".into());
    let s64 = |o: &Option<f64>| o.map(c64).unwrap_or("-".into());
    match t {
        RecordDataType::Single { min, max } => format!("F/{}/{}", s32(min), s32(max)),
        RecordDataType::Double { min, max } => format!("D/{}/{}", s64(min), s64(max)),
        RecordDataType::ScaledInteger { min, max, scale, offset } => format!("S/{}/{}/{}/{}", min, max, c64(*scale), c64(*offset)),
        RecordDataType::Integer { min, max } => format!("I/{}/{}", min, max),
    }
}
fn parse_rec(t: &str) -> Record {
    let (n, ty) = t.split_once('~').expect("record token");
    Record { name: parse_name(n), data_type: parse_type(ty) }
}
fn show_rec(r: &Record) -> String {
    format!("{}~{}", show_name(&r.name), show_type(&r.data_type))
}

fn res_tok<T>(r: Result<T>) -> (String, Option<T>) {
    match r {
        Ok(v) => ("o".to_string(), Some(v)),
        Err(e) => (format!("e{}", err_name(&e)), None),
    }
}

fn fmt_of(t: &str) -> ImageFormat {
    if t == "p" {
        ImageFormat::Png
    } else {
        ImageFormat::Jpeg
    }
}

/// Runs the P* commands starting at toks[*i]; stops at the first other command.
fn run_pc(pcw: &mut Option<PointCloudWriter<Dev>>, toks: &[&str], i: &mut usize, outs: &mut Vec<String>) -> bool {
    macro_rules! set {
        ($m:ident, $v:expr) => {
            if let Some(w) = pcw.as_mut() {
                w.$m($v);
            }
        };
    }
    while *i < toks.len() {
        let c = toks[*i];
        match c {
            "PN" | "PD" | "PSV" | "PSM" | "PSS" | "PSH" | "PSW" | "PSF" => {
                let v = unstro(toks[*i + 1]);
                *i += 2;
                match c {
                    "PN" => set!(set_name, v),
                    "PD" => set!(set_description, v),
                    "PSV" => set!(set_sensor_vendor, v),
                    "PSM" => set!(set_sensor_model, v),
                    "PSS" => set!(set_sensor_serial, v),
                    "PSH" => set!(set_sensor_hw_version, v),
                    "PSW" => set!(set_sensor_sw_version, v),
                    _ => set!(set_sensor_fw_version, v),
                }
            }
            "POG" => {
                if toks[*i + 1] == "-" {
                    *i += 2;
                    set!(set_original_guids, None);
                } else {
                    let n: usize = toks[*i + 1].parse().unwrap();
                    let v: Vec<String> = toks[*i + 2..*i + 2 + n].iter().map(|t| unstr(t)).collect();
                    *i += 2 + n;
                    set!(set_original_guids, Some(v));
                }
            }
            "PT" => {
                let v = parse_tr(toks[*i + 1]);
                *i += 2;
                set!(set_transform, v);
            }
            "PAS" | "PAE" => {
                let v = parse_dt(toks[*i + 1]);
                *i += 2;
                if c == "PAS" {
                    set!(set_acquisition_start, v)
                } else {
                    set!(set_acquisition_end, v)
                }
            }
            "PTE" | "PHU" | "PAP" => {
                let v = o64(toks[*i + 1]);
                *i += 2;
                match c {
                    "PTE" => set!(set_temperature, v),
                    "PHU" => set!(set_humidity, v),
                    _ => set!(set_atmospheric_pressure, v),
                }
            }
            "PIL" => {
                if toks[*i + 1] == "-" {
                    *i += 2;
                    set!(set_intensity_limits, None);
                } else {
                    let l = IntensityLimits { intensity_min: parse_lim(toks[*i + 2]), intensity_max: parse_lim(toks[*i + 3]) };
                    *i += 4;
                    set!(set_intensity_limits, Some(l));
                }
            }
            "PCL" => {
                if toks[*i + 1] == "-" {
                    *i += 2;
                    set!(set_color_limits, None);
                } else {
                    let l = ColorLimits {
                        red_min: parse_lim(toks[*i + 2]),
                        red_max: parse_lim(toks[*i + 3]),
                        green_min: parse_lim(toks[*i + 4]),
                        green_max: parse_lim(toks[*i + 5]),
                        blue_min: parse_lim(toks[*i + 6]),
                        blue_max: parse_lim(toks[*i + 7]),
                    };
                    *i += 8;
                    set!(set_color_limits, Some(l));
                }
            }
            "PP" => {
                let n: usize = toks[*i + 1].parse().unwrap();
                let v: Vec<RecordValue> = toks[*i + 2..*i + 2 + n].iter().map(|t| parse_val(t)).collect();
                *i += 2 + n;
                if let Some(w) = pcw.as_mut() {
                    let (t, _) = res_tok(w.add_point(v));
                    outs.push(t);
                }
            }
            "PE" => {
                *i += 1;
                if let Some(w) = pcw.as_mut() {
                    let (t, _) = res_tok(w.finalize());
                    outs.push(t);
                }
            }
            _ => break,
        }
    }
    true
}

fn run_img(iw: &mut Option<ImageWriter<Dev>>, toks: &[&str], i: &mut usize, outs: &mut Vec<String>) -> bool {
    while *i < toks.len() {
        let c = toks[*i];
        match c {
            "IN" | "ID" | "IG" | "ISV" | "ISM" | "ISS" => {
                let v = unstr(toks[*i + 1]);
                *i += 2;
                if let Some(w) = iw.as_mut() {
                    match c {
                        "IN" => w.set_name(&v),
                        "ID" => w.set_description(&v),
                        "IG" => w.set_pointcloud_guid(&v),
                        "ISV" => w.set_sensor_vendor(&v),
                        "ISM" => w.set_sensor_model(&v),
                        _ => w.set_sensor_serial(&v),
                    }
                }
            }
            "IT" => {
                let v = parse_tr(toks[*i + 1]).unwrap();
                *i += 2;
                if let Some(w) = iw.as_mut() {
                    w.set_transform(v);
                }
            }
            "IA" => {
                let v = parse_dt(toks[*i + 1]).unwrap();
                *i += 2;
                if let Some(w) = iw.as_mut() {
                    w.set_acquisition(v);
                }
            }
            "IVR" | "IPH" | "ISP" | "ICY" => {
                let fmt = fmt_of(toks[*i + 1]);
                let data = unhex(&toks[*i + 2][1..]);
                let mask = if toks[*i + 3] == "-" { None } else { Some(unhex(&toks[*i + 3][1..])) };
                let w_: u32 = toks[*i + 4].parse().unwrap();
                let h_: u32 = toks[*i + 5].parse().unwrap();
                let nf = match c {
                    "IVR" => 0,
                    "IPH" => 5,
                    "ISP" => 2,
                    _ => 4,
                };
                let f: Vec<f64> = toks[*i + 6..*i + 6 + nf].iter().map(|t| f64b(t)).collect();
                *i += 6 + nf;
                if let Some(w) = iw.as_mut() {
                    let mut src = std::io::Cursor::new(data);
                    let mut msrc = mask.map(std::io::Cursor::new);
                    let m: Option<&mut dyn std::io::Read> = match msrc.as_mut() {
                        Some(c) => Some(c),
                        None => None,
                    };
                    let r = (match c {
                        "IVR" => w.add_visual_reference(fmt, &mut src, VisualReferenceImageProperties { width: w_, height: h_ }, m),
                        "IPH" => w.add_pinhole(
                            fmt,
                            &mut src,
                            PinholeImageProperties {
                                width: w_,
                                height: h_,
                                focal_length: f[0],
                                pixel_width: f[1],
                                pixel_height: f[2],
                                principal_x: f[3],
                                principal_y: f[4],
                            },
                            m,
                        ),
                        "ISP" => w.add_spherical(
                            fmt,
                            &mut src,
                            SphericalImageProperties { width: w_, height: h_, pixel_width: f[0], pixel_height: f[1] },
                            m,
                        ),
                        _ => w.add_cylindrical(
                            fmt,
                            &mut src,
                            CylindricalImageProperties {
                                width: w_,
                                height: h_,
                                radius: f[0],
                                principal_y: f[1],
                                pixel_width: f[2],
                                pixel_height: f[3],
                            },
                            m,
                        ),
                    });
                    let (t, _) = res_tok(r);
                    outs.push(t);
                }
            }
            "IE" => {
                *i += 1;
                if let Some(w) = iw.as_mut() {
                    let (t, _) = res_tok(w.finalize());
                    outs.push(t);
                }
            }
            _ => break,
        }
    }
    true
}

/// Returns (results, finalized)
/// Appends the result tokens to `outs`; returns true when E57Writer::finalize succeeded.
/// A panic of the library unwinds out of this function (caught by the caller).
pub fn run_program(dev: &Dev, toks: &[&str], outs: &mut Vec<String>) -> bool {
    assert!(toks.len() >= 2 && toks[0] == "G", "program must start with G");
    let guid = unstr(toks[1]);
    let (t, w) = res_tok(E57Writer::new(dev.clone(), &guid));
    outs.push(t);
    let mut w = match w {
        Some(w) => w,
        None => return false,
    };
    let mut i = 2;
    let mut finalized = false;
    while i < toks.len() {
        let c = toks[i];
        match c {
            "CM" => {
                w.set_coordinate_metadata(unstro(toks[i + 1]));
                i += 2;
            }
            "CR" => {
                w.set_creation(parse_dt(toks[i + 1]));
                i += 2;
            }
            "X" => {
                let e = Extension::new(&unstr(toks[i + 1]), &unstr(toks[i + 2]));
                i += 3;
                let (t, _) = res_tok(w.register_extension(e));
                outs.push(t);
            }
            "BLOB" => {
                let data = unhex(&toks[i + 1][1..]);
                i += 2;
                let mut src = std::io::Cursor::new(data);
                let (t, _) = res_tok(w.add_blob(&mut src));
                outs.push(t);
            }
            "PC" => {
                let guid = unstr(toks[i + 1]);
                let n: usize = toks[i + 2].parse().unwrap();
                let proto: Vec<Record> = toks[i + 3..i + 3 + n].iter().map(|t| parse_rec(t)).collect();
                i += 3 + n;
                let (t, pcw) = res_tok(w.add_pointcloud(&guid, proto));
                outs.push(t);
                let mut pcw = pcw;
                run_pc(&mut pcw, toks, &mut i, outs);
            }
            "IMG" => {
                let guid = unstr(toks[i + 1]);
                i += 2;
                let (t, iw) = res_tok(w.add_image(&guid));
                outs.push(t);
                let mut iw = iw;
                run_img(&mut iw, toks, &mut i, outs);
            }
            "FIN" => {
                i += 1;
                let (t, r) = res_tok(w.finalize());
                finalized = r.is_some();
                outs.push(t);
            }
            _ => panic!("bad METAW command {c} at token {i}"),
        }
    }
    finalized
}

fn show_blob(b: &Blob) -> String {
    format!("{}/{}", b.offset, b.length)
}
fn show_iblob(b: &ImageBlob) -> String {
    format!(
        "{}/{}",
        match b.format {
            ImageFormat::Png => "p",
            ImageFormat::Jpeg => "j",
        },
        show_blob(&b.data)
    )
}
fn show_mask(m: &Option<Blob>) -> String {
    m.as_ref().map(show_blob).unwrap_or("-".into())
}
fn so64(o: &Option<f64>) -> String {
    o.map(c64).unwrap_or("-".into())
}
fn soi(o: &Option<i64>) -> String {
    o.map(|x| x.to_string()).unwrap_or("-".into())
}
fn sos(o: &Option<String>) -> String {
    hso(o.as_deref())
}

/// Everything E57Reader exposes about the metadata of a file.
pub fn dump_meta<T: std::io::Read + std::io::Seek>(r: &E57Reader<T>) -> String {
    let mut o: Vec<String> = Vec::new();
    o.push(format!(
        "ROOT fmt:{} guid:{} lv:{} cr:{} cm:{}",
        hs(r.format_name()),
        hs(r.guid()),
        hso(r.library_version()),
        show_dt(&r.creation()),
        hso(r.coordinate_metadata())
    ));
    let exts = r.extensions();
    o.push(format!("EXT {}", exts.len()));
    for e in &exts {
        o.push(format!("{} {}", hs(&e.namespace), hs(&e.url)));
    }
    let pcs = r.pointclouds();
    o.push(format!("PCS {}", pcs.len()));
    for pc in &pcs {
        let mut t = vec![format!("PC guid:{} off:{} rec:{} proto:{}", sos(&pc.guid), pc.file_offset, pc.records, pc.prototype.len())];
        for rec in &pc.prototype {
            t.push(show_rec(rec));
        }
        t.push(match &pc.original_guids {
            None => "og:-".to_string(),
            Some(v) => format!("og:{}{}", v.len(), v.iter().map(|s| format!(",{}", hs(s))).collect::<String>()),
        });
        t.push(format!("name:{}", sos(&pc.name)));
        t.push(format!("desc:{}", sos(&pc.description)));
        t.push(match &pc.cartesian_bounds {
            None => "cb:-".to_string(),
            Some(b) => format!("cb:{},{},{},{},{},{}", so64(&b.x_min), so64(&b.x_max), so64(&b.y_min), so64(&b.y_max), so64(&b.z_min), so64(&b.z_max)),
        });
        t.push(match &pc.spherical_bounds {
            None => "sb:-".to_string(),
            Some(b) => format!(
                "sb:{},{},{},{},{},{}",
                so64(&b.range_min),
                so64(&b.range_max),
                so64(&b.elevation_min),
                so64(&b.elevation_max),
                so64(&b.azimuth_start),
                so64(&b.azimuth_end)
            ),
        });
        t.push(match &pc.index_bounds {
            None => "ib:-".to_string(),
            Some(b) => format!(
                "ib:{},{},{},{},{},{}",
                soi(&b.row_min),
                soi(&b.row_max),
                soi(&b.column_min),
                soi(&b.column_max),
                soi(&b.return_min),
                soi(&b.return_max)
            ),
        });
        t.push(match &pc.intensity_limits {
            None => "il:-".to_string(),
            Some(l) => format!("il:{},{}", show_lim(&l.intensity_min), show_lim(&l.intensity_max)),
        });
        t.push(match &pc.color_limits {
            None => "cl:-".to_string(),
            Some(l) => format!(
                "cl:{},{},{},{},{},{}",
                show_lim(&l.red_min),
                show_lim(&l.red_max),
                show_lim(&l.green_min),
                show_lim(&l.green_max),
                show_lim(&l.blue_min),
                show_lim(&l.blue_max)
            ),
        });
        t.push(format!("tr:{}", show_tr(&pc.transform)));
        t.push(format!("as:{}", show_dt(&pc.acquisition_start)));
        t.push(format!("ae:{}", show_dt(&pc.acquisition_end)));
        t.push(format!("sv:{}", sos(&pc.sensor_vendor)));
        t.push(format!("sm:{}", sos(&pc.sensor_model)));
        t.push(format!("ss:{}", sos(&pc.sensor_serial)));
        t.push(format!("shw:{}", sos(&pc.sensor_hw_version)));
        t.push(format!("ssw:{}", sos(&pc.sensor_sw_version)));
        t.push(format!("sfw:{}", sos(&pc.sensor_fw_version)));
        t.push(format!("te:{}", so64(&pc.temperature)));
        t.push(format!("hu:{}", so64(&pc.humidity)));
        t.push(format!("ap:{}", so64(&pc.atmospheric_pressure)));
        o.push(t.join(" "));
    }
    let imgs = r.images();
    o.push(format!("IMGS {}", imgs.len()));
    for im in &imgs {
        let mut t = vec![format!("IMG guid:{}", sos(&im.guid))];
        t.push(match &im.visual_reference {
            None => "vr:-".to_string(),
            Some(v) => format!("vr:{},{},{},{}", show_iblob(&v.blob), show_mask(&v.mask), v.properties.width, v.properties.height),
        });
        t.push(match &im.projection {
            None => "pr:-".to_string(),
            Some(Projection::Pinhole(p)) => format!(
                "pr:P,{},{},{},{},{},{},{},{},{}",
                show_iblob(&p.blob),
                show_mask(&p.mask),
                p.properties.width,
                p.properties.height,
                c64(p.properties.focal_length),
                c64(p.properties.pixel_width),
                c64(p.properties.pixel_height),
                c64(p.properties.principal_x),
                c64(p.properties.principal_y)
            ),
            Some(Projection::Spherical(p)) => format!(
                "pr:S,{},{},{},{},{},{}",
                show_iblob(&p.blob),
                show_mask(&p.mask),
                p.properties.width,
                p.properties.height,
                c64(p.properties.pixel_width),
                c64(p.properties.pixel_height)
            ),
            Some(Projection::Cylindrical(p)) => format!(
                "pr:C,{},{},{},{},{},{},{},{}",
                show_iblob(&p.blob),
                show_mask(&p.mask),
                p.properties.width,
                p.properties.height,
                c64(p.properties.radius),
                c64(p.properties.principal_y),
                c64(p.properties.pixel_width),
                c64(p.properties.pixel_height)
            ),
        });
        t.push(format!("tr:{}", show_tr(&im.transform)));
        t.push(format!("pg:{}", sos(&im.pointcloud_guid)));
        t.push(format!("name:{}", sos(&im.name)));
        t.push(format!("desc:{}", sos(&im.description)));
        t.push(format!("aq:{}", show_dt(&im.acquisition)));
        t.push(format!("sv:{}", sos(&im.sensor_vendor)));
        t.push(format!("sm:{}", sos(&im.sensor_model)));
        t.push(format!("ss:{}", sos(&im.sensor_serial)));
        o.push(t.join(" "));
    }
    o.join(" ")
}

fn run_metaw(toks: &[&str]) -> String {
    let dev = Dev::new(Vec::new(), None);
    let mut outs = Vec::new();
    let finalized = match guard(|| run_program(&dev, toks, &mut outs)) {
        Some(f) => f,
        None => {
            outs.push("P".to_string());
            false
        }
    };
    let res = outs.join(",");
    if !finalized {
        return format!("{} | - | - | -", res);
    }
    let bytes = dev.snapshot();
    let raw = guard(|| E57Reader::raw_xml(std::io::Cursor::new(bytes.clone())));
    let (xml_s, tree) = match &raw {
        Some(Ok(x)) => (hex(x), crate::ext::ext_xmltree::dump_document(x)),
        Some(Err(e)) => (format!("err-rawxml:{}", err_name(e)), "-".to_string()),
        None => ("P".to_string(), "-".to_string()),
    };
    let back = match guard(|| E57Reader::new(std::io::Cursor::new(bytes.clone()))) {
        None => "P".to_string(),
        Some(Err(e)) => format!("err-open:{}", err_name(&e)),
        Some(Ok(r)) => {
            let same = match &raw {
                Some(Ok(x)) => r.xml().as_bytes() == &x[..],
                _ => false,
            };
            let d = dump_meta(&r);
            if same {
                d
            } else {
                format!("XMLDIFF {}", d)
            }
        }
    };
    format!("{} | {} | {} | {}", res, xml_s, back, tree)
}

/// METAWDEV: the program as for METAW; prints the results and the whole device image
fn run_metawdev(toks: &[&str]) -> String {
    let dev = Dev::new(Vec::new(), None);
    let mut outs = Vec::new();
    if guard(|| run_program(&dev, toks, &mut outs)).is_none() {
        outs.push("P".to_string());
    }
    format!("{} | {}", outs.join(","), hex(&dev.snapshot()))
}

pub fn run(kind: &str, toks: &[&str]) -> Option<String> {
    match kind {
        "METAW" => Some(run_metaw(toks)),
        "METAWDEV" => Some(run_metawdev(toks)),
        "FDISPLAY" => Some(toks.iter().map(|t| hs(&format!("{}", f64b(t)))).collect::<Vec<_>>().join(" ")),
        "FDISPLAY32" => Some(toks.iter().map(|t| hs(&format!("{}", f32b(t)))).collect::<Vec<_>>().join(" ")),
        "FPARSE" => Some(
            toks.iter()
                .map(|t| unstr(t).parse::<f64>().map(c64).unwrap_or("err".to_string()))
                .collect::<Vec<_>>()
                .join(" "),
        ),
        "FPARSE32" => Some(
            toks.iter()
                .map(|t| unstr(t).parse::<f32>().map(c32).unwrap_or("err".to_string()))
                .collect::<Vec<_>>()
                .join(" "),
        ),
        "IDISPLAY" => Some(
            toks.iter()
                .map(|t| {
                    if let Ok(v) = t.parse::<i64>() {
                        hs(&format!("{}", v))
                    } else {
                        hs(&format!("{}", t.parse::<u64>().unwrap()))
                    }
                })
                .collect::<Vec<_>>()
                .join(" "),
        ),
        _ => None,
    }
}
