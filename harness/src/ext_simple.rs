//! Slice "simple": the simple point iterator (C05).
//!
//! TRIG <q> ...            Rust's libm on given bit patterns, one result token (f64 bits, NaN canonical) per query:
//!                         c<bits> cos | s<bits> sin | a<bits> asin | t<ybits>:<xbits> atan2(y, x)
//! PPOST <pose> <flags> <point> [T:...]
//!                         the hook e57::verif::postprocess on one Point.
//!                         pose  `-` no pose step | `N` point cloud without transform | w,x,y,z,tx,ty,tz (f64 bits)
//!                         flags three characters 0/1: s2c c2s i2c
//!                         point <cart>/<sph>/<color>/<intensity>/<row>/<column>
//!                               cart V,x,y,z | D,x,y,z | I      sph V,r,a,e | D,a,e | I     (f64 bits)
//!                               color - | r,g,b (f32 bits)      intensity - | f32 bits      row, column decimal
//!                         result: the point in the same notation, NaN canonical.  `T:` tokens (the trig table
//!                         for the model) are ignored here.
//! SIMW <mode> <proto> <points> <pose> <il> <cl>
//!                         write one point cloud with the real writer and read the descriptor back.
//!                         mode  n: names as given | r: records written under neutral names (x y z, then
//!                               extension attributes), for prototypes the writer's validation refuses
//!                         proto name=type,...   type F/<min|->/<max|-> D/<min|->/<max|-> S/min/max/scale/offset I/min/max
//!                         points as in FW (`-` for none)   pose `-` | 7 f64 bits
//!                         il `~` keep the writer's default | `-` remove | <min>,<max> limit tokens (- f.. d.. s.. i..)
//!                         cl likewise with six tokens
//!                         result: `w=<o|eVariant|P> dev=<hex> desc=<descriptor>` (descriptor as parsed by E57Reader)
//! SIMRD <fault> <devhex> <desc> <optlist> [T:...]
//!                         open the file, read the point cloud described by <desc> with pointcloud_raw and with
//!                         pointcloud_simple under every option vector of <optlist> (comma separated numbers,
//!                         bit0 s2c, bit1 c2s, bit2 i2c, bit3 normalize_intensity, bit4 normalize_color, bit5 apply_pose)
//!                         desc  fo=<n>;rec=<n>;proto=<..>;il=<..>|~;cl=<..>|~;pose=<..>|-   (~ = limits absent)
//!                         result: `raw n=.. end=.. pts=..` then ` # o<k> n=.. end=.. pts=..` per option vector
//! SESS2 <fault> <devhex> op... [T:...]
//!                         several read operations on ONE reader (the SESS kind of file.rs plus simple iteration):
//!                         X | R:<off>:<records>:<types>:<limit> | B:<off>:<len> |
//!                         S:<off>:<records>:<proto with names>:<optionmask>:<limit>[:<il>:<cl>:<pose>]
//!                         limit = number of points after which the client stops, or `all`
//!                         result: `open:ok # <result of op> # ...`
use crate::bits::{parse_value, show_value};
use crate::dev::Dev;
use crate::file::{parse_name, parse_points};
use crate::util::*;
use e57::{
    CartesianCoordinate, Color, ColorLimits, E57Reader, E57Writer, Extension, IntensityLimits, Point, PointCloud,
    Quaternion, Record, RecordDataType, RecordName, RecordValue, SphericalCoordinate, Transform, Translation,
};

fn f64b(s: &str) -> f64 {
    f64::from_bits(u64::from_str_radix(s, 16).expect("f64 bits"))
}
fn f32b(s: &str) -> f32 {
    f32::from_bits(u32::from_str_radix(s, 16).expect("f32 bits"))
}
fn c64(x: f64) -> String {
    if x.is_nan() {
        "7ff8000000000000".to_string()
    } else {
        format!("{:016x}", x.to_bits())
    }
}
fn c32(x: f32) -> String {
    if x.is_nan() {
        "7fc00000".to_string()
    } else {
        format!("{:08x}", x.to_bits())
    }
}

fn run_trig(toks: &[&str]) -> String {
    use std::hint::black_box as bb;
    toks.iter()
        .map(|t| {
            let a = &t[1..];
            match t.as_bytes()[0] {
                b'c' => c64(f64::cos(bb(f64b(a)))),
                b's' => c64(f64::sin(bb(f64b(a)))),
                b'a' => c64(f64::asin(bb(f64b(a)))),
                b't' => {
                    let (y, x) = a.split_once(':').unwrap();
                    c64(f64::atan2(bb(f64b(y)), bb(f64b(x))))
                }
                _ => panic!("bad trig query"),
            }
        })
        .collect::<Vec<_>>()
        .join(" ")
}

// ---------------------------------------------------------------- points

fn parse_point(s: &str) -> Point {
    let p: Vec<&str> = s.split('/').collect();
    let c: Vec<&str> = p[0].split(',').collect();
    let cartesian = match c[0] {
        "V" => CartesianCoordinate::Valid { x: f64b(c[1]), y: f64b(c[2]), z: f64b(c[3]) },
        "D" => CartesianCoordinate::Direction { x: f64b(c[1]), y: f64b(c[2]), z: f64b(c[3]) },
        _ => CartesianCoordinate::Invalid,
    };
    let sp: Vec<&str> = p[1].split(',').collect();
    let spherical = match sp[0] {
        "V" => SphericalCoordinate::Valid { range: f64b(sp[1]), azimuth: f64b(sp[2]), elevation: f64b(sp[3]) },
        "D" => SphericalCoordinate::Direction { azimuth: f64b(sp[1]), elevation: f64b(sp[2]) },
        _ => SphericalCoordinate::Invalid,
    };
    let color = if p[2] == "-" {
        None
    } else {
        let c: Vec<&str> = p[2].split(',').collect();
        Some(Color { red: f32b(c[0]), green: f32b(c[1]), blue: f32b(c[2]) })
    };
    let intensity = if p[3] == "-" { None } else { Some(f32b(p[3])) };
    Point { cartesian, spherical, color, intensity, row: p[4].parse().unwrap(), column: p[5].parse().unwrap() }
}

fn show_point(p: &Point) -> String {
    let c = match &p.cartesian {
        CartesianCoordinate::Valid { x, y, z } => format!("V,{},{},{}", c64(*x), c64(*y), c64(*z)),
        CartesianCoordinate::Direction { x, y, z } => format!("D,{},{},{}", c64(*x), c64(*y), c64(*z)),
        CartesianCoordinate::Invalid => "I".to_string(),
    };
    let s = match &p.spherical {
        SphericalCoordinate::Valid { range, azimuth, elevation } => {
            format!("V,{},{},{}", c64(*range), c64(*azimuth), c64(*elevation))
        }
        SphericalCoordinate::Direction { azimuth, elevation } => format!("D,{},{}", c64(*azimuth), c64(*elevation)),
        SphericalCoordinate::Invalid => "I".to_string(),
    };
    let col = match &p.color {
        Some(c) => format!("{},{},{}", c32(c.red), c32(c.green), c32(c.blue)),
        None => "-".to_string(),
    };
    let i = match p.intensity {
        Some(i) => c32(i),
        None => "-".to_string(),
    };
    format!("{}/{}/{}/{}/{}/{}", c, s, col, i, p.row, p.column)
}

fn parse_pose(s: &str) -> Option<Transform> {
    if s == "-" || s == "N" {
        return None;
    }
    let v: Vec<f64> = s.split(',').map(f64b).collect();
    Some(Transform {
        rotation: Quaternion { w: v[0], x: v[1], y: v[2], z: v[3] },
        translation: Translation { x: v[4], y: v[5], z: v[6] },
    })
}

fn run_ppost(toks: &[&str]) -> String {
    let fl = toks[1].as_bytes();
    let mut p = parse_point(toks[2]);
    let mut pc = PointCloud::default();
    pc.transform = parse_pose(toks[0]);
    let pose = if toks[0] == "-" { None } else { Some(&pc) };
    match guard(|| e57::verif::postprocess(&mut p, fl[0] == b'1', fl[1] == b'1', fl[2] == b'1', pose)) {
        None => "P".to_string(),
        Some(()) => show_point(&p),
    }
}

// ---------------------------------------------------------------- descriptors

fn parse_dtype(s: &str) -> RecordDataType {
    let p: Vec<&str> = s.split('/').collect();
    let of32 = |i: usize| if p.len() <= i || p[i] == "-" { None } else { Some(f32b(p[i])) };
    let of64 = |i: usize| if p.len() <= i || p[i] == "-" { None } else { Some(f64b(p[i])) };
    match p[0] {
        "F" => RecordDataType::Single { min: of32(1), max: of32(2) },
        "D" => RecordDataType::Double { min: of64(1), max: of64(2) },
        "S" => RecordDataType::ScaledInteger {
            min: p[1].parse().unwrap(),
            max: p[2].parse().unwrap(),
            scale: if p.len() > 3 { f64b(p[3]) } else { 1.0 },
            offset: if p.len() > 4 { f64b(p[4]) } else { 0.0 },
        },
        "I" => RecordDataType::Integer { min: p[1].parse().unwrap(), max: p[2].parse().unwrap() },
        _ => panic!("bad type token {s}"),
    }
}

fn show_dtype(dt: &RecordDataType) -> String {
    let o32 = |x: &Option<f32>| x.map(|v| format!("{:08x}", v.to_bits())).unwrap_or("-".to_string());
    let o64 = |x: &Option<f64>| x.map(|v| format!("{:016x}", v.to_bits())).unwrap_or("-".to_string());
    match dt {
        RecordDataType::Single { min, max } => format!("F/{}/{}", o32(min), o32(max)),
        RecordDataType::Double { min, max } => format!("D/{}/{}", o64(min), o64(max)),
        RecordDataType::ScaledInteger { min, max, scale, offset } => {
            format!("S/{}/{}/{:016x}/{:016x}", min, max, scale.to_bits(), offset.to_bits())
        }
        RecordDataType::Integer { min, max } => format!("I/{}/{}", min, max),
    }
}

fn show_name(n: &RecordName) -> String {
    match n {
        RecordName::CartesianX => "x".into(),
        RecordName::CartesianY => "y".into(),
        RecordName::CartesianZ => "z".into(),
        RecordName::CartesianInvalidState => "cis".into(),
        RecordName::SphericalRange => "sr".into(),
        RecordName::SphericalAzimuth => "sa".into(),
        RecordName::SphericalElevation => "se".into(),
        RecordName::SphericalInvalidState => "sis".into(),
        RecordName::Intensity => "in".into(),
        RecordName::IsIntensityInvalid => "iin".into(),
        RecordName::ColorRed => "r".into(),
        RecordName::ColorGreen => "g".into(),
        RecordName::ColorBlue => "b".into(),
        RecordName::IsColorInvalid => "ici".into(),
        RecordName::RowIndex => "row".into(),
        RecordName::ColumnIndex => "col".into(),
        RecordName::ReturnCount => "rc".into(),
        RecordName::ReturnIndex => "ri".into(),
        RecordName::TimeStamp => "ts".into(),
        RecordName::IsTimeStampInvalid => "its".into(),
        RecordName::Unknown { namespace, name } => format!("u.{}.{}", namespace, name),
    }
}

fn parse_proto(s: &str) -> Vec<Record> {
    s.split(',')
        .filter(|x| !x.is_empty())
        .map(|nt| {
            let (n, t) = nt.split_once('=').unwrap();
            Record { name: parse_name(n), data_type: parse_dtype(t) }
        })
        .collect()
}

fn parse_limit(s: &str) -> Option<RecordValue> {
    if s == "-" {
        None
    } else {
        Some(parse_value(s))
    }
}

fn show_limit(v: &Option<RecordValue>) -> String {
    match v {
        None => "-".to_string(),
        Some(v) => show_value(v),
    }
}

fn parse_il(s: &str) -> Option<IntensityLimits> {
    if s == "~" {
        return None;
    }
    let p: Vec<&str> = s.split(',').collect();
    Some(IntensityLimits { intensity_min: parse_limit(p[0]), intensity_max: parse_limit(p[1]) })
}

fn parse_cl(s: &str) -> Option<ColorLimits> {
    if s == "~" {
        return None;
    }
    let p: Vec<&str> = s.split(',').collect();
    Some(ColorLimits {
        red_min: parse_limit(p[0]),
        red_max: parse_limit(p[1]),
        green_min: parse_limit(p[2]),
        green_max: parse_limit(p[3]),
        blue_min: parse_limit(p[4]),
        blue_max: parse_limit(p[5]),
    })
}

fn show_desc(pc: &PointCloud) -> String {
    let proto =
        pc.prototype.iter().map(|r| format!("{}={}", show_name(&r.name), show_dtype(&r.data_type))).collect::<Vec<_>>().join(",");
    let il = match &pc.intensity_limits {
        None => "~".to_string(),
        Some(l) => format!("{},{}", show_limit(&l.intensity_min), show_limit(&l.intensity_max)),
    };
    let cl = match &pc.color_limits {
        None => "~".to_string(),
        Some(l) => [&l.red_min, &l.red_max, &l.green_min, &l.green_max, &l.blue_min, &l.blue_max]
            .iter()
            .map(|v| show_limit(v))
            .collect::<Vec<_>>()
            .join(","),
    };
    let pose = match &pc.transform {
        None => "-".to_string(),
        Some(t) => [t.rotation.w, t.rotation.x, t.rotation.y, t.rotation.z, t.translation.x, t.translation.y, t.translation.z]
            .iter()
            .map(|v| format!("{:016x}", v.to_bits()))
            .collect::<Vec<_>>()
            .join(","),
    };
    format!("fo={};rec={};proto={};il={};cl={};pose={}", pc.file_offset, pc.records, proto, il, cl, pose)
}

fn parse_desc(s: &str) -> PointCloud {
    let mut pc = PointCloud::default();
    for kv in s.split(';') {
        let (k, v) = kv.split_once('=').unwrap();
        match k {
            "fo" => pc.file_offset = v.parse().unwrap(),
            "rec" => pc.records = v.parse().unwrap(),
            "proto" => pc.prototype = parse_proto(v),
            "il" => pc.intensity_limits = parse_il(v),
            "cl" => pc.color_limits = parse_cl(v),
            "pose" => pc.transform = parse_pose(v),
            _ => panic!("bad descriptor key {k}"),
        }
    }
    pc
}

// ---------------------------------------------------------------- SIMW

fn run_simw(toks: &[&str]) -> String {
    let mode = toks[0];
    let proto = parse_proto(toks[1]);
    let pts = parse_points(if toks[2] == "-" { "" } else { toks[2] });
    let pose = parse_pose(toks[3]);
    let (il_tok, cl_tok) = (toks[4], toks[5]);
    let dev = Dev::new(Vec::new(), None);
    let res = guard(|| -> e57::Result<()> {
        let mut w = E57Writer::new(dev.clone(), "file-guid")?;
        w.register_extension(Extension::new("v", "http://example.com/v"))?;
        let wproto: Vec<Record> = if mode == "r" {
            proto
                .iter()
                .enumerate()
                .map(|(i, r)| Record {
                    name: match i {
                        0 => RecordName::CartesianX,
                        1 => RecordName::CartesianY,
                        2 => RecordName::CartesianZ,
                        _ => RecordName::Unknown { namespace: "v".to_string(), name: format!("a{}", i) },
                    },
                    data_type: r.data_type.clone(),
                })
                .collect()
        } else {
            proto.clone()
        };
        {
            let mut pcw = w.add_pointcloud("pc-guid", wproto)?;
            pcw.set_transform(pose.clone());
            if il_tok != "~" {
                pcw.set_intensity_limits(if il_tok == "-" { None } else { parse_il(il_tok) });
            }
            if cl_tok != "~" {
                pcw.set_color_limits(if cl_tok == "-" { None } else { parse_cl(cl_tok) });
            }
            for p in pts {
                pcw.add_point(p)?;
            }
            pcw.finalize()?;
        }
        w.finalize()
    });
    let w = match res {
        None => "P".to_string(),
        Some(Err(e)) => format!("e{}", err_name(&e)),
        Some(Ok(())) => "o".to_string(),
    };
    let bytes = dev.snapshot();
    let desc = match guard(|| E57Reader::new(std::io::Cursor::new(bytes.clone()))) {
        Some(Ok(r)) => match r.pointclouds().first() {
            Some(pc) => show_desc(pc),
            None => "none".to_string(),
        },
        Some(Err(e)) => format!("open:e{}", err_name(&e)),
        None => "open:P".to_string(),
    };
    format!("w={} dev={} desc={}", w, hex(&bytes), desc)
}

// ---------------------------------------------------------------- SIMRD

fn drain<T, I: Iterator<Item = e57::Result<T>>>(it: I, show: impl Fn(&T) -> String) -> String {
    let mut it = it;
    let mut pts = Vec::new();
    let mut fin = "none".to_string();
    loop {
        match guard(|| it.next()) {
            None => {
                fin = "P".to_string();
                break;
            }
            Some(None) => break,
            Some(Some(Ok(p))) => pts.push(show(&p)),
            Some(Some(Err(e))) => {
                fin = format!("e{}", err_name(&e));
                break;
            }
        }
    }
    format!("n={} end={} pts={}", pts.len(), fin, pts.join(";"))
}

fn run_simrd(toks: &[&str]) -> String {
    let fault = if toks[0] == "-" { None } else { Some(toks[0].parse().unwrap()) };
    let dev = Dev::new(resolve_dev(toks[1]), fault);
    let mut r = match guard(|| E57Reader::new(dev.clone())) {
        None => return "open:P".to_string(),
        Some(Err(e)) => return format!("open:e{}", err_name(&e)),
        Some(Ok(r)) => r,
    };
    let pc = parse_desc(toks[2]);
    let mut out = Vec::new();
    out.push(match guard(|| r.pointcloud_raw(&pc)) {
        None => "raw new:P".to_string(),
        Some(Err(e)) => format!("raw new:e{}", err_name(&e)),
        Some(Ok(it)) => format!("raw {}", drain(it, |p: &Vec<RecordValue>| p.iter().map(show_value).collect::<Vec<_>>().join(","))),
    });
    for o in toks[3].split(',').filter(|x| !x.is_empty()) {
        let k: u32 = o.parse().unwrap();
        let s = match guard(|| r.pointcloud_simple(&pc)) {
            None => "new:P".to_string(),
            Some(Err(e)) => format!("new:e{}", err_name(&e)),
            Some(Ok(mut it)) => {
                it.spherical_to_cartesian(k & 1 != 0);
                it.cartesian_to_spherical(k & 2 != 0);
                it.intensity_to_color(k & 4 != 0);
                it.normalize_intensity(k & 8 != 0);
                it.normalize_color(k & 16 != 0);
                it.apply_pose(k & 32 != 0);
                drain(it, show_point)
            }
        };
        out.push(format!("o{} {}", k, s));
    }
    out.join(" # ")
}

fn summary(pts: Vec<String>, fin: String) -> String {
    let txt = pts.join(";");
    let h = fnv_hex(fnv_bytes(FNV_INIT, txt.as_bytes()));
    if txt.len() <= 1500 {
        format!("n={} end={} h={} pts={}", pts.len(), fin, h, txt)
    } else {
        format!("n={} end={} h={}", pts.len(), fin, h)
    }
}

fn drain_limited<T, I: Iterator<Item = e57::Result<T>>>(it: I, limit: Option<usize>, show: impl Fn(&T) -> String) -> String {
    let mut it = it;
    let mut pts = Vec::new();
    let mut fin = "none".to_string();
    loop {
        if let Some(n) = limit {
            if pts.len() >= n {
                break;
            }
        }
        match guard(|| it.next()) {
            None => {
                fin = "P".to_string();
                break;
            }
            Some(None) => break,
            Some(Some(Ok(p))) => pts.push(show(&p)),
            Some(Some(Err(e))) => {
                fin = format!("e{}", err_name(&e));
                break;
            }
        }
    }
    summary(pts, fin)
}

fn run_sess2(toks: &[&str]) -> String {
    let fault = if toks[0] == "-" { None } else { Some(toks[0].parse().unwrap()) };
    let dev = Dev::new(resolve_dev(toks[1]), fault);
    let mut r = match guard(|| E57Reader::new(dev.clone())) {
        None => return "open:P".to_string(),
        Some(Err(e)) => return format!("open:e{}", err_name(&e)),
        Some(Ok(r)) => r,
    };
    let mut outs = vec!["open:ok".to_string()];
    for t in &toks[2..] {
        if t.starts_with("T:") {
            continue;
        }
        let parts: Vec<&str> = t.split(':').collect();
        let lim = |s: &str| if s == "all" { None } else { Some(s.parse::<usize>().unwrap()) };
        let o = match parts[0] {
            "X" => format!("xml={}", fnv_hex(fnv_bytes(FNV_INIT, r.xml().as_bytes()))),
            "R" => {
                let mut pc = PointCloud::default();
                pc.file_offset = parts[1].parse().unwrap();
                pc.records = parts[2].parse().unwrap();
                pc.prototype = parts[3]
                    .split(',')
                    .filter(|x| !x.is_empty())
                    .enumerate()
                    .map(|(i, t)| Record {
                        name: RecordName::Unknown { namespace: "v".to_string(), name: format!("a{}", i) },
                        data_type: parse_dtype(t),
                    })
                    .collect();
                match guard(|| r.pointcloud_raw(&pc)) {
                    None => "new:P".to_string(),
                    Some(Err(e)) => format!("new:e{}", err_name(&e)),
                    Some(Ok(it)) => drain_limited(it, lim(parts[4]), |p: &Vec<RecordValue>| {
                        p.iter().map(show_value).collect::<Vec<_>>().join(",")
                    }),
                }
            }
            "S" => {
                let mut pc = PointCloud::default();
                pc.file_offset = parts[1].parse().unwrap();
                pc.records = parts[2].parse().unwrap();
                pc.prototype = parse_proto(parts[3]);
                let k: u32 = parts[4].parse().unwrap();
                if parts.len() > 8 {
                    pc.intensity_limits = parse_il(parts[6]);
                    pc.color_limits = parse_cl(parts[7]);
                    pc.transform = parse_pose(parts[8]);
                }
                match guard(|| r.pointcloud_simple(&pc)) {
                    None => "new:P".to_string(),
                    Some(Err(e)) => format!("new:e{}", err_name(&e)),
                    Some(Ok(mut it)) => {
                        it.spherical_to_cartesian(k & 1 != 0);
                        it.cartesian_to_spherical(k & 2 != 0);
                        it.intensity_to_color(k & 4 != 0);
                        it.normalize_intensity(k & 8 != 0);
                        it.normalize_color(k & 16 != 0);
                        it.apply_pose(k & 32 != 0);
                        drain_limited(it, lim(parts[5]), show_point)
                    }
                }
            }
            "B" => {
                let blob = e57::Blob::new(parts[1].parse().unwrap(), parts[2].parse().unwrap());
                let mut out = Vec::new();
                match guard(|| r.blob(&blob, &mut out)) {
                    None => "P".to_string(),
                    Some(Ok(n)) => format!("ok n={} h={}", n, fnv_hex(fnv_bytes(FNV_INIT, &out))),
                    Some(Err(e)) => format!("e{}", err_name(&e)),
                }
            }
            _ => panic!("bad sess2 op"),
        };
        outs.push(o);
    }
    outs.join(" # ")
}

pub fn run(kind: &str, toks: &[&str]) -> Option<String> {
    match kind {
        "SESS2" => Some(run_sess2(toks)),
        "TRIG" => Some(run_trig(toks)),
        "PPOST" => Some(run_ppost(toks)),
        "SIMW" => Some(run_simw(toks)),
        "SIMRD" => Some(run_simrd(toks)),
        _ => None,
    }
}
