//! COPY <devhex|@base>: copy a file through the library (reader -> writer) twice and report the content
//! of the original, the copy and the copy of the copy.
//! Output: `<status> ;; A <content> ;; B <content> ;; C <content>` where status is `ok` or
//!   `open:e<V>` | `copy1:<step>:e<V>|P` | `open1:e<V>` | `copy2:...` | `open2:...`
//! content = the metadata dump of ext_xe.rs (dump_reader) followed, per point cloud, by
//!   `pts=<n>/<end>/<fnv of the raw values>` and, per image blob/mask, `blobs=<fnv>,<fnv>..`.
//! DETERM <devhex|@base>: copy the file twice from scratch; prints `same` or `differ` (byte identity).
use crate::bits::show_value;
use crate::dev::Dev;
use crate::ext::ext_xe::dump_reader;
use crate::util::*;
use e57::{E57Reader, E57Writer, Image, Projection};
use std::io::Cursor;

type Rd = E57Reader<Cursor<Vec<u8>>>;

fn blob_hash(r: &mut Rd, b: &e57::Blob) -> String {
    let mut out = Vec::new();
    match guard(|| r.blob(b, &mut out)) {
        None => "P".to_string(),
        Some(Ok(_)) => format!("{}:{}", out.len(), fnv_hex(fnv_bytes(FNV_INIT, &out))),
        Some(Err(e)) => format!("e{}", err_name(&e)),
    }
}

fn image_blobs(im: &Image) -> Vec<e57::Blob> {
    let mut v = Vec::new();
    if let Some(vr) = &im.visual_reference {
        v.push(vr.blob.data.clone());
        if let Some(m) = &vr.mask {
            v.push(m.clone());
        }
    }
    match &im.projection {
        Some(Projection::Pinhole(p)) => {
            v.push(p.blob.data.clone());
            if let Some(m) = &p.mask {
                v.push(m.clone());
            }
        }
        Some(Projection::Spherical(p)) => {
            v.push(p.blob.data.clone());
            if let Some(m) = &p.mask {
                v.push(m.clone());
            }
        }
        Some(Projection::Cylindrical(p)) => {
            v.push(p.blob.data.clone());
            if let Some(m) = &p.mask {
                v.push(m.clone());
            }
        }
        _ => {}
    }
    v
}

/// metadata + raw points + blob bytes
fn content(r: &mut Rd) -> String {
    let mut s = dump_reader(r);
    for pc in r.pointclouds() {
        let mut h = FNV_INIT;
        let mut n = 0u64;
        let mut end = "none".to_string();
        match guard(|| r.pointcloud_raw(&pc)) {
            None => end = "newP".to_string(),
            Some(Err(e)) => end = format!("new:e{}", err_name(&e)),
            Some(Ok(mut it)) => loop {
                match guard(|| it.next()) {
                    None => {
                        end = "P".to_string();
                        break;
                    }
                    Some(None) => break,
                    Some(Some(Err(e))) => {
                        end = format!("e{}", err_name(&e));
                        break;
                    }
                    Some(Some(Ok(p))) => {
                        for v in &p {
                            h = fnv_bytes(h, show_value(v).as_bytes());
                            h = fnv_byte(h, b',');
                        }
                        h = fnv_byte(h, b';');
                        n += 1;
                    }
                }
            },
        }
        s += &format!(" pts={}/{}/{}", n, end, fnv_hex(h));
    }
    for im in r.images() {
        let hs: Vec<String> = image_blobs(&im).iter().map(|b| blob_hash(r, b)).collect();
        s += &format!(" blobs={}", hs.join(","));
    }
    s
}

/// copies everything the reader exposes into a new file; Err(step description) on the first failing call
fn copy(r: &mut Rd) -> Result<Vec<u8>, String> {
    let dev = Dev::new(Vec::new(), None);
    let step = |name: &str, e: e57::Error| format!("{}:e{}", name, err_name(&e));
    let guid = r.guid().to_string();
    let mut w = E57Writer::new(dev.clone(), &guid).map_err(|e| step("new", e))?;
    w.set_coordinate_metadata(r.coordinate_metadata().map(|s| s.to_string()));
    w.set_creation(r.creation());
    for e in r.extensions() {
        w.register_extension(e).map_err(|e| step("register_extension", e))?;
    }
    for pc in r.pointclouds() {
        let points: Vec<e57::RawValues> = {
            let it = r.pointcloud_raw(&pc).map_err(|e| step("pointcloud_raw", e))?;
            let mut v = Vec::new();
            for p in it {
                v.push(p.map_err(|e| step("raw_next", e))?);
            }
            v
        };
        let g = pc.guid.clone().unwrap_or_default();
        let mut pw = w.add_pointcloud(&g, pc.prototype.clone()).map_err(|e| step("add_pointcloud", e))?;
        pw.set_name(pc.name.clone());
        pw.set_description(pc.description.clone());
        pw.set_original_guids(pc.original_guids.clone());
        pw.set_transform(pc.transform.clone());
        pw.set_acquisition_start(pc.acquisition_start.clone());
        pw.set_acquisition_end(pc.acquisition_end.clone());
        pw.set_sensor_vendor(pc.sensor_vendor.clone());
        pw.set_sensor_model(pc.sensor_model.clone());
        pw.set_sensor_serial(pc.sensor_serial.clone());
        pw.set_sensor_sw_version(pc.sensor_sw_version.clone());
        pw.set_sensor_hw_version(pc.sensor_hw_version.clone());
        pw.set_sensor_fw_version(pc.sensor_fw_version.clone());
        pw.set_temperature(pc.temperature);
        pw.set_humidity(pc.humidity);
        pw.set_atmospheric_pressure(pc.atmospheric_pressure);
        if pc.intensity_limits.is_some() {
            pw.set_intensity_limits(pc.intensity_limits.clone());
        }
        if pc.color_limits.is_some() {
            pw.set_color_limits(pc.color_limits.clone());
        }
        for p in points {
            pw.add_point(p).map_err(|e| step("add_point", e))?;
        }
        pw.finalize().map_err(|e| step("pc_finalize", e))?;
    }
    for im in r.images() {
        let mut data: Vec<Vec<u8>> = Vec::new();
        for b in image_blobs(&im) {
            let mut out = Vec::new();
            r.blob(&b, &mut out).map_err(|e| step("blob", e))?;
            data.push(out);
        }
        let mut data = data.into_iter();
        let g = im.guid.clone().unwrap_or_default();
        let mut iw = w.add_image(&g).map_err(|e| step("add_image", e))?;
        if let Some(v) = &im.name {
            iw.set_name(v);
        }
        if let Some(v) = &im.description {
            iw.set_description(v);
        }
        if let Some(v) = &im.pointcloud_guid {
            iw.set_pointcloud_guid(v);
        }
        if let Some(v) = &im.transform {
            iw.set_transform(v.clone());
        }
        if let Some(v) = &im.acquisition {
            iw.set_acquisition(v.clone());
        }
        if let Some(v) = &im.sensor_vendor {
            iw.set_sensor_vendor(v);
        }
        if let Some(v) = &im.sensor_model {
            iw.set_sensor_model(v);
        }
        if let Some(v) = &im.sensor_serial {
            iw.set_sensor_serial(v);
        }
        macro_rules! rep {
            ($add:ident, $p:expr) => {{
                let mut src = Cursor::new(data.next().unwrap_or_default());
                let mut msrc = if $p.mask.is_some() { Some(Cursor::new(data.next().unwrap_or_default())) } else { None };
                let m: Option<&mut dyn std::io::Read> = match msrc.as_mut() {
                    Some(c) => Some(c),
                    None => None,
                };
                iw.$add($p.blob.format.clone(), &mut src, $p.properties.clone(), m).map_err(|e| step(stringify!($add), e))?;
            }};
        }
        if let Some(vr) = &im.visual_reference {
            rep!(add_visual_reference, vr);
        }
        match &im.projection {
            Some(Projection::Pinhole(p)) => rep!(add_pinhole, p),
            Some(Projection::Spherical(p)) => rep!(add_spherical, p),
            Some(Projection::Cylindrical(p)) => rep!(add_cylindrical, p),
            _ => {}
        }
        iw.finalize().map_err(|e| step("image_finalize", e))?;
    }
    w.finalize().map_err(|e| step("finalize", e))?;
    drop(w);
    Ok(dev.snapshot())
}

fn open(bytes: Vec<u8>) -> Result<Rd, String> {
    match guard(|| E57Reader::new(Cursor::new(bytes))) {
        None => Err("P".to_string()),
        Some(Err(e)) => Err(format!("e{}", err_name(&e))),
        Some(Ok(r)) => Ok(r),
    }
}

fn guarded_copy(r: &mut Rd) -> Result<Vec<u8>, String> {
    match guard(|| copy(r)) {
        None => Err("P".to_string()),
        Some(x) => x,
    }
}

fn run_copy(tok: &str) -> String {
    let a = resolve_dev(tok);
    let mut ra = match open(a) {
        Ok(r) => r,
        Err(e) => return format!("open:{}", e),
    };
    let ca = content(&mut ra);
    let b = match guarded_copy(&mut ra) {
        Ok(b) => b,
        Err(e) => return format!("copy1:{} ;; A {}", e, ca),
    };
    let mut rb = match open(b) {
        Ok(r) => r,
        Err(e) => return format!("open1:{} ;; A {}", e, ca),
    };
    let cb = content(&mut rb);
    let c = match guarded_copy(&mut rb) {
        Ok(c) => c,
        Err(e) => return format!("copy2:{} ;; A {} ;; B {}", e, ca, cb),
    };
    let mut rc = match open(c) {
        Ok(r) => r,
        Err(e) => return format!("open2:{} ;; A {} ;; B {}", e, ca, cb),
    };
    let cc = content(&mut rc);
    format!("ok ;; A {} ;; B {} ;; C {}", ca, cb, cc)
}

fn run_determ(tok: &str) -> String {
    let a = resolve_dev(tok);
    let mut r1 = match open(a.clone()) {
        Ok(r) => r,
        Err(e) => return format!("open:{}", e),
    };
    let mut r2 = match open(a) {
        Ok(r) => r,
        Err(e) => return format!("open:{}", e),
    };
    match (guarded_copy(&mut r1), guarded_copy(&mut r2)) {
        (Ok(x), Ok(y)) => {
            if x == y {
                format!("same n={} h={}", x.len(), fnv_hex(fnv_bytes(FNV_INIT, &x)))
            } else {
                "differ".to_string()
            }
        }
        (Err(e), _) | (_, Err(e)) => format!("copy:{}", e),
    }
}

pub fn run(kind: &str, toks: &[&str]) -> Option<String> {
    match kind {
        "COPY" => Some(run_copy(toks.first().copied().unwrap_or(""))),
        "DETERM" => Some(run_determ(toks.first().copied().unwrap_or(""))),
        _ => None,
    }
}
