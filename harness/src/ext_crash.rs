//! Slice "crash": case kinds for C15 (interrupted writes) and C16 (device faults, short transfers).
//!
//! Common parameters
//!   <fault>   `-` | index of the device operation that fails
//!   <chunks>  `-` | `7,1,300`  chunk schedule for short transfers (Dev::with_chunks; implementation only)
//!             | `cap<n>` | `7,1,300/cap<n>`  a device of fixed capacity n bytes: writes behind it return Ok(0)
//!   <flags>   `-` | comma separated: nofin (drop the writer without the top-level finalize),
//!             stop (stop after the first call that returns an error or panics), log (print the write log),
//!             dump (print the device bytes), finx (the implicit last finalize goes through
//!             finalize_customized_xml(Ok) instead of finalize()), xfin (no implicit last finalize: the
//!             top-level finalize calls are the FIN / FINX items)
//!   <dev>     hex | @name (BASE image)
//!
//! CWLOG <fault> <chunks> <flags> item... [X:<xmlhex> ignored]
//!   items  B:<hex> | I:<v|p|s|c>:<hex>:<maskhex|-> | P:<proto>:<points>
//!          PD:<proto>:<points>           point-cloud writer dropped without its finalize
//!          ID:<v|p|s|c>:<hex>:<maskhex|-> image writer dropped without its finalize
//!          FIN | FINX                    top-level finalize() / finalize_customized_xml(Ok) in the middle of the
//!                                        program (calls after a successful one must be refused and write nothing)
//!   prints one token per call: `o` new, `b<off>:<len>` blob, `b<off>:<len>[ b<off>:<len>]` image (`b?:<len>` while
//!   the offset is not known: the file was not finalized), `p<off>:<n>` (`p?:<n>`), `d<n>` dropped point-cloud writer,
//!   `e<Kind>`, `P`, then `o` for finalize, then
//!   ` | ops= len= h= wlog= finops=<ops when the last call returned (Drop follows)|-> logmark=<log length when the first top-level finalize was called|->
//!     finlog=<log length when the first successful top-level finalize returned|-> callops=<ops after each call>`
//!   `[ log=<pos>:<hex>,...] [ dev=<hex>] xml=<hex>`
//! CRD <fault> <chunks> <dev> [B:<off>:<len>...]      (implementation only)
//!   open, list point clouds and images, read every point cloud raw, every image blob, the given blobs:
//!   `open:ok xml=<h> pcs=<n> imgs=<m> # pc <off> <recs> <types> # it <iteration> # img <k> <descriptors> # bl <blob> ... | ops=<n>`
//! CSESS <fault> <chunks> <flags> <dev> op...         ops X | R:<off>:<recs>:<types>:<limit> | B:<off>:<len>
//!   as SESS, plus the stop flag and ` | ops=<n>`
//! COPEN / CVCRC / CRAWXML <fault> <chunks> <dev>     as OPEN / VCRC / RAWXML plus ` | ops=<n>`
//! CXML <hex>...                      roxmltree on each document: ok | eutf8 | exml | P
//! CXMLPFX <hex> <all|l1,l2,...>      roxmltree on the prefixes of these lengths: `n=<tested> acc=<accepted lengths>`
use crate::bits::{parse_type, show_value};
use crate::dev::Dev;
use crate::file::{parse_points, parse_proto, show_type};
use crate::page::dev_summary;
use crate::util::*;
use e57::{Blob, E57Reader, E57Writer, Record, RecordName, RecordValue};

fn fault_of(s: &str) -> Option<u64> {
    if s == "-" {
        None
    } else {
        Some(s.parse().unwrap())
    }
}

fn cap_of(s: &str) -> Option<u64> {
    s.split('/').find_map(|x| x.strip_prefix("cap")).map(|x| x.parse().unwrap())
}

fn chunks_of(s: &str) -> Vec<usize> {
    let s = s.split('/').find(|x| !x.starts_with("cap")).unwrap_or("-");
    if s == "-" {
        Vec::new()
    } else {
        s.split(',').filter(|x| !x.is_empty()).map(|x| x.parse().unwrap()).collect()
    }
}

fn res_s<T>(r: Option<e57::Result<T>>, f: impl FnOnce(T) -> String) -> String {
    match r {
        None => "P".to_string(),
        Some(Ok(v)) => f(v),
        Some(Err(e)) => format!("e{}", err_name(&e)),
    }
}

fn is_failure(tok: &str) -> bool {
    tok == "P" || tok.starts_with('e') || tok.starts_with("new:") || tok.contains("end=e") || tok.contains("end=P")
}

fn add_image_payload<T: std::io::Read + std::io::Write + std::io::Seek>(
    iw: &mut e57::ImageWriter<T>,
    kind: &str,
    data: Vec<u8>,
    mask: Option<Vec<u8>>,
) -> e57::Result<()> {
    let mut src = std::io::Cursor::new(data);
    let mut msrc = mask.map(std::io::Cursor::new);
    let m: Option<&mut dyn std::io::Read> = match msrc.as_mut() {
        Some(c) => Some(c),
        None => None,
    };
    match kind {
        "v" => iw.add_visual_reference(
            e57::ImageFormat::Png,
            &mut src,
            e57::VisualReferenceImageProperties { width: 3, height: 2 },
            m,
        ),
        "p" => iw.add_pinhole(
            e57::ImageFormat::Jpeg,
            &mut src,
            e57::PinholeImageProperties {
                width: 3,
                height: 2,
                focal_length: 1.5,
                pixel_width: 0.25,
                pixel_height: 0.5,
                principal_x: 1.0,
                principal_y: 2.0,
            },
            m,
        ),
        "s" => iw.add_spherical(
            e57::ImageFormat::Png,
            &mut src,
            e57::SphericalImageProperties { width: 3, height: 2, pixel_width: 0.25, pixel_height: 0.5 },
            m,
        ),
        _ => iw.add_cylindrical(
            e57::ImageFormat::Jpeg,
            &mut src,
            e57::CylindricalImageProperties {
                width: 3,
                height: 2,
                radius: 2.5,
                principal_y: 1.0,
                pixel_width: 0.25,
                pixel_height: 0.5,
            },
            m,
        ),
    }
}

/// blob descriptors (data, mask) of an image of the given kind
fn image_blobs(img: &e57::Image, kind: &str) -> Option<(Blob, Option<Blob>)> {
    match kind {
        "v" => img.visual_reference.as_ref().map(|v| (v.blob.data.clone(), v.mask.clone())),
        _ => match (&img.projection, kind) {
            (Some(e57::Projection::Pinhole(p)), "p") => Some((p.blob.data.clone(), p.mask.clone())),
            (Some(e57::Projection::Spherical(p)), "s") => Some((p.blob.data.clone(), p.mask.clone())),
            (Some(e57::Projection::Cylindrical(p)), "c") => Some((p.blob.data.clone(), p.mask.clone())),
            _ => None,
        },
    }
}

fn trailer(dev: &Dev, finops: Option<u64>, logmark: Option<usize>, finlog: Option<usize>, callops: &[u64], flags: &[&str], xml_hex: &str) -> String {
    let o = |x: Option<String>| x.unwrap_or_else(|| "-".to_string());
    let mut s = format!(
        "{} finops={} logmark={} finlog={} callops={}",
        dev_summary(dev),
        o(finops.map(|x| x.to_string())),
        o(logmark.map(|x| x.to_string())),
        o(finlog.map(|x| x.to_string())),
        callops.iter().map(|x| x.to_string()).collect::<Vec<_>>().join(",")
    );
    if flags.contains(&"log") {
        let st = dev.0.borrow();
        let l: Vec<String> = st.log.iter().map(|(p, b)| format!("{}:{}", p, hex(b))).collect();
        s += &format!(" log={}", l.join(","));
    }
    if flags.contains(&"dump") {
        s += &format!(" dev={}", hex(&dev.snapshot()));
    }
    s += &format!(" xml={}", xml_hex);
    s
}

fn run_cwlog(toks: &[&str]) -> String {
    let fault = fault_of(toks[0]);
    let chunks = chunks_of(toks[1]);
    let cap = cap_of(toks[1]);
    let flags: Vec<&str> = toks[2].split(',').collect();
    let nofin = flags.contains(&"nofin") || flags.contains(&"xfin");
    let finx = flags.contains(&"finx");
    let stop = flags.contains(&"stop");
    let dev = Dev::new(Vec::new(), fault).with_chunks(chunks).with_capacity(cap);
    let w = guard(|| E57Writer::new(dev.clone(), "file-guid"));
    let mut w = match w {
        None => return format!("new:P | {}", trailer(&dev, None, None, None, &[], &flags, "")),
        Some(Err(e)) => {
            // the model distinguishes PagedWriter::new (one device operation) from the header write
            let first = if fault == Some(0) { "new:e" } else { "e" };
            return format!("{}{} | {}", first, err_name(&e), trailer(&dev, None, None, None, &[], &flags, ""));
        }
        Some(Ok(w)) => w,
    };
    let mut outs = vec!["o".to_string()];
    // device operations issued when each library call (new, every item, finalize) returned
    let mut callops: Vec<u64> = vec![dev.ops()];
    let mut pc_slots: Vec<usize> = Vec::new();
    let mut img_slots: Vec<(usize, String, bool)> = Vec::new();
    let mut stopped = false;
    let mut logmark = None;
    let mut finlog = None;
    let mut fin_ok = false;
    for t in &toks[3..] {
        if t.starts_with("X:") {
            continue;
        }
        let parts: Vec<&str> = t.split(':').collect();
        let o = match parts[0] {
            "B" => {
                let mut src = std::io::Cursor::new(unhex(parts[1]));
                res_s(guard(|| w.add_blob(&mut src)), |b: Blob| format!("b{}:{}", b.offset, b.length))
            }
            "I" | "ID" => {
                let data = unhex(parts[2]);
                let mask = if parts[3] == "-" { None } else { Some(unhex(parts[3])) };
                let (dl, ml) = (data.len(), mask.as_ref().map(|m| m.len()));
                let fin = parts[0] == "I";
                let kind = parts[1];
                let r = guard(|| -> e57::Result<()> {
                    let mut iw = w.add_image("img-guid")?;
                    add_image_payload(&mut iw, kind, data, mask)?;
                    if fin {
                        iw.finalize()?;
                    }
                    Ok(())
                });
                let o = res_s(r, |_| match ml {
                    Some(ml) => format!("b?:{} b?:{}", dl, ml),
                    None => format!("b?:{}", dl),
                });
                if fin && o.starts_with('b') {
                    img_slots.push((outs.len(), kind.to_string(), ml.is_some()));
                }
                o
            }
            "P" | "PD" => {
                let proto = parse_proto(parts[1]);
                let pts = parse_points(if parts.len() > 2 { parts[2] } else { "" });
                let fin = parts[0] == "P";
                let r = guard(|| -> e57::Result<u64> {
                    let mut pcw = w.add_pointcloud("pc-guid", proto)?;
                    let mut n = 0;
                    for p in pts {
                        pcw.add_point(p)?;
                        n += 1;
                    }
                    if fin {
                        pcw.finalize()?;
                    }
                    Ok(n)
                });
                let o = res_s(r, |n| if fin { format!("p?:{}", n) } else { format!("d{}", n) });
                if o.starts_with("p?") {
                    pc_slots.push(outs.len());
                }
                o
            }
            "FIN" | "FINX" => {
                if logmark.is_none() {
                    logmark = Some(dev.0.borrow().log.len());
                }
                let r = if parts[0] == "FINX" { guard(|| w.finalize_customized_xml(Ok)) } else { guard(|| w.finalize()) };
                let o = res_s(r, |_| "o".to_string());
                if o == "o" && finlog.is_none() {
                    finlog = Some(dev.0.borrow().log.len());
                    fin_ok = true;
                }
                o
            }
            _ => panic!("bad item"),
        };
        let failed = is_failure(&o);
        outs.push(o);
        callops.push(dev.ops());
        if failed && stop {
            stopped = true;
            break;
        }
    }
    if !nofin && !stopped {
        logmark = Some(dev.0.borrow().log.len());
        let r = if finx { guard(|| w.finalize_customized_xml(Ok)) } else { guard(|| w.finalize()) };
        let o = res_s(r, |_| "o".to_string());
        fin_ok = o == "o";
        if fin_ok {
            finlog = Some(dev.0.borrow().log.len());
        }
        outs.push(o);
        callops.push(dev.ops());
    }
    // operations issued when the last library call returned: what follows happens in Drop
    let finops = Some(dev.ops());
    if guard(move || drop(w)).is_none() {
        outs.push("dropP".to_string());
    }
    // offsets of the point clouds and of the image blobs: only the finalized file tells them
    let mut xml_hex = String::new();
    if fin_ok {
        if let Some(Ok(r)) = guard(|| E57Reader::new(std::io::Cursor::new(dev.snapshot()))) {
            let pcs = r.pointclouds();
            for (k, slot) in pc_slots.iter().enumerate() {
                if let Some(pc) = pcs.get(k) {
                    outs[*slot] = format!("p{}:{}", pc.file_offset, pc.records);
                }
            }
            xml_hex = hex(r.xml().as_bytes());
            let imgs = r.images();
            for (k, (slot, kind, has_mask)) in img_slots.iter().enumerate() {
                if let Some((d, m)) = imgs.get(k).and_then(|img| image_blobs(img, kind)) {
                    let mut o = format!("b{}:{}", d.offset, d.length);
                    match (m, has_mask) {
                        (Some(m), true) => o += &format!(" b{}:{}", m.offset, m.length),
                        (None, false) => {}
                        _ => o += " mask-mismatch",
                    }
                    outs[*slot] = o;
                }
            }
        }
    }
    format!("{} | {}", outs.join(" "), trailer(&dev, finops, logmark, finlog, &callops, &flags, &xml_hex))
}

/// all points, untruncated (the crash oracle compares point prefixes)
fn iter_full<I: Iterator<Item = e57::Result<Vec<RecordValue>>>>(it: I, limit: Option<usize>) -> String {
    let mut txt = String::new();
    let mut count = 0usize;
    let mut fin = "none".to_string();
    let mut it = it;
    loop {
        if let Some(l) = limit {
            if count >= l {
                break;
            }
        }
        match guard(|| it.next()) {
            None => {
                fin = "P".to_string();
                break;
            }
            Some(None) => break,
            Some(Some(Ok(p))) => {
                if count > 0 {
                    txt.push(';');
                }
                txt += &p.iter().map(show_value).collect::<Vec<_>>().join(",");
                count += 1;
            }
            Some(Some(Err(e))) => {
                fin = format!("e{}", err_name(&e));
                break;
            }
        }
    }
    let h = fnv_hex(fnv_bytes(FNV_INIT, txt.as_bytes()));
    if txt.len() <= 1500 {
        format!("n={} end={} h={} pts={}", count, fin, h, txt)
    } else {
        format!("n={} end={} h={}", count, fin, h)
    }
}

/// like iter_full but never truncates the point text
fn iter_all<I: Iterator<Item = e57::Result<Vec<RecordValue>>>>(it: I) -> String {
    let mut txt = String::new();
    let mut count = 0usize;
    let mut fin = "none".to_string();
    let mut it = it;
    loop {
        match guard(|| it.next()) {
            None => {
                fin = "P".to_string();
                break;
            }
            Some(None) => break,
            Some(Some(Ok(p))) => {
                if count > 0 {
                    txt.push(';');
                }
                txt += &p.iter().map(show_value).collect::<Vec<_>>().join(",");
                count += 1;
            }
            Some(Some(Err(e))) => {
                fin = format!("e{}", err_name(&e));
                break;
            }
        }
    }
    format!("n={} end={} pts={}", count, fin, txt)
}

fn blob_s<T: std::io::Read + std::io::Seek>(r: &mut E57Reader<T>, blob: &Blob) -> String {
    let mut out = Vec::new();
    match guard(|| r.blob(blob, &mut out)) {
        None => "P".to_string(),
        Some(Ok(n)) => {
            if n as usize != out.len() {
                format!("ok-mismatch returned={} written={}", n, out.len())
            } else {
                format!("ok n={} h={}", n, fnv_hex(fnv_bytes(FNV_INIT, &out)))
            }
        }
        Some(Err(e)) => format!("e{}", err_name(&e)),
    }
}

fn run_crd(toks: &[&str]) -> String {
    let dev = Dev::new(resolve_dev(toks[2]), fault_of(toks[0])).with_chunks(chunks_of(toks[1]));
    let mut r = match guard(|| E57Reader::new(dev.clone())) {
        None => return format!("open:P | ops={}", dev.ops()),
        Some(Err(e)) => return format!("open:e{} | ops={}", err_name(&e), dev.ops()),
        Some(Ok(r)) => r,
    };
    let pcs = r.pointclouds();
    let imgs = r.images();
    let mut segs = vec![format!(
        "open:ok xml={} pcs={} imgs={}",
        fnv_hex(fnv_bytes(FNV_INIT, r.xml().as_bytes())),
        pcs.len(),
        imgs.len()
    )];
    for pc in pcs {
        let proto = pc.prototype.iter().map(|p| show_type(&p.data_type)).collect::<Vec<_>>().join(",");
        segs.push(format!("pc {} {} {}", pc.file_offset, pc.records, proto));
        segs.push(format!(
            "it {}",
            match guard(|| r.pointcloud_raw(&pc)) {
                None => "new:P".to_string(),
                Some(Err(e)) => format!("new:e{}", err_name(&e)),
                Some(Ok(it)) => iter_all(it),
            }
        ));
    }
    for (k, img) in imgs.iter().enumerate() {
        let mut blobs: Vec<Blob> = Vec::new();
        let mut d = String::new();
        let mut push = |tag: &str, data: &Blob, mask: &Option<Blob>, blobs: &mut Vec<Blob>| {
            d += &format!(" {}={}:{}", tag, data.offset, data.length);
            blobs.push(data.clone());
            if let Some(m) = mask {
                d += &format!("+m{}:{}", m.offset, m.length);
                blobs.push(m.clone());
            }
        };
        if let Some(v) = &img.visual_reference {
            push("vr", &v.blob.data, &v.mask, &mut blobs);
        }
        match &img.projection {
            Some(e57::Projection::Pinhole(p)) => push("pin", &p.blob.data, &p.mask, &mut blobs),
            Some(e57::Projection::Spherical(p)) => push("sph", &p.blob.data, &p.mask, &mut blobs),
            Some(e57::Projection::Cylindrical(p)) => push("cyl", &p.blob.data, &p.mask, &mut blobs),
            None => {}
        }
        segs.push(format!("img {}{}", k, d));
        for b in blobs {
            segs.push(format!("bl {}", blob_s(&mut r, &b)));
        }
    }
    for t in &toks[3..] {
        let parts: Vec<&str> = t.split(':').collect();
        let blob = Blob::new(parts[1].parse().unwrap(), parts[2].parse().unwrap());
        segs.push(format!("bl {}", blob_s(&mut r, &blob)));
    }
    format!("{} | ops={}", segs.join(" # "), dev.ops())
}

fn run_csess(toks: &[&str]) -> String {
    let flags: Vec<&str> = toks[2].split(',').collect();
    let stop = flags.contains(&"stop");
    let dev = Dev::new(resolve_dev(toks[3]), fault_of(toks[0])).with_chunks(chunks_of(toks[1]));
    let mut r = match guard(|| E57Reader::new(dev.clone())) {
        None => return format!("open:P | ops={}", dev.ops()),
        Some(Err(e)) => return format!("open:e{} | ops={}", err_name(&e), dev.ops()),
        Some(Ok(r)) => r,
    };
    let mut outs = vec!["open:ok".to_string()];
    for t in &toks[4..] {
        let parts: Vec<&str> = t.split(':').collect();
        let o = match parts[0] {
            "X" => format!("xml={}", fnv_hex(fnv_bytes(FNV_INIT, r.xml().as_bytes()))),
            "R" => {
                let mut pc = e57::PointCloud::default();
                pc.file_offset = parts[1].parse().unwrap();
                pc.records = parts[2].parse().unwrap();
                pc.prototype = parts[3]
                    .split(',')
                    .filter(|x| !x.is_empty())
                    .enumerate()
                    .map(|(i, t)| Record {
                        name: RecordName::Unknown { namespace: "v".to_string(), name: format!("a{}", i) },
                        data_type: parse_type(t),
                    })
                    .collect();
                let limit = if parts[4] == "all" { None } else { Some(parts[4].parse().unwrap()) };
                match guard(|| r.pointcloud_raw(&pc)) {
                    None => "new:P".to_string(),
                    Some(Err(e)) => format!("new:e{}", err_name(&e)),
                    Some(Ok(it)) => iter_full(it, limit),
                }
            }
            "B" => {
                let blob = Blob::new(parts[1].parse().unwrap(), parts[2].parse().unwrap());
                let mut out = Vec::new();
                match guard(|| r.blob(&blob, &mut out)) {
                    None => "P".to_string(),
                    Some(Ok(n)) => format!("ok n={} h={}", n, fnv_hex(fnv_bytes(FNV_INIT, &out))),
                    Some(Err(e)) => format!("e{}", err_name(&e)),
                }
            }
            _ => panic!("bad csess op"),
        };
        let failed = is_failure(&o);
        outs.push(o);
        if failed && stop {
            break;
        }
    }
    format!("{} | ops={}", outs.join(" # "), dev.ops())
}

fn run_copen(toks: &[&str]) -> String {
    let dev = Dev::new(resolve_dev(toks[2]), fault_of(toks[0])).with_chunks(chunks_of(toks[1]));
    let s = match guard(|| E57Reader::new(dev.clone())) {
        None => "P".to_string(),
        Some(Ok(r)) => {
            let h = r.header();
            format!(
                "ok phys={} xoff={} xlen={} xml={}",
                h.phys_length,
                h.phys_xml_offset,
                h.xml_length,
                fnv_hex(fnv_bytes(FNV_INIT, r.xml().as_bytes()))
            )
        }
        Some(Err(e)) => format!("e{}", err_name(&e)),
    };
    format!("{} | ops={}", s, dev.ops())
}

fn run_cvcrc(toks: &[&str]) -> String {
    let dev = Dev::new(resolve_dev(toks[2]), fault_of(toks[0])).with_chunks(chunks_of(toks[1]));
    let s = match guard(|| E57Reader::validate_crc(dev.clone())) {
        None => "P".to_string(),
        Some(Ok(ps)) => format!("ok {}", ps),
        Some(Err(e)) => format!("e{}", err_name(&e)),
    };
    format!("{} | ops={}", s, dev.ops())
}

fn run_crawxml(toks: &[&str]) -> String {
    let dev = Dev::new(resolve_dev(toks[2]), fault_of(toks[0])).with_chunks(chunks_of(toks[1]));
    let s = match guard(|| E57Reader::raw_xml(dev.clone())) {
        None => "P".to_string(),
        Some(Ok(x)) => format!("ok n={} h={}", x.len(), fnv_hex(fnv_bytes(FNV_INIT, &x))),
        Some(Err(e)) => format!("e{}", err_name(&e)),
    };
    format!("{} | ops={}", s, dev.ops())
}

/// what E57Reader::new does with the XML bytes before it looks at the content
fn xml_class(bytes: &[u8]) -> &'static str {
    match guard(|| match std::str::from_utf8(bytes) {
        Err(_) => "eutf8",
        Ok(s) => match roxmltree::Document::parse(s) {
            Ok(_) => "ok",
            Err(_) => "exml",
        },
    }) {
        Some(c) => c,
        None => "P",
    }
}

pub fn run(kind: &str, toks: &[&str]) -> Option<String> {
    match kind {
        "CWLOG" => Some(run_cwlog(toks)),
        "CRD" => Some(run_crd(toks)),
        "CSESS" => Some(run_csess(toks)),
        "COPEN" => Some(run_copen(toks)),
        "CVCRC" => Some(run_cvcrc(toks)),
        "CRAWXML" => Some(run_crawxml(toks)),
        "CXML" => Some(toks.iter().map(|t| xml_class(&unhex(t)).to_string()).collect::<Vec<_>>().join(" ")),
        "CXMLPFX" => {
            let doc = if toks[0] == "-" { Vec::new() } else { unhex(toks[0]) };
            let lens: Vec<usize> = if toks[1] == "all" {
                (0..doc.len()).collect()
            } else {
                toks[1].split(',').filter(|x| !x.is_empty()).map(|x| x.parse().unwrap()).collect()
            };
            let mut acc = Vec::new();
            let mut pan = 0;
            for l in &lens {
                match xml_class(&doc[..(*l).min(doc.len())]) {
                    "ok" => acc.push(l.to_string()),
                    "P" => pan += 1,
                    _ => {}
                }
            }
            Some(format!("n={} panics={} acc={}", lens.len(), pan, acc.join(",")))
        }
        _ => None,
    }
}
