//! Totality and cost (C08, C09): every reading entry point of the crate on one file image,
//! each call under catch_unwind, with a counting global allocator, the device operation
//! counter and a clock around it.
//!
//!   TOT <dev> <masks> <cap>       everything: E57Reader::new, validate_crc, raw_xml, the metadata getters,
//!                                 for every point cloud the raw iterator and the simple iterator under the
//!                                 option vectors in <masks> (comma separated numbers 0..63, or `all`),
//!                                 every blob of every image.  <cap>: points drained per iterator when the
//!                                 declared record count is above 10^6 (`-` = 2000000).
//!   TOTRAW <dev> <fo> <recs> <types> <cap>   raw iteration with a descriptor that does not come from the XML
//!   TOTBLOB <dev> <off> <len>                blob with a descriptor that does not come from the XML
//!
//! Output: sections separated by ` # `.  Every measured call ends with ` m=<peak additional bytes>
//! o=<device operations> t=<wall microseconds> c=<CPU microseconds of this thread>` (iterations: m over the whole iteration
//! including the iterator, o total, t / c = slowest single step, T / C = total); these, and nothing else, vary between runs
//! and profiles.  Bounds are judged on CPU time: wall time grows with the load of the machine.
//! A panic is reported as class `P` and, at the end of the line, ` # PANICS <entry>@<file>:<line>:<message>`.
use crate::bits::{parse_type, show_value};
use crate::file::show_type;
use crate::util::*;
use e57::{Blob, E57Reader, Point, Record, RecordName, RecordValue};
use std::alloc::{GlobalAlloc, Layout, System};
use std::cell::RefCell;
use std::sync::atomic::{AtomicUsize, Ordering::Relaxed};
use std::time::Instant;

// ---------------------------------------------------------------- device
// A read-only in-memory device that counts operations exactly like crate::dev::Dev (one per read / seek
// call) but, like std::io::Cursor and like the model's Device.d_read, returns 0 bytes when the cursor
// stands behind the end (crate::dev::Dev indexes out of range there and panics inside the harness).
use std::io::{Read, Seek, SeekFrom};
use std::rc::Rc;

#[derive(Default)]
pub struct DevSt {
    bytes: Vec<u8>,
    cur: u64,
    ops: u64,
}
#[derive(Clone, Default)]
pub struct Dev(Rc<RefCell<DevSt>>);
impl Dev {
    pub fn new(bytes: Vec<u8>, _fault: Option<u64>) -> Self {
        Dev(Rc::new(RefCell::new(DevSt { bytes, cur: 0, ops: 0 })))
    }
    pub fn ops(&self) -> u64 {
        self.0.borrow().ops
    }
}
impl Read for Dev {
    fn read(&mut self, buf: &mut [u8]) -> std::io::Result<usize> {
        let mut s = self.0.borrow_mut();
        s.ops += 1;
        let len = s.bytes.len();
        let start = (s.cur.min(len as u64)) as usize;
        let n = buf.len().min(len - start);
        buf[..n].copy_from_slice(&s.bytes[start..start + n]);
        s.cur += n as u64;
        Ok(n)
    }
}
impl Seek for Dev {
    fn seek(&mut self, pos: SeekFrom) -> std::io::Result<u64> {
        let mut s = self.0.borrow_mut();
        s.ops += 1;
        let len = s.bytes.len() as i128;
        let new = match pos {
            SeekFrom::Start(p) => p as i128,
            SeekFrom::End(o) => len + o as i128,
            SeekFrom::Current(o) => s.cur as i128 + o as i128,
        };
        if new < 0 || new > u64::MAX as i128 {
            return Err(std::io::Error::other("seek out of range"));
        }
        s.cur = new as u64;
        Ok(s.cur)
    }
}

// ---------------------------------------------------------------- counting allocator

pub struct Counting;
static CUR: AtomicUsize = AtomicUsize::new(0);
static PEAK: AtomicUsize = AtomicUsize::new(0);
/// allocations that would take the live total above this fail (the process then aborts with an
/// allocation error, which the check attributes to the case); only set while a TOT* case runs
static LIMIT: AtomicUsize = AtomicUsize::new(usize::MAX);

#[inline]
fn add(n: usize) {
    let c = CUR.fetch_add(n, Relaxed) + n;
    PEAK.fetch_max(c, Relaxed);
}

unsafe impl GlobalAlloc for Counting {
    unsafe fn alloc(&self, l: Layout) -> *mut u8 {
        if CUR.load(Relaxed).saturating_add(l.size()) > LIMIT.load(Relaxed) {
            return std::ptr::null_mut();
        }
        let p = System.alloc(l);
        if !p.is_null() {
            add(l.size());
        }
        p
    }
    unsafe fn alloc_zeroed(&self, l: Layout) -> *mut u8 {
        if CUR.load(Relaxed).saturating_add(l.size()) > LIMIT.load(Relaxed) {
            return std::ptr::null_mut();
        }
        let p = System.alloc_zeroed(l);
        if !p.is_null() {
            add(l.size());
        }
        p
    }
    unsafe fn dealloc(&self, p: *mut u8, l: Layout) {
        System.dealloc(p, l);
        CUR.fetch_sub(l.size(), Relaxed);
    }
    unsafe fn realloc(&self, p: *mut u8, l: Layout, new: usize) -> *mut u8 {
        if new > l.size() && CUR.load(Relaxed).saturating_add(new - l.size()) > LIMIT.load(Relaxed) {
            return std::ptr::null_mut();
        }
        let q = System.realloc(p, l, new);
        if !q.is_null() {
            if new >= l.size() {
                add(new - l.size());
            } else {
                CUR.fetch_sub(l.size() - new, Relaxed);
            }
        }
        q
    }
}

#[global_allocator]
static ALLOC: Counting = Counting;

// CPU time of this thread (the harness runs its cases sequentially on one thread): unlike wall time it does not grow
// when the machine is loaded.  clock_gettime is in the C library std links anyway.
#[repr(C)]
struct Timespec {
    tv_sec: i64,
    tv_nsec: i64,
}
extern "C" {
    fn clock_gettime(clk: i32, ts: *mut Timespec) -> i32;
}
const CLOCK_THREAD_CPUTIME_ID: i32 = 3;
fn cpu_micros() -> u128 {
    let mut ts = Timespec { tv_sec: 0, tv_nsec: 0 };
    let rc = unsafe { clock_gettime(CLOCK_THREAD_CPUTIME_ID, &mut ts) };
    if rc != 0 {
        return 0;
    }
    ts.tv_sec as u128 * 1_000_000 + ts.tv_nsec as u128 / 1000
}

struct Meter {
    cur0: usize,
    ops0: u64,
    t0: Instant,
    c0: u128,
}
impl Meter {
    fn start(dev: &Dev) -> Meter {
        let c = CUR.load(Relaxed);
        PEAK.store(c, Relaxed);
        Meter { cur0: c, ops0: dev.ops(), t0: Instant::now(), c0: cpu_micros() }
    }
    fn peak(&self) -> usize {
        PEAK.load(Relaxed).saturating_sub(self.cur0)
    }
    fn done(&self, dev: &Dev) -> String {
        format!("m={} o={} t={} c={}", self.peak(), dev.ops() - self.ops0, self.t0.elapsed().as_micros(), cpu_micros().saturating_sub(self.c0))
    }
}

// ---------------------------------------------------------------- panic capture

thread_local! {
    static LAST_PANIC: RefCell<Option<String>> = RefCell::new(None);
}
static HOOK: std::sync::Once = std::sync::Once::new();

fn install_hook() {
    HOOK.call_once(|| {
        std::panic::set_hook(Box::new(|info| {
            let msg = if let Some(s) = info.payload().downcast_ref::<&str>() {
                s.to_string()
            } else if let Some(s) = info.payload().downcast_ref::<String>() {
                s.clone()
            } else {
                "?".to_string()
            };
            let loc = info.location().map(|l| format!("{}:{}", l.file(), l.line())).unwrap_or_default();
            let txt = format!("{}:{}", loc, msg).replace(' ', "_").replace('\n', "_");
            LAST_PANIC.with(|p| *p.borrow_mut() = Some(txt));
        }));
    });
}

struct Panics(Vec<String>);
impl Panics {
    /// run under catch_unwind; a panic is recorded with the entry point's name
    fn run<T>(&mut self, entry: &str, f: impl FnOnce() -> T) -> Option<T> {
        LAST_PANIC.with(|p| *p.borrow_mut() = None);
        let r = guard(f);
        if r.is_none() {
            let info = LAST_PANIC.with(|p| p.borrow_mut().take()).unwrap_or_else(|| "?".to_string());
            self.0.push(format!("{}@{}", entry, info));
        }
        r
    }
    fn tail(&self) -> String {
        if self.0.is_empty() {
            String::new()
        } else {
            format!(" # PANICS {}", self.0.join(" ; "))
        }
    }
}

fn cls<T>(r: &Option<e57::Result<T>>) -> String {
    match r {
        None => "P".to_string(),
        Some(Ok(_)) => "ok".to_string(),
        Some(Err(e)) => format!("e{}", err_name(e)),
    }
}

// ---------------------------------------------------------------- iteration

fn canon64(x: f64) -> u64 {
    if x.is_nan() { 0x7ff8000000000000 } else { x.to_bits() }
}
fn canon32(x: f32) -> u64 {
    if x.is_nan() { 0x7fc00000 } else { x.to_bits() as u64 }
}

fn hash_point(mut h: u64, p: &Point) -> u64 {
    use e57::{CartesianCoordinate as C, SphericalCoordinate as S};
    match p.cartesian {
        C::Valid { x, y, z } => {
            h = fnv_byte(h, 1);
            for v in [x, y, z] { h = fnv_int(h, canon64(v)); }
        }
        C::Direction { x, y, z } => {
            h = fnv_byte(h, 2);
            for v in [x, y, z] { h = fnv_int(h, canon64(v)); }
        }
        C::Invalid => h = fnv_byte(h, 3),
    }
    match p.spherical {
        S::Valid { range, azimuth, elevation } => {
            h = fnv_byte(h, 1);
            for v in [range, azimuth, elevation] { h = fnv_int(h, canon64(v)); }
        }
        S::Direction { azimuth, elevation } => {
            h = fnv_byte(h, 2);
            for v in [azimuth, elevation] { h = fnv_int(h, canon64(v)); }
        }
        S::Invalid => h = fnv_byte(h, 3),
    }
    match &p.color {
        Some(c) => {
            h = fnv_byte(h, 1);
            for v in [c.red, c.green, c.blue] { h = fnv_int(h, canon32(v)); }
        }
        None => h = fnv_byte(h, 0),
    }
    match p.intensity {
        Some(i) => { h = fnv_byte(h, 1); h = fnv_int(h, canon32(i)); }
        None => h = fnv_byte(h, 0),
    }
    h = fnv_int(h, p.row as u64);
    fnv_int(h, p.column as u64)
}

/// Drives an iterator to its first Err / None (or the cap); `fold` hashes one item.
/// Returns "n=<count> end=<none|eVariant|P|cap> h=<hash>[ over]" and (slowest step, total) in microseconds.
fn drain<I, T>(
    pan: &mut Panics,
    entry: &str,
    it: &mut I,
    records: u64,
    cap: u64,
    mut fold: impl FnMut(u64, &T) -> u64,
) -> (String, u128, u128, u128, u128)
where
    I: Iterator<Item = e57::Result<T>>,
{
    let limit = if records <= 1_000_000 { u64::MAX } else { cap };
    let mut h = FNV_INIT;
    let mut n: u64 = 0;
    let mut fin = "none".to_string();
    let mut slow = 0u128;
    let mut slow_cpu = 0u128;
    let t_all = Instant::now();
    let c_all = cpu_micros();
    loop {
        if n >= limit {
            fin = "cap".to_string();
            break;
        }
        let t0 = Instant::now();
        let c0 = cpu_micros();
        let r = pan.run(entry, || it.next());
        let dt = t0.elapsed().as_micros();
        let dc = cpu_micros().saturating_sub(c0);
        if dt > slow {
            slow = dt;
        }
        if dc > slow_cpu {
            slow_cpu = dc;
        }
        match r {
            None => {
                fin = "P".to_string();
                break;
            }
            Some(None) => break,
            Some(Some(Ok(p))) => {
                h = fold(h, &p);
                n += 1;
                // an iterator that does not stop at the declared count is caught here even when the data goes on
                if n > records && n > records.saturating_add(3) {
                    fin = "over".to_string();
                    break;
                }
            }
            Some(Some(Err(e))) => {
                fin = format!("e{}", err_name(&e));
                break;
            }
        }
    }
    let over = if n > records { " over" } else { "" };
    (format!("n={} end={} h={}{}", n, fin, fnv_hex(h), over), slow, t_all.elapsed().as_micros(), slow_cpu, cpu_micros().saturating_sub(c_all))
}

/// the hash of the raw iteration is the FNV of the text `v,v;v,v;...` the RAWRD case kind of the model prints
fn fold_raw(count: &mut u64) -> impl FnMut(u64, &Vec<RecordValue>) -> u64 + '_ {
    move |mut h, p| {
        if *count > 0 {
            h = fnv_byte(h, b';');
        }
        *count += 1;
        for (i, v) in p.iter().enumerate() {
            if i > 0 {
                h = fnv_byte(h, b',');
            }
            h = fnv_bytes(h, show_value(v).as_bytes());
        }
        h
    }
}

fn raw_section(pan: &mut Panics, r: &mut E57Reader<Dev>, dev: &Dev, pc: &e57::PointCloud, cap: u64, entry: &str) -> String {
    let m = Meter::start(dev);
    let it = pan.run(&format!("{}.new", entry), || r.pointcloud_raw(pc));
    match it {
        None => format!("raw:new:P {}", m.done(dev)),
        Some(Err(e)) => format!("raw:new:e{} {}", err_name(&e), m.done(dev)),
        Some(Ok(mut it)) => {
            let mut count = 0u64;
            let (s, slow, total, slow_cpu, total_cpu) = drain(pan, &format!("{}.next", entry), &mut it, pc.records, cap, fold_raw(&mut count));
            let peak = m.peak();
            drop(it);
            format!("raw:{} m={} o={} t={} T={} c={} C={}", s, peak, dev.ops() - m.ops0, slow, total, slow_cpu, total_cpu)
        }
    }
}

fn simple_section(pan: &mut Panics, r: &mut E57Reader<Dev>, dev: &Dev, pc: &e57::PointCloud, cap: u64, mask: u32, entry: &str) -> String {
    let m = Meter::start(dev);
    let it = pan.run(&format!("{}.new", entry), || r.pointcloud_simple(pc));
    match it {
        None => format!("s{}:new:P {}", mask, m.done(dev)),
        Some(Err(e)) => format!("s{}:new:e{} {}", mask, err_name(&e), m.done(dev)),
        Some(Ok(mut it)) => {
            it.spherical_to_cartesian(mask & 1 != 0);
            it.cartesian_to_spherical(mask & 2 != 0);
            it.intensity_to_color(mask & 4 != 0);
            it.normalize_intensity(mask & 8 != 0);
            it.normalize_color(mask & 16 != 0);
            it.apply_pose(mask & 32 != 0);
            let (s, slow, total, slow_cpu, total_cpu) = drain(pan, &format!("{}.next", entry), &mut it, pc.records, cap, |h, p: &Point| hash_point(h, p));
            let peak = m.peak();
            drop(it);
            format!("s{}:{} m={} o={} t={} T={} c={} C={}", mask, s, peak, dev.ops() - m.ops0, slow, total, slow_cpu, total_cpu)
        }
    }
}

fn blob_section(pan: &mut Panics, r: &mut E57Reader<Dev>, dev: &Dev, tag: &str, b: &Blob) -> String {
    let m = Meter::start(dev);
    let mut out = Vec::new();
    let res = pan.run(&format!("blob[{}@{}:{}]", tag, b.offset, b.length), || r.blob(b, &mut out));
    let body = match &res {
        None => "P".to_string(),
        Some(Ok(n)) => {
            if *n as usize != out.len() {
                format!("ok-mismatch returned={} written={}", n, out.len())
            } else {
                format!("ok n={} h={}", out.len(), fnv_hex(fnv_bytes(FNV_INIT, &out)))
            }
        }
        Some(Err(e)) => format!("e{}", err_name(e)),
    };
    format!("bl {} {} {} {} {}", tag, b.offset, b.length, body, m.done(dev))
}

fn parse_masks(s: &str) -> Vec<u32> {
    if s == "all" {
        (0..64).collect()
    } else {
        s.split(',').filter(|x| !x.is_empty() && *x != "-").map(|x| x.parse().unwrap()).collect()
    }
}

fn parse_cap(s: Option<&&str>) -> u64 {
    match s {
        Some(x) if **x != *"-" => x.parse().unwrap(),
        _ => 2_000_000,
    }
}

fn with_limit<T>(f: impl FnOnce() -> T) -> T {
    let lim: usize = std::env::var("VERIF_ALLOC_LIMIT").ok().and_then(|x| x.parse().ok()).unwrap_or(1 << 30);
    LIMIT.store(CUR.load(Relaxed).saturating_add(lim), Relaxed);
    let r = f();
    LIMIT.store(usize::MAX, Relaxed);
    r
}

fn run_tot(toks: &[&str]) -> String {
    install_hook();
    let bytes = resolve_dev(toks[0]);
    let masks = parse_masks(toks.get(1).copied().unwrap_or("0"));
    let cap = parse_cap(toks.get(2));
    let mut pan = Panics(Vec::new());
    let mut out: Vec<String> = Vec::new();

    // the two standalone functions, each on its own device
    {
        let dev = Dev::new(bytes.clone(), None);
        let m = Meter::start(&dev);
        let r = pan.run("validate_crc", || E57Reader::validate_crc(dev.clone()));
        out.push(match &r {
            Some(Ok(ps)) => format!("vcrc:ok {} {}", ps, m.done(&dev)),
            _ => format!("vcrc:{} {}", cls(&r), m.done(&dev)),
        });
    }
    {
        let dev = Dev::new(bytes.clone(), None);
        let m = Meter::start(&dev);
        let r = pan.run("raw_xml", || E57Reader::raw_xml(dev.clone()));
        out.push(match &r {
            Some(Ok(x)) => format!("rawxml:ok n={} h={} {}", x.len(), fnv_hex(fnv_bytes(FNV_INIT, x)), m.done(&dev)),
            _ => format!("rawxml:{} {}", cls(&r), m.done(&dev)),
        });
    }
    let dev = Dev::new(bytes, None);
    let m = Meter::start(&dev);
    let r = pan.run("new", || E57Reader::new(dev.clone()));
    let mut r = match r {
        Some(Ok(r)) => {
            let h = r.header();
            out.push(format!(
                "new:ok phys={} xoff={} xlen={} xml={} {}",
                h.phys_length,
                h.phys_xml_offset,
                h.xml_length,
                fnv_hex(fnv_bytes(FNV_INIT, r.xml().as_bytes())),
                m.done(&dev)
            ));
            r
        }
        other => {
            out.push(format!("new:{} {}", cls(&other), m.done(&dev)));
            return out.join(" # ") + &pan.tail();
        }
    };
    // metadata getters
    let m = Meter::start(&dev);
    let mut meta = String::from("meta");
    let mut mh = FNV_INIT;
    macro_rules! getter {
        ($name:expr, $e:expr) => {
            match pan.run($name, || $e) {
                None => meta += &format!(" {}=P", $name),
                Some(s) => mh = fnv_bytes(fnv_byte(mh, 0xff), s.as_bytes()),
            }
        };
    }
    getter!("xml", r.xml().to_string());
    getter!("format_name", r.format_name().to_string());
    getter!("guid", r.guid().to_string());
    getter!("library_version", format!("{:?}", r.library_version()));
    getter!("creation", format!("{:?}", r.creation().map(|d| (d.gps_time.to_bits(), d.atomic_reference))));
    getter!("coordinate_metadata", format!("{:?}", r.coordinate_metadata()));
    getter!("extensions", format!("{:?}", r.extensions().iter().map(|e| (e.namespace.clone(), e.url.clone())).collect::<Vec<_>>()));
    let pcs = pan.run("pointclouds", || r.pointclouds()).unwrap_or_default();
    let imgs = pan.run("images", || r.images()).unwrap_or_default();
    let exts = pan.run("extensions", || r.extensions()).unwrap_or_default();
    meta += &format!(
        " pcs={} imgs={} ext={} cre={} cm={} h={} {}",
        pcs.len(),
        imgs.len(),
        exts.len(),
        r.creation().is_some() as u8,
        r.coordinate_metadata().is_some() as u8,
        fnv_hex(mh),
        m.done(&dev)
    );
    out.push(meta);

    // binary entry points first (the model runs exactly these, in this order, on one reader):
    // raw iteration of every point cloud, then every blob
    let mut blobs: Vec<(String, Blob)> = Vec::new();
    for (i, img) in imgs.iter().enumerate() {
        if let Some(v) = &img.visual_reference {
            blobs.push((format!("i{}.vr", i), v.blob.data.clone()));
            if let Some(mk) = &v.mask {
                blobs.push((format!("i{}.vrm", i), mk.clone()));
            }
        }
        let (tag, data, mask) = match &img.projection {
            Some(e57::Projection::Pinhole(p)) => ("ph", Some(p.blob.data.clone()), p.mask.clone()),
            Some(e57::Projection::Spherical(p)) => ("sp", Some(p.blob.data.clone()), p.mask.clone()),
            Some(e57::Projection::Cylindrical(p)) => ("cy", Some(p.blob.data.clone()), p.mask.clone()),
            None => ("", None, None),
        };
        if let Some(d) = data {
            blobs.push((format!("i{}.{}", i, tag), d));
        }
        if let Some(mk) = mask {
            blobs.push((format!("i{}.{}m", i, tag), mk));
        }
    }
    for (i, pc) in pcs.iter().enumerate() {
        let proto = pc.prototype.iter().map(|p| show_type(&p.data_type)).collect::<Vec<_>>().join(",");
        let names = pc.prototype.len();
        out.push(format!(
            "pc {} fo={} rc={} proto={} nrec={} | {}",
            i,
            pc.file_offset,
            pc.records,
            if proto.is_empty() { "-".to_string() } else { proto },
            names,
            raw_section(&mut pan, &mut r, &dev, pc, cap, &format!("pc{}.raw", i))
        ));
    }
    for (tag, b) in &blobs {
        out.push(blob_section(&mut pan, &mut r, &dev, tag, b));
    }
    // then the simple iterator under every requested option vector
    for (i, pc) in pcs.iter().enumerate() {
        let mut secs = Vec::new();
        for mk in &masks {
            secs.push(simple_section(&mut pan, &mut r, &dev, pc, cap, *mk, &format!("pc{}.simple[{}]", i, mk)));
        }
        if !secs.is_empty() {
            out.push(format!("ps {} | {}", i, secs.join(" | ")));
        }
    }
    out.join(" # ") + &pan.tail()
}

fn run_totraw(toks: &[&str]) -> String {
    install_hook();
    let dev = Dev::new(resolve_dev(toks[0]), None);
    let mut pan = Panics(Vec::new());
    let r = pan.run("new", || E57Reader::new(dev.clone()));
    let mut r = match r {
        Some(Ok(r)) => r,
        other => return format!("open:{}", cls(&other)) + &pan.tail(),
    };
    let mut pc = e57::PointCloud::default();
    pc.file_offset = toks[1].parse().unwrap();
    pc.records = toks[2].parse().unwrap();
    pc.prototype = toks[3]
        .split(',')
        .filter(|x| !x.is_empty() && *x != "-")
        .enumerate()
        .map(|(i, t)| Record {
            name: RecordName::Unknown { namespace: "v".to_string(), name: format!("a{}", i) },
            data_type: parse_type(t),
        })
        .collect();
    let cap = parse_cap(toks.get(4));
    raw_section(&mut pan, &mut r, &dev, &pc, cap, "raw") + &pan.tail()
}

fn run_totblob(toks: &[&str]) -> String {
    install_hook();
    let dev = Dev::new(resolve_dev(toks[0]), None);
    let mut pan = Panics(Vec::new());
    let r = pan.run("new", || E57Reader::new(dev.clone()));
    let mut r = match r {
        Some(Ok(r)) => r,
        other => return format!("open:{}", cls(&other)) + &pan.tail(),
    };
    let b = Blob::new(toks[1].parse().unwrap(), toks[2].parse().unwrap());
    blob_section(&mut pan, &mut r, &dev, "x", &b) + &pan.tail()
}

pub fn run(kind: &str, toks: &[&str]) -> Option<String> {
    match kind {
        "TOT" => Some(with_limit(|| run_tot(toks))),
        "TOTRAW" => Some(with_limit(|| run_totraw(toks))),
        "TOTBLOB" => Some(with_limit(|| run_totblob(toks))),
        _ => None,
    }
}
