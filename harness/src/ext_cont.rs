//! CONT <devhex|@base[^pos:xor..]> <off> <records> <types> <extra>
//! One raw iterator over the point cloud given by descriptor (as the R operation of SESS), but iteration
//! goes ON after an error: up to <extra> errors are tolerated before stopping (C07: "also after earlier
//! failures on the same reader").  Output: `open:e<V>` | `new:e<V>` | tokens joined by `,`:
//!   o<fnv of the point's values>   next() = Some(Ok(point))
//!   e<Variant>                     next() = Some(Err(..))
//!   P                              next() panicked (iteration stops)
//!   .                              next() = None
use crate::bits::{parse_type, show_value};
use crate::dev::Dev;
use crate::util::*;
use e57::{E57Reader, Record, RecordName};

fn run_cont(toks: &[&str]) -> String {
    let dev = Dev::new(resolve_dev(toks[0]), None);
    let mut r = match guard(|| E57Reader::new(dev.clone())) {
        None => return "open:P".to_string(),
        Some(Err(e)) => return format!("open:e{}", err_name(&e)),
        Some(Ok(r)) => r,
    };
    let mut pc = e57::PointCloud::default();
    pc.file_offset = toks[1].parse().unwrap();
    pc.records = toks[2].parse().unwrap();
    pc.prototype = toks[3]
        .split(',')
        .filter(|x| !x.is_empty())
        .enumerate()
        .map(|(i, t)| Record {
            name: RecordName::Unknown { namespace: "v".to_string(), name: format!("a{}", i) },
            data_type: parse_type(t),
        })
        .collect();
    let extra: usize = toks[4].parse().unwrap();
    let mut it = match guard(|| r.pointcloud_raw(&pc)) {
        None => return "new:P".to_string(),
        Some(Err(e)) => return format!("new:e{}", err_name(&e)),
        Some(Ok(it)) => it,
    };
    let mut out: Vec<String> = Vec::new();
    let mut errors = 0usize;
    let mut steps = 0u64;
    loop {
        steps += 1;
        if steps > pc.records + extra as u64 + 2 {
            break;
        }
        match guard(|| it.next()) {
            None => {
                out.push("P".into());
                break;
            }
            Some(None) => {
                out.push(".".into());
                break;
            }
            Some(Some(Ok(p))) => {
                let txt = p.iter().map(show_value).collect::<Vec<_>>().join(",");
                out.push(format!("o{}", fnv_hex(fnv_bytes(FNV_INIT, txt.as_bytes()))));
            }
            Some(Some(Err(e))) => {
                out.push(format!("e{}", err_name(&e)));
                errors += 1;
                if errors > extra {
                    break;
                }
            }
        }
    }
    out.join(",")
}

pub fn run(kind: &str, toks: &[&str]) -> Option<String> {
    match kind {
        "CONT" => Some(run_cont(toks)),
        _ => None,
    }
}
