//! XEXTRACT <hex of XML bytes>: what E57Reader::new extracts from a file whose XML section is exactly
//! these bytes.  The file is built here (48-byte header + XML, sealed 1024-byte pages), opened with the
//! real reader, and everything the reader exposes is printed in a canonical one-line form.
//! Output: `<result> ;; <float oracle table> ;; <tree dump>`
//!   result  = `OK <metadata dump>` | `E:<Variant>` | `PANIC`
//!   oracle  = for "0", every text node, every concatenation of the text children of an element and every
//!             attribute value of the document that parses as f64 or f32:
//!             `<=texthex>:<f64 bits|->:<f32 bits|->` (NaN canonicalised)
//!   tree    = the XMLTREE dump (ext_xmltree.rs) or err-utf8 / err-parse
//! XMETA <hex of XML bytes>: only the result part.
//!
//! Metadata dump (tokens separated by one space; strings `=`+hex, absent `-`, f64 as 16 hex digits of the
//! bit pattern, f32 as 8, every NaN as 7ff8000000000000 / 7fc00000, integers decimal):
//!   fmt=<s> guid=<s> lib=<os> cre=<dt> crd=<os> ext=<n> {<prefix>,<url>}*n pcs=<n> {pc}*n ims=<n> {im}*n
//!   dt  = - | <f64>/<0|1>
//!   pc  = pc guid=<os> off=<u64> rec=<u64> proto=<k> {<name>/<type>}*k og=<-|[<s>,<s>..]> name=<os> desc=<os>
//!         cb=<-|6 x of64 joined by ','>  (xmin,xmax,ymin,ymax,zmin,zmax)
//!         sb=<-|6 x of64>                (range_min,range_max,elev_min,elev_max,azimuth_start,azimuth_end)
//!         ib=<-|6 x oint>                (row_min,row_max,col_min,col_max,ret_min,ret_max)
//!         il=<-|2 x olimit> cl=<-|6 x olimit> (red_min,red_max,green_min,green_max,blue_min,blue_max)
//!         tr=<-|rw,rx,ry,rz,tx,ty,tz> as=<dt> ae=<dt> sv=<os> sm=<os> ss=<os> hw=<os> sw=<os> fw=<os>
//!         temp=<of64> hum=<of64> pres=<of64>
//!   name = the RecordName variant (CartesianX ...) | U:<namespace>:<name>
//!   type = S:<of32>:<of32> | D:<of64>:<of64> | SI:<min>:<max>:<scale f64>:<offset f64> | I:<min>:<max>
//!   limit = S:<f32> | D:<f64> | SI:<int> | I:<int>
//!   im  = im guid=<os> vr=<-|blob,mask,w,h> pj=<-|PH,blob,mask,w,h,focal,pixw,pixh,ppx,ppy
//!            |SP,blob,mask,w,h,pixw,pixh|CY,blob,mask,w,h,radius,ppy,pixw,pixh>
//!         tr=<..> pcg=<os> name=<os> desc=<os> acq=<dt> sv=<os> sm=<os> ss=<os>
//!   blob = <J|P>@<offset>+<length>    mask = - | <offset>+<length>
use crate::util::*;
use e57::*;

fn crc32c(data: &[u8]) -> u32 {
    let mut s: u32 = 0xFFFF_FFFF;
    for b in data {
        s ^= *b as u32;
        for _ in 0..8 {
            s = if s & 1 != 0 { (s >> 1) ^ 0x82F6_3B78 } else { s >> 1 };
        }
    }
    !s
}

/// header + XML as one logical stream, cut into sealed pages
pub fn build_file(xml: &[u8]) -> Vec<u8> {
    let mut log: Vec<u8> = Vec::with_capacity(48 + xml.len());
    let npages = (48 + xml.len() + 1019) / 1020;
    log.extend_from_slice(b"ASTM-E57");
    log.extend_from_slice(&1u32.to_le_bytes());
    log.extend_from_slice(&0u32.to_le_bytes());
    log.extend_from_slice(&((npages * 1024) as u64).to_le_bytes());
    log.extend_from_slice(&48u64.to_le_bytes());
    log.extend_from_slice(&(xml.len() as u64).to_le_bytes());
    log.extend_from_slice(&1024u64.to_le_bytes());
    log.extend_from_slice(xml);
    log.resize(npages * 1020, 0);
    let mut out = Vec::with_capacity(npages * 1024);
    for p in 0..npages {
        let pl = &log[p * 1020..(p + 1) * 1020];
        out.extend_from_slice(pl);
        out.extend_from_slice(&crc32c(pl).to_be_bytes());
    }
    out
}

fn hs(s: &str) -> String {
    format!("={}", hex(s.as_bytes()))
}
fn os(s: &Option<String>) -> String {
    match s {
        Some(s) => hs(s),
        None => "-".into(),
    }
}
fn ostr(s: Option<&str>) -> String {
    match s {
        Some(s) => hs(s),
        None => "-".into(),
    }
}
pub fn f64b(v: f64) -> String {
    if v.is_nan() {
        "7ff8000000000000".into()
    } else {
        format!("{:016x}", v.to_bits())
    }
}
pub fn f32b(v: f32) -> String {
    if v.is_nan() {
        "7fc00000".into()
    } else {
        format!("{:08x}", v.to_bits())
    }
}
fn of64(v: &Option<f64>) -> String {
    v.map(f64b).unwrap_or_else(|| "-".into())
}
fn of32(v: &Option<f32>) -> String {
    v.map(f32b).unwrap_or_else(|| "-".into())
}
fn oint(v: &Option<i64>) -> String {
    v.map(|x| x.to_string()).unwrap_or_else(|| "-".into())
}
fn dt(v: &Option<DateTime>) -> String {
    match v {
        Some(d) => format!("{}/{}", f64b(d.gps_time), if d.atomic_reference { 1 } else { 0 }),
        None => "-".into(),
    }
}
fn tr(v: &Option<Transform>) -> String {
    match v {
        Some(t) => [
            t.rotation.w,
            t.rotation.x,
            t.rotation.y,
            t.rotation.z,
            t.translation.x,
            t.translation.y,
            t.translation.z,
        ]
        .iter()
        .map(|x| f64b(*x))
        .collect::<Vec<_>>()
        .join(","),
        None => "-".into(),
    }
}
fn lim(v: &Option<RecordValue>) -> String {
    match v {
        None => "-".into(),
        Some(RecordValue::Single(x)) => format!("S:{}", f32b(*x)),
        Some(RecordValue::Double(x)) => format!("D:{}", f64b(*x)),
        Some(RecordValue::ScaledInteger(x)) => format!("SI:{}", x),
        Some(RecordValue::Integer(x)) => format!("I:{}", x),
    }
}
fn rname(n: &RecordName) -> String {
    match n {
        RecordName::Unknown { namespace, name } => format!("U:{}:{}", hs(namespace), hs(name)),
        other => format!("{:?}", other),
    }
}
fn rtype(t: &RecordDataType) -> String {
    match t {
        RecordDataType::Single { min, max } => format!("S:{}:{}", of32(min), of32(max)),
        RecordDataType::Double { min, max } => format!("D:{}:{}", of64(min), of64(max)),
        RecordDataType::ScaledInteger { min, max, scale, offset } => {
            format!("SI:{}:{}:{}:{}", min, max, f64b(*scale), f64b(*offset))
        }
        RecordDataType::Integer { min, max } => format!("I:{}:{}", min, max),
    }
}
fn iblob(b: &ImageBlob) -> String {
    format!(
        "{}@{}+{}",
        match b.format {
            ImageFormat::Jpeg => "J",
            ImageFormat::Png => "P",
        },
        b.data.offset,
        b.data.length
    )
}
fn mask(m: &Option<Blob>) -> String {
    match m {
        Some(b) => format!("{}+{}", b.offset, b.length),
        None => "-".into(),
    }
}

pub fn dump_pointcloud(pc: &PointCloud, out: &mut Vec<String>) {
    out.push("pc".into());
    out.push(format!("guid={}", os(&pc.guid)));
    out.push(format!("off={}", pc.file_offset));
    out.push(format!("rec={}", pc.records));
    out.push(format!("proto={}", pc.prototype.len()));
    for r in &pc.prototype {
        out.push(format!("{}/{}", rname(&r.name), rtype(&r.data_type)));
    }
    out.push(format!(
        "og={}",
        match &pc.original_guids {
            None => "-".to_string(),
            Some(v) => format!("[{}]", v.iter().map(|s| hs(s)).collect::<Vec<_>>().join(",")),
        }
    ));
    out.push(format!("name={}", os(&pc.name)));
    out.push(format!("desc={}", os(&pc.description)));
    out.push(format!(
        "cb={}",
        match &pc.cartesian_bounds {
            None => "-".to_string(),
            Some(b) => [&b.x_min, &b.x_max, &b.y_min, &b.y_max, &b.z_min, &b.z_max].iter().map(|x| of64(x)).collect::<Vec<_>>().join(","),
        }
    ));
    out.push(format!(
        "sb={}",
        match &pc.spherical_bounds {
            None => "-".to_string(),
            Some(b) => [&b.range_min, &b.range_max, &b.elevation_min, &b.elevation_max, &b.azimuth_start, &b.azimuth_end]
                .iter()
                .map(|x| of64(x))
                .collect::<Vec<_>>()
                .join(","),
        }
    ));
    out.push(format!(
        "ib={}",
        match &pc.index_bounds {
            None => "-".to_string(),
            Some(b) => [&b.row_min, &b.row_max, &b.column_min, &b.column_max, &b.return_min, &b.return_max]
                .iter()
                .map(|x| oint(x))
                .collect::<Vec<_>>()
                .join(","),
        }
    ));
    out.push(format!(
        "il={}",
        match &pc.intensity_limits {
            None => "-".to_string(),
            Some(l) => format!("{},{}", lim(&l.intensity_min), lim(&l.intensity_max)),
        }
    ));
    out.push(format!(
        "cl={}",
        match &pc.color_limits {
            None => "-".to_string(),
            Some(l) => [&l.red_min, &l.red_max, &l.green_min, &l.green_max, &l.blue_min, &l.blue_max]
                .iter()
                .map(|x| lim(x))
                .collect::<Vec<_>>()
                .join(","),
        }
    ));
    out.push(format!("tr={}", tr(&pc.transform)));
    out.push(format!("as={}", dt(&pc.acquisition_start)));
    out.push(format!("ae={}", dt(&pc.acquisition_end)));
    out.push(format!("sv={}", os(&pc.sensor_vendor)));
    out.push(format!("sm={}", os(&pc.sensor_model)));
    out.push(format!("ss={}", os(&pc.sensor_serial)));
    out.push(format!("hw={}", os(&pc.sensor_hw_version)));
    out.push(format!("sw={}", os(&pc.sensor_sw_version)));
    out.push(format!("fw={}", os(&pc.sensor_fw_version)));
    out.push(format!("temp={}", of64(&pc.temperature)));
    out.push(format!("hum={}", of64(&pc.humidity)));
    out.push(format!("pres={}", of64(&pc.atmospheric_pressure)));
}

pub fn dump_image(im: &Image, out: &mut Vec<String>) {
    out.push("im".into());
    out.push(format!("guid={}", os(&im.guid)));
    out.push(format!(
        "vr={}",
        match &im.visual_reference {
            None => "-".to_string(),
            Some(v) => format!("{},{},{},{}", iblob(&v.blob), mask(&v.mask), v.properties.width, v.properties.height),
        }
    ));
    out.push(format!(
        "pj={}",
        match &im.projection {
            None => "-".to_string(),
            Some(Projection::Pinhole(p)) => format!(
                "PH,{},{},{},{},{},{},{},{},{}",
                iblob(&p.blob),
                mask(&p.mask),
                p.properties.width,
                p.properties.height,
                f64b(p.properties.focal_length),
                f64b(p.properties.pixel_width),
                f64b(p.properties.pixel_height),
                f64b(p.properties.principal_x),
                f64b(p.properties.principal_y)
            ),
            Some(Projection::Spherical(p)) => format!(
                "SP,{},{},{},{},{},{}",
                iblob(&p.blob),
                mask(&p.mask),
                p.properties.width,
                p.properties.height,
                f64b(p.properties.pixel_width),
                f64b(p.properties.pixel_height)
            ),
            Some(Projection::Cylindrical(p)) => format!(
                "CY,{},{},{},{},{},{},{},{}",
                iblob(&p.blob),
                mask(&p.mask),
                p.properties.width,
                p.properties.height,
                f64b(p.properties.radius),
                f64b(p.properties.principal_y),
                f64b(p.properties.pixel_width),
                f64b(p.properties.pixel_height)
            ),
        }
    ));
    out.push(format!("tr={}", tr(&im.transform)));
    out.push(format!("pcg={}", os(&im.pointcloud_guid)));
    out.push(format!("name={}", os(&im.name)));
    out.push(format!("desc={}", os(&im.description)));
    out.push(format!("acq={}", dt(&im.acquisition)));
    out.push(format!("sv={}", os(&im.sensor_vendor)));
    out.push(format!("sm={}", os(&im.sensor_model)));
    out.push(format!("ss={}", os(&im.sensor_serial)));
}

/// everything E57Reader exposes about the XML content
pub fn dump_reader<T: std::io::Read + std::io::Seek>(r: &E57Reader<T>) -> String {
    let mut out: Vec<String> = Vec::new();
    out.push(format!("fmt={}", hs(r.format_name())));
    out.push(format!("guid={}", hs(r.guid())));
    out.push(format!("lib={}", ostr(r.library_version())));
    out.push(format!("cre={}", dt(&r.creation())));
    out.push(format!("crd={}", ostr(r.coordinate_metadata())));
    let exts = r.extensions();
    out.push(format!("ext={}", exts.len()));
    for e in &exts {
        out.push(format!("{},{}", hs(&e.namespace), hs(&e.url)));
    }
    let pcs = r.pointclouds();
    out.push(format!("pcs={}", pcs.len()));
    for pc in &pcs {
        dump_pointcloud(pc, &mut out);
    }
    let ims = r.images();
    out.push(format!("ims={}", ims.len()));
    for im in &ims {
        dump_image(im, &mut out);
    }
    out.join(" ")
}

pub fn extract(xml: &[u8]) -> String {
    let file = build_file(xml);
    match guard(|| E57Reader::new(std::io::Cursor::new(file)).map(|r| dump_reader(&r))) {
        None => "PANIC".into(),
        Some(Ok(s)) => format!("OK {}", s),
        Some(Err(e)) => format!("E:{}", err_name(&e)),
    }
}

fn oracle_entry(text: &str, seen: &mut std::collections::HashSet<String>, out: &mut Vec<String>) {
    if seen.contains(text) {
        return;
    }
    seen.insert(text.to_string());
    let a = text.parse::<f64>().ok();
    let b = text.parse::<f32>().ok();
    if a.is_some() || b.is_some() {
        out.push(format!(
            "{}:{}:{}",
            hs(text),
            a.map(f64b).unwrap_or_else(|| "-".into()),
            b.map(f32b).unwrap_or_else(|| "-".into())
        ));
    }
}

/// Protects the harness process itself: roxmltree recurses per nesting level, so the harness only
/// parses documents (for the oracle table and the tree dump) whose nesting the same kind of scan
/// as the crate's check_depth finds to be at most 256.  (What the READER does with deep documents
/// is observed through E57Reader::new, not through this function.)
pub fn too_deep(bytes: &[u8]) -> bool {
    fn find_after(b: &[u8], start: usize, pat: &[u8]) -> usize {
        let mut i = start;
        while i + pat.len() <= b.len() {
            if &b[i..i + pat.len()] == pat {
                return i + pat.len();
            }
            i += 1;
        }
        b.len()
    }
    let (mut depth, mut i) = (0usize, 0usize);
    while i < bytes.len() {
        if bytes[i] != b'<' {
            i += 1;
        } else if bytes[i..].starts_with(b"<!--") {
            i = find_after(bytes, i + 4, b"-->");
        } else if bytes[i..].starts_with(b"<![CDATA[") {
            i = find_after(bytes, i + 9, b"]]>");
        } else if bytes[i..].starts_with(b"<?") {
            i = find_after(bytes, i + 2, b"?>");
        } else if bytes[i..].starts_with(b"<!") {
            i = find_after(bytes, i + 2, b">");
        } else if bytes[i..].starts_with(b"</") {
            depth = depth.saturating_sub(1);
            i = find_after(bytes, i + 2, b">");
        } else {
            let mut quote: Option<u8> = None;
            let mut j = i + 1;
            while j < bytes.len() {
                match quote {
                    Some(q) if bytes[j] == q => quote = None,
                    Some(_) => {}
                    None if bytes[j] == b'"' || bytes[j] == b'\'' => quote = Some(bytes[j]),
                    None if bytes[j] == b'>' => break,
                    None => {}
                }
                j += 1;
            }
            if !(j < bytes.len() && bytes[j - 1] == b'/') {
                depth += 1;
                if depth > 256 {
                    return true;
                }
            }
            i = j + 1;
        }
    }
    false
}

/// Rust's float parser on "0" and on every text node and attribute value of the document
pub fn oracle_table(xml: &[u8]) -> String {
    let mut out = Vec::new();
    let mut seen = std::collections::HashSet::new();
    oracle_entry("0", &mut seen, &mut out);
    if too_deep(xml) {
        return out.join(" ");
    }
    if let Ok(text) = std::str::from_utf8(xml) {
        if let Some(Ok(doc)) = guard(|| roxmltree::Document::parse(text)) {
            for n in doc.descendants() {
                if n.is_text() {
                    oracle_entry(n.text().unwrap_or(""), &mut seen, &mut out);
                }
                if n.is_element() {
                    for a in n.attributes() {
                        oracle_entry(a.value(), &mut seen, &mut out);
                    }
                    // the reader parses the concatenation of all text children of an element
                    let all: String = n.children().filter(|c| c.is_text()).filter_map(|c| c.text()).collect();
                    oracle_entry(&all, &mut seen, &mut out);
                }
            }
        }
    }
    out.join(" ")
}

pub fn run(kind: &str, toks: &[&str]) -> Option<String> {
    match kind {
        "XEXTRACT" => {
            let xml = unhex(toks.first().copied().unwrap_or(""));
            Some(format!(
                "{} ;; {} ;; {}",
                extract(&xml),
                oracle_table(&xml),
                if std::str::from_utf8(&xml).is_ok() && too_deep(&xml) { "too-deep".to_string() } else { crate::ext::ext_xmltree::dump_document(&xml) }
            ))
        }
        "XMETA" => Some(extract(&unhex(toks.first().copied().unwrap_or("")))),
        // RNEW <file bytes: hex or @base^patches>: E57Reader::new on arbitrary file bytes.
        // Output `<result> ;; <float oracle table of the XML section, if it can be read and parsed>`
        "RNEW" => {
            let file = resolve_dev(toks.first().copied().unwrap_or(""));
            let f2 = file.clone();
            let res = guard(move || E57Reader::new(std::io::Cursor::new(f2)).map(|r| (dump_reader(&r), r.xml().as_bytes().to_vec())));
            Some(match res {
                None => "PANIC ;; =30:0000000000000000:00000000".to_string(),
                Some(Ok((dump, xml))) => format!("OK {} ;; {}", dump, oracle_table(&xml)),
                Some(Err(e)) => {
                    let xml = guard(move || E57Reader::raw_xml(std::io::Cursor::new(file)).ok()).flatten().unwrap_or_default();
                    format!("E:{} ;; {}", err_name(&e), oracle_table(&xml))
                }
            })
        }
        // diagnostic only: roxmltree's error message
        "XPARSEERR" => {
            let xml = unhex(toks.first().copied().unwrap_or(""));
            Some(match std::str::from_utf8(&xml) {
                Err(e) => format!("utf8 {}", e),
                Ok(t) => match roxmltree::Document::parse(t) {
                    Ok(_) => "ok".to_string(),
                    Err(e) => format!("{}", e).replace('\n', " "),
                },
            })
        }
        _ => None,
    }
}
