//! XMLTREE <hex of document bytes>: what roxmltree makes of a document, as one line.
//! Format (pre-order, space separated tokens; strings are `=` + hex of their UTF-8 bytes, absent = `-`):
//!   D <nchildren>                                   the document root node
//!   E <ns|-> <local> <nattrs> <nscope> <nchildren>  element, followed by its attributes, its in-scope
//!                                                   namespaces (in the order of Node::namespaces()), its children
//!   A <ns|-> <local> <value>                        attribute
//!   N <prefix|-> <uri>                              namespace in scope
//!   T <text>      C <text>      P <target> <value|->
//! Errors: `err-utf8` (bytes are not UTF-8, the crate reports Error::Invalid before parsing) or `err-parse`.
use crate::util::*;

fn hs(s: &str) -> String {
    format!("={}", hex(s.as_bytes()))
}
fn ho(s: Option<&str>) -> String {
    match s {
        Some(s) => hs(s),
        None => "-".to_string(),
    }
}

pub fn dump_node(n: roxmltree::Node, out: &mut Vec<String>) {
    use roxmltree::NodeType::*;
    match n.node_type() {
        Root => {
            out.push(format!("D {}", n.children().count()));
            for c in n.children() {
                dump_node(c, out);
            }
        }
        Element => {
            let t = n.tag_name();
            out.push(format!(
                "E {} {} {} {} {}",
                ho(t.namespace()),
                hs(t.name()),
                n.attributes().count(),
                n.namespaces().count(),
                n.children().count()
            ));
            for a in n.attributes() {
                out.push(format!("A {} {} {}", ho(a.namespace()), hs(a.name()), hs(a.value())));
            }
            for ns in n.namespaces() {
                out.push(format!("N {} {}", ho(ns.name()), hs(ns.uri())));
            }
            for c in n.children() {
                dump_node(c, out);
            }
        }
        Text => out.push(format!("T {}", hs(n.text().unwrap_or("")))),
        Comment => out.push(format!("C {}", hs(n.text().unwrap_or("")))),
        PI => {
            let pi = n.pi().unwrap();
            out.push(format!("P {} {}", hs(pi.target), ho(pi.value)));
        }
    }
}

pub fn dump_document(bytes: &[u8]) -> String {
    let text = match std::str::from_utf8(bytes) {
        Ok(t) => t,
        Err(_) => return "err-utf8".to_string(),
    };
    match guard(|| roxmltree::Document::parse(text).map(|doc| {
        let mut out = Vec::new();
        dump_node(doc.root(), &mut out);
        out.join(" ")
    })) {
        None => "P".to_string(),
        Some(Ok(s)) => s,
        Some(Err(_)) => "err-parse".to_string(),
    }
}

pub fn run(kind: &str, toks: &[&str]) -> Option<String> {
    match kind {
        "XMLTREE" => Some(dump_document(&unhex(toks.first().copied().unwrap_or("")))),
        _ => None,
    }
}
