use std::fmt::Write as _;

pub fn unhex(s: &str) -> Vec<u8> {
    let b = s.as_bytes();
    let v = |c: u8| -> u8 {
        match c {
            b'0'..=b'9' => c - b'0',
            b'a'..=b'f' => c - b'a' + 10,
            b'A'..=b'F' => c - b'A' + 10,
            _ => panic!("bad hex"),
        }
    };
    (0..b.len() / 2).map(|i| v(b[2 * i]) * 16 + v(b[2 * i + 1])).collect()
}

pub fn hex(b: &[u8]) -> String {
    let mut s = String::with_capacity(b.len() * 2);
    for x in b {
        let _ = write!(s, "{:02x}", x);
    }
    s
}

pub const FNV_INIT: u64 = 0xcbf29ce484222325;
pub fn fnv_byte(h: u64, b: u8) -> u64 {
    (h ^ b as u64).wrapping_mul(0x100000001b3)
}
pub fn fnv_bytes(mut h: u64, b: &[u8]) -> u64 {
    for x in b {
        h = fnv_byte(h, *x);
    }
    h
}
pub fn fnv_int(h: u64, i: u64) -> u64 {
    fnv_bytes(h, &i.to_le_bytes())
}
pub fn fnv_hex(h: u64) -> String {
    format!("{:016x}", h)
}

pub fn err_name(e: &e57::Error) -> &'static str {
    match e {
        e57::Error::Invalid { .. } => "Invalid",
        e57::Error::Read { .. } => "Read",
        e57::Error::Write { .. } => "Write",
        e57::Error::NotImplemented { .. } => "NotImpl",
        e57::Error::Internal { .. } => "Internal",
        _ => "Other",
    }
}

/// Run a closure, turning a panic into None.
pub fn guard<T>(f: impl FnOnce() -> T) -> Option<T> {
    std::panic::catch_unwind(std::panic::AssertUnwindSafe(f)).ok()
}

use std::cell::RefCell;
use std::collections::HashMap;
thread_local! {
    static BASES: RefCell<HashMap<String, Vec<u8>>> = RefCell::new(HashMap::new());
}

/// BASE <name> <hex>: remember a file image for later cases
pub fn register_base(name: &str, hexs: &str) {
    BASES.with(|b| b.borrow_mut().insert(name.to_string(), unhex(hexs)));
}

/// A device image token: plain hex, or @name[^pos:xorbyte]... (a registered image with bytes xored)
pub fn resolve_dev(tok: &str) -> Vec<u8> {
    if let Some(rest) = tok.strip_prefix('@') {
        let mut parts = rest.split('^');
        let name = parts.next().unwrap();
        let mut v = BASES.with(|b| b.borrow().get(name).cloned()).expect("unknown base image");
        for p in parts {
            let (pos, x) = p.split_once(':').unwrap();
            let pos: usize = pos.parse().unwrap();
            let x = u8::from_str_radix(x, 16).unwrap();
            v[pos] ^= x;
        }
        v
    } else {
        unhex(tok)
    }
}
