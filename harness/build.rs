// Generates ext.rs: declares every src/ext_*.rs as a module and chains their
// `pub fn run(kind: &str, toks: &[&str]) -> Option<String>` functions.
use std::io::Write;
fn main() {
    let dir = std::env::var("CARGO_MANIFEST_DIR").unwrap();
    let out = std::env::var("OUT_DIR").unwrap();
    let mut mods: Vec<String> = std::fs::read_dir(format!("{dir}/src"))
        .unwrap()
        .filter_map(|e| e.ok())
        .map(|e| e.file_name().to_string_lossy().to_string())
        .filter(|n| n.starts_with("ext_") && n.ends_with(".rs"))
        .map(|n| n.trim_end_matches(".rs").to_string())
        .collect();
    mods.sort();
    let mut f = std::fs::File::create(format!("{out}/ext.rs")).unwrap();
    for m in &mods {
        writeln!(f, "#[path = \"{dir}/src/{m}.rs\"]\npub mod {m};").unwrap();
    }
    writeln!(f, "pub fn dispatch(kind: &str, toks: &[&str]) -> Option<String> {{").unwrap();
    for m in &mods {
        writeln!(f, "    if let Some(s) = {m}::run(kind, toks) {{ return Some(s); }}").unwrap();
    }
    writeln!(f, "    None\n}}").unwrap();
    println!("cargo:rerun-if-changed=src");
    println!("cargo:rerun-if-changed=build.rs");
}
