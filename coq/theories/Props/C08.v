(** C08 - Reading untrusted bytes never panics.
    Statements only; every proof is an [exact] of a lemma proved in Proofs/TotSafe*.v. *)
From E57 Require Import Base.Prelude Model.Device Model.PagedReader Model.BsRead Model.Record Model.Prog
  Model.QueueReader Model.FileBin Model.ReaderOpen
  Proofs.ReaderSessions Proofs.TotSafeBits Proofs.TotSafeProg Proofs.TotSafeExamples.

Theorem C08_no_panic_open : forall d : dev, snd (ReaderOpen.reader_open d) <> Panic.
Proof. exact no_panic_open. Qed.

Theorem C08_no_panic_validate_crc : forall d : dev, snd (FileBin.validate_crc d) <> Panic.
Proof. exact no_panic_validate_crc. Qed.

Theorem C08_no_panic_raw_xml : forall d : dev, snd (ReaderOpen.raw_xml d) <> Panic.
Proof. exact no_panic_raw_xml. Qed.

Theorem C08_no_panic_blob : forall (s : pr) ls offset length,
  snd (rrun (blob_read ls offset length) s) <> Panic.
Proof. exact no_panic_blob. Qed.

Theorem C08_no_panic_raw_new : forall (s : pr) fo recs proto, proto_i64 proto ->
  match snd (rrun (raw_new fo recs proto) s) with Ok it => raw_ok it | Err _ => True | Panic => False end.
Proof. exact no_panic_raw_new. Qed.

Theorem C08_no_panic_raw_next : forall (s : pr) ls it, raw_ok it ->
  match snd (rrun (raw_next ls it) s) with Ok (it', _) => raw_ok it' | Err _ => True | Panic => False end.
Proof. exact no_panic_raw_next. Qed.

Theorem C08_no_panic_raw : forall (s : pr) fuel ls fo recs proto, proto_i64 proto ->
  snd (rrun (op_raw_all fuel ls fo recs proto) s) <> Panic.
Proof. exact no_panic_raw. Qed.

Theorem C08_no_panic_file_raw : forall (d : dev) fuel fo recs proto, proto_i64 proto ->
  match ReaderOpen.reader_open d with
  | (_, Ok (s, _, _)) => snd (rrun (op_raw_all fuel (pr_log_size s) fo recs proto) s) <> Panic
  | (_, r) => r <> Panic
  end.
Proof. exact no_panic_file_raw. Qed.

Theorem C08_no_panic_file_blob : forall (d : dev) offset length,
  match ReaderOpen.reader_open d with
  | (_, Ok (s, _, _)) => snd (rrun (blob_read (pr_log_size s) offset length) s) <> Panic
  | (_, r) => r <> Panic
  end.
Proof. exact no_panic_file_blob. Qed.

Theorem C08_no_panic_raw_wide_refuted :
  ~ proto_i64 wide_proto /\
  (exists d' s h xml,
     ReaderOpen.reader_open wide_dev = (d', Ok (s, h, xml)) /\
     snd (rrun (op_raw_all 10 (pr_log_size s) 48 1 wide_proto) s) = Panic) /\
  ~ (forall (s : pr) fuel ls fo recs proto, snd (rrun (op_raw_all fuel ls fo recs proto) s) <> Panic).
Proof. exact no_panic_raw_wide_refuted. Qed.

Print Assumptions C08_no_panic_open.
Print Assumptions C08_no_panic_validate_crc.
Print Assumptions C08_no_panic_raw_xml.
Print Assumptions C08_no_panic_blob.
Print Assumptions C08_no_panic_raw_new.
Print Assumptions C08_no_panic_raw_next.
Print Assumptions C08_no_panic_raw.
Print Assumptions C08_no_panic_file_raw.
Print Assumptions C08_no_panic_file_blob.
Print Assumptions C08_no_panic_raw_wide_refuted.
