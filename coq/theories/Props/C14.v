(** C14 - bounds and default limits written by the writer are exact.
    Statements only; every proof is an [exact] of a lemma proved in Proofs/Wapi*.v.
    A session is [add_pointcloud guid proto], any accepted setter / [add_point]
    calls ([body]), [finalize]; [body_points body] are the points added;
    [attr_f a proto pts] / [attr_i a proto pts] are the values that feed axis [a]
    (all records with that name, as [to_f64] / [to_i64] see them). *)
From Coq Require Import ZArith.
From Flocq Require Import Binary Bits.
From E57 Require Import Base.Prelude Base.Floats Spec.PageSpec Model.Prog Model.Record Model.Meta Model.MetaFile
  Model.WriterApi.
From E57 Require Import Proofs.WapiProg Proofs.WapiRules Proofs.WapiInv Proofs.WapiFloatOrder Proofs.WapiBounds
  Proofs.WapiMain.

(** The descriptor's bounds exist exactly for the attribute groups of the
    prototype and are the folds of minimum / maximum over the accepted points
    ([blo] / [bhi]: bit pattern of [fold_min] / [fold_max], text left empty;
    index bounds exact integers); absent fields for a cloud without points. *)
Theorem C14_bounds : forall (gen_xml : file_meta -> res (list N)) (lib_version : xstring),
  (forall m, gen_xml m <> Panic) ->
  forall st l guid proto body l' st' rs,
  ws_inv st l -> ws_open st = true -> ws_sub st = SubNone ->
  proto_i64 proto -> Forall call_wf body -> Forall is_pc_body body ->
  wrun_spec (wapi_run gen_xml lib_version st (AddPointcloud guid proto :: body ++ [PcFinalize])) l
    = (l', Ok (st', rs)) ->
  Forall (fun r => r = CrOk) rs ->
  let pts := body_points body in
  exists pc, ws_pcs st' = ws_pcs st ++ [pc] /\
    pc_prototype pc = proto /\ pc_records pc = len pts /\
    pc_cartesian_bounds pc =
      (if contains proto CartesianX
       then Some (mkCb (blo FX proto pts) (bhi FX proto pts) (blo FY proto pts) (bhi FY proto pts)
                       (blo FZ proto pts) (bhi FZ proto pts)) else None) /\
    pc_spherical_bounds pc =
      (if contains proto SphericalAzimuth
       then Some (mkSb (blo FRg proto pts) (bhi FRg proto pts) (blo FEl proto pts) (bhi FEl proto pts)
                       (blo FAz proto pts) (bhi FAz proto pts)) else None) /\
    pc_index_bounds pc =
      (if contains proto ReturnIndex || contains proto ColumnIndex || contains proto RowIndex
       then Some (mkIb (zmin_list (attr_i IRow proto pts)) (zmax_list (attr_i IRow proto pts))
                       (zmin_list (attr_i ICol proto pts)) (zmax_list (attr_i ICol proto pts))
                       (zmin_list (attr_i IRet proto pts)) (zmax_list (attr_i IRet proto pts))) else None).
Proof. exact session_bounds. Qed.
Print Assumptions C14_bounds.

(** What the folds are on NaN-free values: nothing for no values, otherwise the
    earliest element that no element undercuts (exceeds). *)
Theorem C14_min_exact : forall l : list binary64, Forall not_nan l ->
  match l with
  | [] => fold_min l None = None
  | _ => exists m, fold_min l None = Some m /\ is_first_min l m
  end.
Proof. exact fold_min_spec. Qed.
Print Assumptions C14_min_exact.

Theorem C14_max_exact : forall l : list binary64, Forall not_nan l ->
  match l with
  | [] => fold_max l None = None
  | _ => exists m, fold_max l None = Some m /\ is_first_max l m
  end.
Proof. exact fold_max_spec. Qed.
Print Assumptions C14_max_exact.

(** [is_first_min]: it occurs and is a lower bound. *)
Theorem C14_min_is_lower_bound : forall l m, Forall not_nan l -> is_first_min l m ->
  In m l /\ Forall (fun v => f64_le m v = true) l.
Proof. exact first_min_lower. Qed.
Print Assumptions C14_min_is_lower_bound.

Theorem C14_max_is_upper_bound : forall l m, Forall not_nan l -> is_first_max l m ->
  In m l /\ Forall (fun v => f64_le v m = true) l.
Proof. exact first_max_upper. Qed.
Print Assumptions C14_max_is_upper_bound.

(** NaN (outside the property's quantifier): a NaN bound is never replaced
    (so a NaN in the first point stays), a later NaN is skipped. *)
Theorem C14_nan_stays : forall l c, f64_is_nan c = true -> fold_min l (Some c) = Some c.
Proof. exact fold_min_nan_stays. Qed.
Print Assumptions C14_nan_stays.

Theorem C14_nan_skipped : forall l c,
  fold_min l (Some c) = fold_min (filter (fun v => negb (f64_is_nan v)) l) (Some c).
Proof. exact fold_min_skips_nan. Qed.
Print Assumptions C14_nan_skipped.

(** Index bounds are exact integer minima. *)
Theorem C14_index_min : forall (r : list Z) (v : Z), let m := fold_left Z.min r v in
  In m (v :: r) /\ Forall (fun u => (m <= u)%Z) (v :: r).
Proof. exact fold_zmin_spec. Qed.
Print Assumptions C14_index_min.

Theorem C14_index_max : forall (r : list Z) (v : Z), let m := fold_left Z.max r v in
  In m (v :: r) /\ Forall (fun u => (u <= m)%Z) (v :: r).
Proof. exact fold_zmax_spec. Qed.
Print Assumptions C14_index_max.

(** Every value added lies within the bounds (NaN-free data). *)
Theorem C14_within : forall a proto pts lo hi,
  Forall not_nan (attr_f a proto pts) ->
  fold_min (attr_f a proto pts) None = Some lo -> fold_max (attr_f a proto pts) None = Some hi ->
  forall vs x, In vs pts -> In x (point_f a proto vs) -> f64_le lo x = true /\ f64_le x hi = true.
Proof. exact values_within. Qed.
Print Assumptions C14_within.

(** Limits: the declared range of the (first) intensity / colour record's data
    type unless a setter call overrides them; the last override is stored as given
    ([body_ilim] / [body_clim]) - it is complete, because [finalize] returned Ok (see
    [C14_incomplete_override_rejected]); default limits may be incomplete (a float
    attribute without declared range) and are then not written by the XML generator. *)
Theorem C14_limits : forall (gen_xml : file_meta -> res (list N)) (lib_version : xstring),
  (forall m, gen_xml m <> Panic) ->
  forall st l guid proto body l' st' rs,
  ws_inv st l -> ws_open st = true -> ws_sub st = SubNone ->
  proto_i64 proto -> Forall call_wf body -> Forall is_pc_body body ->
  wrun_spec (wapi_run gen_xml lib_version st (AddPointcloud guid proto :: body ++ [PcFinalize])) l
    = (l', Ok (st', rs)) ->
  Forall (fun r => r = CrOk) rs ->
  exists pc, ws_pcs st' = ws_pcs st ++ [pc] /\
    pc_intensity_limits pc =
      body_ilim body (match get_rec proto Intensity with
                      | Some r => Some (mkIl (fst (declared_range (r_type r))) (snd (declared_range (r_type r))))
                      | None => None
                      end) /\
    pc_color_limits pc =
      body_clim body (match get_rec proto ColorRed, get_rec proto ColorGreen, get_rec proto ColorBlue with
                      | Some r, Some g, Some b =>
                          Some (mkCl (fst (declared_range (r_type r))) (snd (declared_range (r_type r)))
                                     (fst (declared_range (r_type g))) (snd (declared_range (r_type g)))
                                     (fst (declared_range (r_type b))) (snd (declared_range (r_type b))))
                      | _, _, _ => None
                      end).
Proof. exact session_limits. Qed.
Print Assumptions C14_limits.

(** Limits set by the caller that lack a member make [finalize] fail with Invalid:
    nothing is pushed, the writer state and the stream are unchanged. *)
Theorem C14_incomplete_override_rejected : forall (gen_xml : file_meta -> res (list N)) (lib_version : xstring) st l ps,
  ws_open st = true -> ws_sub st = SubPc ps -> ps_finalized ps = false ->
  custom_limits_ok (ps_custom_il ps) (ps_custom_cl ps) (ps_desc ps) = false ->
  wrun_spec (wapi_step gen_xml lib_version st PcFinalize) l = (l, Ok (st, CrErr EInvalid)).
Proof. exact incomplete_override_rejected. Qed.
Print Assumptions C14_incomplete_override_rejected.
