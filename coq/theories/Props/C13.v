(** C13 - Normalised colour and intensity lie in [0,1], monotone, never NaN.
    Statements only; every proof is an [exact] of a lemma proved in Proofs/.
    Floats are Flocq's binary64 (computation) and binary32 (result); [B2R64]/[B2R32]
    give the real number, [fin64]/[fin32] are [is_finite]; [R64] is rounding to
    nearest-even binary64.  [accepted rg]: [rg] was let through by [Range::from_min_max]
    (every range the crate ever builds is: [C13_ranges_are_accepted]). *)
From Coq Require Import ZArith NArith Bool Reals List.
From Flocq Require Import Core Binary Bits.
From E57 Require Import Base.Prelude Base.Floats Model.Normalize
  Proofs.FltLemmas Proofs.NormalizeCore Proofs.NormalizeProofs Proofs.NormalizeTheorems Proofs.NormalizeRange Proofs.NormalizeHalvedClose.
Local Open Scope R_scope.

(** Which range: the limits when both are given and of one kind (Double, Single,
    Integer; ScaledInteger on a ScaledInteger attribute, converted with its scale
    and offset, a negative scale swapping them), otherwise the declared range of
    the attribute type with the defaults f32::MIN..MAX / f64::MIN..MAX; no
    attribute and no usable limits: no range. *)
Theorem C13_range_choice : forall ch,
  range_of_channel ch =
    match limits_range ch with
    | Some r => res_map Some r
    | None => match ch_type ch with
              | Some dt => res_map Some (type_range dt)
              | None => Ok None
              end
    end.
Proof. exact range_choice. Qed.
Print Assumptions C13_range_choice.

Theorem C13_ranges_are_accepted : forall ch rg, range_of_channel ch = Ok (Some rg) -> accepted rg.
Proof. exact range_of_channel_accepted. Qed.
Print Assumptions C13_ranges_are_accepted.

(** [from_min_max] accepts exactly the finite, ordered limits and stores max - min. *)
Theorem C13_accepted_ranges : forall lo hi rg, from_min_max lo hi = Ok rg ->
  fin64 lo = true /\ fin64 hi = true /\ B2R64 lo <= B2R64 hi /\ rg = mkRange lo hi (f64_sub hi lo).
Proof. exact from_min_max_ok. Qed.
Print Assumptions C13_accepted_ranges.

Theorem C13_unit_interval : forall rg v, accepted rg -> fin64 v = true ->
  exists y, normalize rg v = Ok y /\ is_nan 24 128 y = false /\ fin32 y = true /\ 0 <= B2R32 y <= 1.
Proof. exact normalize_unit_interval. Qed.
Print Assumptions C13_unit_interval.

Theorem C13_monotone : forall rg v1 v2 y1 y2, accepted rg -> fin64 v1 = true -> fin64 v2 = true ->
  B2R64 v1 <= B2R64 v2 -> normalize rg v1 = Ok y1 -> normalize rg v2 = Ok y2 ->
  B2R32 y1 <= B2R32 y2.
Proof. exact normalize_monotone. Qed.
Print Assumptions C13_monotone.

(** Exactly +0.0f32 at the minimum and exactly 1.0f32 at the maximum. *)
Theorem C13_endpoints : forall lo hi rg, from_min_max lo hi = Ok rg -> B2R64 lo < B2R64 hi ->
  normalize rg lo = Ok f32_zero /\ normalize rg hi = Ok f32_one.
Proof. exact normalize_endpoints. Qed.
Print Assumptions C13_endpoints.

Theorem C13_endpoint_bits : bits_of_f32 f32_zero = 0%N /\ bits_of_f32 f32_one = 0x3f800000%N.
Proof. exact endpoint_bits. Qed.
Print Assumptions C13_endpoint_bits.

(** Below the minimum 0, at and above the maximum exactly 1.0f32. *)
Theorem C13_saturates : forall lo hi rg v y, from_min_max lo hi = Ok rg -> B2R64 lo < B2R64 hi ->
  fin64 v = true -> normalize rg v = Ok y ->
  (B2R64 v <= B2R64 lo -> B2R32 y = 0) /\ (B2R64 hi <= B2R64 v -> y = f32_one).
Proof. exact normalize_saturates. Qed.
Print Assumptions C13_saturates.

(** A degenerate range yields +0.0 for every value (NaN and infinities included). *)
Theorem C13_degenerate : forall lo hi rg v, from_min_max lo hi = Ok rg -> B2R64 lo = B2R64 hi ->
  normalize rg v = Ok f32_zero.
Proof. exact normalize_degenerate_range. Qed.
Print Assumptions C13_degenerate.

(** Equal to (value - min) / (max - min) clamped to [0,1] up to 2^-24 (absolute; half a
    unit in the last place of binary32 just below 1), when max - min is representable. *)
Theorem C13_close : forall lo hi rg v y, from_min_max lo hi = Ok rg -> B2R64 lo < B2R64 hi ->
  f64_is_finite (rg_range rg) = true ->
  fin64 v = true -> normalize rg v = Ok y ->
  Rabs (B2R32 y - clampR 0 1 ((B2R64 v - B2R64 lo) / (B2R64 hi - B2R64 lo))) <= bpow radix2 (-24).
Proof. exact normalize_close_stored. Qed.
Print Assumptions C13_close.

(** For every accepted range with min < max - also when max - min overflows (f64::MIN..f64::MAX,
    the default range of a Double attribute) - within 2^-23. *)
Theorem C13_close_any : forall lo hi rg v y, from_min_max lo hi = Ok rg -> B2R64 lo < B2R64 hi ->
  fin64 v = true -> normalize rg v = Ok y ->
  Rabs (B2R32 y - clampR 0 1 ((B2R64 v - B2R64 lo) / (B2R64 hi - B2R64 lo))) <= bpow radix2 (-23).
Proof. exact normalize_close_any. Qed.
Print Assumptions C13_close_any.

(** Normalisation switched off: [value as f32]. *)
Theorem C13_disabled : forall ch v r, channel_value ch false v = Ok r -> r = f32_of_f64 v.
Proof. exact channel_value_disabled. Qed.
Print Assumptions C13_disabled.

(** What the iterator delivers with normalisation on, for every channel description. *)
Theorem C13_delivered : forall ch v r, fin64 v = true -> channel_value ch true v = Ok r ->
  is_nan 24 128 r = false /\ fin32 r = true /\ 0 <= B2R32 r <= 1.
Proof. exact channel_value_enabled. Qed.
Print Assumptions C13_delivered.

(** No input at all (NaN values, NaN/infinite/reversed limits, NaN scale ...) makes the model panic. *)
Theorem C13_no_panic : forall ch enabled v, channel_value ch enabled v <> Panic.
Proof. exact channel_value_no_panic. Qed.
Print Assumptions C13_no_panic.

Theorem C13_no_panic_normalize : forall rg v, accepted rg -> exists y, normalize rg v = Ok y.
Proof. exact normalize_no_panic. Qed.
Print Assumptions C13_no_panic_normalize.

(** 8-bit colours survive normalisation followed by the tools' [(c * 255.0) as u8]. *)
Theorem C13_u8_exact : forallb u8_roundtrip (map Z.of_nat (seq 0 256)) = true.
Proof. exact u8_exact. Qed.
Print Assumptions C13_u8_exact.

(** Over-strong readings of the property that the code does not satisfy. *)
Theorem C13_zero_bits_at_min_refuted :
  ~ (forall lo hi v y rg, from_min_max lo hi = Ok rg -> B2R64 lo < B2R64 hi -> fin64 v = true ->
       B2R64 v = B2R64 lo -> normalize rg v = Ok y -> bits_of_f32 y = 0%N).
Proof. exact zero_bits_at_min_refuted. Qed.
Print Assumptions C13_zero_bits_at_min_refuted.

Theorem C13_integer_max_gives_one_refuted :
  ~ (forall mn mx y, (mn < mx)%Z ->
       channel_value (mkChannel (Some (NTInteger mn mx)) None None) true (f64_of_Z mx) = Ok y ->
       bits_of_f32 y = f32_one_bits).
Proof. exact integer_max_gives_one_refuted. Qed.
Print Assumptions C13_integer_max_gives_one_refuted.

Theorem C13_limits_whenever_both_given_refuted :
  ~ (forall ch a b, ch_lmin ch = Some a -> ch_lmax ch = Some b -> limits_range ch <> None).
Proof. exact limits_whenever_both_given_refuted. Qed.
Print Assumptions C13_limits_whenever_both_given_refuted.
