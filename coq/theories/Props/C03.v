(** C03 - The reader decodes every well-formed file whatever legal layout was chosen
    (binary side: packetisation, non-data packets, padding, section order and
    position, position of the XML; the XML text is a byte string here, its
    lexical variants and the type defaults are the XML side of the property).
    Statements only; every proof is an [exact] of a lemma proved in Proofs/. *)
From E57 Require Import Base.Prelude Model.Device Model.PagedReader Model.Record Model.Prog
  Model.QueueReader Model.FileBin Model.ReaderOpen Spec.BitSpec Spec.PageSpec Spec.FormatSpec Spec.FileSpec
  Proofs.PagedReaderCache Proofs.QueueReaderProofs Proofs.SpecReader Proofs.SpecC03.

(** For EVERY file the independent, specification-driven encoder can emit - every order of
    blob and compressed-vector sections, the XML before, between or after them, any extra
    padding, and for every compressed vector every legal packetisation (any split of each
    record's byte stream into chunks, unequal per record, empty chunks, values straddling
    packets, index and ignored packets at any position, [legal]) of every scene the format
    can represent ([scene_ok]: any record types, widths 0..64, any number of points) - the
    reader model opens the file, returns exactly the XML bytes and the header fields as
    encoded, and then, after ANY history of page-layer operations on that reader: the raw
    iterator started at the published offset with the published record count returns exactly
    the encoded points (as many, in order, bit-identical); [Blob::read] returns exactly the
    blob bytes.  Section starts relative to page boundaries are covered by the quantifier.
    Hypotheses:
    - [x <> []]: an empty XML text at the very end of the last page cannot be seeked to;
    - [len x <= MAX_XML_SIZE]: the reader refuses longer XML texts (documented limit);
    - [pcs_followed]: no compressed vector is followed by nothing at all (no padding, no
      entry, no page filler): for a vector without packets the data offset would then be the
      end of the file and the reader's seek fails ([C03_needs_pcs_followed]; the real crate
      behaves the same - reported finding);
    - size below 2^64: header fields and offsets are u64. *)
Theorem C03_any_layout : forall (fl : file_layout) (x : list N),
  file_layout_ok fl = true ->
  x <> [] ->
  len x <= MAX_XML_SIZE ->
  pcs_followed fl (len x) (spec_file_filler fl x) = true ->
  len (spec_encode_file fl x) < 2 ^ 64 ->
  let f := spec_encode_file fl x in
  let xo := phys_of_log (xml_start 48 fl (len x)) in
  exists rs d',
    reader_open (dev_init f None) = (d', Ok (rs, mkHeader 1 0 (len f) xo (len x) 1024, x)) /\
    pr_inv 1024 f rs /\
    Forall2 (reads_fsection rs xo) fl (spec_layout_offsets fl (len x)).
Proof. exact spec_file_read_by_model. Qed.

(** The core: one section, every legal layout, anywhere in a file. *)
Theorem C03_section_any_layout :
  forall (proto : list dtype) (points : list (list rvalue)) (lay : layout) (pre post log : list N) (fuel : nat),
  scene_ok proto points = true -> legal proto points lay = true ->
  log = pre ++ encode_section (phys_of_log (len pre + 32)) lay ++ post ->
  len pre mod 4 = 0 -> post <> [] ->
  (length points < fuel)%nat ->
  len log mod 1020 = 0 -> phys_of_log (len log) < 2 ^ 64 ->
  snd (rrun_spec log (rbind (raw_new (phys_of_log (len pre)) (len points) proto)
                            (fun it => raw_collect fuel (len log) it [])) 0) = Ok points.
Proof. exact qr_decodes_any_layout. Qed.

(** [pcs_followed] cannot be dropped: a zero-record vector without packets that ends the file
    exactly at the end of the last page; every other hypothesis holds and [raw_new] fails. *)
Theorem C03_needs_pcs_followed :
  let fl := [FXml; FPc [TSingle] [] [] 0] in let x := repeat 32 940 in
  file_layout_ok fl = true /\ x <> [] /\ len x <= MAX_XML_SIZE /\
  len (spec_encode_file fl x) = 1024 /\
  pcs_followed fl (len x) (spec_file_filler fl x) = false /\
  spec_layout_offsets fl (len x) = [phys_of_log 48; phys_of_log (48 + 940)] /\
  match reader_open (dev_init (spec_encode_file fl x) None) with
  | (_, Ok (rs, _, _)) => snd (rrun (raw_new (phys_of_log (48 + 940)) 0 [TSingle]) rs) = Err ERead
  | _ => False
  end.
Proof. exact spec_file_read_needs_pcs_followed. Qed.

(** Non-vacuity, by the theorem and by evaluation: blob of 1019 bytes with 8 bytes of padding,
    XML in the middle, a vector with a 0-bit, an 11-bit, a 64-bit and a double record in a
    layout with index and ignored packets, empty chunks and straddling values, an empty vector. *)
Theorem C03_instance :
  let f := spec_encode_file SpecReadInstance.fl SpecReadInstance.xml in
  len f = 2048 /\
  exists rs d',
    reader_open (dev_init f None) = (d', Ok (rs, mkHeader 1 0 2048 1096 6 1024, SpecReadInstance.xml)) /\
    pr_inv 1024 f rs /\
    Forall2 (reads_fsection rs 1096) SpecReadInstance.fl (spec_layout_offsets SpecReadInstance.fl 6).
Proof. exact spec_file_read_by_model_instance. Qed.

Theorem C03_instance_computed :
  let fl := SpecReadInstance.fl in let x := SpecReadInstance.xml in
  match reader_open (dev_init (spec_encode_file fl x) None) with
  | (_, Ok (rs, h, x')) =>
      x' = x /\ h = mkHeader 1 0 2048 1096 6 1024 /\
      spec_layout_offsets fl (len x) = [48; 1096; 1104; 1288] /\
      map (fun so => read_entry rs (fst so) (snd so)) (combine fl (spec_layout_offsets fl (len x)))
      = [inl (Ok SpecReadInstance.blob); inl (Ok []); inr (Ok SpecReadInstance.pts); inr (Ok [])]
  | _ => False
  end.
Proof. exact spec_file_read_computed. Qed.

Print Assumptions C03_any_layout.
Print Assumptions C03_section_any_layout.
Print Assumptions C03_needs_pcs_followed.
Print Assumptions C03_instance.
Print Assumptions C03_instance_computed.
