(** C03 - The reader decodes every well-formed file whatever legal layout was chosen
    (binary side: packetisation, non-data packets, padding, section order and
    position, position of the XML; the XML text is a byte string here, its
    lexical variants and the type defaults are the XML side of the property).
    Statements only; every proof is an [exact] of a lemma proved in Proofs/. *)
From E57 Require Import Base.Prelude Model.Device Model.PagedReader Model.Record Model.Prog
  Model.QueueReader Model.FileBin Model.ReaderOpen Spec.BitSpec Spec.PageSpec Spec.FormatSpec Spec.FileSpec
  Proofs.PagedReaderCache Proofs.QueueReaderProofs Proofs.SpecReaderTail Proofs.SpecReader Proofs.SpecC03.
From Coq Require Import Permutation.
From E57 Require Import Base.Floats Model.Meta Model.MetaFile Model.XmlTree Model.XmlParse Model.XmlExtract
  Spec.FileSpecXml Spec.XmlRender Proofs.SpecXml Proofs.SpecXmlExample Proofs.SpecTypeDefaults Proofs.SpecTypeDefaults2.
From E57 Require Import Model.XmlDepth Model.ReaderFull Spec.MetaTree Spec.XeMetaOk Spec.XgWriterOk Proofs.SpecMetaTree.

(** For EVERY file the independent, specification-driven encoder can emit - every order of
    blob and compressed-vector sections, the XML before, between or after them, any extra
    padding, and for every compressed vector every legal packetisation (any split of each
    record's byte stream into chunks, unequal per record, empty chunks, values straddling
    packets, index and ignored packets at any position, [legal]) of every scene the format
    can represent ([scene_ok]: any record types, widths 0..64, any number of points) - the
    reader model opens the file, returns exactly the XML bytes and the header fields as
    encoded, and then, after ANY history of page-layer operations on that reader: the raw
    iterator started at the published offset with the published record count returns exactly
    the encoded points (as many, in order, bit-identical); [Blob::read] returns exactly the
    blob bytes.  Section starts relative to page boundaries are covered by the quantifier.
    Hypotheses:
    - [x <> []]: an empty XML text at the very end of the last page cannot be seeked to;
    - [len x <= MAX_XML_SIZE]: the reader refuses longer XML texts (documented limit);
    - size below 2^64: header fields and offsets are u64. *)
Theorem C03_any_layout : forall (fl : file_layout) (x : list N),
  file_layout_ok fl = true ->
  x <> [] ->
  len x <= MAX_XML_SIZE ->
  len (spec_encode_file fl x) < 2 ^ 64 ->
  let f := spec_encode_file fl x in
  let xo := phys_of_log (xml_start 48 fl (len x)) in
  exists rs d',
    reader_open (dev_init f None) = (d', Ok (rs, mkHeader 1 0 (len f) xo (len x) 1024, x)) /\
    pr_inv 1024 f rs /\
    Forall2 (reads_fsection rs xo) fl (spec_layout_offsets fl (len x)).
Proof. exact spec_file_read_by_model. Qed.

(** The core: one section, every legal layout, anywhere in a file. *)
Theorem C03_section_any_layout :
  forall (proto : list dtype) (points : list (list rvalue)) (lay : layout) (pre post log : list N) (fuel : nat),
  scene_ok proto points = true -> legal proto points lay = true ->
  log = pre ++ encode_section (phys_of_log (len pre + 32)) lay ++ post ->
  len pre mod 4 = 0 -> post <> [] ->
  (length points < fuel)%nat ->
  len log mod 1020 = 0 -> phys_of_log (len log) < 2 ^ 64 ->
  snd (rrun_spec log (rbind (raw_new (phys_of_log (len pre)) (len points) proto)
                            (fun it => raw_collect fuel (len log) it [])) 0) = Ok points.
Proof. exact qr_decodes_any_layout. Qed.

(** A section may be the very last thing of the file.  The former hypothesis [pcs_followed]
    is gone: an empty vector is not seeked to ([qr_decodes_empty], /repo 2adadd6 - before, the
    real reader failed on it: reported finding), a non-empty one always has a data packet
    ([Proofs/SpecReaderTail.v]).  The former counterexample, now read: a zero-record vector
    without packets that ends the file exactly at the end of the last page. *)
Theorem C03_vector_at_file_end :
  let fl := [FXml; FPc [TSingle] [] [] 0] in let x := repeat 32 940 in
  file_layout_ok fl = true /\ x <> [] /\ len x <= MAX_XML_SIZE /\
  len (spec_encode_file fl x) = 1024 /\
  pcs_followed fl (len x) (spec_file_filler fl x) = false /\
  spec_layout_offsets fl (len x) = [phys_of_log 48; phys_of_log (48 + 940)] /\
  match reader_open (dev_init (spec_encode_file fl x) None) with
  | (_, Ok (rs, _, _)) =>
      snd (rrun (rbind (raw_new (phys_of_log (48 + 940)) 0 [TSingle])
                       (fun it => raw_collect 1 (pr_log_size rs) it [])) rs) = Ok []
  | _ => False
  end.
Proof. exact spec_file_read_vector_at_file_end. Qed.

(** The core without "something follows the section". *)
Theorem C03_section_any_layout_at_end :
  forall (proto : list dtype) (points : list (list rvalue)) (lay : layout) (pre post log : list N) (fuel : nat),
  scene_ok proto points = true -> legal proto points lay = true ->
  log = pre ++ encode_section (phys_of_log (len pre + 32)) lay ++ post ->
  len pre mod 4 = 0 ->
  (length points < fuel)%nat ->
  len log mod 1020 = 0 -> phys_of_log (len log) < 2 ^ 64 ->
  snd (rrun_spec log (rbind (raw_new (phys_of_log (len pre)) (len points) proto)
                            (fun it => raw_collect fuel (len log) it [])) 0) = Ok points.
Proof. exact qr_decodes_any_layout_tail. Qed.

(** Non-vacuity, by the theorem and by evaluation: blob of 1019 bytes with 8 bytes of padding,
    XML in the middle, a vector with a 0-bit, an 11-bit, a 64-bit and a double record in a
    layout with index and ignored packets, empty chunks and straddling values, an empty vector. *)
Theorem C03_instance :
  let f := spec_encode_file SpecReadInstance.fl SpecReadInstance.xml in
  len f = 2048 /\
  exists rs d',
    reader_open (dev_init f None) = (d', Ok (rs, mkHeader 1 0 2048 1096 6 1024, SpecReadInstance.xml)) /\
    pr_inv 1024 f rs /\
    Forall2 (reads_fsection rs 1096) SpecReadInstance.fl (spec_layout_offsets SpecReadInstance.fl 6).
Proof. exact spec_file_read_by_model_instance. Qed.

Theorem C03_instance_computed :
  let fl := SpecReadInstance.fl in let x := SpecReadInstance.xml in
  match reader_open (dev_init (spec_encode_file fl x) None) with
  | (_, Ok (rs, h, x')) =>
      x' = x /\ h = mkHeader 1 0 2048 1096 6 1024 /\
      spec_layout_offsets fl (len x) = [48; 1096; 1104; 1288] /\
      map (fun so => read_entry rs (fst so) (snd so)) (combine fl (spec_layout_offsets fl (len x)))
      = [inl (Ok SpecReadInstance.blob); inl (Ok []); inr (Ok SpecReadInstance.pts); inr (Ok [])]
  | _ => False
  end.
Proof. exact spec_file_read_computed. Qed.

(** The XML plugged in: a file of the independent encoder whose XML text is ANY rendering [c]
    ([render_choices]: attribute order and interleaving with namespace declarations, quote style,
    character references, blanks inside tags, self-closing or not, CDATA or escaped text, XML
    declaration, byte order mark, blanks between document-level nodes) of a well-formed tree [t]
    that states the placements of the layout.  The reader model returns the XML bytes; parsing
    them gives [t] back whatever [c] was; extraction gives the metadata of [t]; and reading each
    extracted descriptor returns exactly the content the encoder placed there. *)
Theorem C03_any_layout_any_rendering : forall (pf64 pf32 : xstr -> option N) (fdiv : N -> Z -> N)
    (fl : file_layout) (t : xdoc) (m : file_meta) (c : render_choices),
  file_layout_ok fl = true ->
  wf_doc t = true ->
  extract_all pf64 pf32 fdiv t = Ok m ->
  let x := render c t in
  Permutation (meta_descriptors m) (layout_descriptors 48 fl (len x)) ->
  len x <= MAX_XML_SIZE ->
  len (spec_encode_file fl x) < 2 ^ 64 ->
  let f := spec_encode_file fl x in
  exists rs d',
    reader_open (dev_init f None)
    = (d', Ok (rs, mkHeader 1 0 (len f) (phys_of_log (xml_start 48 fl (len x))) (len x) 1024, x)) /\
    pr_inv 1024 f rs /\
    xml_parse x = ParseOk t /\
    FileSpecXml.xml_meta pf64 pf32 fdiv x = Some m /\
    forall d, In d (meta_descriptors m) ->
      exists cnt, In (d, cnt) (combine (layout_descriptors 48 fl (len x)) (layout_contents fl)) /\
                  desc_reads rs d cnt.
Proof. exact spec_file_read_any_rendering. Qed.

(** The top-level statement, free of hypotheses about the tree and the extractor.  For EVERY
    metadata value [m] the two XML slices accept ([writer_meta_ok], [meta_xml_ok]: its tree is
    renderable, slice xg; [meta_ok], [float_oracle_ok]: extraction inverts [tree_of], slice xe),
    every rendering [c] of its tree, every file layout [fl] (section order, XML position,
    padding, every legal packetisation of every point cloud) whose placements [m] states: the
    FULL reader ([reader_new]: header, pages, UTF-8 check, nesting-depth guard, parser,
    extractors) returns exactly the reader's view of [m] and, for every descriptor in it, after
    any page-layer history, exactly the encoded points / blob bytes.  Remaining hypotheses: the
    rendering is UTF-8 (a boolean on the bytes; that [render] keeps UTF-8 strings UTF-8 is not
    proved), the placement equation, the documented XML size limit, the u64 size bound. *)
Theorem C03_any_producer :
  forall (pf64 pf32 : xstr -> option N) (fdiv : N -> Z -> N)
         (fl : file_layout) (m : file_meta) (c : render_choices),
  file_layout_ok fl = true ->
  writer_meta_ok m = true -> meta_xml_ok m = true ->
  XeMetaOk.meta_ok m = true -> float_oracle_ok pf64 pf32 m = true ->
  let x := render c (MetaTree.tree_of m) in
  forallb (fun b => b <? 256) x && utf8_valid x = true ->
  Permutation (meta_descriptors m) (layout_descriptors 48 fl (len x)) ->
  len x <= MAX_XML_SIZE ->
  len (spec_encode_file fl x) < 2 ^ 64 ->
  let f := spec_encode_file fl x in
  exists rs d',
    reader_new pf64 pf32 fdiv (dev_init f None)
    = (d', Ok (rs, mkHeader 1 0 (len f) (phys_of_log (xml_start 48 fl (len x))) (len x) 1024, x, reader_view m)) /\
    pr_inv 1024 f rs /\
    forall d, In d (meta_descriptors (reader_view m)) ->
      exists cnt, In (d, cnt) (combine (layout_descriptors 48 fl (len x)) (layout_contents fl)) /\
                  desc_reads rs d cnt.
Proof. exact spec_file_read_any_producer. Qed.

Theorem C03_any_producer_instance : forall c, c = writer_choices \/ c = RenderInstance.other_choices ->
  let m := RenderInstance.meta2 in
  let x := render c (MetaTree.tree_of m) in
  let f := spec_encode_file RenderInstance.fl x in
  exists rs d',
    reader_new XmlInstance.pf XmlInstance.pf XmlInstance.fd (dev_init f None)
    = (d', Ok (rs, mkHeader 1 0 (len f) (phys_of_log (xml_start 48 RenderInstance.fl (len x))) (len x) 1024, x, reader_view m)) /\
    pr_inv 1024 f rs /\
    forall d, In d (meta_descriptors (reader_view m)) ->
      exists cnt, In (d, cnt) (combine (layout_descriptors 48 RenderInstance.fl (len x)) (layout_contents RenderInstance.fl)) /\
                  desc_reads rs d cnt.
Proof. exact spec_file_read_any_producer_instance. Qed.

(** Independence of the rendering, as an equality between any two choices: same tree, same
    metadata, same descriptors; with the XML as the last entry no placement depends on the
    length of the XML, so the placement hypothesis above is the same statement for both. *)
Theorem C03_rendering_independent : forall (pf64 pf32 : xstr -> option N) (fdiv : N -> Z -> N)
    (fl : file_layout) (t : xdoc) (m : file_meta) (c1 c2 : render_choices),
  wf_doc t = true -> extract_all pf64 pf32 fdiv t = Ok m ->
  xml_parse (render c1 t) = xml_parse (render c2 t) /\
  FileSpecXml.xml_meta pf64 pf32 fdiv (render c1 t) = FileSpecXml.xml_meta pf64 pf32 fdiv (render c2 t) /\
  dx_of pf64 pf32 fdiv (render c1 t) = dx_of pf64 pf32 fdiv (render c2 t) /\
  (forall l1, fl = l1 ++ [FXml] -> filter is_xml l1 = [] ->
     layout_descriptors 48 fl (len (render c1 t)) = layout_descriptors 48 fl (len (render c2 t))).
Proof. exact spec_file_read_rendering_independent. Qed.

(** Non-vacuity: one tree, the writer's rendering and a very different one (single quotes,
    hexadecimal references, blanks in tags, no declaration, byte order mark, no self-closing
    tags, no CDATA), both read back. *)
Theorem C03_any_rendering_instance : forall c, c = writer_choices \/ c = RenderInstance.other_choices ->
  let x := render c (MetaTree.tree_of RenderInstance.meta2) in
  let f := spec_encode_file RenderInstance.fl x in
  exists rs d',
    reader_open (dev_init f None)
    = (d', Ok (rs, mkHeader 1 0 (len f) (phys_of_log (xml_start 48 RenderInstance.fl (len x))) (len x) 1024, x)) /\
    pr_inv 1024 f rs /\
    xml_parse x = ParseOk (MetaTree.tree_of RenderInstance.meta2) /\
    FileSpecXml.xml_meta XmlInstance.pf XmlInstance.pf XmlInstance.fd x = Some RenderInstance.meta2' /\
    forall d, In d (meta_descriptors RenderInstance.meta2') ->
      exists cnt, In (d, cnt) (combine (layout_descriptors 48 RenderInstance.fl (len x)) (layout_contents RenderInstance.fl)) /\
                  desc_reads rs d cnt.
Proof. exact spec_file_read_any_rendering_instance. Qed.

(** Omitted optional type attributes take their defaults: a prototype element with the
    attribute omitted extracts to the same type as the element with the default written out
    ([add_attr a v n] appends the attribute; [attribute a n = None] says it was omitted). *)
Theorem C03_default_minimum : forall (pf64 pf32 : xstr -> option N) (n : xnode),
  attribute TYPE n = Some s_Integer \/ attribute TYPE n = Some s_ScaledInteger ->
  attribute s_minimum n = None ->
  data_type_from_node pf64 pf32 (add_attr s_minimum s_i64_min n) = data_type_from_node pf64 pf32 n.
Proof. exact default_minimum. Qed.

Theorem C03_default_maximum : forall (pf64 pf32 : xstr -> option N) (n : xnode),
  attribute TYPE n = Some s_Integer \/ attribute TYPE n = Some s_ScaledInteger ->
  attribute s_maximum n = None ->
  data_type_from_node pf64 pf32 (add_attr s_maximum s_i64_max n) = data_type_from_node pf64 pf32 n.
Proof. exact default_maximum. Qed.

(** scale 1 and offset 0: equal up to the source text the model keeps with a float (the
    written-out "1" has text "1", the default has none); the oracle must read "1" as 1.0, "0" as 0.0 *)
Theorem C03_default_scale : forall (pf64 pf32 : xstr -> option N) (n : xnode),
  attribute TYPE n = Some s_ScaledInteger -> attribute s_scale n = None ->
  pf64 s_one = Some f64_one_bits ->
  res_map erase_text (data_type_from_node pf64 pf32 (add_attr s_scale s_one n))
  = res_map erase_text (data_type_from_node pf64 pf32 n).
Proof. exact default_scale_bits. Qed.

Theorem C03_default_offset : forall (pf64 pf32 : xstr -> option N) (n : xnode),
  attribute TYPE n = Some s_ScaledInteger -> attribute s_offset n = None ->
  pf64 s_zero = Some 0 ->
  res_map erase_text (data_type_from_node pf64 pf32 (add_attr s_offset s_zero n))
  = res_map erase_text (data_type_from_node pf64 pf32 n).
Proof. exact default_offset_bits. Qed.

Theorem C03_default_precision : forall (pf64 pf32 : xstr -> option N) (n : xnode),
  attribute TYPE n = Some s_Float -> attribute s_precision n = None ->
  data_type_from_node pf64 pf32 (add_attr s_precision s_double n) = data_type_from_node pf64 pf32 n.
Proof. exact default_precision. Qed.

(** Float limits (no minimum/maximum is the default) do not touch the binary type. *)
Theorem C03_float_limits_irrelevant : forall (pf64 pf32 : xstr -> option N) (n : xnode) (tmin tmax : xstr),
  attribute TYPE n = Some s_Float ->
  limit_parses pf64 pf32 n tmin -> limit_parses pf64 pf32 n tmax ->
  res_map dtype_of (data_type_from_node pf64 pf32 (add_attr s_maximum tmax (add_attr s_minimum tmin n)))
  = res_map dtype_of (data_type_from_node pf64 pf32 n).
Proof. exact float_limits_irrelevant. Qed.

Print Assumptions C03_any_layout.
Print Assumptions C03_section_any_layout.
Print Assumptions C03_vector_at_file_end.
Print Assumptions C03_section_any_layout_at_end.
Print Assumptions C03_instance.
Print Assumptions C03_instance_computed.
Print Assumptions C03_any_layout_any_rendering.
Print Assumptions C03_rendering_independent.
Print Assumptions C03_any_rendering_instance.
Print Assumptions C03_default_minimum.
Print Assumptions C03_default_maximum.
Print Assumptions C03_default_scale.
Print Assumptions C03_default_offset.
Print Assumptions C03_default_precision.
Print Assumptions C03_float_limits_irrelevant.
Print Assumptions C03_any_producer.
Print Assumptions C03_any_producer_instance.
