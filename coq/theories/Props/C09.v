(** C09 - Reading untrusted bytes uses bounded time and memory per call.
    Statements only; every proof is an [exact] of a lemma proved in Proofs/TotFuel*.v, Proofs/TotQueue*.v.
    What is proved is about the model: termination of every fuelled read-side loop with the fuel the model
    gives it ("more fuel changes nothing": the out-of-fuel branch is never the reason for a result), progress
    of the packet reader, the number of points an iteration can yield, and the number of values the queues
    can hold as a function of the bytes consumed, and the number of bytes the bit buffers of the packet
    reader hold between calls.  Allocator behaviour and wall time are measured by the
    check, not proved. *)
From E57 Require Import Base.Prelude Model.Device Model.PagedReader Model.BsRead Model.Record Model.Prog
  Model.QueueReader Model.FileBin Spec.PageReadSpec
  Proofs.PagedReaderCache Proofs.ReaderSessions
  Proofs.TotFuelDev Proofs.TotFuelPaged Proofs.TotFuelRaw Proofs.TotQueueBits Proofs.TotQueueMain
  Proofs.TotQueueStreams.

(** * Termination: the fuel of every loop suffices *)

(** filling the page buffer from the raw device (any device, faulty or not) *)
Theorem C09_fuel_pr_fill_loop : forall (extra : nat) done want (s : pr),
  pr_fill_loop (S (N.to_nat want) + extra) done want s = pr_fill_loop (S (N.to_nat want)) done want s.
Proof. exact fuel_pr_fill_loop. Qed.

(** [read_exact] on the raw device (header, [get_u64]) *)
Theorem C09_fuel_d_read_exact : forall (extra : nat) n (d : dev),
  d_read_exact_loop (S (N.to_nat n) + extra) n [] d = d_read_exact n d.
Proof. exact fuel_d_read_exact. Qed.

(** [read_exact] over pages, on every reader state reachable on a fault-free device *)
Theorem C09_fuel_pr_read_exact : forall ps phys (s : pr) (extra : nat) n, pr_inv ps phys s ->
  pr_read_exact_loop (S (N.to_nat (N.min n (pr_log_size s))) + extra) n [] s = pr_read_exact n s.
Proof. exact fuel_pr_read_exact. Qed.

(** the copy loop of [Blob::read] *)
Theorem C09_fuel_copy_loop : forall ps phys (s : pr) (extra : nat) want, pr_inv ps phys s ->
  rrun (copy_loop (S (N.to_nat (N.min want (pr_log_size s))) + extra) want []) s
  = rrun (copy_loop (S (N.to_nat (N.min want (pr_log_size s)))) want []) s.
Proof. exact fuel_copy_loop. Qed.

(** the page loop of [validate_crc] *)
Theorem C09_fuel_validate_loop : forall ps phys (s : pr) (extra : nat), pr_inv ps phys s ->
  rrun (validate_loop (S (S (N.to_nat (pr_pages s))) + extra) ps) s
  = rrun (validate_loop (S (S (N.to_nat (pr_pages s)))) ps) s.
Proof. exact fuel_validate_loop. Qed.

(** the unpacking loops of bitpack.rs *)
Theorem C09_fuel_unpack_loop : forall (extra : nat) bits mk (s : bsr) acc,
  bits <> 0 -> br_off s <= 8 * len (br_buf s) ->
  unpack_loop (unpack_fuel s bits + extra) bits mk s acc = unpack_loop (unpack_fuel s bits) bits mk s acc.
Proof. exact fuel_unpack_loop. Qed.

(** every successful [advance] consumes at least four bytes and ends inside the file *)
Theorem C09_progress_qr_advance : forall ps phys (s : pr) q s' q',
  pr_inv ps phys s -> rrun (qr_advance q) s = (s', Ok q') ->
  pr_off s + 4 <= pr_off s' /\ pr_off s' <= pr_log_size s.
Proof. exact progress_qr_advance. Qed.

(** hence the refill loop of [next] never runs out of the fuel log_size / 4 + 2 *)
Theorem C09_fuel_refill : forall ps phys (s : pr) q (extra : nat),
  pr_inv ps phys s ->
  rrun (refill (refill_fuel (pr_log_size s) + extra) q) s = rrun (refill (refill_fuel (pr_log_size s)) q) s.
Proof. exact fuel_refill. Qed.

(** and records - read + 1 calls of [next] always reach [Done] or an error *)
Theorem C09_fuel_raw_collect : forall (extra : nat) (s : pr) ls it acc,
  rrun (raw_collect (S (N.to_nat (ri_records it - ri_read it)) + extra) ls it acc) s
  = rrun (raw_collect (S (N.to_nat (ri_records it - ri_read it))) ls it acc) s.
Proof. exact fuel_raw_collect. Qed.

(** * Count: an iteration never yields more points than declared *)

Theorem C09_count_done : forall ls it,
  (ri_records it <=? ri_read it) = true -> raw_next ls it = RRet (it, Done).
Proof. exact count_raw_next. Qed.

Theorem C09_count_item : forall (s : pr) ls it s' it' p,
  rrun (raw_next ls it) s = (s', Ok (it', Item p)) ->
  ri_read it < ri_records it /\ ri_read it' = ri_read it + 1 /\ ri_records it' = ri_records it.
Proof. exact count_raw_next_item. Qed.

Theorem C09_count : forall fuel (s : pr) ls fo recs proto s' pts,
  rrun (op_raw_all fuel ls fo recs proto) s = (s', Ok pts) -> len pts <= recs.
Proof. exact count_raw_all. Qed.

(** * Memory: values held in the queues versus bytes consumed *)

(** one [advance] preserves the bound (sized records: one value costs at least one input bit;
    zero-width records are filled up to the minimum over the sized ones) *)
Theorem C09_qbound_advance : forall ps phys (s : pr) q s' q' off0,
  pr_inv ps phys s -> qshape q -> qbound off0 q (pr_off s) ->
  rrun (qr_advance q) s = (s', Ok q') ->
  qshape q' /\ qbound off0 q' (pr_off s') /\ q_proto q' = q_proto q.
Proof. exact qbound_advance. Qed.

(** every queue reader reachable from [qr_new] by [advance] and [pop_point] steps holds at most
    8 * consumed values per queue AND in total, whatever the prototype (consumed = bytes of the logical
    stream read since the section's data offset); the queues of zero-width records are empty.
    (Before repair 803272f of the crate the total was 8 * (1 + zero-width records) * consumed.) *)
Theorem C09_queue_bound : forall ps phys off0 q s, qreach ps phys off0 q s ->
  pr_inv ps phys s /\ off0 <= pr_off s /\
  Forall (fun x => len x <= 8 * (pr_off s - off0)) (q_queues q) /\
  total_values q <= 8 * (pr_off s - off0) /\
  zero_bounded 0 (q_proto q) (q_queues q).
Proof. exact queue_bound. Qed.

(** the states of the raw iterator are such states *)
Theorem C09_raw_next_reach : forall ps phys off0 ls it s s' it' o,
  qreach ps phys off0 (ri_q it) s -> rrun (raw_next ls it) s = (s', Ok (it', o)) ->
  qreach ps phys off0 (ri_q it') s'.
Proof. exact raw_next_qreach. Qed.

(** records of zero width hold no values: 116 consumed bytes of a packet for one 1-bit record and three
    zero-width records leave 800 values in the first queue and none in the others *)
Theorem C09_zero_width_no_values :
  (exists d, pr_new 1024 (dev_init amp_phys None) = (d, Ok amp_s0)) /\
  rrun (qr_new 48 10 amp_proto) amp_s0 = (amp_s1, Ok amp_q0) /\
  rrun (qr_advance amp_q0) amp_s1 = (amp_s2, Ok amp_q1) /\
  pr_off amp_s1 = 80 /\ pr_off amp_s2 = 80 + (14 + amp_k + 2) /\
  zero_count (q_proto amp_q1) = 3 /\
  total_values amp_q0 = 0 /\ total_values amp_q1 = 8 * amp_k /\
  map (@length rvalue) (q_queues amp_q1) = [800; 0; 0; 0]%nat.
Proof. exact zero_width_no_values. Qed.

(** * Memory: bytes held in the bit buffers of the packet reader

    In every reachable state the bit buffer of a record of zero bit size is empty (it is never
    appended to; before repair 7dd87aa of the crate it held every byte any data packet had delivered
    for the record, and each append copied all of it).  The bit buffer of any other record holds fewer
    unread bits than one value, in at most (bit_size + 6) / 8 leftover bytes (8 for 64 bits) plus the
    chunk of the last data packet (a buffer is trimmed by the next append only); [m] bounds that chunk
    by the largest number of bytes a single [advance] has consumed, and one more [advance] keeps the
    bound with the maximum of [m] and what it consumes.  (In the crate a chunk has at most 65535 bytes,
    its length being a u16; the model reads the length as a little-endian number of two list elements,
    which the device model does not restrict to 0..255.)  Nothing grows with the number of packets. *)
Theorem C09_stream_buffers_bounded : forall ps phys off0 q s, qreach ps phys off0 q s ->
  exists m, m <= pr_off s - off0 /\
    Forall2 (fun t b =>
      if bit_size t =? 0 then br_buf b = [] /\ br_off b = 0
      else br_off b <= 8 * len (br_buf b) /\
           8 * len (br_buf b) - br_off b < bit_size t /\
           len (br_buf b) <= (bit_size t + 6) / 8 + m) (q_proto q) (q_streams q) /\
    forall s' q', rrun (qr_advance q) s = (s', Ok q') ->
      pr_off s <= pr_off s' /\
      Forall2 (fun t b =>
        if bit_size t =? 0 then br_buf b = [] /\ br_off b = 0
        else br_off b <= 8 * len (br_buf b) /\
             8 * len (br_buf b) - br_off b < bit_size t /\
             len (br_buf b) <= (bit_size t + 6) / 8 + N.max m (pr_off s' - pr_off s))
        (q_proto q') (q_streams q').
Proof. exact stream_buffers_bounded. Qed.

Print Assumptions C09_fuel_pr_fill_loop.
Print Assumptions C09_fuel_d_read_exact.
Print Assumptions C09_fuel_pr_read_exact.
Print Assumptions C09_fuel_copy_loop.
Print Assumptions C09_fuel_validate_loop.
Print Assumptions C09_fuel_unpack_loop.
Print Assumptions C09_progress_qr_advance.
Print Assumptions C09_fuel_refill.
Print Assumptions C09_fuel_raw_collect.
Print Assumptions C09_count_done.
Print Assumptions C09_count_item.
Print Assumptions C09_count.
Print Assumptions C09_qbound_advance.
Print Assumptions C09_queue_bound.
Print Assumptions C09_raw_next_reach.
Print Assumptions C09_zero_width_no_values.
Print Assumptions C09_stream_buffers_bounded.
