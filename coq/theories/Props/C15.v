(** C15 - an interrupted write is never mistaken for a complete file.

    [crash_prog is xml] is the whole writer program (placeholder header, sections, XML, header
    patch); [trace_of p] the sequence of device writes (position, bytes) it issues on an empty
    fault-free device, Drop included, oldest first; [crash_image tr n cut] the device content when
    the first [n] writes are complete and write number [n] is cut after [cut] bytes (writes reach
    the device in issue order); [final_image p] the completed file; [open_result img] the result
    of [reader_open] (E57Reader::new up to and including the XML bytes) on the image.
    The model's reader stops at the XML bytes: the real reader then parses them, and rejects the
    empty document and every proper prefix [take k xml] with [k + 256 <= len xml] of the writer's
    XML (root element not closed; checked on the real code by tools/props/c15.py). *)
From E57 Require Import Base.Prelude Model.Device Model.PagedWriter Model.PagedReader Model.Prog
  Model.FileBin Model.ReaderOpen Model.CrashImage.
From E57 Require Import Spec.PageReadSpec.
From E57 Require Import Model.MetaFile Model.XmlTree Model.XmlParse Model.XmlGen Model.XmlExtract Model.ReaderFull
  Spec.MetaTree Spec.XgWriterOk.
From E57 Require Import Proofs.CrashLog Proofs.CrashOpen Proofs.CrashTrace Proofs.CrashMain Proofs.CrashBridge
  Proofs.CrashXml Proofs.CrashApiSteps Proofs.CrashApi Proofs.CrashApiXml.
From E57 Require Import Model.WriterApi Model.WriterFull.

(** the completed file is the replay of the whole write sequence *)
Theorem C15_replay : forall (A : Type) (p : wprog A), final_image p = apply_writes (trace_of p).
Proof. exact final_image_replay. Qed.
Print Assumptions C15_replay.

(** [reader_open] never panics, whatever the device holds *)
Theorem C15_open_no_panic : forall img : list N, open_result img <> Panic.
Proof. exact reader_open_no_panic. Qed.
Print Assumptions C15_open_no_panic.

(** [reader_open] accepts only a non-zero whole number of pages whose page 0 has a valid checksum
    (the header fields it uses are read through the checksum layer) *)
Theorem C15_open_ok_shape : forall img s h x, open_result img = Ok (s, h, x) ->
  len img <> 0 /\ len img mod 1024 = 0 /\ page_ok 1024 (page_at 1024 img 0) = true /\
  header_parse (take 48 img) = Ok h.
Proof. exact open_ok_shape. Qed.
Print Assumptions C15_open_ok_shape.

(** every image from before the final write of page 0 (write number [length tr - 2], the header
    patch at the very end of finalize; this includes every image from before the finalize call):
    rejected, or the XML read is empty *)
Theorem C15_before_finalize : forall (is : list item) (xml : list N) (n cut : nat),
  let tr := trace_of (crash_prog is xml) in
  (n + 2 < length tr)%nat ->
  match open_result (crash_image tr n cut) with
  | Ok (_, _, x) => x = []
  | Err _ => True
  | Panic => False
  end.
Proof. exact before_final_write. Qed.
Print Assumptions C15_before_finalize.

(** a program that did not complete (a section writer returned an error) *)
Theorem C15_failed_run : forall (is : list item) (xml : list N) (n cut : nat),
  snd (wrun (crash_prog is xml) pw_fresh) <> Ok tt ->
  match open_result (crash_image (trace_of (crash_prog is xml)) n cut) with
  | Ok (_, _, x) => x = []
  | Err _ => True
  | Panic => False
  end.
Proof. exact failed_run_rejected. Qed.
Print Assumptions C15_failed_run.

(** the writer dropped without the top-level finalize: every image, the final one included *)
Theorem C15_unfinalized : forall (is : list item) (n cut : nat),
  match open_result (crash_image (trace_of (unfinalized_prog is)) n cut) with
  | Ok (_, _, x) => x = []
  | Err _ => True
  | Panic => False
  end.
Proof. exact unfinalized_rejected. Qed.
Print Assumptions C15_unfinalized.

(** the final write of page 0 torn at any byte: rejected; or the XML bytes returned are the first
    [k] bytes of the XML, where [k] is the whole length, zero, or at least 256 short of it; and
    when the whole XML is returned the image is the completed file *)
Theorem C15_torn_final : forall (is : list item) (xml : list N),
  let p := crash_prog is xml in
  let tr := trace_of p in
  xml <> [] -> len (final_image p) < 2 ^ 64 -> forall cut : nat,
  match open_result (crash_image tr (length tr - 2) cut) with
  | Panic => False
  | Err _ => True
  | Ok (_, _, xr) =>
      (exists k, k <= len xml /\ xr = take k xml /\ (k = len xml \/ k = 0 \/ k + 256 <= len xml)) /\
      (xr = xml -> crash_image tr (length tr - 2) cut = final_image p /\ snd (wrun p pw_fresh) = Ok tt)
  end.
Proof. exact torn_final_write. Qed.
Print Assumptions C15_torn_final.

(** the writes after it (the flush of Drop) rewrite what is there *)
Theorem C15_after : forall (is : list item) (xml : list N) (n cut : nat),
  let p := crash_prog is xml in
  snd (wrun p pw_fresh) = Ok tt -> (length (trace_of p) <= n + 1)%nat ->
  crash_image (trace_of p) n cut = final_image p.
Proof. exact after_final_write. Qed.
Print Assumptions C15_after.

(** packaged: for EVERY crash image of the whole program, [reader_open] fails or returns a prefix
    of the XML (whole, empty, or at least 256 bytes short); an image on which it returns the whole
    XML is the completed file byte for byte (and the program had completed) *)
Theorem C15_accepted_is_complete : forall (is : list item) (xml : list N),
  let p := crash_prog is xml in
  let tr := trace_of p in
  xml <> [] -> len (final_image p) < 2 ^ 64 -> forall n cut : nat,
  match open_result (crash_image tr n cut) with
  | Panic => False
  | Err _ => True
  | Ok (_, _, xr) =>
      (exists k, k <= len xml /\ xr = take k xml /\ (k = len xml \/ k = 0 \/ k + 256 <= len xml)) /\
      (xr = xml -> crash_image tr n cut = final_image p /\ snd (wrun p pw_fresh) = Ok tt)
  end.
Proof. exact accepted_is_complete. Qed.
Print Assumptions C15_accepted_is_complete.

(** with the XML layer: [xml] is the writer's XML for the metadata [m] ([gen_root]); a crash image
    that the FULL reader accepts - [reader_open] returns bytes [x] and the XML parser model accepts
    [x] - carries the whole XML, the parsed document is the writer's tree, and the image is the
    completed file byte for byte.  (The empty text and every prefix at least 2 bytes short of the
    writer's rendering are rejected by the parser: Proofs/XmlpPrefix.v.) *)
Theorem C15_accepted_is_complete_xml : forall (is : list FileBin.item) (m : file_meta) (xml : list N),
  writer_meta_ok m = true -> meta_xml_ok m = true -> gen_root m = Ok xml ->
  let p := crash_prog is xml in
  let tr := trace_of p in
  len (final_image p) < 2 ^ 64 ->
  forall (n cut : nat) s h x d',
  open_result (crash_image tr n cut) = Ok (s, h, x) -> xml_parse x = ParseOk d' ->
  x = xml /\ d' = tree_of m /\ crash_image tr n cut = final_image p /\ snd (wrun p pw_fresh) = Ok tt.
Proof. exact accepted_is_complete_xml. Qed.
Print Assumptions C15_accepted_is_complete_xml.

(** the same for the model of E57Reader::new as a whole (UTF-8 check, parser, extraction) *)
Theorem C15_reader_new_accepts_only_complete :
  forall pf64 pf32 fdiv (is : list FileBin.item) (m : file_meta) (xml : list N),
  writer_meta_ok m = true -> meta_xml_ok m = true -> gen_root m = Ok xml ->
  let p := crash_prog is xml in
  let tr := trace_of p in
  len (final_image p) < 2 ^ 64 ->
  forall (n cut : nat) s h x m',
  snd (reader_new pf64 pf32 fdiv (dev_init (crash_image tr n cut) None)) = Ok (s, h, x, m') ->
  x = xml /\ crash_image tr n cut = final_image p /\ snd (wrun p pw_fresh) = Ok tt /\
  extract_all pf64 pf32 fdiv (tree_of m) = Ok m'.
Proof. exact reader_new_accepts_only_complete. Qed.
Print Assumptions C15_reader_new_accepts_only_complete.

(** * The same at the level of public API calls (Model/WriterApi.v, Model/WriterFull.v)

    [writer_run fmt64 fmt32 version calls] is the page-layer program of ANY sequence of API calls
    (calls that fail, abandoned sub-writers, calls after errors, orders Rust would not compile
    included); its trace includes Drop. *)

(** every image from before the final header write of a successful top-level Finalize - and every
    image at all when there is none - is rejected or yields the empty XML *)
Theorem C15_api_before_finalize : forall fmt64 fmt32 version (calls : list wcall) (n cut : nat),
  let tr := trace_of (writer_run fmt64 fmt32 version calls) in
  (n + 2 < length tr)%nat ->
  match open_result (crash_image tr n cut) with
  | Ok (_, _, x) => x = []
  | Err _ => True
  | Panic => False
  end.
Proof. exact writer_before_finalize. Qed.
Print Assumptions C15_api_before_finalize.

(** a writer dropped before a successful top-level Finalize (whatever calls were made, sub-writers
    finalized or abandoned): every image, the final device content included *)
Theorem C15_api_unfinalized : forall fmt64 fmt32 version (calls : list wcall) stf rs (n cut : nat),
  snd (wrun (writer_run fmt64 fmt32 version calls) pw_fresh) = Ok (stf, rs) -> ws_finalized stf = false ->
  match open_result (crash_image (trace_of (writer_run fmt64 fmt32 version calls)) n cut) with
  | Ok (_, _, x) => x = []
  | Err _ => True
  | Panic => False
  end.
Proof. exact writer_unfinalized. Qed.
Print Assumptions C15_api_unfinalized.

(** a call sequence whose last call is the top-level Finalize and returned CrOk (the calls before
    it are arbitrary and may have failed): [xml] is the XML of the final metadata *)
Theorem C15_api_accepted_is_complete : forall fmt64 fmt32 version (cs : list wcall) stf rs (xml : list N),
  let p := writer_run fmt64 fmt32 version (cs ++ [Finalize]) in
  snd (wrun p pw_fresh) = Ok (stf, rs ++ [CrOk]) ->
  gen_root (fill_meta fmt64 fmt32 (ws_meta stf)) = Ok xml ->
  xml <> [] -> len (final_image p) < 2 ^ 64 -> forall n cut : nat,
  match open_result (crash_image (trace_of p) n cut) with
  | Panic => False
  | Err _ => True
  | Ok (_, _, xr) =>
      (exists k, k <= len xml /\ xr = take k xml /\ (k = len xml \/ k = 0 \/ k + 256 <= len xml)) /\
      (xr = xml -> crash_image (trace_of p) n cut = final_image p)
  end.
Proof. exact writer_accepted_is_complete. Qed.
Print Assumptions C15_api_accepted_is_complete.

(** with the XML layer: an image the full reader accepts is the completed file *)
Theorem C15_api_accepted_is_complete_xml : forall fmt64 fmt32 version (cs : list wcall) stf rs,
  let p := writer_run fmt64 fmt32 version (cs ++ [Finalize]) in
  let m := fill_meta fmt64 fmt32 (ws_meta stf) in
  snd (wrun p pw_fresh) = Ok (stf, rs ++ [CrOk]) ->
  writer_meta_ok m = true -> meta_xml_ok m = true ->
  len (final_image p) < 2 ^ 64 ->
  forall (n cut : nat) s h x d',
  open_result (crash_image (trace_of p) n cut) = Ok (s, h, x) -> xml_parse x = ParseOk d' ->
  gen_root m = Ok x /\ d' = tree_of m /\ crash_image (trace_of p) n cut = final_image p.
Proof. exact writer_accepted_is_complete_xml. Qed.
Print Assumptions C15_api_accepted_is_complete_xml.
