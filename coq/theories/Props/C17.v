(** C17 - Read operations are independent of what was read before.
    Statements only; every proof is an [exact] of a lemma proved in Proofs/. *)
From E57 Require Import Base.Prelude Model.Device Model.PagedReader Spec.PageReadSpec Model.Prog
  Model.Record Model.QueueReader Model.FileBin Model.ReaderOpen
  Proofs.PagedReaderCache Proofs.ReaderProgSem Proofs.ReaderProgStrict Proofs.ReaderProgAlter Proofs.ReaderSessions
  Base.Floats Model.Meta Model.SimpleIter Proofs.SimpleSessions.
From Flocq Require Import Binary Bits.

(** For ANY device contents (intact or damaged), the result of a reader
    program on the paged reader - with its page cache, in whatever state
    earlier operations left it - is the result on a cache-less reader whose
    only state is the logical offset. *)
Theorem C17_result_is_function_of_offset : forall ps phys A (p : rprog A) s,
  pr_inv ps phys s ->
  snd (rrun p s) = snd (rrun_g ps phys p (pr_off s)) /\
  pr_inv ps phys (fst (rrun p s)) /\
  pr_off (fst (rrun p s)) = fst (rrun_g ps phys p (pr_off s)).
Proof. exact rrun_g_equiv. Qed.

(** Hence an operation that begins with an absolute seek and stops at the
    first failing page operation returns, after ANY earlier program [q] on the
    same reader (complete, abandoned half-way or failed), what it returns on
    the freshly opened reader. *)
Theorem C17_history_independent :
  forall ps phys d1 s0 (Q : Type) (q : rprog Q) (A : Type) (x : N) (k : res pr_out -> rprog A),
  pr_new ps (dev_init phys None) = (d1, Ok s0) ->
  strict (ROp (PrSeek x) k) ->
  snd (rrun (ROp (PrSeek x) k) (fst (rrun q s0))) = snd (rrun (ROp (PrSeek x) k) s0).
Proof. exact history_independent_reachable. Qed.

(** Instances: a complete raw iteration of a point cloud, and a blob extraction. *)
Theorem C17_raw_iteration :
  forall ps phys d1 s0 (Q : Type) (q : rprog Q) fuel ls fo recs proto,
  pr_new ps (dev_init phys None) = (d1, Ok s0) ->
  snd (rrun (op_raw_all fuel ls fo recs proto) (fst (rrun q s0))) = snd (rrun (op_raw_all fuel ls fo recs proto) s0).
Proof. exact raw_all_history_independent. Qed.

Theorem C17_blob :
  forall ps phys d1 s0 (Q : Type) (q : rprog Q) ls off ln,
  pr_new ps (dev_init phys None) = (d1, Ok s0) ->
  snd (rrun (op_blob ls off ln) (fst (rrun q s0))) = snd (rrun (op_blob ls off ln) s0).
Proof. exact blob_history_independent. Qed.

(** The simple iterator (constructor, the six option setters, iteration to the
    end) under any option vector and any libm functions: the same. *)
Theorem C17_simple_iteration :
  forall fcos fsin fasin fatan2 ps phys d1 s0 (Q : Type) (q : rprog Q) fuel ls pc o,
  pr_new ps (dev_init phys None) = (d1, Ok s0) ->
  snd (rrun (op_simple_all fcos fsin fasin fatan2 fuel ls pc o) (fst (rrun q s0)))
  = snd (rrun (op_simple_all fcos fsin fasin fatan2 fuel ls pc o) s0).
Proof. exact simple_history_independent. Qed.

(** ... and a simple iterator that was only partly consumed leaves no trace:
    a raw iteration, a blob extraction or another simple iteration after it
    return what they return on the freshly opened reader. *)
Theorem C17_simple_partly_consumed :
  forall fcos fsin fasin fatan2 ps phys d1 s0 (Q : Type) (q : rprog Q) n ls pc o,
  pr_new ps (dev_init phys None) = (d1, Ok s0) ->
  snd (rrun (op_simple_take fcos fsin fasin fatan2 n ls pc o) (fst (rrun q s0)))
  = snd (rrun (op_simple_take fcos fsin fasin fatan2 n ls pc o) s0).
Proof. exact simple_take_history_independent. Qed.

Print Assumptions C17_result_is_function_of_offset.
Print Assumptions C17_history_independent.
Print Assumptions C17_raw_iteration.
Print Assumptions C17_blob.
Print Assumptions C17_simple_iteration.
Print Assumptions C17_simple_partly_consumed.
