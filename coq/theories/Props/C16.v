(** C16 - Device faults surface as errors; short I/O changes nothing.
    Statements only; every proof is an [exact] of a lemma proved in Proofs/.

    Device model (Model/Device.v): [d_fault d = Some k] makes operation number
    [k] (counted by [d_ops]) fail with [Err EIo] and have no other effect.
    [pw0] is the paged writer right after [PagedWriter::new] on an empty
    fault-free device, [pw0f i] the same with fault plan [Some i] ([i >= 1]:
    operation 0 is the seek of [new] itself, see [pw_new_fault0] /
    [pw_new_faulti] in Proofs/FaultWriter.v).  [wstrict] / [strict]: programs
    that stop at the first failing page operation - every writer / reader call
    of the model is one (Proofs/FaultWriter.v, Proofs/ReaderProgStrict.v).
    The only place where an error is swallowed is [pw_drop] ([Drop]). *)
From E57 Require Import Base.Prelude Model.Crc Model.Device Model.PagedWriter Model.PagedReader Model.Prog
  Model.Record Model.PcWriter Model.QueueReader Model.FileBin Model.ReaderOpen Model.DeviceChunked.
From E57 Require Import Model.CrashImage.
From E57 Require Import Proofs.PagedWriterProofs Proofs.ReaderProgStrict Proofs.FaultSim Proofs.FaultWriter
  Proofs.FaultReader Proofs.FaultChunk Proofs.CrashBridge Proofs.CrashApiSteps Proofs.FaultApi.
From E57 Require Import Model.Meta Model.MetaFile Model.WriterApi Model.WriterFull.

(** * Faults surface *)

(** A writer call during which the faulty operation [i] is issued returns [Err]. *)
Theorem C16_fault_surfaces_writer : forall A (p : wprog A) i, wstrict p -> 1 <= i ->
  i < d_ops (pw_dev (fst (wrun p pw0))) -> exists e, snd (wrun p (pw0f i)) = Err e.
Proof. exact FaultWriter.C16_fault_surfaces_writer. Qed.

(** A session of calls where the caller goes on after failures: the call
    during which operation [i] is issued returns [Err] (not Ok, not a panic),
    and all calls before it return what they return without the fault. *)
Theorem C16_session : forall q, sess_strict q -> forall i s s', ptwin i s s' ->
  i < d_ops (pw_dev (fst (srun q s))) ->
  exists j e, nth_error (snd (srun q s')) j = Some (CErr e) /\
              firstn j (snd (srun q s')) = firstn j (snd (srun q s)).
Proof. exact FaultWriter.C16_session. Qed.

(** The file-writing program returned Ok under a fault plan: after [Drop] the
    device holds exactly the file of the fault-free run, wherever the fault
    fires (inside [Drop] included). *)
Theorem C16_success_complete : forall (is : list item) (xml : list N) (i : N), 1 <= i ->
  snd (wrun (fault_prog is xml) (pw0f i)) = Ok tt ->
  d_bytes (pw_dev (fst (pw_drop (fst (wrun (fault_prog is xml) (pw0f i)))))) =
  d_bytes (pw_dev (fst (pw_drop (fst (wrun (fault_prog is xml) pw0))))).
Proof. exact FaultWriter.C16_success_complete. Qed.

(** the same in the vocabulary of C15: [crash_prog] is [fault_prog], [final_image] the completed file *)
Theorem C16_success_is_final_image : forall (is : list item) (xml : list N) (i : N), 1 <= i ->
  snd (wrun (crash_prog is xml) (pw0f i)) = Ok tt ->
  d_bytes (pw_dev (fst (pw_drop (fst (wrun (crash_prog is xml) (pw0f i)))))) = final_image (crash_prog is xml).
Proof. exact success_under_fault_is_final_image. Qed.

Theorem C16_fault_surfaces_open : forall f i,
  i < d_ops (fst (ReaderOpen.reader_open (dev_init f None))) ->
  exists e, snd (ReaderOpen.reader_open (dev_init f (Some i))) = Err e.
Proof. exact FaultReader.C16_fault_surfaces_open. Qed.

Theorem C16_fault_surfaces_validate_crc : forall f i,
  i < d_ops (fst (validate_crc (dev_init f None))) ->
  exists e, snd (validate_crc (dev_init f (Some i))) = Err e.
Proof. exact FaultReader.C16_fault_surfaces_validate_crc. Qed.

Theorem C16_fault_surfaces_raw_xml : forall f i,
  i < d_ops (fst (ReaderOpen.raw_xml (dev_init f None))) ->
  exists e, snd (ReaderOpen.raw_xml (dev_init f (Some i))) = Err e.
Proof. exact FaultReader.C16_fault_surfaces_raw_xml. Qed.

(** A strict reader program on the reader returned by a successful open. *)
Theorem C16_fault_surfaces_rrun : forall f i A (p : rprog A) s h x s' h' x',
  strict p ->
  snd (ReaderOpen.reader_open (dev_init f None)) = Ok (s, h, x) ->
  snd (ReaderOpen.reader_open (dev_init f (Some i))) = Ok (s', h', x') ->
  i < d_ops (pr_dev (fst (rrun p s))) ->
  exists e, snd (rrun p s') = Err e.
Proof. exact FaultReader.C16_fault_surfaces_rrun. Qed.

(** * Short transfers change nothing (every schedule, fault-free device) *)

Theorem C16_cd_write_all_equiv : forall c bs, d_fault (c_dev c) = None ->
  let '(c1, r) := cd_write_all bs c in let '(d1, r') := d_write_all bs (c_dev c) in
  r = r' /\ d_bytes (c_dev c1) = d_bytes d1 /\ d_cur (c_dev c1) = d_cur d1 /\ d_fault (c_dev c1) = None.
Proof. exact cd_write_all_equiv. Qed.

Theorem C16_cd_write_all_log_equiv : forall c bs, d_fault (c_dev c) = None ->
  apply_writes (rev (d_log (c_dev (fst (cd_write_all bs c))))) =
  apply_writes (rev (d_log (fst (d_write_all bs (c_dev c))))).
Proof. exact cd_write_all_log_equiv. Qed.

Theorem C16_cd_read_exact_equiv : forall c n, d_fault (c_dev c) = None ->
  let '(c1, r) := cd_read_exact n c in let '(d1, r') := d_read_exact n (c_dev c) in
  r = r' /\ d_bytes (c_dev c1) = d_bytes d1 /\ d_cur (c_dev c1) = d_cur d1 /\ d_fault (c_dev c1) = None.
Proof. exact cd_read_exact_equiv. Qed.

Theorem C16_cd_read_fill_equiv : forall c want, d_fault (c_dev c) = None ->
  let '(c1, r) := cd_read_fill want c in
  let '(d1, r') := d_read_fill (S (N.to_nat want)) want [] (c_dev c) in
  r = r' /\ d_bytes (c_dev c1) = d_bytes d1 /\ d_cur (c_dev c1) = d_cur d1 /\ d_fault (c_dev c1) = None.
Proof. exact cd_read_fill_equiv. Qed.

Theorem C16_cpr_fill_loop_equiv : forall s fuel done want,
  d_fault (pr_dev (cp_pr s)) = None -> (N.to_nat want < fuel)%nat ->
  let '(s1, r) := cpr_fill_loop fuel done want s in
  let '(p1, r') := pr_fill_loop fuel done want (cp_pr s) in
  r = r' /\ pr_buf (cp_pr s1) = pr_buf p1 /\
  d_bytes (pr_dev (cp_pr s1)) = d_bytes (pr_dev p1) /\ d_cur (pr_dev (cp_pr s1)) = d_cur (pr_dev p1) /\
  d_fault (pr_dev (cp_pr s1)) = None /\
  pr_with_dev (cp_pr s1) (pr_dev p1) = p1.
Proof. exact cpr_fill_loop_equiv. Qed.

Theorem C16_cpr_read_page_equiv : forall s page, d_fault (pr_dev (cp_pr s)) = None ->
  let '(s1, r) := cpr_read_page page s in
  let '(p1, r') := pr_read_page page (cp_pr s) in
  r = r' /\ d_bytes (pr_dev (cp_pr s1)) = d_bytes (pr_dev p1) /\ d_cur (pr_dev (cp_pr s1)) = d_cur (pr_dev p1) /\
  d_fault (pr_dev (cp_pr s1)) = None /\ pr_with_dev (cp_pr s1) (pr_dev p1) = p1.
Proof. exact cpr_read_page_equiv. Qed.

Print Assumptions C16_fault_surfaces_writer.
Print Assumptions C16_session.
Print Assumptions C16_success_complete.
Print Assumptions C16_success_is_final_image.
Print Assumptions C16_fault_surfaces_open.
Print Assumptions C16_fault_surfaces_validate_crc.
Print Assumptions C16_fault_surfaces_raw_xml.
Print Assumptions C16_fault_surfaces_rrun.
Print Assumptions C16_cd_write_all_equiv.
Print Assumptions C16_cd_write_all_log_equiv.
Print Assumptions C16_cd_read_exact_equiv.
Print Assumptions C16_cd_read_fill_equiv.
Print Assumptions C16_cpr_fill_loop_equiv.
Print Assumptions C16_cpr_read_page_equiv.

(** * The same at the level of public API calls (Model/WriterApi.v, Model/WriterFull.v)

    A failed call hands its error to the caller ([CrErr]) and the writer goes on, so the program of
    a call sequence is not strict; the notion is per call ([csim], Proofs/FaultApi.v): a call on
    twin states does exactly the same, or operation i was issued and the call RETURNS [CrErr].
    [api_results calls s] are the results call by call on paged writer [s] (up to a panic of a
    call, which ends the run).  Nothing is claimed about the calls after the failed one: they run
    from whatever the failed call left (a page buffer not written, a half-patched section header). *)

Theorem C16_api_step : forall gen_xml lib_version st c i s s', ptwin i s s' ->
  (ptwin i (fst (wrun (wapi_step gen_xml lib_version st c) s)) (fst (wrun (wapi_step gen_xml lib_version st c) s')) /\
   snd (wrun (wapi_step gen_xml lib_version st c) s') = snd (wrun (wapi_step gen_xml lib_version st c) s)) \/
  (i < d_ops (pw_dev (fst (wrun (wapi_step gen_xml lib_version st c) s'))) /\
   exists a, snd (wrun (wapi_step gen_xml lib_version st c) s') = Ok a /\ exists k, snd a = CrErr k).
Proof. exact wapi_step_csim. Qed.

(** the call during which operation i is issued returns CrErr (not CrOk, not CrBlob, no panic);
    the calls before it return what they return without the fault *)
Theorem C16_api_fault_surfaces : forall fmt64 fmt32 version (calls : list wcall) (i : N), 1 <= i ->
  i < d_ops (pw_dev (fst (wrun (writer_run fmt64 fmt32 version calls) pw0))) ->
  exists j e, nth_error (api_results fmt64 fmt32 version calls (pw0f i)) j = Some (CrErr e) /\
              firstn j (api_results fmt64 fmt32 version calls (pw0f i)) =
              firstn j (api_results fmt64 fmt32 version calls pw0).
Proof. exact api_fault_surfaces_full. Qed.

(** on the result lists, when both runs return *)
Theorem C16_api_fault_surfaces_results : forall fmt64 fmt32 version (calls : list wcall) (i : N) st rs st' rs',
  1 <= i ->
  i < d_ops (pw_dev (fst (wrun (writer_run fmt64 fmt32 version calls) pw0))) ->
  snd (wrun (writer_run fmt64 fmt32 version calls) pw0) = Ok (st, rs) ->
  snd (wrun (writer_run fmt64 fmt32 version calls) (pw0f i)) = Ok (st', rs') ->
  exists j e, nth_error rs' j = Some (CrErr e) /\ firstn j rs' = firstn j rs.
Proof. exact api_fault_surfaces_results. Qed.

(** every call returned without error under the fault plan and the writer is finalized: after
    Drop the device holds exactly the file of the fault-free run (a fault inside Drop included),
    and the fault-free run returns the same results *)
Theorem C16_api_success_complete : forall fmt64 fmt32 version (calls : list wcall) (i : N) st' rs', 1 <= i ->
  snd (wrun (writer_run fmt64 fmt32 version calls) (pw0f i)) = Ok (st', rs') ->
  Forall cr_ok rs' -> ws_finalized st' = true ->
  d_bytes (pw_dev (fst (pw_drop (fst (wrun (writer_run fmt64 fmt32 version calls) (pw0f i)))))) =
  d_bytes (pw_dev (fst (pw_drop (fst (wrun (writer_run fmt64 fmt32 version calls) pw0))))) /\
  snd (wrun (writer_run fmt64 fmt32 version calls) pw0) = Ok (st', rs').
Proof. exact api_success_complete. Qed.

Print Assumptions C16_api_step.
Print Assumptions C16_api_fault_surfaces.
Print Assumptions C16_api_fault_surfaces_results.
Print Assumptions C16_api_success_complete.
