(** C10 - the writer API is total and never stores what it cannot represent.
    Statements only; every proof is an [exact] of a lemma proved in Proofs/Wapi*.v.
    The model is the call-by-call state machine of Model/WriterApi.v; [gen_xml]
    is the XML generator (any function that does not panic), [lib_version] the
    library version text.  [call_wf]: the arguments are values of their Rust
    types (i64 minima / maxima, f32 / f64 bit patterns). *)
From Flocq Require Import Binary Bits.
From E57 Require Import Base.Prelude Base.Floats Spec.PageSpec Model.PagedWriter Model.Prog Model.Record
  Model.PcWriter Model.Meta Model.MetaFile Model.WriterApi.
From E57 Require Import Proofs.PagedWriterProofs Proofs.WapiProg Proofs.WapiPc Proofs.WapiRules Proofs.WapiInv
  Proofs.WapiMain.
From E57 Require Import Model.Device Model.PagedReader Model.FileBin Model.ReaderOpen Model.XmlTree Model.XmlGen
  Spec.XgWriterOk Spec.XeMetaOk Model.WriterFull Proofs.C04Compose
  Proofs.WapiFullProg Proofs.WapiFullMeta Proofs.WapiFullInv Proofs.WapiFull.

(** Every call sequence - any argument values, any order Rust compiles,
    abandoned sub-writers, repeated finalize of every writer, calls after
    finalize - runs to its end on the paged device after [PagedWriter::new]:
    every call returns a result, none panics (checked arithmetic included),
    no error escapes. *)
Theorem C10_no_panic : forall (gen_xml : file_meta -> res (list N)) (lib_version : xstring),
  (forall m, gen_xml m <> Panic) ->
  forall calls, Forall call_wf calls ->
  exists st rs, snd (wrun (wapi_run gen_xml lib_version ws_init calls) pw0) = Ok (st, rs) /\
                length rs = length calls.
Proof. exact no_panic. Qed.
Print Assumptions C10_no_panic.

(** One call from any state that satisfies the invariant: it completes, keeps the
    invariant, never shrinks the data written, and if it returns [Err] the state
    and the logical stream are unchanged. *)
Theorem C10_step : forall (gen_xml : file_meta -> res (list N)) (lib_version : xstring),
  (forall m, gen_xml m <> Panic) ->
  forall st l c, ws_inv st l -> call_wf c ->
  exists l' st' r, wrun_spec (wapi_step gen_xml lib_version st c) l = (l', Ok (st', r)) /\
    ws_inv st' l' /\ ls_le l l' /\
    (forall k, r = CrErr k -> st' = st /\ l' = l).
Proof. exact wapi_step_ok. Qed.
Print Assumptions C10_step.

(** A call that is not rejected is representable under the documented rules
    (Proofs/WapiRules.v: [representable_prototype] - including: no attribute twice,
    no empty integer range -, [representable_point]; Proofs/WapiMain.v:
    [representable_call] - including: nothing is added and nothing is finalized
    a second time after a finalize; a point cloud is finalized only with limits set by
    the caller that are complete). *)
Theorem C10_rejects : forall (gen_xml : file_meta -> res (list N)) (lib_version : xstring),
  forall st l c l' st' r, ws_inv st l -> ws_open st = true -> call_wf c ->
  wrun_spec (wapi_step gen_xml lib_version st c) l = (l', Ok (st', r)) ->
  (forall k, r <> CrErr k) -> r <> CrNoCompile -> representable_call st c.
Proof. exact accepted_is_representable. Qed.
Print Assumptions C10_rejects.

(** A call that returns [Err] leaves the writer state (bounds included) and the
    bytes emitted unchanged - unconditionally since duplicate attribute names are
    rejected (repair 8f31314; before it the statement was refuted by a prototype with
    two RowIndex records, see the remark at [err_is_noop] in Proofs/WapiMain.v). *)
Theorem C10_err_is_noop : forall (gen_xml : file_meta -> res (list N)) (lib_version : xstring),
  (forall m, gen_xml m <> Panic) ->
  forall st l c l' st' k, ws_inv st l -> call_wf c ->
  wrun_spec (wapi_step gen_xml lib_version st c) l = (l', Ok (st', CrErr k)) -> st' = st /\ l' = l.
Proof. exact err_is_noop. Qed.
Print Assumptions C10_err_is_noop.

(** The former counterexample is now rejected by [add_pointcloud]. *)
Theorem C10_former_witness_rejected : forall (gen_xml : file_meta -> res (list N)) (lib_version : xstring),
  exists l st, wrun_spec (wapi_run gen_xml lib_version ws_init [NewWriter [103]; AddPointcloud [112] former_witness_proto]) ls_init
               = (l, Ok (st, [CrOk; CrErr EInvalid])) /\ ws_sub st = SubNone.
Proof. exact former_witness_rejected. Qed.
Print Assumptions C10_former_witness_rejected.

(** The drain loop of [PointCloudWriter::finalize] never exhausts its fuel:
    with the fuel [|buffer| + 1] it returns Ok with an empty buffer (a finalized
    writer does not enter the loop: [finalize] is refused). *)
Theorem C10_finalize_terminates : forall ps l, pc_inv ps l -> ls_ok l -> ps_finalized ps = false ->
  exists w1, snd (wrun_spec (drain_buffer (S (length (w_buffer (ps_w ps)))) (ps_w ps)) l) = Ok w1 /\
             w_buffer w1 = [].
Proof. exact finalize_terminates. Qed.
Print Assumptions C10_finalize_terminates.

(** The third clause of the property, composed over all layers.  For every complete
    program - [new], then any sequence of setters, [register_extension], [add_blob],
    point cloud sessions ([add_pointcloud], setters / [add_point], [finalize], end of
    borrow) and image sessions, then [finalize] - run by the whole writer model
    ([writer_run]: the API state machine with the XML generator of Model/XmlGen.v) on
    the empty device, in which every call returned Ok: the flushed file consists of
    sealed pages, the reader model opens it, its XML text parses and extracts
    ([read_meta]: XmlParse + XmlExtract) to exactly the descriptors the state machine
    holds ([reader_view], float texts filled in, NaNs canonical) - every point cloud
    with guid, metadata, prototype, record count, bounds, limits, every image with its
    representations and blob descriptors, extensions, root fields -, and every binary
    item is read back exactly through the descriptor it was published with
    ([explains] ties items, published offsets and descriptors together; [reads_back]:
    raw iterator model for point clouds, [blob_read] for blobs and image payloads).

    Hypotheses.  [units]: the grammar above (no abandoned sub-writer, nothing between a
    sub-writer's finalize and the end of its borrow); per point cloud session [limits_declared]:
    the caller sets the intensity (colour) limits or the prototype declares the range - limits set
    by the caller are complete because [finalize] returned Ok (repair e77b8fe), but the DEFAULT
    limits of a float attribute without declared minimum / maximum are incomplete, the writer
    accepts them and does not write them, and the reader then reports no limits where the writer
    holds [Some {None, None}]: such a session is outside this theorem (the tie covers it).  [call_ok]: arguments are values of
    their Rust types, strings consist of characters XML can carry (no CR), limits given by
    the caller are i64 values.  Float oracle: Display gives plain text that FromStr maps
    back to the bit pattern (NaN: canonical).  [version_ok]: the version text is such a
    string.  [pc_u64] / [im_ok]: the published offsets,
    lengths and counts are u64 and the image dimensions u32 values, as their Rust types
    say (the model's N is unbounded); fewer than 65535 extensions; the XML fits the
    reader's limit [MAX_XML_SIZE]; the file is shorter than 2^64 bytes. *)
Theorem C10_accepted_reads_back :
  forall (fmt64 fmt32 : N -> xstring) (pf64 pf32 : xstr -> option N) (fdiv : N -> Z -> N) (version : xstring),
  (forall b, plain_text (fmt64 b) = true) -> (forall b, plain_text (fmt32 b) = true) ->
  (forall b, pf64 (fmt64 b) = Some (canon64 b)) -> (forall b, pf32 (fmt32 b) = Some (canon32 b)) ->
  string_ok (lib_version_text version) = true ->
  forall guid tops s st rs,
  units tops ->
  Forall call_ok (NewWriter guid :: tops ++ [Finalize]) ->
  wrun (writer_run fmt64 fmt32 version (NewWriter guid :: tops ++ [Finalize])) pw0 = (s, Ok (st, rs)) ->
  Forall res_ok rs ->
  forallb pc_u64 (ws_pcs st) = true -> forallb im_ok (ws_imgs st) = true ->
  len (ws_exts st) < 65535 ->
  (forall xml, gen_root (fill_meta fmt64 fmt32 (ws_meta st)) = Ok xml -> len xml <= MAX_XML_SIZE) ->
  len (d_bytes (pw_dev (fst (pw_flush s)))) < 2 ^ 64 ->
  exists is os xml bl,
    explains tops is os (ws_pcs st) (ws_imgs st) bl /\
    gen_root (fill_meta fmt64 fmt32 (ws_meta st)) = Ok xml /\
    snd (pw_flush s) = Ok tt /\
    let f := d_bytes (pw_dev (fst (pw_flush s))) in
    Spec.PageSpec.all_pages_valid f = true /\
    exists rs0 h d',
      reader_open (dev_init f None) = (d', Ok (rs0, h, xml)) /\
      read_meta pf64 pf32 fdiv xml = Ok (reader_view (fill_meta fmt64 fmt32 (ws_meta st))) /\
      Forall2 (reads_back rs0) is os.
Proof. exact accepted_reads_back. Qed.
Print Assumptions C10_accepted_reads_back.

(** The converse of [C10_rejects] ([Proofs/WapiAccept.v]).  One call: from a state with the
    invariant, a call that compiles in the borrow state ([bnext]) and is acceptable -
    [representable_call] plus the two conditions it does not state: the capacity check's
    margin ([packet_margin]: one more byte per record and 500 bytes on top of "one point fits a
    packet") for [add_pointcloud], and a non-empty file GUID for [new] ([serialize_root] refuses
    an empty one) - returns Ok (CrOk / CrBlob) and keeps the invariant.  [gen_xml] is any
    generator that succeeds on a non-empty GUID ([gen_root] does: Proofs/XgTotal.v). *)
From E57 Require Import Proofs.WapiAccept Proofs.WapiAcceptWitness.

Theorem C10_accepts_step : forall (gen_xml : file_meta -> res (list N)) (lib_version : xstring),
  (forall m, rt_guid (fm_root m) <> [] -> exists xml, gen_xml m = Ok xml) ->
  forall st l c k', ws_inv st l -> guid_inv st -> call_wf c ->
  bnext (bstate_of st) c = Some k' -> acceptable_call st c ->
  exists l' st' r, wrun_spec (wapi_step gen_xml lib_version st c) l = (l', Ok (st', r)) /\ res_ok r /\
    ws_inv st' l' /\ ls_le l l' /\ guid_inv st' /\ bstate_of st' = k'.
Proof. exact accept_step. Qed.
Print Assumptions C10_accepts_step.

(** The whole writer on the empty fault-free paged device: a program that compiles
    ([borrow_ok]) in which every call is acceptable in the state it is issued in
    ([acceptable_calls]: the state of the machine after the calls before it) - every call
    returns Ok and the flush of [Drop] succeeds.  No size hypothesis: neither the crate nor the
    model bounds offsets while writing (that they fit u64 is a hypothesis of the read-back). *)
Theorem C10_api_accepts : forall (fmt64 fmt32 : N -> xstring) (version : xstring) calls,
  Forall call_wf calls -> borrow_ok BClosed calls ->
  acceptable_calls (gen_xml_full fmt64 fmt32) (lib_version_text version) ws_init ls_init calls ->
  exists s st rs,
    wrun (writer_run fmt64 fmt32 version calls) pw0 = (s, Ok (st, rs)) /\
    Forall res_ok rs /\ length rs = length calls /\ snd (pw_flush s) = Ok tt.
Proof. exact api_accepts. Qed.
Print Assumptions C10_api_accepts.

(** [representable_call] alone is not enough: a prototype of X, Y, Z and 5947 extension
    attributes, all doubles, follows every documented rule and one point fits a packet
    (59506 + 3 <= 65535 bytes), but the capacity check refuses it. *)
Theorem C10_fits_packet_not_enough : forall gen_xml lib_version guid l,
  representable_call w_state (AddPointcloud guid w_proto) /\
  call_wf (AddPointcloud guid w_proto) /\
  wrun_spec (wapi_step gen_xml lib_version w_state (AddPointcloud guid w_proto)) l = (l, Ok (w_state, CrErr EInvalid)).
Proof. exact fits_packet_not_enough. Qed.
Print Assumptions C10_fits_packet_not_enough.
