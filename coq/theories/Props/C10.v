(** C10 - the writer API is total and never stores what it cannot represent.
    Statements only; every proof is an [exact] of a lemma proved in Proofs/Wapi*.v.
    The model is the call-by-call state machine of Model/WriterApi.v; [gen_xml]
    is the XML generator (any function that does not panic), [lib_version] the
    library version text.  [call_wf]: the arguments are values of their Rust
    types (i64 minima / maxima, f32 / f64 bit patterns). *)
From Flocq Require Import Binary Bits.
From E57 Require Import Base.Prelude Base.Floats Spec.PageSpec Model.PagedWriter Model.Prog Model.Record
  Model.PcWriter Model.Meta Model.MetaFile Model.WriterApi.
From E57 Require Import Proofs.PagedWriterProofs Proofs.WapiProg Proofs.WapiPc Proofs.WapiRules Proofs.WapiInv
  Proofs.WapiMain.

(** Every call sequence - any argument values, any order Rust compiles,
    abandoned sub-writers, repeated finalize of every writer, calls after
    finalize - runs to its end on the paged device after [PagedWriter::new]:
    every call returns a result, none panics (checked arithmetic included),
    no error escapes. *)
Theorem C10_no_panic : forall (gen_xml : file_meta -> res (list N)) (lib_version : xstring),
  (forall m, gen_xml m <> Panic) ->
  forall calls, Forall call_wf calls ->
  exists st rs, snd (wrun (wapi_run gen_xml lib_version ws_init calls) pw0) = Ok (st, rs) /\
                length rs = length calls.
Proof. exact no_panic. Qed.
Print Assumptions C10_no_panic.

(** One call from any state that satisfies the invariant: it completes, keeps the
    invariant, never shrinks the data written, and if it returns [Err] the state
    and the logical stream are unchanged. *)
Theorem C10_step : forall (gen_xml : file_meta -> res (list N)) (lib_version : xstring),
  (forall m, gen_xml m <> Panic) ->
  forall st l c, ws_inv st l -> call_wf c ->
  exists l' st' r, wrun_spec (wapi_step gen_xml lib_version st c) l = (l', Ok (st', r)) /\
    ws_inv st' l' /\ ls_le l l' /\
    (forall k, r = CrErr k -> st' = st /\ l' = l).
Proof. exact wapi_step_ok. Qed.
Print Assumptions C10_step.

(** A call that is not rejected is representable under the documented rules
    (Proofs/WapiRules.v: [representable_prototype] - including: no attribute twice,
    no empty integer range -, [representable_point]; Proofs/WapiMain.v:
    [representable_call] - including: nothing is added and nothing is finalized
    a second time after a finalize). *)
Theorem C10_rejects : forall (gen_xml : file_meta -> res (list N)) (lib_version : xstring),
  forall st l c l' st' r, ws_inv st l -> ws_open st = true -> call_wf c ->
  wrun_spec (wapi_step gen_xml lib_version st c) l = (l', Ok (st', r)) ->
  (forall k, r <> CrErr k) -> r <> CrNoCompile -> representable_call st c.
Proof. exact accepted_is_representable. Qed.
Print Assumptions C10_rejects.

(** A call that returns [Err] leaves the writer state (bounds included) and the
    bytes emitted unchanged - unconditionally since duplicate attribute names are
    rejected (repair 8f31314; before it the statement was refuted by a prototype with
    two RowIndex records, see the remark at [err_is_noop] in Proofs/WapiMain.v). *)
Theorem C10_err_is_noop : forall (gen_xml : file_meta -> res (list N)) (lib_version : xstring),
  (forall m, gen_xml m <> Panic) ->
  forall st l c l' st' k, ws_inv st l -> call_wf c ->
  wrun_spec (wapi_step gen_xml lib_version st c) l = (l', Ok (st', CrErr k)) -> st' = st /\ l' = l.
Proof. exact err_is_noop. Qed.
Print Assumptions C10_err_is_noop.

(** The former counterexample is now rejected by [add_pointcloud]. *)
Theorem C10_former_witness_rejected : forall (gen_xml : file_meta -> res (list N)) (lib_version : xstring),
  exists l st, wrun_spec (wapi_run gen_xml lib_version ws_init [NewWriter [103]; AddPointcloud [112] former_witness_proto]) ls_init
               = (l, Ok (st, [CrOk; CrErr EInvalid])) /\ ws_sub st = SubNone.
Proof. exact former_witness_rejected. Qed.
Print Assumptions C10_former_witness_rejected.

(** The drain loop of [PointCloudWriter::finalize] never exhausts its fuel:
    with the fuel [|buffer| + 1] it returns Ok with an empty buffer (a finalized
    writer does not enter the loop: [finalize] is refused). *)
Theorem C10_finalize_terminates : forall ps l, pc_inv ps l -> ls_ok l -> ps_finalized ps = false ->
  exists w1, snd (wrun_spec (drain_buffer (S (length (w_buffer (ps_w ps)))) (ps_w ps)) l) = Ok w1 /\
             w_buffer w1 = [].
Proof. exact finalize_terminates. Qed.
Print Assumptions C10_finalize_terminates.
