(** C18 - Unknown extension content never alters standard content.
    Statements only; every proof is an [exact] of a lemma proved in Proofs/Xe*.v.

    [extract_all pf64 pf32 fdiv d] is everything E57Reader::new extracts from the parsed document [d]
    (root, extensions, point clouds, images); [pf64] / [pf32] stand for Rust's float parsers and
    are arbitrary.  The insertion relations are defined in Spec/XeForeign.v:
      fattr_doc       namespaced attributes added to any elements (also inside prototypes)
      fins_doc        C18 at full strength: foreign elements (namespace neither E57 nor none), any
                      local name, any subtree, anywhere among the children of any element that is
                      not a prototype, plus namespaced attributes anywhere
      ins_doc         elements in ANY namespace whose subtree uses no local name the extractors look
                      up, not inserted in front of a leading text node, plus namespaced attributes
      fins_inert_doc  ins_doc with the inserted elements also required to be foreign
    The full statement (forall d d', fins_doc d d' -> extract_all d' = extract_all d) is FALSE;
    the three [C18_refuted_*] theorems are its counterexamples, the two positive theorems are the
    parts of it that hold. *)
From E57 Require Import Base.Prelude Model.Meta Model.MetaFile Model.XmlTree Model.XmlExtract
  Spec.XeForeign Proofs.XeLemmas Proofs.XeInert Proofs.XeRefute Proofs.XeExtRecords.

(** Namespaced attributes anywhere never change what is extracted ([attribute("x")] only sees
    attributes without a namespace). *)
Theorem C18_foreign_attrs_inert : forall (pf64 pf32 : xstr -> option N) (fdiv : N -> Z -> N) (d d' : xdoc),
  fattr_doc d d' -> extract_all pf64 pf32 fdiv d' = extract_all pf64 pf32 fdiv d.
Proof. exact extract_all_fattr. Qed.
Print Assumptions C18_foreign_attrs_inert.

(** Inserted elements (whatever their namespace) none of whose elements has a looked-up local
    name, not placed in front of a leading text node, and namespaced attributes: nothing changes. *)
Theorem C18_foreign_elems_partial : forall (pf64 pf32 : xstr -> option N) (fdiv : N -> Z -> N) (d d' : xdoc),
  ins_doc d d' -> extract_all pf64 pf32 fdiv d' = extract_all pf64 pf32 fdiv d.
Proof. exact extract_all_ins. Qed.
Print Assumptions C18_foreign_elems_partial.

(** ... in particular for foreign elements *)
Theorem C18_foreign_inert_partial : forall (pf64 pf32 : xstr -> option N) (fdiv : N -> Z -> N) (d d' : xdoc),
  fins_inert_doc d d' -> extract_all pf64 pf32 fdiv d' = extract_all pf64 pf32 fdiv d.
Proof. exact extract_all_fins_inert. Qed.
Print Assumptions C18_foreign_inert_partial.

(** [<ext:guid>] in front of [<guid>] is taken as the file GUID ([has_tag_name] ignores the namespace). *)
Theorem C18_refuted_same_local_name :
  exists d d', fins_doc d d' /\ forall pf64 pf32 fdiv, extract_all pf64 pf32 fdiv d' <> extract_all pf64 pf32 fdiv d.
Proof. exact C18_refuted_same_local_name_proof. Qed.
Print Assumptions C18_refuted_same_local_name.

Theorem C18_refuted_same_local_name_values :
  fins_doc d_base d_same_name /\
  forall pf64 pf32 fdiv, exists m m',
    extract_all pf64 pf32 fdiv d_base = Ok m /\ extract_all pf64 pf32 fdiv d_same_name = Ok m' /\
    rt_guid (fm_root m) = [114; 101; 97; 108] /\ rt_guid (fm_root m') = [102; 97; 107; 101].
Proof. exact same_local_name_witness. Qed.
Print Assumptions C18_refuted_same_local_name_values.

(** A foreign element (or a comment) as first child of a leaf element: its text reads as absent
    ([Node::text()] is the first child only if that child is text); a string becomes empty, ... *)
Theorem C18_refuted_before_text :
  exists d d', fins_doc d d' /\ forall pf64 pf32 fdiv, extract_all pf64 pf32 fdiv d' <> extract_all pf64 pf32 fdiv d.
Proof. exact C18_refuted_before_text_proof. Qed.
Print Assumptions C18_refuted_before_text.

Theorem C18_refuted_before_text_values :
  fins_doc d_base d_before_text /\
  forall pf64 pf32 fdiv, exists m m' m'',
    extract_all pf64 pf32 fdiv d_base = Ok m /\ extract_all pf64 pf32 fdiv d_before_text = Ok m' /\
    extract_all pf64 pf32 fdiv d_comment_before_text = Ok m'' /\
    rt_guid (fm_root m) = [114; 101; 97; 108] /\ rt_guid (fm_root m') = [] /\ rt_guid (fm_root m'') = [].
Proof. exact before_text_witness. Qed.
Print Assumptions C18_refuted_before_text_values.

(** ... and a number becomes the default "0": a file whose versionMajor is not a number is
    rejected, the same file with a foreign element in front of that text is accepted. *)
Theorem C18_refuted_before_text_number :
  fins_doc d_bad_number d_bad_number_hidden /\
  forall pf64 pf32 fdiv,
    extract_all pf64 pf32 fdiv d_bad_number = Err EInvalid /\
    is_ok (extract_all pf64 pf32 fdiv d_bad_number_hidden) = true.
Proof. exact before_text_number_witness. Qed.
Print Assumptions C18_refuted_before_text_number.

(** Lookups through [descendants()] (e57Root, data3D, images2D, the limit values) are captured by
    a foreign subtree earlier in document order: a point cloud made only of foreign elements is
    reported; a limit value is taken from a nested foreign element. *)
Theorem C18_refuted_descendant_lookup :
  exists d d', fins_doc d d' /\ forall pf64 pf32 fdiv, extract_all pf64 pf32 fdiv d' <> extract_all pf64 pf32 fdiv d.
Proof. exact C18_refuted_descendant_lookup_proof. Qed.
Print Assumptions C18_refuted_descendant_lookup.

Theorem C18_refuted_descendant_lookup_values :
  fins_doc d_data3d d_data3d_captured /\
  forall pf64 pf32 fdiv, exists m m',
    extract_all pf64 pf32 fdiv d_data3d = Ok m /\ extract_all pf64 pf32 fdiv d_data3d_captured = Ok m' /\
    length (fm_pointclouds m) = 0%nat /\ length (fm_pointclouds m') = 1%nat.
Proof. exact descendant_lookup_witness. Qed.
Print Assumptions C18_refuted_descendant_lookup_values.

Theorem C18_refuted_descendant_lookup_limits :
  fins_doc d_limits d_limits_captured /\
  forall pf64 pf32 fdiv, exists m m',
    extract_all pf64 pf32 fdiv d_limits = Ok m /\ extract_all pf64 pf32 fdiv d_limits_captured = Ok m' /\
    first_intensity_min m = Some (LInteger 1) /\ first_intensity_min m' = Some (LInteger 7).
Proof. exact descendant_lookup_limits_witness. Qed.
Print Assumptions C18_refuted_descendant_lookup_limits.

(** Prototype records in an extension namespace with a prefix in scope - foreign namespace (any
    local name) or non-standard local name - are reported as Unknown{prefix, name} with their
    data type, and the other records of the prototype are extracted as without them, in the same
    order. *)
Theorem C18_extension_records :
  forall (pf64 pf32 : xstr -> option N) nm a sc ch1 ch2 r1 r2 uri p local attrs esc ech dt,
  let e := XElem (mkXName (Some uri) local) attrs esc ech in
  lookup_prefix uri e = Some p ->
  foreign_uri uri = true \/ std_record_name local = false ->
  data_type_from_node pf64 pf32 e = Ok dt ->
  map_res (record_from_node pf64 pf32) (filter is_element ch1) = Ok r1 ->
  map_res (record_from_node pf64 pf32) (filter is_element ch2) = Ok r2 ->
  prototype_records pf64 pf32 (XElem nm a sc (ch1 ++ ch2)) = Ok (r1 ++ r2) /\
  prototype_records pf64 pf32 (XElem nm a sc (ch1 ++ e :: ch2)) =
    Ok (r1 ++ mkRecord (Unknown p local) dt :: r2).
Proof. exact extension_records. Qed.
Print Assumptions C18_extension_records.

(** An extension record whose LOCAL name is a standard record name keeps its namespace:
    [<ext:cartesianX>] comes back as Unknown{ext, cartesianX}, next to the standard cartesianX. *)
Theorem C18_extension_std_name_kept :
  forall pf64 pf32 fdiv,
    std_record_name [99; 97; 114; 116; 101; 115; 105; 97; 110; 88] = true /\
    lookup_prefix EXT_NS (rec_ext [99; 97; 114; 116; 101; 115; 105; 97; 110; 88]) = Some [101; 120; 116] /\
    record_from_node pf64 pf32 (rec_ext [99; 97; 114; 116; 101; 115; 105; 97; 110; 88]) =
      Ok (mkRecord (Unknown [101; 120; 116] [99; 97; 114; 116; 101; 115; 105; 97; 110; 88]) (DInteger (-5) 5)) /\
    first_prototype (extract_all pf64 pf32 fdiv
                       (doc_with_proto [rec_ext [99; 97; 114; 116; 101; 115; 105; 97; 110; 88];
                                        rec_std [99; 97; 114; 116; 101; 115; 105; 97; 110; 88]])) =
      Some [mkRecord (Unknown [101; 120; 116] [99; 97; 114; 116; 101; 115; 105; 97; 110; 88]) (DInteger (-5) 5);
            mkRecord CartesianX (DInteger 0 255)].
Proof. exact extension_std_name_kept. Qed.
Print Assumptions C18_extension_std_name_kept.
