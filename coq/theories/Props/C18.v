(** C18 - Unknown extension content never alters standard content.
    Statements only; every proof is an [exact] of a lemma proved in Proofs/Xe*.v.

    [extract_all pf64 pf32 fdiv d] is everything E57Reader::new extracts from the parsed document
    [d] (root, extensions, point clouds, images); [pf64] / [pf32] stand for Rust's float parsers,
    [fdiv] for the one float division of the extractors; all three are arbitrary.
    The insertion relations are defined in Spec/XeForeign.v:
      fattr_doc       namespaced attributes added to any elements (also inside prototypes)
      fins_doc = insert_foreign
                      the property at full strength: elements of a foreign namespace (non-empty,
                      not the E57 one) with any local name and any subtree, comments and processing
                      instructions, inserted anywhere among the children of any element - before a
                      standard sibling of the same name, as first child of a leaf, inside its text
                      (the text node is split), anywhere in document order - except that among the
                      direct children of a prototype only comments and processing instructions are
                      inserted (a foreign ELEMENT there is an extension attribute); plus namespaced
                      attributes anywhere; comments and processing instructions around the root.
    With the repairs of the crate (xml::is_tag, xml::text, no descendants() lookups) the full
    statement holds; the former counterexamples are now positive examples. *)
From E57 Require Import Base.Prelude Model.Meta Model.MetaFile Model.XmlTree Model.XmlExtract
  Spec.XeForeign Proofs.XeLemmas Proofs.XeInert Proofs.XeRefute Proofs.XeExtRecords.

(** Inserting foreign content anywhere outside a prototype changes nothing of what is extracted. *)
Theorem C18_foreign_inert : forall (pf64 pf32 : xstr -> option N) (fdiv : N -> Z -> N) (d d' : xdoc),
  insert_foreign d d' -> extract_all pf64 pf32 fdiv d' = extract_all pf64 pf32 fdiv d.
Proof. exact extract_all_ins. Qed.
Print Assumptions C18_foreign_inert.

(** Namespaced attributes anywhere never change what is extracted ([attribute("x")] only sees
    attributes without a namespace). *)
Theorem C18_foreign_attrs_inert : forall (pf64 pf32 : xstr -> option N) (fdiv : N -> Z -> N) (d d' : xdoc),
  fattr_doc d d' -> extract_all pf64 pf32 fdiv d' = extract_all pf64 pf32 fdiv d.
Proof. exact extract_all_fattr. Qed.
Print Assumptions C18_foreign_attrs_inert.

(** The former counterexamples (corpus/XE/w_*.xml): [<ext:guid>] in front of [<guid>]; ... *)
Theorem C18_same_local_name_example :
  fins_doc d_base d_same_name /\
  forall pf64 pf32 fdiv, exists m,
    extract_all pf64 pf32 fdiv d_base = Ok m /\ extract_all pf64 pf32 fdiv d_same_name = Ok m /\
    rt_guid (fm_root m) = [114; 101; 97; 108].
Proof. exact same_local_name_witness. Qed.
Print Assumptions C18_same_local_name_example.

(** ... a foreign element or a comment as first child of a leaf element: its text is still read; ... *)
Theorem C18_before_text_example :
  fins_doc d_base d_before_text /\ fins_doc d_base d_comment_before_text /\
  forall pf64 pf32 fdiv, exists m,
    extract_all pf64 pf32 fdiv d_base = Ok m /\ extract_all pf64 pf32 fdiv d_before_text = Ok m /\
    extract_all pf64 pf32 fdiv d_comment_before_text = Ok m /\ rt_guid (fm_root m) = [114; 101; 97; 108].
Proof. exact before_text_witness. Qed.
Print Assumptions C18_before_text_example.

(** ... a versionMajor that is not a number is rejected also with a foreign element in front of it; ... *)
Theorem C18_before_text_number_example :
  fins_doc d_bad_number d_bad_number_hidden /\
  forall pf64 pf32 fdiv,
    extract_all pf64 pf32 fdiv d_bad_number = Err EInvalid /\
    extract_all pf64 pf32 fdiv d_bad_number_hidden = Err EInvalid.
Proof. exact before_text_number_witness. Qed.
Print Assumptions C18_before_text_number_example.

(** ... a foreign subtree with elements called data3D / vectorChild / intensityMinimum earlier in
    document order is not taken for the standard ones. *)
Theorem C18_descendant_lookup_example :
  fins_doc d_data3d d_data3d_captured /\
  forall pf64 pf32 fdiv, exists m,
    extract_all pf64 pf32 fdiv d_data3d = Ok m /\ extract_all pf64 pf32 fdiv d_data3d_captured = Ok m /\
    length (fm_pointclouds m) = 0%nat.
Proof. exact descendant_lookup_witness. Qed.
Print Assumptions C18_descendant_lookup_example.

Theorem C18_descendant_lookup_limits_example :
  fins_doc d_limits d_limits_captured /\
  forall pf64 pf32 fdiv, exists m,
    extract_all pf64 pf32 fdiv d_limits = Ok m /\ extract_all pf64 pf32 fdiv d_limits_captured = Ok m /\
    first_intensity_min m = Some (LInteger 1).
Proof. exact descendant_lookup_limits_witness. Qed.
Print Assumptions C18_descendant_lookup_limits_example.

(** Prototype records in an extension namespace with a prefix in scope - foreign namespace (any
    local name) or non-standard local name - are reported as Unknown{prefix, name} with their
    data type, and the other records of the prototype are extracted as without them, in the same
    order. *)
Theorem C18_extension_records :
  forall (pf64 pf32 : xstr -> option N) nm a sc ch1 ch2 r1 r2 uri p local attrs esc ech dt,
  let e := XElem (mkXName (Some uri) local) attrs esc ech in
  lookup_prefix uri e = Some p ->
  foreign_uri uri = true \/ std_record_name local = false ->
  data_type_from_node pf64 pf32 e = Ok dt ->
  map_res (record_from_node pf64 pf32) (filter is_element ch1) = Ok r1 ->
  map_res (record_from_node pf64 pf32) (filter is_element ch2) = Ok r2 ->
  prototype_records pf64 pf32 (XElem nm a sc (ch1 ++ ch2)) = Ok (r1 ++ r2) /\
  prototype_records pf64 pf32 (XElem nm a sc (ch1 ++ e :: ch2)) =
    Ok (r1 ++ mkRecord (Unknown p local) dt :: r2).
Proof. exact extension_records. Qed.
Print Assumptions C18_extension_records.

(** An extension record whose LOCAL name is a standard record name keeps its namespace:
    [<ext:cartesianX>] comes back as Unknown{ext, cartesianX}, next to the standard cartesianX. *)
Theorem C18_extension_std_name_kept :
  forall pf64 pf32 fdiv,
    std_record_name [99; 97; 114; 116; 101; 115; 105; 97; 110; 88] = true /\
    lookup_prefix EXT_NS (rec_ext [99; 97; 114; 116; 101; 115; 105; 97; 110; 88]) = Some [101; 120; 116] /\
    record_from_node pf64 pf32 (rec_ext [99; 97; 114; 116; 101; 115; 105; 97; 110; 88]) =
      Ok (mkRecord (Unknown [101; 120; 116] [99; 97; 114; 116; 101; 115; 105; 97; 110; 88]) (DInteger (-5) 5)) /\
    first_prototype (extract_all pf64 pf32 fdiv
                       (doc_with_proto [rec_ext [99; 97; 114; 116; 101; 115; 105; 97; 110; 88];
                                        rec_std [99; 97; 114; 116; 101; 115; 105; 97; 110; 88]])) =
      Some [mkRecord (Unknown [101; 120; 116] [99; 97; 114; 116; 101; 115; 105; 97; 110; 88]) (DInteger (-5) 5);
            mkRecord CartesianX (DInteger 0 255)].
Proof. exact extension_std_name_kept. Qed.
Print Assumptions C18_extension_std_name_kept.
