(** C20 - The bundled command-line tools preserve data end to end.
    Statements only; every proof is an [exact] of a lemma proved in Proofs/Tools*.v.
    Level: partial - the data path of the tools is modelled (Model/Tools.v);
    argument handling, file I/O and process exit are glue the tie exercises. *)
From Coq Require Import ZArith NArith Bool List Reals.
From Flocq Require Import Core Binary Bits.
From E57 Require Import Base.Prelude Base.Floats Model.Normalize Model.Device Model.PagedReader
  Spec.PageSpec Spec.PageReadSpec Model.FileBin Model.ReaderOpen Model.Tools
  Model.Record Model.Meta Model.Prog Model.PcWriter Model.QueueReader Model.SimpleIter Spec.SimpleSpec
  Proofs.ToolsCoord Proofs.ToolsColor Proofs.ToolsLines Proofs.ToolsXyz Proofs.ToolsCrc Proofs.ToolsView.

(** Colours: for each of the 256 values, stored integer -> normalised f32
    ((v - 0) / 255 through the colour limits the writer derives) ->
    [(c * 255.) as u8] prints the value again. *)
Theorem C20_u8_roundtrip : forall v : N, v < 256 -> color_path v = Ok (Z.of_N v).
Proof. exact color_path_u8. Qed.

(** ... and its decimal text parses back with [u8::from_str]. *)
Theorem C20_u8_text : forall v : N, v < 256 -> parse_u8 (dec_N v) = Some v.
Proof. exact dec_parse_u8. Qed.

(** The simple iterator applies the pose even when it is the identity; on
    finite values 1*x + 0*y + 0*z + 0 is x (a zero comes out as +0). *)
Theorem C20_identity_pose : forall x y z : binary64,
  is_finite 53 1024 x = true -> is_finite 53 1024 y = true -> is_finite 53 1024 z = true ->
  transform_xyz (prepare_rotation pose_default) pose_default x y z = (pz64 x, pz64 y, pz64 z).
Proof. exact transform_identity. Qed.

(** A finite f32 coordinate is delivered as the f64 with exactly its real
    value, and converts back to the same f32 (zero: +0). *)
Theorem C20_coordinate_value : forall b : N, f32_is_finite (f32_of_bits b) = true ->
  is_finite 53 1024 (coord_out b) = true /\
  B2R 53 1024 (coord_out b) = B2R 24 128 (f32_of_bits b) /\
  f32_of_f64 (coord_out b) = pz32 (f32_of_bits b).
Proof. exact coord_out_exact. Qed.

(** One line through from-xyz, the library view and to-xyz, under the oracle
    hypotheses: H1 the three coordinate texts parse (to finite values), H2 the
    text ryu prints for such a value parses back to it as f64 and as f32. *)
Theorem C20_coordinate_roundtrip :
  forall (parse_f32 : list N -> option N) (fmt_f64_ryu : N -> list N) (parse_f64 : list N -> option N),
  (forall b, f32_is_finite (f32_of_bits b) = true ->
     parse_f64 (fmt_f64_ryu (bits_of_f64c (coord_out b))) = Some (bits_of_f64c (coord_out b))) ->
  (forall b, f32_is_finite (f32_of_bits b) = true ->
     parse_f32 (fmt_f64_ryu (bits_of_f64c (coord_out b))) = Some (bits_of_f32 (f32_of_f64 (coord_out b)))) ->
  forall line tx ty tz tr tg tb rest bx by_ bz r g b,
  utf8_valid line = true ->
  split_sp (trim line) = tx :: ty :: tz :: tr :: tg :: tb :: rest ->
  parse_f32 tx = Some bx -> parse_f32 ty = Some by_ -> parse_f32 tz = Some bz ->
  parse_u8 tr = Some r -> parse_u8 tg = Some g -> parse_u8 tb = Some b ->
  f32_is_finite (f32_of_bits bx) = true -> f32_is_finite (f32_of_bits by_) = true ->
  f32_is_finite (f32_of_bits bz) = true ->
  from_xyz_line parse_f32 line = Ok (Some (mkP6 bx by_ bz r g b)) /\
  exists sp, xyz_view (mkP6 bx by_ bz r g b) = Ok sp /\
    to_xyz_point fmt_f64_ryu sp =
      coord_text fmt_f64_ryu bx ++ [32] ++ coord_text fmt_f64_ryu by_ ++ [32] ++ coord_text fmt_f64_ryu bz ++
      [32] ++ dec_N r ++ [32] ++ dec_N g ++ [32] ++ dec_N b ++ [10] /\
    (forall c, In c [bx; by_; bz] ->
       B2R 53 1024 (coord_out c) = B2R 24 128 (f32_of_bits c) /\
       parse_f64 (coord_text fmt_f64_ryu c) = Some (bits_of_f64c (coord_out c)) /\
       parse_f32 (coord_text fmt_f64_ryu c) = Some (bits_of_f32 (pz32 (f32_of_bits c)))) /\
    parse_u8 (dec_N r) = Some r /\ parse_u8 (dec_N g) = Some g /\ parse_u8 (dec_N b) = Some b.
Proof. exact xyz_line_roundtrip. Qed.

(** The whole file: one canonical line per point, in input order. *)
Theorem C20_xyz_roundtrip :
  forall (parse_f32 : list N -> option N) (fmt_f64_ryu : N -> list N) (input : list N) (pts : list point6),
  from_xyz parse_f32 (xyz_lines input) = Ok pts -> Forall finite_pt pts ->
  xyz_roundtrip parse_f32 fmt_f64_ryu input = Ok (flat_map (canonical_line fmt_f64_ryu) pts).
Proof. exact xyz_roundtrip_file. Qed.

(** The library between the two tools: [xyz_view] is the documented view of the
    simple iterator (Spec/SimpleSpec.v, equal to the iterator by C05_simple_is_view)
    for the descriptor e57-from-xyz writes ([xyz_descr]: prototype X/Y/Z f32 +
    R/G/B Integer 0..255, no pose, colour limits 0/255, no intensity limits) and
    the options e57-to-xyz sets ([xyz_opts]), for every raw point of that prototype. *)
Theorem C20_xyz_view_is_view :
  forall (fcos fsin fasin : binary64 -> binary64) (fatan2 : binary64 -> binary64 -> binary64)
         (pc : pointcloud), xyz_descr pc ->
  forall p : point6,
  view fcos fsin fasin fatan2 pc xyz_opts (raw_of_point6 p) = res_map point_of_spoint (xyz_view p).
Proof. exact xyz_view_is_view. Qed.

(** End to end: XYZ text -> from_xyz -> add_point accepts every point ->
    [raw_roundtrip: the raw iterator over the written file returns the points
    added, in order - Props/C01.v C01_file_roundtrip] -> the simple iteration
    of e57-to-xyz succeeds (C05_simple_is_view) -> what is printed is one
    canonical line per six-column input line, in order, = [xyz_roundtrip]. *)
Theorem C20_xyz_end_to_end :
  forall (fcos fsin fasin : binary64 -> binary64) (fatan2 : binary64 -> binary64 -> binary64)
         (pc : pointcloud), xyz_descr pc ->
  forall (parse_f32 : list N -> option N) (fmt_f64_ryu : N -> list N)
         (input : list N) (pts : list point6) (fuel : nat) (log_size : N) (s s' : pr),
  from_xyz parse_f32 (xyz_lines input) = Ok pts ->
  Forall finite_pt pts ->
  forall raw_roundtrip :
    rrun (raw_read_all fuel log_size pc) s = (s', Ok (map raw_of_point6 pts)),
  Forall (fun p => values_ok proto6 (raw_of_point6 p) = true) pts /\
  exists spts,
    rrun (simple_read_all fcos fsin fasin fatan2 fuel log_size pc xyz_opts) s = (s', Ok spts) /\
    to_xyz fmt_f64_ryu (map spoint_of_point spts) = flat_map (canonical_line fmt_f64_ryu) pts /\
    xyz_roundtrip parse_f32 fmt_f64_ryu input = Ok (to_xyz fmt_f64_ryu (map spoint_of_point spts)).
Proof. exact xyz_end_to_end. Qed.

(** Known edge (the iterator, not the tools): the bit pattern of -0 is not
    preserved - it is delivered as +0, numerically equal. *)
Theorem C20_coordinate_bits_refuted :
  bits_of_f64 (coord_out 0x80000000) = 0 /\
  bits_of_f64 (f64_of_f32 (f32_of_bits 0x80000000)) = 0x8000000000000000.
Proof. exact coord_out_neg_zero. Qed.

(** Outside "finite coordinates": an infinite coordinate turns the finite
    coordinates of the same point into NaN (0 * inf in the identity rotation). *)
Theorem C20_nonfinite_neighbour_refuted :
  match transform_cart pose_default
          (Tools.CValid (f64_of_f32 (f32_of_bits 0x3f800000)) (f64_of_f32 (f32_of_bits 0x7f800000))
                  (f64_of_f32 (f32_of_bits 0x40000000))) with
  | Tools.CValid x y z => (bits_of_f64c x, bits_of_f64c y, bits_of_f64c z)
  | _ => (0, 0, 0)
  end = (nan64_bits, 0x7ff0000000000000, nan64_bits).
Proof. exact coord_nonfinite_neighbour. Qed.

(** Line filter: the points are those of the lines that parse, in order; the
    run succeeds iff every line is skipped or parses. *)
Theorem C20_line_filter : forall (parse_f32 : list N -> option N) (lines : list (list N)) (pts : list point6),
  from_xyz parse_f32 lines = Ok pts <->
  Forall (fun l => is_ok (from_xyz_line parse_f32 l) = true) lines /\
  pts = flat_map (line_points parse_f32) lines.
Proof. exact from_xyz_ok_iff. Qed.

(** A line is skipped iff it is text with fewer than six space-separated parts. *)
Theorem C20_line_skip : forall (parse_f32 : list N -> option N) (line : list N),
  from_xyz_line parse_f32 line = Ok None <->
  utf8_valid line = true /\ (length (split_sp (trim line)) < 6)%nat.
Proof. exact from_xyz_line_skip_iff. Qed.

(** With six or more parts the first six decide; further columns are ignored. *)
Theorem C20_line_six : forall (parse_f32 : list N -> option N) line p0 p1 p2 p3 p4 p5 rest,
  utf8_valid line = true -> split_sp (trim line) = p0 :: p1 :: p2 :: p3 :: p4 :: p5 :: rest ->
  from_xyz_line parse_f32 line = parse6 parse_f32 p0 p1 p2 p3 p4 p5.
Proof. exact from_xyz_line_six. Qed.

(** The tool aborts iff some line is not text or has six parts one of which does not parse. *)
Theorem C20_abort : forall (parse_f32 : list N -> option N) (lines : list (list N)),
  is_err (from_xyz parse_f32 lines) = true <->
  exists l, In l lines /\ is_err (from_xyz_line parse_f32 l) = true.
Proof. exact from_xyz_err_iff. Qed.

(** Dropped lines do not disturb the others. *)
Theorem C20_dropped_lines_inert : forall (parse_f32 : list N -> option N) (lines : list (list N)),
  from_xyz parse_f32
    (filter (fun l => match from_xyz_line parse_f32 l with Ok None => false | _ => true end) lines) =
  from_xyz parse_f32 lines.
Proof. exact from_xyz_filter. Qed.

(** [read_line]: the lines partition the input; '\n' only ends a line. *)
Theorem C20_lines_partition : forall input : list N, concat (xyz_lines input) = input.
Proof. exact xyz_lines_concat. Qed.
Theorem C20_lines_shape : forall input : list N, Forall line_shape (xyz_lines input).
Proof. exact xyz_lines_shape. Qed.

(** [split(' ')]: the parts are the maximal space-free pieces (consecutive
    spaces give empty parts, a tab is not a separator). *)
Theorem C20_split : forall ps : list (list N), ps <> [] -> Forall (fun p => ~ In 32 p) ps ->
  split_sp (join_sp ps) = ps.
Proof. exact split_sp_join. Qed.

(** [trim] removes the surrounding ASCII whitespace of a line whose content
    starts and ends with a plain ASCII character. *)
Theorem C20_trim : forall ws1 body ws2 : list N,
  forallb ascii_ws ws1 = true -> forallb ascii_ws ws2 = true -> plain_ends body ->
  trim (ws1 ++ body ++ ws2) = body.
Proof. exact trim_ascii. Qed.

(** e57-check-crc on one file exits successfully iff [validate_crc] of the
    library model returns Ok iff the file is a whole number of pages of the
    announced size, each with a valid checksum. *)
Theorem C20_check_crc : forall phys : list N, check_crc_file phys = true <-> crc_file_ok phys.
Proof. exact check_crc_file_iff. Qed.

(** With the page size of the format (1024) in the words of the page
    specification: every page checksum is valid. *)
Theorem C20_check_crc_1024 : forall phys : list N,
  le_num (slice 40 8 phys) = 1024 ->
  (check_crc_file phys = true <-> 48 <= len phys /\ all_pages_valid phys = true).
Proof. exact check_crc_file_1024. Qed.

Theorem C20_check_crc_dir : forall files : list (list N),
  check_crc_files files = true <-> Forall crc_file_ok files.
Proof. exact check_crc_files_iff. Qed.

Theorem C20_check_crc_no_panic : forall phys : list N,
  snd (FileBin.validate_crc (dev_init phys None)) <> Panic.
Proof. exact validate_crc_no_panic. Qed.

(** e57-extract-xml: status and standard output are the library's [raw_xml]. *)
Theorem C20_extract_xml : forall phys : list N,
  match snd (ReaderOpen.raw_xml (dev_init phys None)) with
  | Ok xml => extract_xml_tool phys = (true, xml)
  | _ => extract_xml_tool phys = (false, [])
  end.
Proof. exact extract_xml_tool_spec. Qed.

Print Assumptions C20_u8_roundtrip.
Print Assumptions C20_u8_text.
Print Assumptions C20_identity_pose.
Print Assumptions C20_coordinate_value.
Print Assumptions C20_coordinate_roundtrip.
Print Assumptions C20_xyz_roundtrip.
Print Assumptions C20_xyz_view_is_view.
Print Assumptions C20_xyz_end_to_end.
Print Assumptions C20_coordinate_bits_refuted.
Print Assumptions C20_nonfinite_neighbour_refuted.
Print Assumptions C20_line_filter.
Print Assumptions C20_line_skip.
Print Assumptions C20_line_six.
Print Assumptions C20_abort.
Print Assumptions C20_dropped_lines_inert.
Print Assumptions C20_lines_partition.
Print Assumptions C20_lines_shape.
Print Assumptions C20_split.
Print Assumptions C20_trim.
Print Assumptions C20_check_crc.
Print Assumptions C20_check_crc_1024.
Print Assumptions C20_check_crc_dir.
Print Assumptions C20_check_crc_no_panic.
Print Assumptions C20_extract_xml.
