(** C04 - All metadata survives write -> read unchanged.
    Statements only; every proof is an [exact] of a lemma proved in Proofs/.

    The model has three parts, each tied to the crate separately: [gen_root]
    (every xml_string / serialize_root, byte for byte), [xml_parse] (roxmltree
    on the XML subset of E57 files) and [extract_all] (every from_node).
    [tree_of m] is the abstract XML tree of a metadata value, written from the
    E57 vocabulary.  Floats are a bit pattern plus the text Rust prints for it;
    the parse oracles [pf64]/[pf32] are arbitrary functions about which only
    [float_oracle_ok] is assumed: they map the texts stored in [m] back to the
    stored bits (Rust's print/parse round trip, validated on every value of
    every run).  [fdiv] (the one float division of the extractors) is arbitrary. *)
From Coq Require Import List Bool NArith ZArith.
From E57 Require Import Base.Prelude Model.Meta Model.MetaFile Model.XmlTree Model.XmlGen Model.XmlParse
  Model.XmlExtract Spec.XmlRender Spec.MetaTree Spec.XgWriterOk Spec.XeMetaOk
  Proofs.XmlpRoundtripDoc Proofs.XgRender Proofs.XgWf Proofs.XgTotal Proofs.XeTreeMain Proofs.C04Compose.

(** The round trip: for every metadata value the writer API can hold
    ([writer_meta_ok]: standard format name, limits complete or absent,
    extension records with a registered prefix; [meta_xml_ok]: strings of XML
    characters without carriage return, extension names that are XML names;
    [meta_ok]: integers within their Rust types) the XML the writer generates
    is the writer-style rendering of [tree_of m], the parser reads exactly that
    tree, and the extractors return [reader_view m] - which is [m] itself
    except for the minor version number, a field no accessor exposes. Every
    optional field present or absent, every string (including '<', '&', "]]>",
    empty, whitespace-only, astral code points), every float bit pattern, every
    64-bit integer, all four image representations with and without mask. *)
Theorem C04_metadata_roundtrip :
  forall (pf64 pf32 : xstr -> option N) (fdiv : N -> Z -> N) (m : file_meta) (bs : list N),
    writer_meta_ok m = true -> meta_xml_ok m = true -> meta_ok m = true ->
    float_oracle_ok pf64 pf32 m = true ->
    gen_root m = Ok bs ->
    bs = render writer_choices (tree_of m) /\
    xml_parse bs = ParseOk (tree_of m) /\
    read_meta pf64 pf32 fdiv bs = Ok (reader_view m).
Proof. exact metadata_roundtrip. Qed.

(** The same metadata is read from ANY rendering of the tree (attribute order
    and quotes, white space in tags, CDATA or escaped text, character
    references, self-closing empty elements, declaration, BOM). *)
Theorem C04_any_rendering :
  forall (pf64 pf32 : xstr -> option N) (fdiv : N -> Z -> N) (c : render_choices) (m : file_meta),
    writer_meta_ok m = true -> meta_xml_ok m = true -> meta_ok m = true ->
    float_oracle_ok pf64 pf32 m = true ->
    read_meta pf64 pf32 fdiv (render c (tree_of m)) = Ok (reader_view m).
Proof. exact metadata_any_rendering. Qed.

(** The writer's XML generation fails only for an empty file GUID and never panics. *)
Theorem C04_gen_total : forall m, rt_guid (fm_root m) <> [] -> exists bs, gen_root m = Ok bs.
Proof. exact gen_total. Qed.

Theorem C04_gen_never_panics : forall m, gen_root m <> Panic.
Proof. exact gen_never_panics. Qed.

(** The parser inverts the renderer for every well-formed document and every choice. *)
Theorem C04_parse_render : forall c d, wf_doc d = true -> xml_parse (render c d) = ParseOk d.
Proof. exact parse_render. Qed.

(** The extractors invert [tree_of]. *)
Theorem C04_extract_tree_of :
  forall (pf64 pf32 : xstr -> option N) (fdiv : N -> Z -> N) (m : file_meta),
    meta_ok m = true -> float_oracle_ok pf64 pf32 m = true ->
    extract_all pf64 pf32 fdiv (tree_of m) = Ok (reader_view m).
Proof. exact extract_tree_of. Qed.

Print Assumptions C04_metadata_roundtrip.
Print Assumptions C04_any_rendering.
Print Assumptions C04_gen_total.
Print Assumptions C04_gen_never_panics.
Print Assumptions C04_parse_render.
Print Assumptions C04_extract_tree_of.
