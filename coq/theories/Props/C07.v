(** C07 - Corrupted pages never yield data; CRC is CRC-32C in both backends.
    Statements only; every proof is an [exact] of a lemma proved in Proofs/. *)
From E57 Require Import Base.Prelude Model.Crc Model.Device Model.PagedReader Spec.CrcSpec Spec.PageReadSpec
  Model.Prog Model.Record Model.QueueReader Model.FileBin Model.ReaderOpen
  Proofs.CrcLinear Proofs.CrcDetect Proofs.CrcBurst Proofs.PagedReaderProofs
  Proofs.ReaderProgSem Proofs.ReaderProgStrict Proofs.ReaderProgAlter Proofs.ReaderSessions.

(** The crate's table-driven checksum is CRC-32C (Castagnoli) as defined
    bit-serially, for every byte string; with the standard check value. *)
Theorem C07_is_crc32c : forall l : list N, crc32c l = crc_bitwise l.
Proof. exact crc32c_is_bitwise. Qed.

Theorem C07_check_value : crc32c [49;50;51;52;53;54;55;56;57] = 0xE3069283.
Proof. exact crc_check_value. Qed.

(** Every alteration of one, two or three bits of a valid page - payload
    and/or checksum bits, whichever way bits are numbered inside bytes - makes
    the page invalid. *)
Theorem C07_detect_3bits : forall (msb : bool) (page l : list N),
  is_page page -> crc_ok page = true -> pattern l -> (1 <= length l <= 3)%nat ->
  crc_ok (flip_bits msb page l) = false.
Proof. exact crc_detects_3_bits. Qed.

(** Every burst of at most 32 bits (CRC bit order) inside the payload or inside
    the checksum field is detected. *)
Theorem C07_detect_burst : forall (page l : list N),
  is_page page -> crc_ok page = true -> burst 32 l -> (within_payload l \/ within_checksum l) ->
  crc_ok (flip_bits false page l) = false.
Proof. exact crc_detects_burst_lsb. Qed.

(** With bits numbered most-significant first inside bytes: bursts up to 31 bits. *)
Theorem C07_detect_burst_msb31 : forall (page l : list N),
  is_page page -> crc_ok page = true -> burst 31 l -> (within_payload l \/ within_checksum l) ->
  crc_ok (flip_bits true page l) = false.
Proof. exact crc_detects_burst_msb31. Qed.

(** Any alteration confined to the checksum field is detected. *)
Theorem C07_detect_checksum_field : forall (msb : bool) (page l : list N),
  is_page page -> crc_ok page = true -> l <> [] -> pattern l -> within_checksum l ->
  crc_ok (flip_bits msb page l) = false.
Proof. exact crc_detects_checksum_pattern. Qed.

(** Known finding (format-mandated): a burst of at most 32 bits straddling the
    payload/checksum boundary can go undetected, because the reflected CRC is
    stored big-endian. *)
Theorem C07_burst_straddle_refuted : exists (msb : bool) (page l : list N),
  is_page page /\ crc_ok page = true /\ burst 32 l /\ flip_bits msb page l <> page /\
  crc_ok (flip_bits msb page l) = true.
Proof. exact crc_burst_straddle_refuted. Qed.

(** Known finding (format-mandated): 32 bits counted most-significant first
    span 40 bits in CRC order. *)
Theorem C07_burst32_msb_refuted : exists (page l : list N),
  is_page page /\ crc_ok page = true /\ burst 32 l /\ within_payload l /\
  flip_bits true page l <> page /\ crc_ok (flip_bits true page l) = true.
Proof. exact crc_detects_burst_refuted. Qed.

(** The page cache is transparent and never serves a page under a stale
    number: for ANY device contents - valid or corrupted, any accepted page
    size - and ANY history of seeks, reads and aligns, failed operations
    included, the reader returns exactly what a cache-less reader returns that
    validates the page it touches on every read. *)
Theorem C07_never_serves_unvalidated : forall (ps : N) (phys : list N) (d1 : dev) (s0 : pr) (ops : list pr_op),
  pr_new ps (dev_init phys None) = (d1, Ok s0) ->
  snd (pr_run ops s0) = gr_run ps phys ops 0.
Proof. exact pr_run_equiv. Qed.

(** Bytes handed out by a read always come from a page whose checksum is valid. *)
Theorem C07_served_bytes_are_validated : forall ps phys n off off' bs,
  gr_read ps phys n off = (off', Ok bs) -> bs <> [] ->
  page_ok ps (page_at ps phys (off / (ps - 4))) = true /\
  bs = slice (off mod (ps - 4)) (len bs) (page_at ps phys (off / (ps - 4))).
Proof. exact gr_read_serves_valid. Qed.

(** Alteration: [phys'] is an altered image of the same length in which every
    altered page fails its checksum ([no_collision]; the detection theorems
    above say when that is guaranteed).  Every read operation - any program
    over the page layer that starts with an absolute seek and stops at the
    first failing operation, which raw iteration, blob extraction and the XML
    read are ([strict_*]) - run after ANY earlier operations on the reader of
    the altered file, failed ones included, either fails or returns exactly
    what it returns on the unaltered file. *)
Theorem C07_alteration :
  forall ps phys phys' d1 s0 d1' s0' (B : Type) (q q' : rprog B) (A : Type) (x : N) (k : res pr_out -> rprog A),
  pr_new ps (dev_init phys None) = (d1, Ok s0) ->
  pr_new ps (dev_init phys' None) = (d1', Ok s0') ->
  no_collision ps phys phys' ->
  strict (ROp (PrSeek x) k) ->
  (exists e, snd (rrun (ROp (PrSeek x) k) (fst (rrun q' s0'))) = Err e) \/
  snd (rrun (ROp (PrSeek x) k) (fst (rrun q' s0'))) = snd (rrun (ROp (PrSeek x) k) (fst (rrun q s0))).
Proof. exact alteration_reachable. Qed.

(** The crate's read operations are such programs. *)
Theorem C07_raw_iteration_is_strict : forall fuel ls fo recs proto, strict (op_raw_all fuel ls fo recs proto).
Proof. exact strict_op_raw_all. Qed.
Theorem C07_blob_read_is_strict : forall ls off ln, strict (op_blob ls off ln).
Proof. exact strict_op_blob. Qed.
Theorem C07_open_is_strict : strict open_paged.
Proof. exact strict_open_paged. Qed.
Theorem C07_raw_xml_is_strict : strict raw_xml_paged.
Proof. exact strict_raw_xml_paged. Qed.
Theorem C07_validate_is_strict : forall fuel ps, strict (validate_loop fuel ps).
Proof. exact strict_validate_loop. Qed.

Print Assumptions C07_is_crc32c.
Print Assumptions C07_check_value.
Print Assumptions C07_detect_3bits.
Print Assumptions C07_detect_burst.
Print Assumptions C07_detect_burst_msb31.
Print Assumptions C07_detect_checksum_field.
Print Assumptions C07_burst_straddle_refuted.
Print Assumptions C07_burst32_msb_refuted.
Print Assumptions C07_never_serves_unvalidated.
Print Assumptions C07_served_bytes_are_validated.
Print Assumptions C07_alteration.
Print Assumptions C07_raw_iteration_is_strict.
Print Assumptions C07_blob_read_is_strict.
Print Assumptions C07_open_is_strict.
Print Assumptions C07_raw_xml_is_strict.
Print Assumptions C07_validate_is_strict.
