(** C06 - Blobs and image payloads round-trip byte-exactly.
    Statements only; every proof is an [exact] of a lemma proved in Proofs/.
    An image's data and mask are blob sections; which descriptor the XML
    attaches to which image is part of C04. *)
From E57 Require Import Base.Prelude Model.Device Model.PagedWriter Model.PagedReader Model.Record
  Model.Prog Model.QueueReader Model.PcWriter Model.FileBin Model.ReaderOpen
  Spec.PageSpec Spec.FormatSpec
  Proofs.BlobProofs Proofs.FileRtWriter Proofs.FileRtReader Proofs.FileRtMain.

(** For ANY list of items (blobs of every length from zero upward, at every
    position relative to page boundaries and to other sections - the position is
    universally quantified through the item list), the file opens and every
    blob descriptor the writer published leads to exactly that blob's bytes,
    after any earlier page-layer history on the same reader (this is one
    conjunct of [roundtrip_ok]; the other is the point clouds, C01). *)
Theorem C06_file_roundtrip : forall (is : list item) (xml : list N),
  forallb item_wf is = true -> xml <> [] -> len xml <= MAX_XML_SIZE ->
  ls_phys_size (final_stream is xml) < 2 ^ 64 ->
  roundtrip_ok is xml.
Proof. exact file_roundtrip_xml. Qed.

(** What [Blob::write] appends: header with the section length patched in, the
    data, zero padding to a multiple of four; the published offset is the
    physical position of the section start, the published length the data length. *)
Theorem C06_blob_write : forall (data : list N) (l0 : lstream),
  ls_pos l0 = len (ls_data l0) -> len (ls_data l0) mod 4 = 0 ->
  exists l1,
    wrun_spec (blob_write data) l0 = (l1, Ok (phys_of_log (len (ls_data l0)), len data)) /\
    ls_data l1 = ls_data l0 ++ blob_section data /\
    ls_pos l1 = len (ls_data l1) /\ len (ls_data l1) mod 4 = 0.
Proof. exact blob_write_spec. Qed.

(** Reading a blob never silently returns fewer, more or other bytes than the
    descriptor's length: for ANY stream contents, descriptor and starting
    offset, a successful read has exactly the requested length. *)
Theorem C06_exact_or_err : forall (log : list N) (log_size offset length off0 : N) (bs : list N),
  snd (rrun_spec log (blob_read log_size offset length) off0) = Ok bs -> len bs = length.
Proof. exact blob_read_exact_or_err. Qed.

(** A blob section anywhere in a stream is read back exactly. *)
Theorem C06_blob_read : forall (data pre post log : list N),
  log = pre ++ blob_section data ++ post ->
  len log mod 1020 = 0 -> len data < 2 ^ 64 ->
  blob_section_length_fits_u64 data ->
  snd (rrun_spec log (blob_read (len log) (phys_of_log (len pre)) (len data)) 0) = Ok data.
Proof. exact blob_read_spec. Qed.

Print Assumptions C06_file_roundtrip.
Print Assumptions C06_blob_write.
Print Assumptions C06_exact_or_err.
Print Assumptions C06_blob_read.
