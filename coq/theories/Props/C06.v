(** C06 - placeholder while the proofs are being written. *)
From E57 Require Import Base.Prelude.
