(** C01 - Raw point data survives write -> read exactly.
    Statements only; every proof is an [exact] of a lemma proved in Proofs/.
    The XML text is an input of this statement (any byte string): what the XML
    says about prototypes and record counts is property C04; here the reader is
    given the descriptors the writer published. *)
From E57 Require Import Base.Prelude Model.Device Model.PagedWriter Model.PagedReader Model.Record
  Model.Prog Model.QueueReader Model.PcWriter Model.FileBin Model.ReaderOpen
  Spec.PageSpec Spec.BitSpec Spec.FormatSpec
  Proofs.PagedWriterProofs Proofs.PcWriterLemmas Proofs.PcWriterProofs Proofs.QueueReaderProofs
  Proofs.FileRtWriter Proofs.FileRtReader Proofs.FileRtMain Proofs.FileRtExample.

(** The whole file: for ANY list of items (any number and order of blobs and
    point clouds - so every section start residue modulo 1020 is covered by the
    quantifier, not by a sweep), every prototype over single/double/integer/
    scaled integer of any declared range for which one point fits into a packet
    ([item_wf]: [scene_ok] = types well formed, values of the prototype's type
    and within minimum..maximum, at least one record of non-zero width), any
    number of points: the writer accepts every call, the flushed file is a whole
    number of sealed pages, the reader opens it and gets the XML bytes, and for
    each point cloud the raw iterator returns exactly the points that were
    added - as many as the published record count, in order, bit-identical -
    after ANY earlier page-layer history on the same reader. *)
Theorem C01_file_roundtrip : forall (is : list item) (xml : list N),
  forallb item_wf is = true ->
  (xml <> [] \/ len (ls_data (final_stream is xml)) mod 1020 <> 0) ->
  len xml <= MAX_XML_SIZE ->
  ls_phys_size (final_stream is xml) < 2 ^ 64 ->
  roundtrip_ok is xml.
Proof. exact file_roundtrip. Qed.

(** The section a point cloud writer emits is an encoding of the points in the
    independent format specification, for a layout that is legal. *)
Theorem C01_writer_emits_spec : forall (proto : list dtype) (points : list (list rvalue)) (l0 : lstream) (mpp : N),
  scene_ok proto points = true ->
  get_max_packet_points proto = Ok mpp ->
  ls_pos l0 = len (ls_data l0) -> len (ls_data l0) mod 4 = 0 ->
  exists (lay : layout) (l1 : lstream),
    wrun_spec (item_write (IPc proto points)) l0
      = (l1, Ok (OPc (phys_of_log (len (ls_data l0))) (len points))) /\
    legal proto points lay = true /\
    ls_data l1 = ls_data l0 ++ encode_section (phys_of_log (len (ls_data l0) + 32)) lay /\
    ls_pos l1 = len (ls_data l1) /\ len (ls_data l1) mod 4 = 0.
Proof. exact pcw_emits_spec. Qed.

(** Packet capacity: with [max_points_per_packet] as computed, at least one
    point fits and no data packet exceeds the 64 KiB limit of the format. *)
Theorem C01_packet_capacity : forall proto mpp,
  get_max_packet_points proto = Ok mpp ->
  1 <= mpp /\
  6 + 2 * len proto + len proto + 500
    + (mpp * fold_left (fun a t => a + bit_size t) proto 0) / 8 <= 65535 /\
  6 + 2 * len proto
    + (mpp * fold_left (fun a t => a + bit_size t) proto 0 + 7 * len proto) / 8 + 3 <= 65535 /\
  6 + 2 * len proto + len proto + 3 <= 65535.
Proof. exact packet_capacity. Qed.

(** The hypothesis on the XML is exact: an EMPTY XML text whose position is the
    very end of a page payload is written without error but cannot be opened
    (the crate never writes an empty XML text). *)
Theorem C01_empty_xml_at_page_end_refused : forall (is : list item),
  forallb item_wf is = true ->
  len (ls_data (final_stream is [])) mod 1020 = 0 ->
  ls_phys_size (final_stream is []) < 2 ^ 64 ->
  snd (reader_open (dev_init (file_of is []) None)) = Err ERead.
Proof. exact file_open_fails_empty_xml_at_page_end. Qed.

(** Non-vacuity: two point clouds with a 0-bit, an 11-bit and a 64-bit record and
    a 1019-byte blob between them satisfy every premise. *)
Theorem C01_instance : roundtrip_ok FileInstance.items FileInstance.xml.
Proof. exact file_roundtrip_instance. Qed.

(** The first sentence of the property at the level of the public API (slice wapi,
    [Proofs/WapiAccept.v]; the converse of [C10_rejects]).  The whole writer
    ([Model/WriterFull.v]: the call-by-call state machine with the XML generator plugged in) on
    the empty fault-free paged device [pw0], a complete program - [new], then units (setters,
    [add_blob], point cloud sessions [add_pointcloud .. finalize; drop], image sessions), then
    [finalize] - whose arguments are values of their Rust types ([call_wf]).  If every call is
    acceptable in the state it is issued in ([acceptable_calls]: the state of the machine after
    the calls before it), every call returns Ok (CrOk / CrBlob) and the flush of [Drop] succeeds.
    [acceptable_call st c] = [representable_call st c] (the documented rules, as in C10: the
    prototype rules, no duplicate names, integer minimum <= maximum, float limits that are numbers
    with minimum <= maximum, extension names and URLs
    well-formed / registered / distinct, values of the prototype's type, arity and range,
    writers not finalized, custom limits complete, an image has a representation when
    finalized) AND the two conditions the documentation does not state:
    - [packet_margin proto] for [add_pointcloud]: the capacity check reserves one more byte per
      record and 500 bytes on top of "one point fits a packet" ([packet_margin_iff]: exactly
      [get_max_packet_points] = Ok).  Without it the statement is false:
      [C10_fits_packet_not_enough] (Props/C10.v) is a prototype that follows every documented
      rule, whose point fits a packet, and that is refused;
    - [guid <> []] for [new]: [serialize_root] refuses an empty file GUID at [finalize].
    No float oracle hypotheses, no size hypothesis: neither the crate nor the model bounds
    offsets while writing (that they fit u64 is a hypothesis of the read-back below). *)
From E57 Require Import Base.Floats Model.Meta Model.MetaFile Model.XmlTree Model.XmlGen Model.WriterApi Model.WriterFull
  Spec.XgWriterOk Spec.XeMetaOk Proofs.C04Compose
  Proofs.WapiInv Proofs.WapiFullProg Proofs.WapiFullMeta Proofs.WapiFullInv Proofs.WapiFull Proofs.WapiAccept.

Theorem C01_api_accepts : forall (fmt64 fmt32 : N -> xstring) (version : xstring) guid tops,
  units tops -> Forall call_wf tops ->
  acceptable_calls (gen_xml_full fmt64 fmt32) (lib_version_text version) ws_init ls_init
    (NewWriter guid :: tops ++ [Finalize]) ->
  exists s st rs,
    wrun (writer_run fmt64 fmt32 version (NewWriter guid :: tops ++ [Finalize])) pw0 = (s, Ok (st, rs)) /\
    Forall res_ok rs /\ snd (pw_flush s) = Ok tt.
Proof. exact api_accepts_units. Qed.

(** End to end: an acceptable complete program (strings of XML characters, limits that are i64
    values: [call_ok]) runs all-Ok, and - if the published numbers are values of their Rust types
    (u64 offsets and counts, u32 image sizes, fewer than 65535 extensions, the XML within the
    reader's limit, the file below 2^64 bytes) - the file opens, its XML extracts to the metadata
    the state machine holds, and every point cloud and every blob is read back exactly
    ([explains] ties the items to the calls; the conclusion is that of [C10_accepted_reads_back]).
    [fmt64] .. [pf32]: Rust's Display / FromStr of floats as far as they are used. *)
Theorem C01_api_roundtrip : forall (fmt64 fmt32 : N -> xstring) (pf64 pf32 : xstr -> option N)
    (fdiv : N -> Z -> N) (version : xstring),
  (forall b, plain_text (fmt64 b) = true) -> (forall b, plain_text (fmt32 b) = true) ->
  (forall b, pf64 (fmt64 b) = Some (canon64 b)) -> (forall b, pf32 (fmt32 b) = Some (canon32 b)) ->
  string_ok (lib_version_text version) = true ->
  forall guid tops,
  units tops ->
  Forall call_ok (NewWriter guid :: tops ++ [Finalize]) ->
  acceptable_calls (gen_xml_full fmt64 fmt32) (lib_version_text version) ws_init ls_init
    (NewWriter guid :: tops ++ [Finalize]) ->
  exists s st rs,
    wrun (writer_run fmt64 fmt32 version (NewWriter guid :: tops ++ [Finalize])) pw0 = (s, Ok (st, rs)) /\
    Forall res_ok rs /\
    (forallb pc_u64 (ws_pcs st) = true -> forallb im_ok (ws_imgs st) = true ->
     len (ws_exts st) < 65535 ->
     (forall xml, gen_root (fill_meta fmt64 fmt32 (ws_meta st)) = Ok xml -> len xml <= MAX_XML_SIZE) ->
     len (d_bytes (pw_dev (fst (pw_flush s)))) < 2 ^ 64 ->
     exists is os xml bl,
       explains tops is os (ws_pcs st) (ws_imgs st) bl /\
       gen_root (fill_meta fmt64 fmt32 (ws_meta st)) = Ok xml /\
       snd (pw_flush s) = Ok tt /\
       let f := d_bytes (pw_dev (fst (pw_flush s))) in
       all_pages_valid f = true /\
       exists rs0 h d',
         reader_open (dev_init f None) = (d', Ok (rs0, h, xml)) /\
         read_meta pf64 pf32 fdiv xml = Ok (reader_view (fill_meta fmt64 fmt32 (ws_meta st))) /\
         Forall2 (reads_back rs0) is os).
Proof. exact api_roundtrip. Qed.

Print Assumptions C01_file_roundtrip.
Print Assumptions C01_writer_emits_spec.
Print Assumptions C01_packet_capacity.
Print Assumptions C01_empty_xml_at_page_end_refused.
Print Assumptions C01_instance.
Print Assumptions C01_api_accepts.
Print Assumptions C01_api_roundtrip.
