(** C01 - Raw point data survives write -> read exactly.
    Statements only; every proof is an [exact] of a lemma proved in Proofs/.
    The XML text is an input of this statement (any byte string): what the XML
    says about prototypes and record counts is property C04; here the reader is
    given the descriptors the writer published. *)
From E57 Require Import Base.Prelude Model.Device Model.PagedWriter Model.PagedReader Model.Record
  Model.Prog Model.QueueReader Model.PcWriter Model.FileBin Model.ReaderOpen
  Spec.PageSpec Spec.BitSpec Spec.FormatSpec
  Proofs.PagedWriterProofs Proofs.PcWriterLemmas Proofs.PcWriterProofs Proofs.QueueReaderProofs
  Proofs.FileRtWriter Proofs.FileRtReader Proofs.FileRtMain Proofs.FileRtExample.

(** The whole file: for ANY list of items (any number and order of blobs and
    point clouds - so every section start residue modulo 1020 is covered by the
    quantifier, not by a sweep), every prototype over single/double/integer/
    scaled integer of any declared range for which one point fits into a packet
    ([item_wf]: [scene_ok] = types well formed, values of the prototype's type
    and within minimum..maximum, at least one record of non-zero width), any
    number of points: the writer accepts every call, the flushed file is a whole
    number of sealed pages, the reader opens it and gets the XML bytes, and for
    each point cloud the raw iterator returns exactly the points that were
    added - as many as the published record count, in order, bit-identical -
    after ANY earlier page-layer history on the same reader. *)
Theorem C01_file_roundtrip : forall (is : list item) (xml : list N),
  forallb item_wf is = true ->
  (xml <> [] \/ len (ls_data (final_stream is xml)) mod 1020 <> 0) ->
  len xml <= MAX_XML_SIZE ->
  ls_phys_size (final_stream is xml) < 2 ^ 64 ->
  roundtrip_ok is xml.
Proof. exact file_roundtrip. Qed.

(** The section a point cloud writer emits is an encoding of the points in the
    independent format specification, for a layout that is legal. *)
Theorem C01_writer_emits_spec : forall (proto : list dtype) (points : list (list rvalue)) (l0 : lstream) (mpp : N),
  scene_ok proto points = true ->
  get_max_packet_points proto = Ok mpp ->
  ls_pos l0 = len (ls_data l0) -> len (ls_data l0) mod 4 = 0 ->
  exists (lay : layout) (l1 : lstream),
    wrun_spec (item_write (IPc proto points)) l0
      = (l1, Ok (OPc (phys_of_log (len (ls_data l0))) (len points))) /\
    legal proto points lay = true /\
    ls_data l1 = ls_data l0 ++ encode_section (phys_of_log (len (ls_data l0) + 32)) lay /\
    ls_pos l1 = len (ls_data l1) /\ len (ls_data l1) mod 4 = 0.
Proof. exact pcw_emits_spec. Qed.

(** Packet capacity: with [max_points_per_packet] as computed, at least one
    point fits and no data packet exceeds the 64 KiB limit of the format. *)
Theorem C01_packet_capacity : forall proto mpp,
  get_max_packet_points proto = Ok mpp ->
  1 <= mpp /\
  6 + 2 * len proto + len proto + 500
    + (mpp * fold_left (fun a t => a + bit_size t) proto 0) / 8 <= 65535 /\
  6 + 2 * len proto
    + (mpp * fold_left (fun a t => a + bit_size t) proto 0 + 7 * len proto) / 8 + 3 <= 65535 /\
  6 + 2 * len proto + len proto + 3 <= 65535.
Proof. exact packet_capacity. Qed.

(** The hypothesis on the XML is exact: an EMPTY XML text whose position is the
    very end of a page payload is written without error but cannot be opened
    (the crate never writes an empty XML text). *)
Theorem C01_empty_xml_at_page_end_refused : forall (is : list item),
  forallb item_wf is = true ->
  len (ls_data (final_stream is [])) mod 1020 = 0 ->
  ls_phys_size (final_stream is []) < 2 ^ 64 ->
  snd (reader_open (dev_init (file_of is []) None)) = Err ERead.
Proof. exact file_open_fails_empty_xml_at_page_end. Qed.

(** Non-vacuity: two point clouds with a 0-bit, an 11-bit and a 64-bit record and
    a 1019-byte blob between them satisfy every premise. *)
Theorem C01_instance : roundtrip_ok FileInstance.items FileInstance.xml.
Proof. exact file_roundtrip_instance. Qed.

Print Assumptions C01_file_roundtrip.
Print Assumptions C01_writer_emits_spec.
Print Assumptions C01_packet_capacity.
Print Assumptions C01_empty_xml_at_page_end_refused.
Print Assumptions C01_instance.
