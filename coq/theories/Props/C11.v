(** C11 - Page layer: file payload always equals the logical stream written.
    Statements only; every proof is an [exact] of a lemma proved in Proofs/. *)
From E57 Require Import Base.Prelude Model.Crc Model.Device Model.PagedWriter Model.PagedReader
  Spec.PageSpec Spec.PageReadSpec Proofs.PagedWriterProofs Proofs.PagedReaderProofs.

(** The writer state produced by [PagedWriter::new] on an empty device. *)
Theorem C11_writer_new : pw_new (dev_init [] None) = (pw_dev pw0, Ok pw0).
Proof. exact pw_new_fresh. Qed.

(** For every history over write_all / physical_seek (accepted or rejected) /
    flush / align / physical_position / physical_size: the results (including
    every reported position and size) are those of the logical-stream
    specification, a flush succeeds, and at that flush point the device holds
    exactly [paginate] of the logical stream written. *)
Theorem C11_writer : forall ops : list pw_op,
  snd (pw_run ops pw0) = snd (ls_run ops ls_init) /\
  snd (pw_flush (fst (pw_run ops pw0))) = Ok tt /\
  d_bytes (pw_dev (fst (pw_flush (fst (pw_run ops pw0))))) = paginate (ls_data (fst (ls_run ops ls_init))).
Proof. exact pw_run_refines. Qed.

(** [paginate]: every page carries a valid checksum, and the bytes outside the
    checksums are the logical stream zero-filled to a whole page. *)
Theorem C11_pages_sealed : forall data, all_pages_valid (paginate data) = true.
Proof. exact paginate_all_valid. Qed.

Theorem C11_payload_is_stream : forall data, strip_crc (paginate data) = pad_payload data.
Proof. exact strip_paginate. Qed.

Theorem C11_image_length : forall data, len (paginate data) = pages_for (len data) * 1024.
Proof. exact paginate_length. Qed.

(** Reading such a file through the page layer returns the logical stream,
    for every history of physical seeks, reads of any size and alignments
    (failed operations included). *)
Theorem C11_reader : forall (log : list N) (d1 : dev) (s0 : pr) (ops : list pr_op),
  log <> [] -> len log mod 1020 = 0 ->
  pr_new 1024 (dev_init (paginate log) None) = (d1, Ok s0) ->
  snd (pr_run ops s0) = lr_run log ops 0.
Proof. exact pr_run_logical. Qed.

(** Non-vacuity: a concrete history with a rejected seek, a seek back, a patch
    and a page-crossing write, evaluated. *)
Example C11_example :
  let ops := [PwWrite (repeat 7 1000); PwSeek 5000; PwSeek 4; PwWrite [1; 2; 3]; PwSeek 1000; PwWrite (repeat 9 50); PwAlign; PwPosition; PwSize] in
  snd (pw_run ops pw0) = [Ok 0; Err EInvalid; Ok 0; Ok 0; Ok 0; Ok 0; Ok 0; Ok 1056; Ok 2048].
Proof. vm_compute. reflexivity. Qed.

Print Assumptions C11_writer_new.
Print Assumptions C11_writer.
Print Assumptions C11_pages_sealed.
Print Assumptions C11_payload_is_stream.
Print Assumptions C11_image_length.
Print Assumptions C11_reader.
