(** C02 - Every finalized file is a well-formed E57 file by an independent decoder
    (binary side: pages, checksums, header, XML range, sections, packets,
    offsets, lengths, alignment, contents; the XML text is a byte string here,
    its well-formedness and the extraction of the descriptors from it are the
    XML side of the property).
    Statements only; every proof is an [exact] of a lemma proved in Proofs/. *)
From E57 Require Import Base.Prelude Model.Device Model.PagedWriter Model.Record Model.Prog
  Model.QueueReader Model.PcWriter Model.FileBin Spec.BitSpec Spec.PageSpec Spec.FormatSpec Spec.FileSpec
  Proofs.PagedWriterProofs Proofs.FileRtWriter Proofs.SpecSection Proofs.SpecDecode
  Proofs.SpecWriter Proofs.SpecWriterOk Proofs.SpecC02.
From Coq Require Import Permutation.
From E57 Require Import Model.Meta Model.MetaFile Model.XmlTree Model.XmlParse Model.XmlExtract
  Spec.FileSpecXml Spec.XmlRender Spec.MetaTree Spec.XeMetaOk Proofs.SpecXml Proofs.SpecXmlExample
  Proofs.SpecProtoValues Proofs.SpecProtoFinal.
From E57 Require Import Base.Floats Model.XmlGen Spec.XgWriterOk Spec.XeMetaOk Model.WriterApi Model.WriterFull
  Proofs.WapiFullProg Proofs.WapiFullMeta Proofs.WapiFullInv Proofs.WapiSpec Proofs.WapiFullExample Proofs.WapiSpecExample.

(** The main statement.  The ONLY hypothesis about the call sequence is that the writer
    returned Ok (any list of blobs and point clouds, any prototypes, any points - valid or
    not).  [f] is what is on the device after the program and the flush of [Drop]; the
    descriptors [dx] yields are what the items published for the XML.  Then the independent
    decoder ([Spec/FileSpec.v]: size a whole number of pages, every page checksum valid,
    header signature/version/page size, stated physical length = true length, XML range
    inside the file and outside checksum bytes, every section offset 4-aligned and outside
    checksum bytes on a section header of the right id, compressed-vector section length =
    32 + sum of the packet lengths, every packet length a multiple of four and equal to its
    header + stream lengths + padding, data offset on a packet, index offset 0 or on an index
    packet, blob section length = 16 + data length rounded up to 4, no two sections / header /
    XML overlap) accepts the file and decodes exactly the points and blob bytes handed to the
    writer.
    Other hypotheses, none of them about validity of the call sequence:
    - [item_typed]: float values are bit patterns below 2^32 / 2^64 (every Rust f32/f64 is;
      the model's value type is wider: [C02_float_typing_needed]); integer bounds are i64 with
      minimum <= maximum.  The binary model has no [validate_prototype]; the API rejects
      minimum > maximum since /repo 0343c43 (before, such a prototype with zero points was
      written and the file could not be opened: [C02_bounds_order_needed] is that run).
    - [xml <> []]: the decoder demands an XML text (the crate never writes an empty one).
    - [len f < 2^64]: header fields, section lengths and offsets are u64. *)
Theorem C02_wellformed : forall (is : list FileBin.item) (xml : list N) (outs : list item_out) (s : pw)
    (dx : list N -> list descriptor),
  forallb item_typed is = true ->
  xml <> [] ->
  wrun (file_prog is xml) pw0 = (s, Ok outs) ->
  let f := d_bytes (pw_dev (fst (pw_flush s))) in
  len f < 2 ^ 64 ->
  dx xml = item_descriptors is outs ->
  spec_wellformed f dx = true /\
  spec_decode_file f dx = Some (mkDecoded xml (map item_content is)).
Proof. exact writer_ok_file_wellformed. Qed.

(** How it is proved, part 1: the writer's file IS a file of the independent encoder, for the
    layout the writer chose (sections in call order, no extra padding, XML last). *)
Theorem C02_writer_file_is_spec : forall (is : list FileBin.item) (xml : list N) (outs : list item_out) (s : pw),
  forallb item_wf is = true ->
  wrun (file_prog is xml) pw0 = (s, Ok outs) ->
  exists fl : file_layout,
    file_layout_ok fl = true /\
    snd (pw_flush s) = Ok tt /\
    d_bytes (pw_dev (fst (pw_flush s))) = spec_encode_file fl xml /\
    layout_descriptors 48 fl (len xml) = item_descriptors is outs /\
    layout_contents fl = map item_content is.
Proof. exact writer_file_is_spec. Qed.

(** Part 2: the independent decoder accepts and inverts the independent encoder for EVERY legal
    file layout (any section order, XML position, padding, packetisation) - no crate involved. *)
Theorem C02_decoder_inverts_encoder : forall (fl : file_layout) (x : list N) (dx : list N -> list descriptor),
  file_layout_ok fl = true -> x <> [] ->
  len (spec_encode_file fl x) < 2 ^ 64 ->
  dx x = layout_descriptors 48 fl (len x) ->
  let f := spec_encode_file fl x in
  container_ok f = true /\ file_xml f = x /\
  spec_wellformed f dx = true /\
  spec_decode_file f dx = Some (mkDecoded x (layout_contents fl)).
Proof. exact spec_decode_encode. Qed.

(** Part 3, the core: one compressed-vector section, every legal layout (index and ignored
    packets anywhere, empty chunks, values straddling packets).  The size hypothesis is there
    because the section length field is a u64. *)
Theorem C02_section_decoder_inverts_encoder : forall proto points lay off rest,
  scene_ok proto points = true -> legal proto points lay = true ->
  32 + len (section_body lay) < 2 ^ 64 ->
  decode_section proto (length points) (encode_section off lay ++ rest) = Some points.
Proof. exact decode_section_encode. Qed.

(** Part 4: "returned Ok" implies the conditions under which part 1 is proved. *)
Theorem C02_ok_implies_wf : forall (is : list FileBin.item) (xml : list N) (l l' : lstream) (outs : list item_out),
  forallb item_typed is = true ->
  wrun_spec (file_prog is xml) l = (l', Ok outs) -> forallb item_wf is = true.
Proof. exact file_prog_ok_wf. Qed.

(** The typing hypotheses cannot be dropped. *)
Theorem C02_float_typing_needed : exists l' outs,
  wrun_spec (items_write [IPc [TSingle] [[VSingle (2 ^ 32)]]]) ls_init = (l', Ok outs) /\
  forallb item_wf [IPc [TSingle] [[VSingle (2 ^ 32)]]] = false.
Proof. exact value_repr_needed. Qed.

Theorem C02_bounds_order_needed : exists l' outs,
  wrun_spec (items_write [IPc [TInteger 5 0; TSingle] []]) ls_init = (l', Ok outs) /\
  forallb item_wf [IPc [TInteger 5 0; TSingle] []] = false.
Proof. exact type_ok_needed. Qed.

(** Non-vacuity: a blob of 1019 bytes, a point cloud with a 0-bit, an 11-bit, a 64-bit and a
    double record, an empty point cloud; by the theorem and by evaluation. *)
Theorem C02_instance :
  let dx := fun _ : list N => item_descriptors C02Instance.items C02Instance.outs in
  spec_wellformed C02Instance.file dx = true /\
  spec_decode_file C02Instance.file dx
  = Some (mkDecoded C02Instance.xml (map item_content C02Instance.items)).
Proof. exact writer_ok_file_wellformed_instance. Qed.

(** The XML plugged in ([Spec/FileSpecXml.v]): the descriptors are what parsing the XML text of
    the file ([xml_parse]: well formed, every prefix declared) and extracting its metadata
    ([extract_all]) yield; [spec_wellformed_xml] demands that both succeed.  The XML text is ANY
    rendering [c] of the tree of a metadata value [m].  Named hypotheses - the statements the XML
    slices prove in general, composed here: [Hwf] the tree of [m] is renderable, [Hext] the
    reader's extractors return [m'] on it, [Hdesc] that metadata lists exactly the sections the
    binary writer published (the XML lists point clouds first and image blobs second, the file
    interleaves them: a permutation; [rest] = sections the XML does not mention, i.e. blobs
    added with [add_blob] that no image refers to), [Hproto] the sample value of every prototype
    element lies within the element's own limits ([C02_prototype_values_in_bounds] derives it
    from conditions on [m]; [spec_wellformed_xml] checks it on the parsed tree of the file).  [pf64], [pf32], [fdiv] are the float oracles of the
    extractors (the descriptors contain no floats).  Each extracted descriptor decodes to the
    content of the item that published it. *)
Theorem C02_wellformed_xml : forall (pf64 pf32 : xstr -> option N) (fdiv : N -> Z -> N)
    (is : list FileBin.item) (outs : list item_out) (s : pw) (m m' : file_meta) (c : render_choices)
    (rest : list descriptor),
  forallb item_typed is = true ->
  let xml := render c (tree_of m) in
  forall (Hwf : wf_doc (tree_of m) = true)
         (Hext : extract_all pf64 pf32 fdiv (tree_of m) = Ok m')
         (Hdesc : Permutation (meta_descriptors m' ++ rest) (item_descriptors is outs))
         (Hproto : proto_values_ok pf64 pf32 (tree_of m) = true),
  wrun (file_prog is xml) pw0 = (s, Ok outs) ->
  let f := d_bytes (pw_dev (fst (pw_flush s))) in
  len f < 2 ^ 64 ->
  spec_wellformed_xml pf64 pf32 fdiv f = true /\
  exists cs,
    spec_decode_file_xml pf64 pf32 fdiv f = Some (m', mkDecoded xml cs) /\
    length cs = length (meta_descriptors m') /\
    forall d cnt, In (d, cnt) (combine (meta_descriptors m') cs) ->
                  In (d, cnt) (combine (item_descriptors is outs) (map item_content is)).
Proof. exact writer_file_wellformed_xml. Qed.

(** [Hproto] from conditions on the metadata: the text [tree_of] puts into a prototype element
    (the minimum; without a minimum a negative maximum; else 0) is a value of the element's type
    within the element's own limits.  [float_limits_ordered]: float limits representable, not
    NaN, minimum <= maximum - what [validate_prototype] guarantees since /repo eaf8fc6 (before,
    [Single{min: 5, max: 1}] was accepted and written with the value 5 above its maximum:
    reported finding); integer limits are covered by [meta_ok]; the oracles invert the stored
    float texts ([float_oracle_ok]) and read "0" as +0.0. *)
Theorem C02_prototype_values_in_bounds : forall (pf64 pf32 : xstr -> option N) (m : file_meta),
  XeMetaOk.meta_ok m = true -> float_oracle_ok pf64 pf32 m = true ->
  pf64 [48] = Some 0 -> pf32 [48] = Some 0 ->
  float_limits_ordered m = true ->
  proto_values_ok pf64 pf32 (MetaTree.tree_of m) = true.
Proof. exact tree_of_proto_values_ok. Qed.

(** Non-vacuity: an image blob of 1019 bytes and a point cloud, the writer's own rendering. *)
Theorem C02_wellformed_xml_instance :
  spec_wellformed_xml XmlInstance.pf XmlInstance.pf XmlInstance.fd (XmlInstance.file writer_choices) = true /\
  exists cs,
    spec_decode_file_xml XmlInstance.pf XmlInstance.pf XmlInstance.fd (XmlInstance.file writer_choices)
    = Some (XmlInstance.meta', mkDecoded (XmlInstance.xml writer_choices) cs) /\
    length cs = length (meta_descriptors XmlInstance.meta') /\
    forall d cnt, In (d, cnt) (combine (meta_descriptors XmlInstance.meta') cs) ->
                  In (d, cnt) (combine (item_descriptors XmlInstance.items XmlInstance.outs) (map item_content XmlInstance.items)).
Proof. exact writer_file_wellformed_xml_instance. Qed.

(** The API-level form (slice wapi, [Proofs/WapiSpec.v]): the whole writer state machine of
    [Model/WriterFull.v] - [writer_run] produces every byte of the file, XML included - instead
    of [file_prog] with a given XML.  Hypotheses as in [C10_accepted_reads_back], minus the bound
    on the XML length (the independent decoder has none): a complete program ([units]: every
    sub-writer finalized and dropped, explicit limits for intensity / colour) of calls that are
    values of their Rust types ([call_ok]) in which every call returned Ok; u64 / count sizes;
    the float oracles print plain texts that parse back and read "0" as +0.0.  The named hypotheses of
    [C02_wellformed_xml] (now four, with [Hproto]: from the metadata invariant - float limits of
    accepted prototypes are numbers with minimum <= maximum and f32 / f64 bit patterns ([call_ok]) -
    and the oracles reading "0" as +0.0) and its [item_typed] are DISCHARGED: [Hwf], [Hext] from the metadata
    invariant of the state machine, [Hdesc] from [explains] (the descriptors the state holds are
    the ones the binary items were published with; [rest] = free-standing blobs and image blobs
    replaced by a later call).  [f] is what is on the device after the flush of [Drop].  The
    decoder returns the state's metadata as the reader sees it, and every descriptor of the XML
    decodes to the content of the item that published it; by [explains] that item is
    [IPc (proto_dtypes proto) (body_points body)] of the [AddPointcloud] unit (all its accepted
    [PcAddPoint] values) or [IBlob data] of the image call that set the blob. *)
Theorem C02_api_wellformed : forall (fmt64 fmt32 : N -> xstring) (pf64 pf32 : xstr -> option N)
    (fdiv : N -> Z -> N) (version : xstring),
  (forall b, plain_text (fmt64 b) = true) -> (forall b, plain_text (fmt32 b) = true) ->
  (forall b, pf64 (fmt64 b) = Some (canon64 b)) -> (forall b, pf32 (fmt32 b) = Some (canon32 b)) ->
  string_ok (lib_version_text version) = true ->
  pf64 [48] = Some 0 -> pf32 [48] = Some 0 ->
  forall guid tops s st rs,
  units tops ->
  Forall call_ok (NewWriter guid :: tops ++ [Finalize]) ->
  wrun (writer_run fmt64 fmt32 version (NewWriter guid :: tops ++ [Finalize])) pw0 = (s, Ok (st, rs)) ->
  Forall res_ok rs ->
  forallb pc_u64 (ws_pcs st) = true -> forallb im_ok (ws_imgs st) = true ->
  len (ws_exts st) < 65535 ->
  len (d_bytes (pw_dev (fst (pw_flush s)))) < 2 ^ 64 ->
  let f := d_bytes (pw_dev (fst (pw_flush s))) in
  let m' := reader_view (fill_meta fmt64 fmt32 (ws_meta st)) in
  spec_wellformed_xml pf64 pf32 fdiv f = true /\
  exists is os xml bl cs,
    explains tops is os (ws_pcs st) (ws_imgs st) bl /\
    gen_root (fill_meta fmt64 fmt32 (ws_meta st)) = Ok xml /\
    spec_decode_file_xml pf64 pf32 fdiv f = Some (m', mkDecoded xml cs) /\
    length cs = length (meta_descriptors m') /\
    forall d cnt, In (d, cnt) (combine (meta_descriptors m') cs) ->
                  In (d, cnt) (combine (item_descriptors is os) (map item_content is)).
Proof. exact api_wellformed. Qed.

(** Non-vacuity: the program of [Proofs/WapiFullExample.v] (two clouds, an image with visual
    reference and mask, a free-standing blob, an extension, texts with XML-reserved characters),
    by evaluation of the decoder on the model's file. *)
Theorem C02_api_wellformed_instance :
  spec_wellformed_xml ex_pf64 ex_pf32 (fun a _ => a) ex_file = true /\
  match spec_decode_file_xml ex_pf64 ex_pf32 (fun a _ => a) ex_file with
  | Some (m, d) =>
      m = reader_view (fill_meta ex_fmt64 ex_fmt32 (ws_meta ex_state)) /\
      dec_items d = [CPoints [[VDouble b1; VDouble b2; VDouble bh; VInteger 7]; [VDouble bm3; VDouble b1; VDouble b2; VInteger 15]];
                     CPoints [[VDouble b2; VDouble bh; VDouble bm3; VInteger 200]];
                     CBlob [1; 2; 3; 255; 0]; CBlob [9; 9; 9]]
  | None => False
  end.
Proof. exact ex_spec_instance. Qed.

Print Assumptions C02_wellformed.
Print Assumptions C02_writer_file_is_spec.
Print Assumptions C02_decoder_inverts_encoder.
Print Assumptions C02_section_decoder_inverts_encoder.
Print Assumptions C02_ok_implies_wf.
Print Assumptions C02_float_typing_needed.
Print Assumptions C02_bounds_order_needed.
Print Assumptions C02_instance.
Print Assumptions C02_wellformed_xml.
Print Assumptions C02_wellformed_xml_instance.
Print Assumptions C02_api_wellformed.
Print Assumptions C02_api_wellformed_instance.
Print Assumptions C02_prototype_values_in_bounds.
