(** C12 - Bit-packed integers: exact width, bit order and decode at any alignment.
    Statements only; every proof is an [exact] of a lemma proved in Proofs/. *)
From E57 Require Import Base.Prelude Model.BsWrite Model.BsRead Model.Record Spec.BitSpec
  Proofs.BitWidthProofs Proofs.BitWriteProofs Proofs.BitReadProofs Proofs.BitCodecProofs.

(** An integer or scaled integer declared min..max occupies exactly the least
    number of bits w with max - min < 2^w: 0 when equal, 64 for the full range. *)
Theorem C12_width_is_spec : forall mn mx : Z,
  in_i64 mn = true -> in_i64 mx = true -> (mn <= mx)%Z -> integer_bits mn mx = spec_width mn mx.
Proof. exact integer_bits_spec. Qed.

Theorem C12_width_exact : forall mn mx : Z,
  in_i64 mn = true -> in_i64 mx = true -> (mn <= mx)%Z ->
  let w := spec_width mn mx in
  (mx - mn < 2 ^ Z.of_N w)%Z /\ (0 < w -> (2 ^ (Z.of_N w - 1) <= mx - mn)%Z) /\ w <= 64 /\ (w = 0 <-> mn = mx).
Proof. exact spec_width_exact. Qed.

(** The stream the writer produces for one attribute is, byte for byte, the
    specified one: value - minimum in exactly w bits, least significant bit
    first, contiguous across values and bytes; floats 4 / 8 little-endian bytes
    (the float case of [value_bits] is the 32/64 bits of the pattern). *)
Theorem C12_stream_layout : forall t vs,
  type_ok t = true -> Forall (fun v => in_range t v = true) vs ->
  exists b, write_values t vs bsw_new = Ok b /\ bsw_holds b (stream_bits t vs) /\
            bsw_buffer b = spec_stream_bytes t vs.
Proof. exact writer_stream. Qed.

(** Writing one more value appends exactly its bits, whatever the bit phase the
    buffer is in; draining full bytes between values (packet boundaries) loses nothing. *)
Theorem C12_write_any_phase : forall t v b bits,
  type_ok t = true -> in_range t v = true -> bsw_holds b bits ->
  exists b', dtype_write t v b = Ok b' /\ bsw_holds b' (bits ++ value_bits t v).
Proof. exact dtype_write_holds. Qed.

Theorem C12_drain_full_bytes : forall b bits,
  bsw_holds b bits ->
  let k := (8 * (length bits / 8))%nat in
  exists b', bsw_get_full_bytes b = Ok (b', bytes_of_bits (firstn k bits)) /\ bsw_holds b' (skipn k bits).
Proof. exact get_full_bytes_holds. Qed.

(** Extraction returns bits [o, o+w) of the stream as a number for every
    width up to 64 and every bit offset, and [None] exactly when fewer bits are left. *)
Theorem C12_extract_any_phase : forall s bits w,
  bsr_holds s bits -> w <= 64 ->
  (N.of_nat (length bits) < w -> bsr_extract s w = Ok (s, None)) /\
  (w <= N.of_nat (length bits) ->
     exists s' v, bsr_extract s w = Ok (s', Some v) /\
       v mod 2 ^ w = num_of_bits (firstn (N.to_nat w) bits) /\
       bsr_holds s' (skipn (N.to_nat w) bits)).
Proof. exact bsr_extract_holds. Qed.

(** Every stream decodes to the values that were encoded, for every width,
    every starting bit position and every way the byte stream is cut into
    packets (chunks of any length, empty ones included, values straddling cuts). *)
Theorem C12_decode_any_cut : forall t vs (cs : list (list N)),
  type_ok t = true -> 0 < spec_bit_size t -> Forall (fun v => in_range t v = true) vs ->
  concat cs = spec_stream_bytes t vs ->
  exists s out, feed_chunks t cs bsr_new [] = Ok (s, out) /\ firstn (length vs) out = vs.
Proof. exact decode_any_cut. Qed.

(** Unpacking never fails or panics and consumes exactly the complete groups,
    whatever the bytes are (no assumption on the values). *)
Theorem C12_unpack_total : forall t s bits,
  type_ok t = true -> 0 < spec_bit_size t -> bsr_holds s bits ->
  let w := N.to_nat (spec_bit_size t) in
  let n := (length bits / w)%nat in
  exists s' vs, unpack_type t s = Ok (s', vs) /\ length vs = n /\ bsr_holds s' (skipn (n * w) bits).
Proof. exact unpack_type_total. Qed.

Print Assumptions C12_width_is_spec.
Print Assumptions C12_width_exact.
Print Assumptions C12_stream_layout.
Print Assumptions C12_write_any_phase.
Print Assumptions C12_drain_full_bytes.
Print Assumptions C12_extract_any_phase.
Print Assumptions C12_decode_any_cut.
Print Assumptions C12_unpack_total.
