(** C19 - Copying a file through the library is lossless and writing is deterministic.
    Statements only; every proof is an [exact] of a lemma proved in Proofs/.

    Determinism: the writer model is a Gallina FUNCTION of the writer program
    (no clock, no randomness, no iteration over hash maps enter it), so two
    runs on the same program give the same bytes by reflexivity; what carries
    weight is the byte-exact correspondence between that function and the
    crate on every run of the checks (C01, C04, C06) plus the DETERM case of
    this property's check.  Losslessness of a copy is the composition of the
    read side and the write side of the round trip: the binary part is
    [file_roundtrip] (C01/C06) applied to the items the reader returned. *)
From E57 Require Import Base.Prelude Model.Device Model.PagedWriter Model.PagedReader Model.Record
  Model.Prog Model.QueueReader Model.PcWriter Model.FileBin Model.ReaderOpen
  Spec.PageSpec Spec.FormatSpec Proofs.PagedWriterProofs Proofs.FileRtWriter Proofs.FileRtReader Proofs.FileRtMain.

(** Writing the items a reader returned (same prototypes, same raw values,
    same blob bytes) yields a file from which exactly these items are read
    again: the copy of a copy reads back as the copy. *)
Theorem C19_copy_binary : forall (is : list item) (xml : list N),
  forallb item_wf is = true -> xml <> [] -> len xml <= MAX_XML_SIZE ->
  ls_phys_size (final_stream is xml) < 2 ^ 64 ->
  roundtrip_ok is xml.
Proof. exact file_roundtrip_xml. Qed.

(** The file image is a function of the program alone: flushing again or
    dropping the writer does not change it. *)
Theorem C19_image_stable : forall (A : Type) (p : wprog A),
  let s1 := fst (pw_flush (fst (wrun p pw0))) in
  snd (pw_flush s1) = Ok tt /\ d_bytes (pw_dev (fst (pw_flush s1))) = d_bytes (pw_dev s1) /\
  snd (pw_drop s1) = Ok tt /\ d_bytes (pw_dev (fst (pw_drop s1))) = d_bytes (pw_dev s1).
Proof. exact image_stable. Qed.

Print Assumptions C19_copy_binary.
Print Assumptions C19_image_stable.
