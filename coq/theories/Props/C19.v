(** C19 - Copying a file through the library is lossless and writing is deterministic.
    Statements only; every proof is an [exact] of a lemma proved in Proofs/.

    Determinism: the writer model is a Gallina FUNCTION of the writer program
    (no clock, no randomness, no iteration over hash maps enter it), so two
    runs on the same program give the same bytes by reflexivity; what carries
    weight is the byte-exact correspondence between that function and the
    crate on every run of the checks (C01, C04, C06) plus the DETERM case of
    this property's check.  Losslessness of a copy is the composition of the
    read side and the write side of the round trip: the binary part is
    [file_roundtrip] (C01/C06) applied to the items the reader returned. *)
From E57 Require Import Base.Prelude Model.Device Model.PagedWriter Model.PagedReader Model.Record
  Model.Prog Model.QueueReader Model.PcWriter Model.FileBin Model.ReaderOpen
  Spec.PageSpec Spec.FormatSpec Proofs.PagedWriterProofs Proofs.FileRtWriter Proofs.FileRtReader Proofs.FileRtMain.

(** Writing the items a reader returned (same prototypes, same raw values,
    same blob bytes) yields a file from which exactly these items are read
    again: the copy of a copy reads back as the copy. *)
Theorem C19_copy_binary : forall (is : list item) (xml : list N),
  forallb item_wf is = true -> xml <> [] -> len xml <= MAX_XML_SIZE ->
  ls_phys_size (final_stream is xml) < 2 ^ 64 ->
  roundtrip_ok is xml.
Proof. exact file_roundtrip_xml. Qed.

(** The file image is a function of the program alone: flushing again or
    dropping the writer does not change it. *)
Theorem C19_image_stable : forall (A : Type) (p : wprog A),
  let s1 := fst (pw_flush (fst (wrun p pw0))) in
  snd (pw_flush s1) = Ok tt /\ d_bytes (pw_dev (fst (pw_flush s1))) = d_bytes (pw_dev s1) /\
  snd (pw_drop s1) = Ok tt /\ d_bytes (pw_dev (fst (pw_drop s1))) = d_bytes (pw_dev s1).
Proof. exact image_stable. Qed.

(** Copying through the public API (slice wapi, [Proofs/WapiCopy.v]).  P = [new guid; tops;
    finalize] is a complete program of acceptable calls (Props/C01.v: [C01_api_accepts]) - point
    clouds, images with any representations and masks, free-standing blobs - that ran to the final
    state [st]; the reader reports the metadata [m' = reader_view (fill_meta (ws_meta st))], for
    every point cloud item of [is] its points ([C10_accepted_reads_back]), and for every image the
    bytes of the blobs of its representations.  The copying client (harness/src/ext_copy.rs) issues
    [copy_calls m' points bytes]: [new] with the reported GUID, coordinate metadata, creation time,
    [register_extension] for every extension; per point cloud [add_pointcloud] with the reported
    GUID and prototype, every one of the 17 setters with the reported value (both limits always),
    [add_point] for every raw point, [finalize], drop; per image [add_image] with the reported GUID,
    a setter for every field that is present, the visual reference and then the projection with
    their bytes and masks, [finalize], drop; then [finalize].
    Then: the copy P2 is again a complete program of acceptable calls, every call of it returns Ok,
    its final metadata equals the original's ([content_view]), its point cloud items (types and
    points) are the original's, the image bytes of the copy are those of the original, and the calls
    a client issues from the copy are P2 itself: copying the copy is the identity.
    [content_view st] = root, extensions, point clouds and images as written (float texts filled
    in) with the FILE OFFSETS of the point clouds and of the image blobs erased - nothing else is
    left out.  Blobs added with [add_blob] that no image refers to, and image blobs replaced by a
    later call, are not copied: the reader does not report them.
    [bytes = program_image_bytes L P]: for every finished image, in order, the bytes handed to the
    image writer for its final visual reference and projection - a function of the program (the
    ghost of the pure metadata semantics [arun] of Proofs/WapiAccept.v).  [ghost_ok] in the
    conclusion says they fit the blobs the image declares (presence, lengths, masks); that they
    are the bytes [E57Reader::blob] returns for those descriptors is [C19_copy_image_bytes] with
    [C19_blob_in_reads] below.
    Remaining hypotheses:
    - Display prints every NaN alike, whatever sign and payload ([fmt64 (canon64 b) = fmt64 b]):
      the reader gets the canonical NaN back, the copy must print the same text;
    - [scaled_canonical]: scale and offset of scaled integer records (they enter the Cartesian /
      spherical bounds the copy recomputes) are not NaNs with a payload.  The writer does not
      check them: a NaN scale or offset is accepted and written.  (The same about the limits of
      float records is no longer assumed: an accepted prototype has no NaN there since /repo
      eaf8fc6, [canonical_of_valid]; programs with images are no longer excluded.) *)
From E57 Require Import Base.Floats Model.Meta Model.MetaFile Model.XmlTree Model.XmlGen Model.WriterApi Model.WriterFull
  Spec.XgWriterOk Spec.XeMetaOk Proofs.C04Compose
  Proofs.WapiInv Proofs.WapiFullProg Proofs.WapiFullMeta Proofs.WapiFullInv Proofs.WapiFull Proofs.WapiAccept Proofs.WapiCopy
  Proofs.WapiCopyBytes.

Theorem C19_copy_idempotent : forall (fmt64 fmt32 : N -> xstring) (version : xstring),
  (forall b, fmt64 (canon64 b) = fmt64 b) -> (forall b, fmt32 (canon32 b) = fmt32 b) ->
  forall guid tops s st rs,
  units tops -> Forall call_wf tops ->
  (forall g proto, In (AddPointcloud g proto) tops -> scaled_canonical proto) ->
  acceptable_calls (gen_xml_full fmt64 fmt32) (lib_version_text version) ws_init ls_init
    (NewWriter guid :: tops ++ [Finalize]) ->
  wrun (writer_run fmt64 fmt32 version (NewWriter guid :: tops ++ [Finalize])) pw0 = (s, Ok (st, rs)) ->
  forall is os bl, explains tops is os (ws_pcs st) (ws_imgs st) bl ->
  let m' := reader_view (fill_meta fmt64 fmt32 (ws_meta st)) in
  let gs := program_image_bytes (lib_version_text version) (NewWriter guid :: tops ++ [Finalize]) in
  let tops2 := copy_tops m' (item_points is) gs in
  let P2 := copy_calls m' (item_points is) gs in
  P2 = NewWriter (rt_guid (ws_root st)) :: tops2 ++ [Finalize] /\
  units tops2 /\ Forall call_wf tops2 /\
  Forall2 (fun im g => ghost_ok (im_no_off im) g) (ws_imgs st) gs /\
  acceptable_calls (gen_xml_full fmt64 fmt32) (lib_version_text version) ws_init ls_init P2 /\
  exists s2 st2 rs2,
    wrun (writer_run fmt64 fmt32 version P2) pw0 = (s2, Ok (st2, rs2)) /\ Forall res_ok rs2 /\
    content_view fmt64 fmt32 st2 = content_view fmt64 fmt32 st /\
    forall is2 os2 bl2, explains tops2 is2 os2 (ws_pcs st2) (ws_imgs st2) bl2 ->
      item_pcs is2 = item_pcs is /\ program_image_bytes (lib_version_text version) P2 = gs /\
      copy_calls (reader_view (fill_meta fmt64 fmt32 (ws_meta st2))) (item_points is2)
                 (program_image_bytes (lib_version_text version) P2) = P2.
Proof. exact copy_idempotent. Qed.

(** ... and reading the copy: with the float oracles of the read-back and strings / limits inside
    its quantifier ([call_ok]; the copy's calls inherit it: [copy_calls_ok]), the copy's file opens,
    its XML extracts to the copy's metadata (= the original's up to file offsets), and its items -
    the original's point cloud types and points, the image blobs - are read back exactly. *)
Theorem C19_copy_reads_back : forall (fmt64 fmt32 : N -> xstring) (pf64 pf32 : xstr -> option N)
    (fdiv : N -> Z -> N) (version : xstring),
  (forall b, plain_text (fmt64 b) = true) -> (forall b, plain_text (fmt32 b) = true) ->
  (forall b, pf64 (fmt64 b) = Some (canon64 b)) -> (forall b, pf32 (fmt32 b) = Some (canon32 b)) ->
  string_ok (lib_version_text version) = true ->
  (forall b, fmt64 (canon64 b) = fmt64 b) -> (forall b, fmt32 (canon32 b) = fmt32 b) ->
  forall guid tops s st rs,
  units tops ->
  Forall call_ok (NewWriter guid :: tops ++ [Finalize]) ->
  (forall g proto, In (AddPointcloud g proto) tops -> scaled_canonical proto) ->
  acceptable_calls (gen_xml_full fmt64 fmt32) (lib_version_text version) ws_init ls_init
    (NewWriter guid :: tops ++ [Finalize]) ->
  wrun (writer_run fmt64 fmt32 version (NewWriter guid :: tops ++ [Finalize])) pw0 = (s, Ok (st, rs)) ->
  forall is os bl, explains tops is os (ws_pcs st) (ws_imgs st) bl ->
  let m' := reader_view (fill_meta fmt64 fmt32 (ws_meta st)) in
  let gs := program_image_bytes (lib_version_text version) (NewWriter guid :: tops ++ [Finalize]) in
  let tops2 := copy_tops m' (item_points is) gs in
  let P2 := copy_calls m' (item_points is) gs in
  exists s2 st2 rs2,
    wrun (writer_run fmt64 fmt32 version P2) pw0 = (s2, Ok (st2, rs2)) /\ Forall res_ok rs2 /\
    content_view fmt64 fmt32 st2 = content_view fmt64 fmt32 st /\
    (forallb pc_u64 (ws_pcs st2) = true -> forallb im_ok (ws_imgs st2) = true -> len (ws_exts st2) < 65535 ->
     (forall xml, gen_root (fill_meta fmt64 fmt32 (ws_meta st2)) = Ok xml -> len xml <= MAX_XML_SIZE) ->
     len (d_bytes (pw_dev (fst (pw_flush s2)))) < 2 ^ 64 ->
     exists is2 os2 xml2 bl2,
       explains tops2 is2 os2 (ws_pcs st2) (ws_imgs st2) bl2 /\
       item_pcs is2 = item_pcs is /\ program_image_bytes (lib_version_text version) P2 = gs /\
       copy_calls (reader_view (fill_meta fmt64 fmt32 (ws_meta st2))) (item_points is2)
                  (program_image_bytes (lib_version_text version) P2) = P2 /\
       let f := d_bytes (pw_dev (fst (pw_flush s2))) in
       all_pages_valid f = true /\
       exists rs0 h d',
         reader_open (dev_init f None) = (d', Ok (rs0, h, xml2)) /\
         read_meta pf64 pf32 fdiv xml2 = Ok (reader_view (fill_meta fmt64 fmt32 (ws_meta st2))) /\
         Forall2 (reads_back rs0) is2 os2).
Proof. exact copy_reads_back. Qed.

(** The image bytes of the copy theorems are what the reader returns.  Whenever every call of a
    complete program returned Ok, the program wrote [file_prog is xml] ([explains] ties items and
    calls), and for every finished image the bytes [program_image_bytes] gives for its visual
    reference and projection (data and mask) are the data of the blob items published at exactly
    the offsets and lengths the image declares ([bytes_in]: membership in the item / output pairs). *)
Theorem C19_copy_image_bytes : forall (fmt64 fmt32 : N -> xstring) (version : xstring) guid tops l st rs,
  units tops -> Forall call_wf tops ->
  wrun_spec (writer_run fmt64 fmt32 version (NewWriter guid :: tops ++ [Finalize])) ls_init = (l, Ok (st, rs)) ->
  Forall res_ok rs ->
  exists is os xml bl,
    explains tops is os (ws_pcs st) (ws_imgs st) bl /\
    wrun_spec (file_prog is xml) ls_init = (l, Ok os) /\
    Forall2 (fun im g => bytes_in (combine is os) im g) (ws_imgs st)
            (program_image_bytes (lib_version_text version) (NewWriter guid :: tops ++ [Finalize])).
Proof. exact image_bytes_in_items. Qed.

(** ... and a blob among these pairs is read back by [blob_read] through its descriptor, from every
    state the opened reader can be in ([reads_back] as in [C10_accepted_reads_back]). *)
Theorem C19_blob_in_reads : forall rs0 is os, Forall2 (reads_back rs0) is os ->
  forall b d, blob_in (combine is os) b d ->
  b_length b = len d /\
  forall ops, snd (rrun (blob_read (pr_log_size rs0) (b_offset b) (b_length b)) (fst (pr_run ops rs0))) = Ok d.
Proof. exact blob_in_reads. Qed.

Print Assumptions C19_copy_binary.
Print Assumptions C19_image_stable.
Print Assumptions C19_copy_idempotent.
Print Assumptions C19_copy_reads_back.
Print Assumptions C19_copy_image_bytes.
Print Assumptions C19_blob_in_reads.
