(** C05 - The simple point iterator equals the documented view of the raw data.
    Statements only; every proof is an [exact] of a lemma proved in Proofs/.

    [fcos fsin fasin fatan2] stand for Rust's [f64::cos], [sin], [asin], [atan2]:
    the theorems hold for any four functions.  [rrun p s] runs a reader program
    on the paged reader model in state [s] (any device content, any fault plan,
    any cached page); [raw_read_all] is [pointcloud_raw] driven to its end
    (Model/QueueReader.v), [simple_read_all] is [pointcloud_simple], the six
    setters, driven to its end (Model/SimpleIter.v); [view] is Spec/SimpleSpec.v. *)
From Coq Require Import ZArith NArith Bool List Reals.
From Flocq Require Import Binary Bits.
From E57 Require Import Base.Prelude Base.Floats Model.PagedReader Spec.PageSpec Model.Record Model.Meta
  Model.Prog Model.QueueReader Model.Normalize Model.SimpleIter Spec.SimpleSpec
  Proofs.SimpleFrames Proofs.SimplePose Proofs.SimpleTheorems.

(** Same count, same order, every point the documented view - for every option
    vector.  Hypotheses beyond the property text, each necessary (findings
    recorded for C05): the constructor accepts the limits, and the
    invalid-state, row and column records have integer type. *)
Theorem C05_simple_is_view :
  forall (fcos fsin fasin : binary64 -> binary64) (fatan2 : binary64 -> binary64 -> binary64)
         pc o log_size fuel (s s' : pr) raws rgs,
  rrun (raw_read_all fuel log_size pc) s = (s', Ok raws) ->
  prepare_ranges pc = Ok rgs ->
  index_records_are_integers pc = true ->
  Forall (fun raw => invalid_states_in_set pc raw = true) raws ->
  exists pts, rrun (simple_read_all fcos fsin fasin fatan2 fuel log_size pc o) s = (s', Ok pts) /\
              res_all (view fcos fsin fasin fatan2 pc o) raws = Ok pts.
Proof. exact simple_is_view_rrun. Qed.
Print Assumptions C05_simple_is_view.

(** The same on the logical stream (the semantics in which the format-level theorems are stated). *)
Theorem C05_simple_is_view_logical :
  forall (fcos fsin fasin : binary64 -> binary64) (fatan2 : binary64 -> binary64 -> binary64)
         pc o log_size fuel log (off off' : N) raws rgs,
  rrun_spec log (raw_read_all fuel log_size pc) off = (off', Ok raws) ->
  prepare_ranges pc = Ok rgs ->
  index_records_are_integers pc = true ->
  Forall (fun raw => invalid_states_in_set pc raw = true) raws ->
  exists pts, rrun_spec log (simple_read_all fcos fsin fasin fatan2 fuel log_size pc o) off = (off', Ok pts) /\
              res_all (view fcos fsin fasin fatan2 pc o) raws = Ok pts.
Proof. exact simple_is_view_rrun_spec. Qed.
Print Assumptions C05_simple_is_view_logical.

(** The simple iteration fails only if the raw iteration does not succeed, or
    the constructor rejects the limits, or an invalid-state / row / column
    record is not an integer record, or an invalid-state value of a raw point
    lies outside its documented set. *)
Theorem C05_fails_only_if :
  forall (fcos fsin fasin : binary64 -> binary64) (fatan2 : binary64 -> binary64 -> binary64)
         pc o log_size fuel (s s' : pr) e,
  rrun (simple_read_all fcos fsin fasin fatan2 fuel log_size pc o) s = (s', Err e) ->
  (forall raws, snd (rrun (raw_read_all fuel log_size pc) s) <> Ok raws)
  \/ (forall rgs, prepare_ranges pc <> Ok rgs)
  \/ index_records_are_integers pc = false
  \/ exists s'' raws, rrun (raw_read_all fuel log_size pc) s = (s'', Ok raws) /\
       Exists (fun raw => invalid_states_in_set pc raw = false) raws.
Proof. exact simple_fails_only_if_rrun. Qed.
Print Assumptions C05_fails_only_if.

(** Each switch changes only the aspect it documents. *)
Theorem C05_option_frames :
  forall (fcos fsin fasin : binary64 -> binary64) (fatan2 : binary64 -> binary64 -> binary64)
         pc raw o o' p p',
  view fcos fsin fasin fatan2 pc o raw = Ok p -> view fcos fsin fasin fatan2 pc o' raw = Ok p' ->
  (same_but_s2c o o' ->
     p_spherical p = p_spherical p' /\ p_color p = p_color p' /\ p_intensity p = p_intensity p' /\
     p_row p = p_row p' /\ p_column p = p_column p') /\
  (same_but_c2s o o' ->
     p_cartesian p = p_cartesian p' /\ p_color p = p_color p' /\ p_intensity p = p_intensity p' /\
     p_row p = p_row p' /\ p_column p = p_column p') /\
  (same_but_i2c o o' ->
     p_cartesian p = p_cartesian p' /\ p_spherical p = p_spherical p' /\ p_intensity p = p_intensity p' /\
     p_row p = p_row p' /\ p_column p = p_column p' /\
     (forall col, view_color_stored pc o raw = Ok (Some col) -> p_color p = Some col /\ p_color p' = Some col)) /\
  (same_but_ni o o' ->
     p_cartesian p = p_cartesian p' /\ p_spherical p = p_spherical p' /\
     p_row p = p_row p' /\ p_column p = p_column p' /\
     (o_i2c o = false -> p_color p = p_color p') /\
     (forall col, view_color_stored pc o raw = Ok (Some col) -> p_color p = p_color p')) /\
  (same_but_nc o o' ->
     p_cartesian p = p_cartesian p' /\ p_spherical p = p_spherical p' /\ p_intensity p = p_intensity p' /\
     p_row p = p_row p' /\ p_column p = p_column p') /\
  (same_but_pose o o' ->
     p_spherical p = p_spherical p' /\ p_color p = p_color p' /\ p_intensity p = p_intensity p' /\
     p_row p = p_row p' /\ p_column p = p_column p' /\
     match p_cartesian p with
     | CValid _ _ _ => exists x y z, p_cartesian p' = CValid x y z
     | c => p_cartesian p' = c
     end).
Proof. exact option_frames. Qed.
Print Assumptions C05_option_frames.

(** Over the real numbers: the matrix [prepare_transform] builds from a unit
    quaternion, applied as [transform_point] applies it, is the rotation
    q v q^-1 followed by the translation (not its transpose q^-1 v q). *)
Theorem C05_pose_is_quaternion_rotation : forall (w x y z : R) (t v : vec3 R),
  (w * w + x * x + y * y + z * z = 1)%R ->
  let q := mkQuat w x y z in
  exists qinv : quat,
    qmul q qinv = qone /\ qmul qinv q = qone /\
    let c := qmul (qmul q (qpure v)) qinv in
    q_w c = 0%R /\
    apply_pose Rplus Rmult (rotation_of_quat Rplus Rminus Rmult 2%R w x y z) t v
      = mkVec3 (q_x c + v_x t)%R (q_y c + v_y t)%R (q_z c + v_z t)%R.
Proof. exact pose_is_quaternion_rotation. Qed.
Print Assumptions C05_pose_is_quaternion_rotation.
