(** The whole of [E57Reader::new] on device bytes: header and pages ([ReaderOpen.reader_open]),
    then the XML section: UTF-8 check ([String::from_utf8(..).read_err]: Error::Read), parsing
    ([Document::parse(..).invalid_err]: Error::Invalid), extraction of root, point clouds, images
    and extensions ([XmlExtract.extract_all]).  The float parsers and the one float division of
    the extractors are parameters, as in Model/XmlExtract.v.  No proofs here. *)
From E57 Require Import Base.Prelude Model.Device Model.PagedReader Model.FileBin Model.ReaderOpen
  Model.Meta Model.MetaFile Model.XmlTree Model.XmlParse Model.XmlDepth Model.XmlExtract.

Section Full.
Variables pf64 pf32 : xstr -> option N.
Variable fdiv : N -> Z -> N.

(** from the bytes of the XML section to the metadata, in the order of the code: UTF-8 check
    (Error::Read), nesting depth ([xml::check_depth], Error::Invalid), parser (Error::Invalid),
    extractors.  Documents outside the parser model ([Unsupported]: more than 65535 namespace
    declarations) are answered like a parse error; the tie counts them separately. *)
Definition xml_meta (xml : list N) : res file_meta :=
  if negb (forallb (fun b => b <? 256) xml && utf8_valid xml) then Err ERead else
  if negb (xml_depth_ok xml) then Err EInvalid else
  match xml_parse xml with
  | ParseOk d => extract_all pf64 pf32 fdiv d
  | ParseErr => Err EInvalid
  | Unsupported => Err EInvalid
  end.

(** what the reader holds after [new]: the paged reader, the validated header, the XML text and
    the descriptors *)
Definition reader_new (d : dev) : dev * res (pr * header * list N * file_meta) :=
  let '(d1, r) := reader_open d in
  match r with
  | Ok (s, h, xml) =>
      match xml_meta xml with
      | Ok m => (d1, Ok (s, h, xml, m))
      | Err k => (d1, Err k)
      | Panic => (d1, Panic)
      end
  | Err k => (d1, Err k)
  | Panic => (d1, Panic)
  end.
End Full.

(** with the division of the crate *)
Definition reader_new_impl (pf64 pf32 : xstr -> option N) : dev -> dev * res (pr * header * list N * file_meta) :=
  reader_new pf64 pf32 f64_div_u32_bits.
