(** Model of src/cv_section.rs (read), src/packet.rs (read), src/queue_reader.rs
    and src/pc_reader_raw.rs over the paged reader model.  No proofs here. *)
From E57 Require Import Base.Prelude Model.PagedReader Model.BsRead Model.Record Model.Prog.
Local Open Scope rprog_scope.

(** [read_exact(..).read_err(..)] on the paged reader. *)
Definition rd (n : N) : rprog (list N) := r_read_exact n.
Definition rfail {A} (k : err_kind) : rprog A := RErr k.
Definition rret {A} (a : A) : rprog A := RRet a.
Definition byte_at (l : list N) (i : nat) : N := nth i l 0.

(** * Compressed vector section header *)
Record cv_header := mkCv { cv_section_length : N; cv_data_offset : N; cv_index_offset : N }.

Definition cv_header_read : rprog cv_header :=
  b <- rd 32 ;;
  let h := mkCv (le_num (slice 8 8 b)) (le_num (slice 16 8 b)) (le_num (slice 24 8 b)) in
  if negb (byte_at b 0 =? 1) then rfail EInvalid else
  if negb (cv_section_length h mod 4 =? 0) then rfail EInvalid else
  rret h.

(** * Packet headers *)
Inductive pkt_header :=
| HIndex (packet_length : N)
| HData (comp_restart : bool) (packet_length : N) (bytestream_count : N)
| HIgnored (packet_length : N).

Definition index_header_read : rprog pkt_header :=
  b <- rd 15 ;;
  if negb (byte_at b 0 =? 0) then rfail EInvalid else
  if existsb (fun x => negb (x =? 0)) (skipn 7 b) then rfail EInvalid else
  let pl := le_num (slice 1 2 b) + 1 in
  if negb (pl mod 4 =? 0) then rfail EInvalid else
  rret (HIndex pl).

Definition data_header_read : rprog pkt_header :=
  b <- rd 5 ;;
  let flag := negb (N.land (byte_at b 0) 1 =? 0) in
  let pl := le_num (slice 1 2 b) + 1 in
  let count := le_num (slice 3 2 b) in
  if negb (pl mod 4 =? 0) then rfail EInvalid else
  if count =? 0 then rfail EInvalid else
  rret (HData flag pl count).

Definition ignored_header_read : rprog pkt_header :=
  b <- rd 3 ;;
  if negb (byte_at b 0 =? 0) then rfail EInvalid else
  let pl := le_num (slice 1 2 b) + 1 in
  if negb (pl mod 4 =? 0) then rfail EInvalid else
  rret (HIgnored pl).

Definition packet_header_read : rprog pkt_header :=
  b <- rd 1 ;;
  let id := byte_at b 0 in
  if id =? 0 then index_header_read
  else if id =? 1 then data_header_read
  else if id =? 2 then ignored_header_read
  else rfail EInvalid.

(** * QueueReader *)
Record qr := mkQr {
  q_proto : list dtype;
  q_streams : list bsr;
  q_queues : list (list rvalue)
}.

Definition qr_new (file_offset records : N) (proto : list dtype) : rprog qr :=
  r_seek file_offset ;;;
  h <- cv_header_read ;;
  (* an empty compressed vector has no packets: no seek to its data offset *)
  (if 0 <? records then r_seek (cv_data_offset h) else rret tt) ;;;
  rret (mkQr proto (map (fun _ => bsr_new) proto) (map (fun _ => []) proto)).

(** [available]: the shortest queue among the records of non-zero bit size
    (records of zero bit size are not stored); 0 when there is none. *)
Fixpoint avail_sized (proto : list dtype) (queues : list (list rvalue)) (acc : option N) : option N :=
  match proto, queues with
  | t :: pr', q :: qr' =>
      if bit_size t =? 0 then avail_sized pr' qr' acc
      else avail_sized pr' qr' (Some (match acc with None => len q | Some m => N.min m (len q) end))
  | _, _ => acc
  end.

Definition qr_available (q : qr) : N :=
  match avail_sized (q_proto q) (q_queues q) None with
  | Some m => m
  | None => 0
  end.

(** [pop_point]: for every record, the minimum when its bit size is zero, else
    one value from the front of its queue. *)
Fixpoint pop_fronts (proto : list dtype) (qs : list (list rvalue)) : res (list rvalue * list (list rvalue)) :=
  match proto, qs with
  | t :: pr', q :: r =>
      let one : res (rvalue * list rvalue) :=
        match t, bit_size t =? 0 with
        | TInteger mn _, true => Ok (VInteger mn, q)
        | TScaled mn _, true => Ok (VScaled mn, q)
        | _, _ => match q with
                  | [] => Err EInternal
                  | v :: q' => Ok (v, q')
                  end
        end in
      match one with
      | Ok (v, q') =>
          match pop_fronts pr' r with
          | Ok (vs, r') => Ok (v :: vs, q' :: r')
          | Err k => Err k
          | Panic => Panic
          end
      | Err k => Err k
      | Panic => Panic
      end
  | _, _ => Ok ([], [])
  end.

(** the [for i in 0..buffer_sizes.len()] loop reading the u16 stream lengths *)
Fixpoint read_sizes (n : nat) : rprog (list N) :=
  match n with
  | O => rret []
  | S k => b <- rd 2 ;; r <- read_sizes k ;; rret (le_num b :: r)
  end.

(** read each stream's bytes and append them to its bit buffer; the bytes of a
    record of zero bit size carry no values and are never consumed: they are
    read from the device and dropped, the bit buffer of the record stays as it is *)
Fixpoint read_streams (proto : list dtype) (sizes : list N) (streams : list bsr) : rprog (list bsr) :=
  match proto, sizes, streams with
  | t :: pr', sz :: sr, st :: tr =>
      data <- rd sz ;;
      st' <- (if bit_size t =? 0 then rret st else rlift (bsr_append st data)) ;;
      r <- read_streams pr' sr tr ;;
      rret (st' :: r)
  | _, _, _ => rret []
  end.

(** [parse_byte_streams]: records of zero bit size are skipped *)
Fixpoint parse_streams (proto : list dtype) (streams : list bsr) (queues : list (list rvalue))
  : res (list bsr * list (list rvalue)) :=
  match proto, streams, queues with
  | t :: pr', s :: sr, q :: qr' =>
      let one :=
        if bit_size t =? 0 then Ok (s, q)
        else res_map (fun '(s', vs) => (s', q ++ vs)) (unpack_type t s) in
      match one with
      | Ok (s', q') =>
          match parse_streams pr' sr qr' with
          | Ok (ss, qs) => Ok (s' :: ss, q' :: qs)
          | Err k => Err k
          | Panic => Panic
          end
      | Err k => Err k
      | Panic => Panic
      end
  | _, _, _ => Ok ([], [])
  end.

(** is there a record of non-zero bit size? *)
Definition has_sized (proto : list dtype) : bool := existsb (fun t => negb (bit_size t =? 0)) proto.

Definition INDEX_HEADER_SIZE : N := 16.
Definition IGNORED_HEADER_SIZE : N := 4.

(** [advance]: read the next packet and decode it into the queues. *)
Definition qr_advance (q : qr) : rprog qr :=
  h <- packet_header_read ;;
  q' <- (match h with
   | HIndex pl =>
       if pl <? INDEX_HEADER_SIZE then rfail EInvalid else
       rd (pl - INDEX_HEADER_SIZE) ;;; rret q
   | HIgnored pl =>
       if pl <? IGNORED_HEADER_SIZE then rfail EInvalid else
       rd (pl - IGNORED_HEADER_SIZE) ;;; rret q
   | HData _ _ count =>
       if negb (count =? len (q_streams q)) then rfail EInvalid else
       sizes <- read_sizes (length (q_proto q)) ;;
       streams <- read_streams (q_proto q) sizes (q_streams q) ;;
       if negb (has_sized (q_proto q)) then rfail ENotImpl else
       '(ss, qs) <- rlift (parse_streams (q_proto q) streams (q_queues q)) ;;
       rret (mkQr (q_proto q) ss qs)
   end) ;;
  r_align ;;; rret q'.

(** * PointCloudReaderRaw *)
Record raw_iter := mkRaw { ri_q : qr; ri_records : N; ri_read : N }.

Definition raw_new (file_offset records : N) (proto : list dtype) : rprog raw_iter :=
  q <- qr_new file_offset records proto ;; rret (mkRaw q records 0).

(** the refill loop [while available() < 1 { advance()? }]; every successful
    [advance] consumes at least four bytes of the logical stream, which bounds the fuel *)
Fixpoint refill (fuel : nat) (q : qr) : rprog qr :=
  match fuel with
  | O => rfail EInternal        (* out of fuel: excluded by the termination theorem *)
  | S f => if qr_available q <? 1 then q' <- qr_advance q ;; refill f q' else rret q
  end.

(** fuel for the refill loop from the logical size of the file *)
Definition refill_fuel (log_size : N) : nat := S (S (N.to_nat (log_size / 4))).

Inductive step_out (A : Type) := Done | Item (a : A).
Arguments Done {A}.
Arguments Item {A} a.

(** [Iterator::next]: [Ok Done] = None, [Ok (Item p)] = Some(Ok(p)), [Err] = Some(Err). *)
Definition raw_next (log_size : N) (it : raw_iter) : rprog (raw_iter * step_out (list rvalue)) :=
  if ri_records it <=? ri_read it then rret (it, Done) else
  q <- refill (refill_fuel log_size) (ri_q it) ;;
  match pop_fronts (q_proto q) (q_queues q) with
  | Ok (vs, qs) => rret (mkRaw (mkQr (q_proto q) (q_streams q) qs) (ri_records it) (ri_read it + 1), Item vs)
  | Err k => rfail k
  | Panic => RPanic
  end.

(** Drive the iterator to its end or first error. *)
Fixpoint raw_collect (fuel : nat) (log_size : N) (it : raw_iter) (acc : list (list rvalue)) : rprog (list (list rvalue)) :=
  match fuel with
  | O => rfail EInternal
  | S f =>
      '(it', o) <- raw_next log_size it ;;
      match o with
      | Done => rret acc
      | Item p => raw_collect f log_size it' (acc ++ [p])
      end
  end.
