(** Model of the XML parser the crate uses (roxmltree 0.20.0, [Document::parse] with default
    options: DTDs are refused) on UTF-8 byte strings.  Shaped after roxmltree's
    tokenizer.rs / parse.rs: the same scanning functions, the same text buffer with its
    end-of-line handling, the same namespace bookkeeping.  Where roxmltree reports an error
    the model reports [ParseErr] (which error is not modelled: the crate maps all of them to
    [Error::Invalid]).  [Unsupported] is returned when a document declares more than 65535
    namespaces (roxmltree's [NamespacesLimitReached] depends on how many of them are distinct,
    which the model does not track).  Recursion depth (roxmltree recurses per nesting level)
    and the u32 node / attribute limits are not modelled.  No proofs here. *)
From E57 Require Import Base.Prelude Model.XmlTree.

Inductive parse_result := ParseOk (d : xdoc) | ParseErr | Unsupported.

(** internal result: error, or the fuel of a recursive function ran out (never happens with
    the fuel [xml_parse] gives, see Proofs/XmlpFuel.v) *)
Inductive pres (A : Type) : Type := POk (a : A) | PErr | PFuel.
Arguments POk {A} a.
Arguments PErr {A}.
Arguments PFuel {A}.

Definition pbind {A B} (r : pres A) (k : A -> pres B) : pres B :=
  match r with POk a => k a | PErr => PErr | PFuel => PFuel end.
Definition of_opt {A} (o : option A) : pres A := match o with Some a => POk a | None => PErr end.

Notation "'do' x <- m ; k" := (pbind m (fun x => k)) (at level 200, x name, m at level 100, k at level 200).
Notation "'do' ' p <- m ; k" := (pbind m (fun p => k)) (at level 200, p pattern, m at level 100, k at level 200).

(** * Constants *)
Definition s_xml : xstr := [120;109;108].
Definition s_xmlns : xstr := [120;109;108;110;115].
Definition s_xml_sp : xstr := [120;109;108;32].                    (* "xml " *)
Definition s_version : xstr := [118;101;114;115;105;111;110].
Definition s_encoding : xstr := [101;110;99;111;100;105;110;103].
Definition s_standalone : xstr := [115;116;97;110;100;97;108;111;110;101].
Definition s_cdata_open : xstr := [91;67;68;65;84;65;91].          (* "[CDATA[" *)
Definition s_doctype : xstr := [60;33;68;79;67;84;89;80;69].       (* "<!DOCTYPE" *)
Definition s_dashdash : xstr := [45;45].
Definition s_comment_end : xstr := [45;45;62].                     (* "-->" *)
Definition s_comment_open : xstr := [60;33;45;45].                 (* "<!--" *)
Definition s_pi_open : xstr := [60;63].                            (* "<?" *)
Definition s_pi_end : xstr := [63;62].                             (* "?>" *)
Definition s_cdata_end : xstr := [93;93;62].                       (* "]]>" *)
Definition s_lt : xstr := [108;116;59].                            (* "lt;" *)
Definition s_gt : xstr := [103;116;59].
Definition s_amp : xstr := [97;109;112;59].
Definition s_quot : xstr := [113;117;111;116;59].
Definition s_apos : xstr := [97;112;111;115;59].
Definition NS_XMLNS_URI : xstr :=
  [104;116;116;112;58;47;47;119;119;119;46;119;51;46;111;114;103;47;50;48;48;48;47;120;109;108;110;115;47].
  (* "http://www.w3.org/2000/xmlns/" *)
Definition NS_LIMIT : N := 65535.

(** * Characters *)
Definition in_rng (lo hi c : N) : bool := (lo <=? c) && (c <=? hi).
Definition is_space (b : N) : bool := (b =? 32) || (b =? 9) || (b =? 10) || (b =? 13).
Definition is_name_start_ascii (b : N) : bool :=
  in_rng 65 90 b || in_rng 97 122 b || (b =? 58) || (b =? 95).
Definition is_name_ascii (b : N) : bool :=
  is_name_start_ascii b || in_rng 48 57 b || (b =? 45) || (b =? 46).

(** code points >= 128 *)
Definition is_name_start_cp (c : N) : bool :=
  in_rng 0xC0 0xD6 c || in_rng 0xD8 0xF6 c || in_rng 0xF8 0x2FF c || in_rng 0x370 0x37D c
  || in_rng 0x37F 0x1FFF c || in_rng 0x200C 0x200D c || in_rng 0x2070 0x218F c
  || in_rng 0x2C00 0x2FEF c || in_rng 0x3001 0xD7FF c || in_rng 0xF900 0xFDCF c
  || in_rng 0xFDF0 0xFFFD c || in_rng 0x10000 0xEFFFF c.
Definition is_name_cp (c : N) : bool :=
  is_name_start_cp c || (c =? 0xB7) || in_rng 0x300 0x36F c || in_rng 0x203F 0x2040 c.

(** UTF-8 (the input is valid UTF-8 when these are used) *)
Definition is_cont (b : N) : bool := (128 <=? b) && (b <? 192).
Definition cp2 (b1 b2 : N) : N := (b1 - 192) * 64 + (b2 - 128).
Definition cp3 (b1 b2 b3 : N) : N := (b1 - 224) * 4096 + (b2 - 128) * 64 + (b3 - 128).
Definition cp4 (b1 b2 b3 b4 : N) : N := (b1 - 240) * 262144 + (b2 - 128) * 4096 + (b3 - 128) * 64 + (b4 - 128).

(** [std::str::from_utf8] accepts exactly these byte strings *)
Fixpoint utf8_valid (s : list N) : bool :=
  match s with
  | [] => true
  | b :: r =>
    if b <? 128 then utf8_valid r
    else if b <? 0xC2 then false
    else if b <? 0xE0 then
      match r with b2 :: r2 => is_cont b2 && utf8_valid r2 | _ => false end
    else if b <? 0xF0 then
      match r with
      | b2 :: b3 :: r3 =>
        (if b =? 0xE0 then in_rng 0xA0 0xBF b2 else if b =? 0xED then in_rng 0x80 0x9F b2 else is_cont b2)
        && is_cont b3 && utf8_valid r3
      | _ => false
      end
    else if b <? 0xF5 then
      match r with
      | b2 :: b3 :: b4 :: r4 =>
        (if b =? 0xF0 then in_rng 0x90 0xBF b2 else if b =? 0xF4 then in_rng 0x80 0x8F b2 else is_cont b2)
        && is_cont b3 && is_cont b4 && utf8_valid r4
      | _ => false
      end
    else false
  end.

(** [char::encode_utf8] *)
Definition encode_utf8 (c : N) : list N :=
  if c <? 0x80 then [c]
  else if c <? 0x800 then [192 + c / 64; 128 + c mod 64]
  else if c <? 0x10000 then [224 + c / 4096; 128 + (c / 64) mod 64; 128 + c mod 64]
  else [240 + c / 262144; 128 + (c / 4096) mod 64; 128 + (c / 64) mod 64; 128 + c mod 64].

(** [is_xml_char] of the character that starts with byte [b] followed by [r]: control characters
    other than tab, LF, CR and U+FFFE / U+FFFF (EF BF BE / EF BF BF) are refused.  Evaluated at
    every byte; on continuation bytes it is trivially true. *)
Definition xml_char_ok (b : N) (r : list N) : bool :=
  if b <? 32 then (b =? 9) || (b =? 10) || (b =? 13)
  else if b =? 0xEF then
    match r with
    | b2 :: b3 :: _ => negb ((b2 =? 0xBF) && ((b3 =? 0xBE) || (b3 =? 0xBF)))
    | _ => true
    end
  else true.

(** [is_xml_char] of a code point (character references) *)
Definition xml_char_cp (c : N) : bool :=
  if c <? 32 then (c =? 9) || (c =? 10) || (c =? 13) else negb ((c =? 0xFFFE) || (c =? 0xFFFF)).

(** * Small list functions *)
Definition is_nil {A} (l : list A) : bool := match l with [] => true | _ => false end.

Fixpoint strip_prefix (p s : list N) : option (list N) :=
  match p with
  | [] => Some s
  | x :: p' => match s with y :: s' => if x =? y then strip_prefix p' s' else None | [] => None end
  end.
Definition starts_with (p s : list N) : bool :=
  match strip_prefix p s with Some _ => true | None => false end.

Fixpoint contains (p s : list N) : bool :=
  starts_with p s || match s with [] => false | _ :: r => contains p r end.

Definition opt_eqb (a b : option xstr) : bool :=
  match a, b with
  | None, None => true
  | Some x, Some y => xstr_eqb x y
  | _, _ => false
  end.

Fixpoint skip_spaces (s : list N) : list N :=
  match s with
  | b :: r => if is_space b then skip_spaces r else s
  | [] => []
  end.
Definition starts_with_space (s : list N) : bool :=
  match s with b :: _ => is_space b | [] => false end.

(** * Names *)

(** the maximal run of name characters (':' included) *)
Fixpoint scan_name_run (s : list N) : list N * list N :=
  match s with
  | [] => ([], [])
  | b :: r =>
    if b <? 128 then
      if is_name_ascii b then let '(n, r') := scan_name_run r in (b :: n, r') else ([], s)
    else if b <? 224 then
      match r with
      | b2 :: r2 =>
        if is_name_cp (cp2 b b2) then let '(n, r') := scan_name_run r2 in (b :: b2 :: n, r') else ([], s)
      | _ => ([], s)
      end
    else if b <? 240 then
      match r with
      | b2 :: b3 :: r3 =>
        if is_name_cp (cp3 b b2 b3) then let '(n, r') := scan_name_run r3 in (b :: b2 :: b3 :: n, r') else ([], s)
      | _ => ([], s)
      end
    else
      match r with
      | b2 :: b3 :: b4 :: r4 =>
        if is_name_cp (cp4 b b2 b3 b4) then let '(n, r') := scan_name_run r4 in (b :: b2 :: b3 :: b4 :: n, r') else ([], s)
      | _ => ([], s)
      end
  end.

(** the first character of [s] exists and is a NameStartChar *)
Definition first_name_start (s : list N) : bool :=
  match s with
  | [] => false
  | b :: r =>
    if b <? 128 then is_name_start_ascii b
    else if b <? 224 then match r with b2 :: _ => is_name_start_cp (cp2 b b2) | _ => false end
    else if b <? 240 then match r with b2 :: b3 :: _ => is_name_start_cp (cp3 b b2 b3) | _ => false end
    else match r with b2 :: b3 :: b4 :: _ => is_name_start_cp (cp4 b b2 b3 b4) | _ => false end
  end.

Fixpoint split_colon (s : list N) : list N * option (list N) :=
  match s with
  | [] => ([], None)
  | b :: r => if b =? 58 then ([], Some r) else let '(a, o) := split_colon r in (b :: a, o)
  end.
Definition has_colon (s : list N) : bool := existsb (N.eqb 58) s.

(** [Stream::consume_qname]: (prefix, local, rest); the prefix is empty when there is none *)
Definition scan_qname (s : list N) : option (xstr * xstr * list N) :=
  let '(run, rest) := scan_name_run s in
  match split_colon run with
  | (p, Some l) =>
    if has_colon l then None
    else if (is_nil p || first_name_start p) && first_name_start l then Some (p, l, rest) else None
  | (l, None) => if first_name_start l then Some ([], l, rest) else None
  end.

(** [Stream::consume_name] *)
Definition scan_name (s : list N) : option (xstr * list N) :=
  let '(run, rest) := scan_name_run s in
  if first_name_start run then Some (run, rest) else None.

(** * Scanning up to a terminator, checking that every character is an XML Char *)

(** everything up to the first occurrence of [pat]; the rest starts after [pat].
    [None]: a non-XML character, or the end of input before [pat]. *)
Fixpoint scan_until (pat : list N) (s : list N) : option (list N * list N) :=
  match s with
  | [] => None
  | b :: r =>
    match strip_prefix pat s with
    | Some rest => Some ([], rest)
    | None =>
      if xml_char_ok b r then
        match scan_until pat r with Some (t, rest) => Some (b :: t, rest) | None => None end
      else None
    end
  end.

(** an attribute value after its opening quote [q]: up to [q]; '<' is refused *)
Fixpoint scan_attr_value (q : N) (s : list N) : option (list N * list N) :=
  match s with
  | [] => None
  | b :: r =>
    if b =? q then Some ([], r)
    else if b =? 60 then None
    else if xml_char_ok b r then
      match scan_attr_value q r with Some (v, rest) => Some (b :: v, rest) | None => None end
    else None
  end.

(** character data up to '<' or the end of input; the rest starts at '<' *)
Fixpoint scan_text (s : list N) : option (list N * list N) :=
  match s with
  | [] => Some ([], [])
  | b :: r =>
    if b =? 60 then Some ([], s)
    else if xml_char_ok b r then
      match scan_text r with Some (t, rest) => Some (b :: t, rest) | None => None end
    else None
  end.

(** * References *)
Definition is_digit (b : N) : bool := in_rng 48 57 b.
Definition is_hex_digit (b : N) : bool := in_rng 48 57 b || in_rng 65 70 b || in_rng 97 102 b.
Definition hex_val (b : N) : N := if b <=? 57 then b - 48 else if b <=? 70 then b - 55 else b - 87.

(** digits of a number in [radix]: (value, number of digits, rest) *)
Fixpoint scan_number (radix : N) (isd : N -> bool) (dv : N -> N) (s : list N) (acc : N) (n : nat)
  : N * nat * list N :=
  match s with
  | b :: r => if isd b then scan_number radix isd dv r (acc * radix + dv b) (S n) else (acc, n, s)
  | [] => (acc, n, [])
  end.

Definition char_of_u32 (n : N) : N :=
  if in_rng 0xD800 0xDFFF n || (0x10FFFF <? n) then 0xFFFD else n.

(** after '&': the bytes the reference stands for and the number of input bytes it occupies
    (including the ';').  Only the five predefined entities exist (a DTD is refused). *)
Definition parse_ref (s : list N) : option (list N * nat) :=
  match s with
  | 35 :: r =>
    let '(v, nd, rest, pre) :=
      match r with
      | 120 :: r' => let '(v, nd, rest) := scan_number 16 is_hex_digit hex_val r' 0 0%nat in (v, nd, rest, 2%nat)
      | _ => let '(v, nd, rest) := scan_number 10 is_digit (fun b => b - 48) r 0 0%nat in (v, nd, rest, 1%nat)
      end in
    match nd, rest with
    | S _, 59 :: _ =>
      if v <=? 0xFFFFFFFF then
        let c := char_of_u32 v in
        if xml_char_cp c then Some (encode_utf8 c, (pre + nd + 1)%nat) else None
      else None
    | _, _ => None
    end
  | _ =>
    if starts_with s_lt s then Some ([60], 3%nat)
    else if starts_with s_gt s then Some ([62], 3%nat)
    else if starts_with s_amp s then Some ([38], 4%nat)
    else if starts_with s_quot s then Some ([34], 5%nat)
    else if starts_with s_apos s then Some ([39], 5%nat)
    else None
  end.

(** list reversal in linear time ([List.rev] is quadratic) *)
Definition lrev (l : list N) : list N := rev_append l [].

(** * roxmltree's TextBuffer; the buffer is kept reversed (head = last byte pushed) *)
Definition push_from_text (rbuf : list N) (c : N) (at_end : bool) : list N :=
  match rbuf with
  | last :: rb =>
    if last =? 13 then
      if at_end && (c =? 13) then 10 :: 10 :: rb
      else if c =? 10 then 10 :: rb
      else c :: 10 :: rb
    else if at_end && (c =? 13) then 10 :: rbuf else c :: rbuf
  | [] => if at_end && (c =? 13) then [10] else [c]
  end.

Definition push_from_attr (rbuf : list N) (c : N) (next : option N) : list N :=
  if (c =? 13) && (match next with Some n => n =? 10 | None => false end) then rbuf
  else (if (c =? 10) || (c =? 13) || (c =? 9) then 32 else c) :: rbuf.

(** [process_text]: [skip] bytes of the input still belong to a reference already decoded;
    [as_is] is roxmltree's [is_as_is] *)
Fixpoint text_loop (s : list N) (skip : nat) (rbuf : list N) (as_is : bool) : option (list N) :=
  match s with
  | [] => Some (lrev rbuf)
  | b :: r =>
    match skip with
    | S k => text_loop r k rbuf as_is
    | O =>
      if b =? 38 then
        match parse_ref r with
        | Some (bytes, n) => text_loop r n (rev_append bytes rbuf) true
        | None => None
        end
      else if as_is then text_loop r O (b :: rbuf) false
      else text_loop r O (push_from_text rbuf b (is_nil r)) false
    end
  end.
Definition process_text (t : list N) : option (list N) := text_loop t O [] false.

(** [process_cdata] *)
Fixpoint cdata_loop (s : list N) (rbuf : list N) : list N :=
  match s with
  | [] => lrev rbuf
  | b :: r => cdata_loop r (push_from_text rbuf b (is_nil r))
  end.
Definition process_cdata (t : list N) : list N := cdata_loop t [].

(** [normalize_attribute] *)
Fixpoint attr_loop (s : list N) (skip : nat) (rbuf : list N) : option (list N) :=
  match s with
  | [] => Some (lrev rbuf)
  | b :: r =>
    match skip with
    | S k => attr_loop r k rbuf
    | O =>
      if b =? 38 then
        match parse_ref r with
        | Some (bytes, n) => attr_loop r n (rev_append bytes rbuf)
        | None => None
        end
      else attr_loop r O (push_from_attr rbuf b (hd_error r))
    end
  end.
Definition normalize_attr (v : list N) : option (list N) := attr_loop v O [].

(** * Comments, processing instructions, the XML declaration *)

Definition ends_with_dash (t : list N) : bool :=
  match lrev t with 45 :: _ => true | _ => false end.

(** after "<!--" *)
Definition parse_comment (s : list N) : option (xnode * list N) :=
  match scan_until s_comment_end s with
  | Some (t, rest) => if contains s_dashdash t || ends_with_dash t then None else Some (XComment t, rest)
  | None => None
  end.

(** after "<?" *)
Definition parse_pi (s : list N) : option (xnode * list N) :=
  if starts_with s_xml_sp s then None
  else
    match scan_name s with
    | Some (target, r) =>
      match scan_until s_pi_end (skip_spaces r) with
      | Some (c, rest) => Some (XPI target (if is_nil c then None else Some c), rest)
      | None => None
      end
    | None => None
    end.

Definition consume_eq (s : list N) : option (list N) :=
  match skip_spaces s with 61 :: r => Some (skip_spaces r) | _ => None end.

(** [parse_attribute] of the tokenizer: qualified name, '=', quoted value (raw) *)
Definition scan_attribute (s : list N) : option (xstr * xstr * list N * list N) :=
  match scan_qname s with
  | Some (p, l, r) =>
    match consume_eq r with
    | Some (q :: r') =>
      if (q =? 34) || (q =? 39) then
        match scan_attr_value q r' with Some (v, rest) => Some (p, l, v, rest) | None => None end
      else None
    | _ => None
    end
  | None => None
  end.

(** the [consume_spaces] local to [parse_declaration] *)
Definition decl_spaces (s : list N) : option (list N) :=
  if starts_with_space s then Some (skip_spaces s)
  else if starts_with s_pi_end s || is_nil s then Some s else None.

(** [parse_declaration]; [s] starts after "<?xml" (at the blank) *)
Definition parse_declaration (s : list N) : option (list N) :=
  match decl_spaces s with
  | None => None
  | Some s1 =>
    if negb (starts_with s_version s1) then None else
    match scan_attribute s1 with
    | None => None
    | Some (_, _, _, s2) =>
      match decl_spaces s2 with
      | None => None
      | Some s3 =>
        let after_enc :=
          if starts_with s_encoding s3 then
            match scan_attribute s3 with
            | Some (_, _, _, s4) => decl_spaces s4
            | None => None
            end
          else Some s3 in
        match after_enc with
        | None => None
        | Some s5 =>
          let after_sa :=
            if starts_with s_standalone s5 then
              match scan_attribute s5 with Some (_, _, _, s6) => Some s6 | None => None end
            else Some s5 in
          match after_sa with
          | None => None
          | Some s7 => strip_prefix s_pi_end (skip_spaces s7)
          end
        end
      end
    end
  end.

(** [parse_misc]: comments, processing instructions and blanks.  Returns the nodes and the
    rest with leading blanks removed. *)
Fixpoint parse_misc (fuel : nat) (s : list N) : pres (list xnode * list N) :=
  match fuel with
  | O => PFuel
  | S f =>
    let s1 := skip_spaces s in
    match strip_prefix s_comment_open s1 with
    | Some r =>
      do '(c, rest) <- of_opt (parse_comment r);
      do '(l, rest') <- parse_misc f rest;
      POk (c :: l, rest')
    | None =>
      match strip_prefix s_pi_open s1 with
      | Some r =>
        do '(p, rest) <- of_opt (parse_pi r);
        do '(l, rest') <- parse_misc f rest;
        POk (p :: l, rest')
      | None => POk ([], s1)
      end
    end
  end.

(** * Elements *)

Inductive tag_end := TEmpty | TOpen.
Record raw_attr := mkRaw { ra_prefix : xstr; ra_local : xstr; ra_value : xstr }.

(** the attribute loop of [parse_element]; values are normalised as they are read *)
Fixpoint parse_attrs (fuel : nat) (s : list N) : pres (list raw_attr * tag_end * list N) :=
  match fuel with
  | O => PFuel
  | S f =>
    let has_space := starts_with_space s in
    match skip_spaces s with
    | [] => PErr
    | b :: r =>
      if b =? 47 then match r with 62 :: r' => POk ([], TEmpty, r') | _ => PErr end
      else if b =? 62 then POk ([], TOpen, r)
      else if negb has_space then PErr
      else
        do '(p, l, v, rest) <- of_opt (scan_attribute (b :: r));
        do v' <- of_opt (normalize_attr v);
        do '(l', e, rest') <- parse_attrs f rest;
        POk (mkRaw p l v' :: l', e, rest')
    end
  end.

Definition ns_exists (p : option xstr) (l : list xnsdecl) : bool :=
  existsb (fun d => opt_eqb (xns_prefix d) p) l.

(** [process_attribute] over the attributes of one start tag: the namespace declarations
    (in order) and the other attributes (in order) *)
Fixpoint split_attrs (l : list raw_attr) (own : list xnsdecl) (plain : list raw_attr)
  : option (list xnsdecl * list raw_attr) :=
  match l with
  | [] => Some (own, plain)
  | a :: r =>
    let v := ra_value a in
    if xstr_eqb (ra_prefix a) s_xmlns then
      if xstr_eqb v NS_XMLNS_URI then None else
      let is_xml_uri := xstr_eqb v NS_XML_URI in
      if (if xstr_eqb (ra_local a) s_xml then negb is_xml_uri else is_xml_uri) then None
      else if ns_exists (Some (ra_local a)) own then None
      else split_attrs r (if is_xml_uri then own else own ++ [mkXNs (Some (ra_local a)) v]) plain
    else if xstr_eqb (ra_local a) s_xmlns then
      if xstr_eqb v NS_XML_URI || xstr_eqb v NS_XMLNS_URI then None
      else split_attrs r (own ++ [mkXNs None v]) plain
    else split_attrs r own (plain ++ [a])
  end.

(** [Context::resolve_namespaces]: own declarations first, then what the parent has in scope
    and is not shadowed *)
Fixpoint inherit (acc : list xnsdecl) (parent : list xnsdecl) : list xnsdecl :=
  match parent with
  | [] => acc
  | d :: r => if ns_exists (xns_prefix d) acc then inherit acc r else inherit (acc ++ [d]) r
  end.

(** [pscope] = None: the parent is the document *)
Definition resolve_scope (pscope : option (list xnsdecl)) (own : list xnsdecl) : list xnsdecl :=
  match pscope with
  | None => own
  | Some P => if is_nil own then P else inherit own P
  end.

Definition lookup_ns (p : option xstr) (scope : list xnsdecl) : option xstr :=
  match find (fun d => opt_eqb (xns_prefix d) p) scope with
  | Some d => Some (xns_uri d)
  | None => None
  end.

(** [get_ns_idx_by_prefix]: Some None = no namespace *)
Definition ns_by_prefix (prefix : xstr) (scope : list xnsdecl) : option (option xstr) :=
  match lookup_ns (if is_nil prefix then None else Some prefix) scope with
  | Some u => Some (Some u)
  | None => if is_nil prefix then Some None else None
  end.

Definition xname_eqb (a b : xname) : bool :=
  opt_eqb (xn_ns a) (xn_ns b) && xstr_eqb (xn_local a) (xn_local b).

(** [resolve_attributes] *)
Fixpoint resolve_attrs (scope : list xnsdecl) (l : list raw_attr) (done : list xattr) : option (list xattr) :=
  match l with
  | [] => Some done
  | a :: r =>
    let ns :=
      if xstr_eqb (ra_prefix a) s_xml then Some (Some NS_XML_URI)
      else if is_nil (ra_prefix a) then Some None
      else ns_by_prefix (ra_prefix a) scope in
    match ns with
    | None => None
    | Some ns =>
      let nm := mkXName ns (ra_local a) in
      if existsb (fun x => xname_eqb (xa_name x) nm) done then None
      else resolve_attrs scope r (done ++ [mkXAttr nm (ra_value a)])
    end
  end.

(** prepend character data to the children that follow it: adjacent text and CDATA are one node *)
Definition cons_text (t : xstr) (l : list xnode) : list xnode :=
  match l with
  | XText t' :: r => XText (t ++ t') :: r
  | _ => XText t :: l
  end.

(** one element, [s] starts after its '<'.  [content] parses the children up to and including
    the end tag; [fa] is the fuel of the attribute loop (the caller's own fuel, which exceeds the
    length of [s]; computing that length here would make the parser quadratic).  Results carry
    the number of namespace declarations seen. *)
Definition parse_element_with (fa : nat)
    (content : list xnsdecl -> xstr -> xstr -> list N -> pres (list xnode * N * list N))
    (pscope : option (list xnsdecl)) (s : list N) : pres (xnode * N * list N) :=
  do '(prefix, local, r) <- of_opt (scan_qname s);
  if xstr_eqb prefix s_xmlns then PErr else
  do '(raw, e, rest) <- parse_attrs fa r;
  do '(own, plain) <- of_opt (split_attrs raw [] []);
  let scope := resolve_scope pscope own in
  do attrs <- of_opt (resolve_attrs scope plain []);
  do ns <- of_opt (ns_by_prefix prefix scope);
  let nm := mkXName ns local in
  match e with
  | TEmpty => POk (XElem nm attrs scope [], len own, rest)
  | TOpen =>
    do '(ch, cnt, rest') <- content scope prefix local rest;
    POk (XElem nm attrs scope ch, len own + cnt, rest')
  end.

(** [parse_content] inside the element [pprefix:plocal] *)
Fixpoint parse_content (fuel : nat) (scope : list xnsdecl) (pprefix plocal : xstr) (s : list N)
  : pres (list xnode * N * list N) :=
  match fuel with
  | O => PFuel
  | S f =>
    match s with
    | [] => PErr
    | b :: r =>
      if b =? 60 then
        match r with
        | [] => PErr
        | c :: r2 =>
          if c =? 33 then
            match strip_prefix s_dashdash r2 with
            | Some r3 =>
              do '(n, rest) <- of_opt (parse_comment r3);
              do '(ch, cnt, rest') <- parse_content f scope pprefix plocal rest;
              POk (n :: ch, cnt, rest')
            | None =>
              match strip_prefix s_cdata_open r2 with
              | Some r3 =>
                do '(t, rest) <- of_opt (scan_until s_cdata_end r3);
                do '(ch, cnt, rest') <- parse_content f scope pprefix plocal rest;
                POk (cons_text (process_cdata t) ch, cnt, rest')
              | None => PErr
              end
            end
          else if c =? 63 then
            do '(n, rest) <- of_opt (parse_pi r2);
            do '(ch, cnt, rest') <- parse_content f scope pprefix plocal rest;
            POk (n :: ch, cnt, rest')
          else if c =? 47 then
            do '(p, l, r3) <- of_opt (scan_qname r2);
            match skip_spaces r3 with
            | 62 :: rest =>
              if xstr_eqb p pprefix && xstr_eqb l plocal then POk ([], 0, rest) else PErr
            | _ => PErr
            end
          else
            do '(n, c1, rest) <- parse_element_with f (parse_content f) (Some scope) r;
            do '(ch, c2, rest') <- parse_content f scope pprefix plocal rest;
            POk (n :: ch, c1 + c2, rest')
        end
      else
        do '(t, rest) <- of_opt (scan_text s);
        if contains s_cdata_end t then PErr else
        do t' <- of_opt (process_text t);
        do '(ch, cnt, rest') <- parse_content f scope pprefix plocal rest;
        POk (cons_text t' ch, cnt, rest')
    end
  end.

Definition parse_element (fuel : nat) (pscope : option (list xnsdecl)) (s : list N) :=
  parse_element_with fuel (parse_content fuel) pscope s.

(** * The document *)
Definition s_bom : list N := [0xEF; 0xBB; 0xBF].
Definition s_decl_open : list N := [60;63;120;109;108;32].   (* "<?xml " *)

Definition parse_document (fuel : nat) (bytes : list N) : pres (xdoc * N) :=
  let s0 := match strip_prefix s_bom bytes with Some r => r | None => bytes end in
  do s1 <- (if starts_with s_decl_open s0 then of_opt (parse_declaration (skipn 5 s0)) else POk s0);
  do '(pre, s2) <- parse_misc fuel s1;
  if starts_with s_doctype s2 then PErr else
  match s2 with
  | 60 :: r =>
    do '(root, cnt, s3) <- parse_element fuel None r;
    do '(post, s4) <- parse_misc fuel s3;
    if is_nil s4 then POk (mkXDoc (pre ++ root :: post), cnt) else PErr
  | _ => PErr
  end.

(** what [roxmltree::Document::parse] makes of a valid UTF-8 string *)
Definition xml_parse (bytes : list N) : parse_result :=
  match parse_document (S (length bytes)) bytes with
  | POk (d, cnt) => if cnt <=? NS_LIMIT then ParseOk d else Unsupported
  | PErr => ParseErr
  | PFuel => Unsupported
  end.

(** what the crate does with the bytes of the XML section: UTF-8 check, then parse *)
Inductive xml_result := XmlOk (d : xdoc) | XmlErrUtf8 | XmlErrParse | XmlUnsupported.
Definition xml_read (bytes : list N) : xml_result :=
  if negb (forallb (fun b => b <? 256) bytes && utf8_valid bytes) then XmlErrUtf8
  else match xml_parse bytes with
       | ParseOk d => XmlOk d
       | ParseErr => XmlErrParse
       | Unsupported => XmlUnsupported
       end.
