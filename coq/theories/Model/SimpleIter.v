(** Model of src/pc_reader_simple.rs (PointCloudReaderSimple), src/point.rs and
    the conversions [RecordValue::to_f64] / [to_i64] of src/record.rs, over the
    queue reader model.  Crate-shaped: the iterator state, [new], the six option
    setters, [pop_point], [Iterator::next] with its output queue, refill loop
    and batch-wise post-processing, [transform_point], [convert_to_cartesian],
    [convert_to_spherical], [convert_intensity].

    Floats are Flocq's binary64/binary32 (Base/Floats.v).  The libm functions
    [f64::cos], [sin], [asin], [atan2] are Section variables about which
    nothing is assumed.  The normalisation is Model/Normalize.v.
    No proofs here. *)
From Coq Require Import ZArith NArith Bool List.
From Flocq Require Import Binary Bits.
From E57 Require Import Base.Prelude Base.Floats Model.BsRead Model.Record Model.Meta
  Model.Prog Model.QueueReader Model.Normalize.

Declare Scope res_scope.
Delimit Scope res_scope with res.
Notation "x <-- m ;; k" := (res_bind m (fun x => k))
  (at level 61, m at next level, right associativity) : res_scope.

(** * The pose, generically over the number type

    [prepare_transform] and [transform_point] use only [+ - *] and the
    constant 2.  They are written once over an arbitrary carrier so that the
    very same expressions can be read in binary64 (the model) and in the real
    numbers (the theorem that the matrix is the quaternion rotation). *)
Section GenericPose.
  Variable T : Type.
  Variables (add sub mul : T -> T -> T) (two : T).

  (** [rotation: [f64; 9]] *)
  Record mat9 := mkMat9 { m0 : T; m1 : T; m2 : T; m3 : T; m4 : T; m5 : T; m6 : T; m7 : T; m8 : T }.
  (** [Translation { x, y, z }] and a coordinate triple *)
  Record vec3 := mkVec3 { v_x : T; v_y : T; v_z : T }.

  Local Infix "+" := add.
  Local Infix "-" := sub.
  Local Infix "*" := mul.

  (** the array literal of [prepare_transform]; Rust's [a + b - c - d] is [((a + b) - c) - d] *)
  Definition rotation_of_quat (w x y z : T) : mat9 :=
    mkMat9
      (w * w + x * x - y * y - z * z)
      (two * (x * y + w * z))
      (two * (x * z - w * y))
      (two * (x * y - w * z))
      (w * w + y * y - x * x - z * z)
      (two * (y * z + w * x))
      (two * (x * z + w * y))
      (two * (y * z - w * x))
      (w * w + z * z - x * x - y * y).

  (** the body of [transform_point] for a valid coordinate *)
  Definition apply_pose (r : mat9) (t : vec3) (v : vec3) : vec3 :=
    let x := v_x v in let y := v_y v in let z := v_z v in
    let nx := m0 r * x + m3 r * y + m6 r * z in
    let ny := m1 r * x + m4 r * y + m7 r * z in
    let nz := m2 r * x + m5 r * y + m8 r * z in
    mkVec3 (nx + v_x t) (ny + v_y t) (nz + v_z t).
End GenericPose.
Arguments mkMat9 {T}.
Arguments mkVec3 {T}.
Arguments m0 {T}. Arguments m1 {T}. Arguments m2 {T}. Arguments m3 {T}. Arguments m4 {T}.
Arguments m5 {T}. Arguments m6 {T}. Arguments m7 {T}. Arguments m8 {T}.
Arguments v_x {T}. Arguments v_y {T}. Arguments v_z {T}.
Arguments rotation_of_quat {T}.
Arguments apply_pose {T}.

Definition f64_two : binary64 := f64_of_bits 0x4000000000000000.

Definition rotation64 (w x y z : binary64) : mat9 binary64 :=
  rotation_of_quat f64_add f64_sub f64_mul f64_two w x y z.
Definition apply_pose64 (r : mat9 binary64) (t v : vec3 binary64) : vec3 binary64 :=
  apply_pose f64_add f64_mul r t v.

(** * src/point.rs *)
Inductive cartesian :=
| CValid (x y z : binary64)
| CDirection (x y z : binary64)
| CInvalid.

Inductive spherical :=
| SValid (range azimuth elevation : binary64)
| SDirection (azimuth elevation : binary64)
| SInvalid.

Record color := mkColor { c_red : binary32; c_green : binary32; c_blue : binary32 }.

Record point := mkPoint {
  p_cartesian : cartesian;
  p_spherical : spherical;
  p_color : option color;
  p_intensity : option binary32;
  p_row : Z;
  p_column : Z
}.

(** * The six switches *)
Record opts := mkOpts {
  o_s2c : bool;      (* spherical_to_cartesian *)
  o_c2s : bool;      (* cartesian_to_spherical *)
  o_i2c : bool;      (* intensity_to_color *)
  o_ni : bool;       (* normalize_intensity *)
  o_nc : bool;       (* normalize_color *)
  o_pose : bool      (* apply_pose *)
}.
(** the defaults of [new] *)
Definition default_opts : opts := mkOpts true false true true true true.

(** * Record names: [==] of the derived [PartialEq] *)
Fixpoint xstring_eqb (a b : list N) : bool :=
  match a, b with
  | [], [] => true
  | x :: a', y :: b' => (x =? y)%N && xstring_eqb a' b'
  | _, _ => false
  end.

Definition name_eqb (a b : record_name) : bool :=
  match a, b with
  | CartesianX, CartesianX | CartesianY, CartesianY | CartesianZ, CartesianZ
  | CartesianInvalidState, CartesianInvalidState
  | SphericalRange, SphericalRange | SphericalAzimuth, SphericalAzimuth
  | SphericalElevation, SphericalElevation | SphericalInvalidState, SphericalInvalidState
  | Intensity, Intensity | IsIntensityInvalid, IsIntensityInvalid
  | ColorRed, ColorRed | ColorGreen, ColorGreen | ColorBlue, ColorBlue
  | IsColorInvalid, IsColorInvalid
  | RowIndex, RowIndex | ColumnIndex, ColumnIndex | ReturnCount, ReturnCount
  | ReturnIndex, ReturnIndex | TimeStamp, TimeStamp | IsTimeStampInvalid, IsTimeStampInvalid => true
  | Unknown n1 s1, Unknown n2 s2 => xstring_eqb n1 n2 && xstring_eqb s1 s2
  | _, _ => false
  end.

(** [pc.prototype.iter().position(|r| r.name == name)] *)
Fixpoint position (proto : list record) (nm : record_name) : option nat :=
  match proto with
  | [] => None
  | r :: rest =>
      if name_eqb (r_name r) nm then Some O
      else match position rest nm with Some i => Some (S i) | None => None end
  end.

(** [struct Indices] *)
Record indices := mkIndices {
  i_cartesian : option (nat * nat * nat);
  i_cartesian_invalid : option nat;
  i_spherical : option (nat * nat * nat);
  i_spherical_invalid : option nat;
  i_color : option (nat * nat * nat);
  i_color_invalid : option nat;
  i_intensity : option nat;
  i_intensity_invalid : option nat;
  i_row : option nat;
  i_column : option nat
}.

Definition triple (a b c : option nat) : option (nat * nat * nat) :=
  match a, b, c with
  | Some x, Some y, Some z => Some (x, y, z)
  | _, _, _ => None
  end.

(** [prepare_indices] *)
Definition prepare_indices (proto : list record) : indices :=
  let fi := position proto in
  mkIndices
    (triple (fi CartesianX) (fi CartesianY) (fi CartesianZ))
    (fi CartesianInvalidState)
    (triple (fi SphericalRange) (fi SphericalAzimuth) (fi SphericalElevation))
    (fi SphericalInvalidState)
    (triple (fi ColorRed) (fi ColorGreen) (fi ColorBlue))
    (fi IsColorInvalid)
    (fi Intensity)
    (fi IsIntensityInvalid)
    (fi RowIndex)
    (fi ColumnIndex).

(** * Floats of the descriptor: the bit pattern is the value *)
Definition f64v (x : f64t) : binary64 := f64_of_bits (f64_bits x).
Definition f32v (x : f32t) : binary32 := f32_of_bits (f32_bits x).

(** [prepare_transform]: the pose of the point cloud, [Transform::default()]
    (identity quaternion, zero translation) when it has none. *)
Definition prepare_transform (t : option transform) : mat9 binary64 * vec3 binary64 :=
  match t with
  | Some t =>
      (rotation64 (f64v (t_rw t)) (f64v (t_rx t)) (f64v (t_ry t)) (f64v (t_rz t)),
       mkVec3 (f64v (t_tx t)) (f64v (t_ty t)) (f64v (t_tz t)))
  | None =>
      (rotation64 f64_one f64_zero f64_zero f64_zero, mkVec3 f64_zero f64_zero f64_zero)
  end.

(** * The four normalisation ranges: what [Range::*_from_pointcloud] reads *)
Inductive chan := ChIntensity | ChRed | ChGreen | ChBlue.

Definition ntype_of (d : data_type) : ntype :=
  match d with
  | DSingle mn mx => NTSingle (option_map f32v mn) (option_map f32v mx)
  | DDouble mn mx => NTDouble (option_map f64v mn) (option_map f64v mx)
  | DScaledInteger mn mx sc off => NTScaled mn mx (f64v sc) (f64v off)
  | DInteger mn mx => NTInteger mn mx
  end.

Definition nval_of (l : limit_value) : nval :=
  match l with
  | LSingle v => NSingle (f32v v)
  | LDouble v => NDouble (f64v v)
  | LScaledInteger v => NScaled v
  | LInteger v => NInteger v
  end.

(** [pc.prototype.iter().find(|p| p.name == name)] *)
Definition find_record (proto : list record) (nm : record_name) : option record :=
  find (fun r => name_eqb (r_name r) nm) proto.

Definition chan_name (c : chan) : record_name :=
  match c with ChIntensity => Intensity | ChRed => ColorRed | ChGreen => ColorGreen | ChBlue => ColorBlue end.

Definition chan_limits (pc : pointcloud) (c : chan) : option limit_value * option limit_value :=
  match c with
  | ChIntensity =>
      match pc_intensity_limits pc with
      | Some l => (il_min l, il_max l)
      | None => (None, None)
      end
  | _ =>
      match pc_color_limits pc with
      | Some l =>
          match c with
          | ChRed => (cl_red_min l, cl_red_max l)
          | ChGreen => (cl_green_min l, cl_green_max l)
          | _ => (cl_blue_min l, cl_blue_max l)
          end
      | None => (None, None)
      end
  end.

Definition channel_of (pc : pointcloud) (c : chan) : channel :=
  mkChannel (option_map (fun r => ntype_of (r_type r)) (find_record (pc_prototype pc) (chan_name c)))
            (option_map nval_of (fst (chan_limits pc c)))
            (option_map nval_of (snd (chan_limits pc c))).

(** The four [Range::..._from_pointcloud(pc)?] of [new], in the order of the struct literal. *)
Record ranges := mkRanges {
  rg_intensity : option range; rg_red : option range; rg_green : option range; rg_blue : option range }.

Definition prepare_ranges (pc : pointcloud) : res ranges :=
  (ri <-- range_of_channel (channel_of pc ChIntensity) ;;
   rr <-- range_of_channel (channel_of pc ChRed) ;;
   rg <-- range_of_channel (channel_of pc ChGreen) ;;
   rb <-- range_of_channel (channel_of pc ChBlue) ;;
   Ok (mkRanges ri rr rg rb))%res.

(** * The iterator state.  [values] and [buffer] of the Rust struct are
    reusable allocations without content between calls and are not modelled. *)
Record simple_iter := mkSimple {
  si_pc : pointcloud;
  si_q : qr;                          (* queue_reader *)
  si_opts : opts;                     (* transform, s2c, c2s, i2c, ni, nc *)
  si_rotation : mat9 binary64;
  si_translation : vec3 binary64;
  si_indices : indices;
  si_read : N;
  si_points : list point;             (* output queue *)
  si_ranges : ranges
}.

Definition proto_dtypes (pc : pointcloud) : list dtype := map (fun r => dtype_of (r_type r)) (pc_prototype pc).

(** [PointCloudReaderSimple::new]: the struct literal evaluates its fields in
    the order written: transform, indices, [QueueReader::new(pc, reader)?] and
    only then the four ranges. *)
Definition simple_new (pc : pointcloud) : rprog simple_iter :=
  let '(rot, tr) := prepare_transform (pc_transform pc) in
  let idx := prepare_indices (pc_prototype pc) in
  (q <- qr_new (pc_file_offset pc) (pc_records pc) (proto_dtypes pc) ;;
   rgs <- rlift (prepare_ranges pc) ;;
   RRet (mkSimple pc q default_opts rot tr idx 0 [] rgs))%rprog.

(** * The six setters *)
Definition with_opts (it : simple_iter) (o : opts) : simple_iter :=
  mkSimple (si_pc it) (si_q it) o (si_rotation it) (si_translation it) (si_indices it)
           (si_read it) (si_points it) (si_ranges it).
Definition set_spherical_to_cartesian (b : bool) (it : simple_iter) : simple_iter :=
  let o := si_opts it in with_opts it (mkOpts b (o_c2s o) (o_i2c o) (o_ni o) (o_nc o) (o_pose o)).
Definition set_cartesian_to_spherical (b : bool) (it : simple_iter) : simple_iter :=
  let o := si_opts it in with_opts it (mkOpts (o_s2c o) b (o_i2c o) (o_ni o) (o_nc o) (o_pose o)).
Definition set_intensity_to_color (b : bool) (it : simple_iter) : simple_iter :=
  let o := si_opts it in with_opts it (mkOpts (o_s2c o) (o_c2s o) b (o_ni o) (o_nc o) (o_pose o)).
Definition set_normalize_intensity (b : bool) (it : simple_iter) : simple_iter :=
  let o := si_opts it in with_opts it (mkOpts (o_s2c o) (o_c2s o) (o_i2c o) b (o_nc o) (o_pose o)).
Definition set_normalize_color (b : bool) (it : simple_iter) : simple_iter :=
  let o := si_opts it in with_opts it (mkOpts (o_s2c o) (o_c2s o) (o_i2c o) (o_ni o) b (o_pose o)).
Definition set_apply_pose (b : bool) (it : simple_iter) : simple_iter :=
  let o := si_opts it in with_opts it (mkOpts (o_s2c o) (o_c2s o) (o_i2c o) (o_ni o) (o_nc o) b).

(** all six, as a client would call them after [pointcloud_simple] *)
Definition set_all (o : opts) (it : simple_iter) : simple_iter :=
  set_apply_pose (o_pose o) (set_normalize_color (o_nc o) (set_normalize_intensity (o_ni o)
    (set_intensity_to_color (o_i2c o) (set_cartesian_to_spherical (o_c2s o)
      (set_spherical_to_cartesian (o_s2c o) it))))).

(** * src/record.rs: [RecordValue::to_f64], [to_i64] *)
Definition to_f64 (v : rvalue) (dt : data_type) : res binary64 :=
  match v with
  | VSingle b => Ok (f64_of_f32 (f32_of_bits b))
  | VDouble b => Ok (f64_of_bits b)
  | VScaled i =>
      match dt with
      | DScaledInteger _ _ scale offset => Ok (scaled_to_f64 i (f64v scale) (f64v offset))
      | _ => Err EInternal
      end
  | VInteger i => Ok (f64_of_Z i)
  end.

Definition to_i64 (v : rvalue) (dt : data_type) : res Z :=
  match v, dt with
  | VInteger i, DInteger _ _ => Ok i
  | _, _ => Err EInternal
  end.

(** [values[ind]], [proto[ind]]: indexing panics when out of bounds *)
Definition vget (vs : list rvalue) (i : nat) : res rvalue :=
  match nth_error vs i with Some v => Ok v | None => Panic end.
Definition tget (proto : list record) (i : nat) : res data_type :=
  match nth_error proto i with Some r => Ok (r_type r) | None => Panic end.

(** [values[ind].to_f64(&proto[ind].data_type)?] *)
Definition get_f64 (proto : list record) (vs : list rvalue) (i : nat) : res binary64 :=
  (v <-- vget vs i ;; t <-- tget proto i ;; to_f64 v t)%res.
Definition get_i64 (proto : list record) (vs : list rvalue) (i : nat) : res Z :=
  (v <-- vget vs i ;; t <-- tget proto i ;; to_i64 v t)%res.

(** * [pop_point]: one [Point] from the raw values of one point *)
Section PopPoint.
  Variable it : simple_iter.
  Variable vs : list rvalue.
  Local Notation proto := (pc_prototype (si_pc it)).
  Local Notation idx := (si_indices it).
  Local Open Scope res_scope.

  (** the [..._invalid] value: stored, or 0 when only the attribute exists, or [absent] *)
  Definition state_value (state : option nat) (present : bool) (absent : Z) : res Z :=
    match state with
    | Some i => get_i64 proto vs i
    | None => Ok (if present then 0%Z else absent)
    end.

  Definition is_some {A} (o : option A) : bool := match o with Some _ => true | None => false end.

  Definition pop_cartesian : res cartesian :=
    ci <-- state_value (i_cartesian_invalid idx) (is_some (i_cartesian idx)) 2 ;;
    match i_cartesian idx with
    | Some (ix, iy, iz) =>
        if (ci =? 0)%Z then
          x <-- get_f64 proto vs ix ;; y <-- get_f64 proto vs iy ;; z <-- get_f64 proto vs iz ;;
          Ok (CValid x y z)
        else if (ci =? 1)%Z then
          x <-- get_f64 proto vs ix ;; y <-- get_f64 proto vs iy ;; z <-- get_f64 proto vs iz ;;
          Ok (CDirection x y z)
        else if (ci =? 2)%Z then Ok CInvalid
        else Err EInvalid
    | None => Ok CInvalid
    end.

  Definition pop_spherical : res spherical :=
    si <-- state_value (i_spherical_invalid idx) (is_some (i_spherical idx)) 2 ;;
    match i_spherical idx with
    | Some (ir, ia, ie) =>
        if (si =? 0)%Z then
          r <-- get_f64 proto vs ir ;; a <-- get_f64 proto vs ia ;; e <-- get_f64 proto vs ie ;;
          Ok (SValid r a e)
        else if (si =? 1)%Z then
          a <-- get_f64 proto vs ia ;; e <-- get_f64 proto vs ie ;;
          Ok (SDirection a e)
        else if (si =? 2)%Z then Ok SInvalid
        else Err EInvalid
    | None => Ok SInvalid
    end.

  Definition pop_color : res (option color) :=
    ci <-- state_value (i_color_invalid idx) (is_some (i_color idx)) 1 ;;
    match i_color idx with
    | Some (ir, ig, ib) =>
        if (ci =? 0)%Z then
          r <-- get_f64 proto vs ir ;;
          r' <-- normalize_value (o_nc (si_opts it)) r (rg_red (si_ranges it)) ;;
          g <-- get_f64 proto vs ig ;;
          g' <-- normalize_value (o_nc (si_opts it)) g (rg_green (si_ranges it)) ;;
          b <-- get_f64 proto vs ib ;;
          b' <-- normalize_value (o_nc (si_opts it)) b (rg_blue (si_ranges it)) ;;
          Ok (Some (mkColor r' g' b'))
        else if (ci =? 1)%Z then Ok None
        else Err EInvalid
    | None => Ok None
    end.

  Definition pop_intensity : res (option binary32) :=
    ii <-- state_value (i_intensity_invalid idx) (is_some (i_intensity idx)) 1 ;;
    match i_intensity idx with
    | Some i =>
        if (ii =? 0)%Z then
          v <-- get_f64 proto vs i ;;
          v' <-- normalize_value (o_ni (si_opts it)) v (rg_intensity (si_ranges it)) ;;
          Ok (Some v')
        else if (ii =? 1)%Z then Ok None
        else Err EInvalid
    | None => Ok None
    end.

  Definition pop_index (i : option nat) : res Z :=
    match i with
    | Some i => get_i64 proto vs i
    | None => Ok (-1)%Z
    end.

  Definition pop_point_model : res point :=
    c <-- pop_cartesian ;;
    s <-- pop_spherical ;;
    col <-- pop_color ;;
    i <-- pop_intensity ;;
    row <-- pop_index (i_row idx) ;;
    column <-- pop_index (i_column idx) ;;
    Ok (mkPoint c s col i row column).
End PopPoint.

(** [convert_intensity] and [transform_point] need no libm *)
Definition convert_intensity (p : point) : point :=
  match p_color p with
  | Some _ => p
  | None =>
      match p_intensity p with
      | Some i => mkPoint (p_cartesian p) (p_spherical p) (Some (mkColor i i i)) (p_intensity p) (p_row p) (p_column p)
      | None => p
      end
  end.

Definition transform_point (rot : mat9 binary64) (tr : vec3 binary64) (p : point) : point :=
  match p_cartesian p with
  | CValid x y z =>
      let v := apply_pose64 rot tr (mkVec3 x y z) in
      mkPoint (CValid (v_x v) (v_y v) (v_z v)) (p_spherical p) (p_color p) (p_intensity p) (p_row p) (p_column p)
  | _ => p
  end.

Section Trig.
  (** [f64::cos], [f64::sin], [f64::asin], [f64::atan2 (self = y, other = x)] *)
  Variables (fcos fsin fasin : binary64 -> binary64) (fatan2 : binary64 -> binary64 -> binary64).

  Definition with_cartesian (p : point) (c : cartesian) : point :=
    mkPoint c (p_spherical p) (p_color p) (p_intensity p) (p_row p) (p_column p).
  Definition with_spherical (p : point) (s : spherical) : point :=
    mkPoint (p_cartesian p) s (p_color p) (p_intensity p) (p_row p) (p_column p).

  (** [convert_to_cartesian] *)
  Definition convert_to_cartesian (p : point) : point :=
    match p_cartesian p with
    | CValid _ _ _ => p
    | _ =>
        match p_spherical p with
        | SValid range azimuth elevation =>
            let cos_ele := fcos elevation in
            with_cartesian p (CValid (f64_mul (f64_mul range cos_ele) (fcos azimuth))
                                     (f64_mul (f64_mul range cos_ele) (fsin azimuth))
                                     (f64_mul range (fsin elevation)))
        | _ =>
            match p_cartesian p with
            | CDirection _ _ _ => p
            | _ =>
                match p_spherical p with
                | SDirection azimuth elevation =>
                    let cos_ele := fcos elevation in
                    with_cartesian p (CDirection (f64_mul (f64_mul f64_one cos_ele) (fcos azimuth))
                                                 (f64_mul (f64_mul f64_one cos_ele) (fsin azimuth))
                                                 (f64_mul f64_one (fsin elevation)))
                | _ => p
                end
            end
        end
    end.

  (** [x * x + y * y + z * z] *)
  Definition norm2 (x y z : binary64) : binary64 :=
    f64_add (f64_add (f64_mul x x) (f64_mul y y)) (f64_mul z z).

  (** [convert_to_spherical] *)
  Definition convert_to_spherical (p : point) : point :=
    match p_spherical p with
    | SValid _ _ _ => p
    | _ =>
        match p_cartesian p with
        | CValid x y z =>
            let r := f64_sqrt (norm2 x y z) in
            with_spherical p (SValid r (fatan2 y x) (fasin (f64_div z r)))
        | _ =>
            match p_spherical p with
            | SDirection _ _ => p
            | _ =>
                match p_cartesian p with
                | CDirection x y z =>
                    with_spherical p (SDirection (fatan2 y x) (fasin (f64_div z (f64_sqrt (norm2 x y z)))))
                | _ => p
                end
            end
        end
    end.

  (** The post-processing of one point, in the order of [next]: s2c, c2s, i2c, pose. *)
  Definition postprocess (o : opts) (rot : mat9 binary64) (tr : vec3 binary64) (p : point) : point :=
    let p1 := if o_s2c o then convert_to_cartesian p else p in
    let p2 := if o_c2s o then convert_to_spherical p1 else p1 in
    let p3 := if o_i2c o then convert_intensity p2 else p2 in
    if o_pose o then transform_point rot tr p3 else p3.

  (** The same as [next] does it: four passes over the whole buffer. *)
  Definition post_buffer (o : opts) (rot : mat9 binary64) (tr : vec3 binary64) (buf : list point) : list point :=
    let b1 := if o_s2c o then map convert_to_cartesian buf else buf in
    let b2 := if o_c2s o then map convert_to_spherical b1 else b1 in
    let b3 := if o_i2c o then map convert_intensity b2 else b2 in
    if o_pose o then map (transform_point rot tr) b3 else b3.

  (** The hook [e57::verif::postprocess(p, s2c, c2s, i2c, pose)]; [pose] is the
      [transform] field of the point cloud given, if one is given. *)
  Definition postprocess_hook (s2c c2s i2c : bool) (pose : option (option transform)) (p : point) : point :=
    match pose with
    | Some t => let '(rot, tr) := prepare_transform t in postprocess (mkOpts s2c c2s i2c true true true) rot tr p
    | None => postprocess (mkOpts s2c c2s i2c true true false)
                          (rotation64 f64_one f64_zero f64_zero f64_zero) (mkVec3 f64_zero f64_zero f64_zero) p
    end.

  (** [for _ in 0..available { self.pop_point()? ; push }]: pop from the queues, convert *)
  Fixpoint pop_points (n : nat) (it : simple_iter) (q : qr) : res (list point * qr) :=
    match n with
    | O => Ok ([], q)
    | S k =>
        match pop_fronts (q_proto q) (q_queues q) with
        | Ok (vs, qs) =>
            match pop_point_model it vs with
            | Ok p =>
                match pop_points k it (mkQr (q_proto q) (q_streams q) qs) with
                | Ok (ps, q') => Ok (p :: ps, q')
                | Err e => Err e
                | Panic => Panic
                end
            | Err e => Err e
            | Panic => Panic
            end
        | Err e => Err e
        | Panic => Panic
        end
    end.

  Definition with_queue (it : simple_iter) (q : qr) (read : N) (points : list point) : simple_iter :=
    mkSimple (si_pc it) q (si_opts it) (si_rotation it) (si_translation it) (si_indices it)
             read points (si_ranges it).

  (** [Iterator::next] *)
  Definition simple_next (log_size : N) (it : simple_iter) : rprog (simple_iter * step_out point) :=
    if (pc_records (si_pc it) <=? si_read it)%N then RRet (it, Done) else
    match si_points it with
    | p :: rest => RRet (with_queue it (si_q it) (si_read it + 1) rest, Item p)
    | [] =>
        (q <- refill (refill_fuel log_size) (si_q it) ;;
         (* [remaining = records - read] (positive here), [usize::try_from(..).unwrap_or(usize::MAX)]
            is the identity on a 64-bit target; the last packet can hold more values than the
            point cloud has points *)
         let remaining := (pc_records (si_pc it) - si_read it)%N in
         let available := N.min (qr_available q) remaining in
         '(buffer, q') <- rlift (pop_points (N.to_nat available) it q) ;;
         let buffer' := post_buffer (si_opts it) (si_rotation it) (si_translation it) buffer in
         match buffer' with
         | p :: rest => RRet (with_queue it q' (si_read it + 1) rest, Item p)
         | [] => RErr EInternal
         end)%rprog
    end.

  (** Drive the iterator to its end or first error. *)
  Fixpoint simple_collect (fuel : nat) (log_size : N) (it : simple_iter) (acc : list point) : rprog (list point) :=
    match fuel with
    | O => RErr EInternal
    | S f =>
        ('(it', o) <- simple_next log_size it ;;
         match o with
         | Done => RRet acc
         | Item p => simple_collect f log_size it' (acc ++ [p])
         end)%rprog
    end.

  (** [reader.pointcloud_simple(pc)?], the six setters, then iterate to the end *)
  Definition simple_open (pc : pointcloud) (o : opts) : rprog simple_iter :=
    (it <- simple_new pc ;; RRet (set_all o it))%rprog.
  Definition simple_read_all (fuel : nat) (log_size : N) (pc : pointcloud) (o : opts) : rprog (list point) :=
    (it <- simple_open pc o ;; simple_collect fuel log_size it [])%rprog.
End Trig.

(** * The raw iteration, returning also the iterator it ends with (used by the proofs). *)
Fixpoint raw_collect_st (fuel : nat) (log_size : N) (it : raw_iter) (acc : list (list rvalue))
  : rprog (list (list rvalue) * raw_iter) :=
  match fuel with
  | O => RErr EInternal
  | S f =>
      ('(it', o) <- raw_next log_size it ;;
       match o with
       | Done => RRet (acc, it')
       | Item p => raw_collect_st f log_size it' (acc ++ [p])
       end)%rprog
  end.

Definition raw_read_all_st (fuel : nat) (log_size : N) (pc : pointcloud)
  : rprog (list (list rvalue) * raw_iter) :=
  (it <- raw_new (pc_file_offset pc) (pc_records pc) (proto_dtypes pc) ;; raw_collect_st fuel log_size it [])%rprog.
Definition raw_read_all (fuel : nat) (log_size : N) (pc : pointcloud) : rprog (list (list rvalue)) :=
  (it <- raw_new (pc_file_offset pc) (pc_records pc) (proto_dtypes pc) ;; raw_collect fuel log_size it [])%rprog.

(** [n] complete points from the front of the queues *)
Fixpoint pop_raws (n : nat) (proto : list dtype) (qs : list (list rvalue)) : res (list (list rvalue) * list (list rvalue)) :=
  match n with
  | O => Ok ([], qs)
  | S k =>
      match pop_fronts proto qs with
      | Ok (vs, qs1) =>
          match pop_raws k proto qs1 with
          | Ok (ps, qs2) => Ok (vs :: ps, qs2)
          | Err e => Err e
          | Panic => Panic
          end
      | Err e => Err e
      | Panic => Panic
      end
  end.

(** the complete points still in the queues of a raw iterator *)
Definition leftover (it : raw_iter) : list (list rvalue) :=
  match pop_raws (N.to_nat (qr_available (ri_q it))) (q_proto (ri_q it)) (q_queues (ri_q it)) with
  | Ok (ps, _) => ps
  | _ => []
  end.
