(** Model of src/paged_writer.rs, function by function.  No proofs here. *)
From E57 Require Import Base.Prelude Model.Crc Model.Device.
Local Open Scope monad_scope.

Definition PAGE : N := 1024.
Definition PAYLOAD : N := 1020.

Record pw := mkPw {
  pw_dev : dev;
  pw_off : N;          (* offset *)
  pw_buf : list N      (* page_buffer, 1024 bytes *)
}.

Definition pw_lift {A} (m : M dev A) : M pw A := fun s =>
  let '(d, r) := m (pw_dev s) in (mkPw d (pw_off s) (pw_buf s), r).
Definition pw_set_off (o : N) : M pw unit := fun s => (mkPw (pw_dev s) o (pw_buf s), Ok tt).
Definition pw_set_buf (b : list N) : M pw unit := fun s => (mkPw (pw_dev s) (pw_off s) b, Ok tt).
Definition pw_get_off : M pw N := fun s => (s, Ok (pw_off s)).
Definition pw_get_buf : M pw (list N) := fun s => (s, Ok (pw_buf s)).

(** [PagedWriter::new] on device [d]. *)
Definition pw_new (d : dev) : dev * res pw :=
  let '(d1, r) := relabel ERead d_seek_end d in
  match r with
  | Ok e => if e =? 0 then (d1, Ok (mkPw d1 0 (zeros PAGE))) else (d1, Err EInvalid)
  | Err k => (d1, Err k)
  | Panic => (d1, Panic)
  end.

(** [read_current_page]: fill the whole page buffer from the device, zero-fill the rest. *)
Definition pw_read_current_page : M pw unit :=
  got <- pw_lift (d_read_fill (S (N.to_nat PAGE)) PAGE []) ;;
  pw_set_buf (got ++ zeros (PAGE - len got)).

(** Put the CRC of the payload part into the last four bytes of the buffer. *)
Definition seal (buf : list N) : list N :=
  take PAYLOAD buf ++ crc_bytes (take PAYLOAD buf).

(** One call of [Write::write]. *)
Definition pw_write (data : list N) : M pw N :=
  off <- pw_get_off ;;
  if PAYLOAD <? off then panic else      (* PAGE_PAYLOAD_SIZE - self.offset *)
  let n := N.min (len data) (PAYLOAD - off) in
  buf <- pw_get_buf ;;
  pw_set_buf (take off buf ++ take n data ++ drop (off + n) buf) ;;;
  pw_set_off (off + n) ;;;
  (if off + n =? PAYLOAD then
     buf <- pw_get_buf ;;
     pw_set_buf (seal buf) ;;;
     pw_lift (d_write_all (seal buf)) ;;;
     pos <- pw_lift d_pos ;;
     pw_set_off 0 ;;;
     pw_read_current_page ;;;
     pw_lift (d_seek_start pos) ;;;
     ret tt
   else ret tt) ;;;
  ret n.

(** [Write::write_all] of std: call [write] until everything is taken; a
    write of 0 bytes is the error WriteZero. *)
Fixpoint pw_write_all_loop (fuel : nat) (data : list N) : M pw unit :=
  match fuel with
  | O => ret tt
  | S f =>
      match data with
      | [] => ret tt
      | _ => n <- pw_write data ;;
             if n =? 0 then fail EIo else pw_write_all_loop f (drop n data)
      end
  end.
Definition pw_write_all (data : list N) : M pw unit :=
  pw_write_all_loop (S (length data)) data.

(** [Write::flush]. *)
Definition pw_flush : M pw unit :=
  off <- pw_get_off ;;
  (if 0 <? off then
     pos <- pw_lift d_pos ;;
     buf <- pw_get_buf ;;
     pw_set_buf (seal buf) ;;;
     pw_lift (d_write_all (seal buf)) ;;;
     pw_lift (d_seek_start pos) ;;;
     ret tt
   else ret tt) ;;;
  pw_lift d_flush.

Definition pw_physical_position : M pw N :=
  pos <- relabel ERead (pw_lift d_pos) ;;
  off <- pw_get_off ;;
  ret (pos + off).

Definition pw_physical_size : M pw N :=
  relabel EWrite pw_flush ;;;
  pos <- relabel EWrite (pw_lift d_pos) ;;
  size <- relabel EWrite (pw_lift d_seek_end) ;;
  relabel EWrite (pw_lift (d_seek_start pos)) ;;;
  ret size.

Definition pw_physical_seek (p : N) : M pw unit :=
  e <- pw_physical_size ;;
  if e <? p then fail EInvalid else
  let page := p / PAGE in
  let offset := p mod PAGE in
  if PAYLOAD <=? offset then fail EInvalid else
  relabel EWrite (pw_lift (d_seek_start (page * PAGE))) ;;;
  relabel EWrite pw_read_current_page ;;;
  relabel EWrite (pw_lift (d_seek_start (page * PAGE))) ;;;
  pw_set_off offset.

Definition pw_align : M pw unit :=
  off <- pw_get_off ;;
  let m := off mod 4 in
  if m =? 0 then ret tt
  else relabel EWrite (pw_write_all (zeros (4 - m))).

(** [Drop]: flush, ignoring an error. *)
Definition pw_drop : M pw unit := ignore_err pw_flush.

(** Operations as a harness can issue them through the hook. *)
Inductive pw_op :=
| PwWrite (data : list N)      (* write_all *)
| PwSeek (p : N)
| PwFlush
| PwAlign
| PwPosition
| PwSize.

(** Observable result of an operation: a number where the call returns one. *)
Definition pw_step (o : pw_op) : M pw N :=
  match o with
  | PwWrite data => relabel EWrite (pw_write_all data) ;;; ret 0
  | PwSeek p => pw_physical_seek p ;;; ret 0
  | PwFlush => relabel EWrite pw_flush ;;; ret 0
  | PwAlign => pw_align ;;; ret 0
  | PwPosition => pw_physical_position
  | PwSize => pw_physical_size
  end.

(** Run a history; the writer lives on after an operation returned an error. *)
Fixpoint pw_run (ops : list pw_op) (s : pw) : pw * list (res N) :=
  match ops with
  | [] => (s, [])
  | o :: r => let '(s1, x) := pw_step o s in
              let '(s2, xs) := pw_run r s1 in (s2, x :: xs)
  end.
