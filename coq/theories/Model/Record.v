(** Model of the numeric part of src/record.rs and src/bitpack.rs: data
    types, bit sizes, serialisation of one value, unpacking of a stream.
    Floats are bit patterns ([N] below 2^32 / 2^64); integers are [Z] in the
    i64 range.  No proofs here. *)
From E57 Require Import Base.Prelude Model.BsWrite Model.BsRead.
Local Open Scope Z_scope.

Definition I64_MIN : Z := - 2 ^ 63.
Definition I64_MAX : Z := 2 ^ 63 - 1.
Definition in_i64 (z : Z) : bool := (I64_MIN <=? z) && (z <=? I64_MAX).
(** [as i64] / [as u64]: truncation to 64 bits. *)
Definition wrap_u64 (z : Z) : N := Z.to_N (z mod 2 ^ 64).
Definition wrap_i64 (z : Z) : Z :=
  let m := z mod 2 ^ 64 in if m <? 2 ^ 63 then m else m - 2 ^ 64.

(** RecordDataType, numeric content only (float min/max play no role in the codec). *)
Inductive dtype :=
| TSingle
| TDouble
| TScaled (min max : Z)
| TInteger (min max : Z).

(** RecordValue: floats by bit pattern. *)
Inductive rvalue :=
| VSingle (bits : N)
| VDouble (bits : N)
| VScaled (v : Z)
| VInteger (v : Z).

(** [integer_bits]: range as i128, [ilog2] + 1. *)
Definition integer_bits (min max : Z) : N :=
  let range := max - min in
  if 0 <? range then N.log2 (Z.to_N range) + 1 else 0%N.

Definition bit_size (t : dtype) : N :=
  match t with
  | TSingle => 32%N
  | TDouble => 64%N
  | TScaled mn mx => integer_bits mn mx
  | TInteger mn mx => integer_bits mn mx
  end.

(** [serialize_integer]: [value.wrapping_sub(min) as u64]. *)
Definition serialize_integer (value mn mx : Z) (b : bsw) : res bsw :=
  let uint := wrap_u64 (value - mn) in
  bsw_add_bits b (le_bytes 8 uint) (integer_bits mn mx).

(** [RecordDataType::write]. *)
Definition dtype_write (t : dtype) (v : rvalue) (b : bsw) : res bsw :=
  match t, v with
  | TSingle, VSingle x => bsw_add_bytes b (le_bytes 4 x)
  | TDouble, VDouble x => bsw_add_bytes b (le_bytes 8 x)
  | TScaled mn mx, VScaled i => serialize_integer i mn mx b
  | TInteger mn mx, VInteger i => serialize_integer i mn mx b
  | _, _ => Err EInvalid
  end.

(** [matches!] test of add_point. *)
Definition value_matches (t : dtype) (v : rvalue) : bool :=
  match t, v with
  | TSingle, VSingle _ | TDouble, VDouble _ | TScaled _ _, VScaled _ | TInteger _ _, VInteger _ => true
  | _, _ => false
  end.

(** The [while let Some(data) = stream.extract(bits)] loops of bitpack.rs;
    fuel = number of bits available + 1 when bits > 0. *)
Fixpoint unpack_loop (fuel : nat) (bits : N) (mk : N -> rvalue) (s : bsr) (acc : list rvalue)
  : res (bsr * list rvalue) :=
  match fuel with
  | O => Ok (s, acc)
  | S f =>
      match bsr_extract s bits with
      | Ok (s1, Some v) => unpack_loop f bits mk s1 (acc ++ [mk v])
      | Ok (s1, None) => Ok (s1, acc)
      | Err k => Err k
      | Panic => Panic
      end
  end.

(** At most available/bits values can be extracted. *)
Definition unpack_fuel (s : bsr) (bits : N) : nat := S (N.to_nat ((len (br_buf s) * 8) / bits)%N).

Definition unpack_doubles (s : bsr) : res (bsr * list rvalue) :=
  unpack_loop (unpack_fuel s 64) 64 VDouble s [].
Definition unpack_singles (s : bsr) : res (bsr * list rvalue) :=
  unpack_loop (unpack_fuel s 32) 32 (fun v => VSingle (v mod 2 ^ 32)%N) s [].

(** [unpack_ints] / [unpack_scaled_ints]: [range.ilog2()] panics for range <= 0. *)
Definition unpack_ints_gen (mk : Z -> rvalue) (mn mx : Z) (s : bsr) : res (bsr * list rvalue) :=
  let range := mx - mn in
  if range <=? 0 then Panic else
  let bits := (N.log2 (Z.to_N range) + 1)%N in
  let mask := ((2 ^ bits - 1) mod 2 ^ 64)%N in
  unpack_loop (unpack_fuel s bits) bits
    (fun uint => mk (wrap_i64 (Z.of_N (N.land uint mask) + mn))) s [].
Definition unpack_ints := unpack_ints_gen VInteger.
Definition unpack_scaled_ints := unpack_ints_gen VScaled.

(** The dispatch of [QueueReader::parse_byte_streams] for a record of non-zero width. *)
Definition unpack_type (t : dtype) (s : bsr) : res (bsr * list rvalue) :=
  match t with
  | TSingle => unpack_singles s
  | TDouble => unpack_doubles s
  | TScaled mn mx => unpack_scaled_ints mn mx s
  | TInteger mn mx => unpack_ints mn mx s
  end.

(** Writing a sequence of values of one attribute into its byte stream buffer. *)
Definition write_values (t : dtype) (vs : list rvalue) (b : bsw) : res bsw :=
  fold_left (fun r v => match r with Ok b => dtype_write t v b | x => x end) vs (Ok b).

(** Reading one attribute's stream delivered in chunks (one per data packet):
    append the chunk, unpack everything that is complete, go on. *)
Fixpoint feed_chunks (t : dtype) (cs : list (list N)) (s : bsr) (acc : list rvalue)
  : res (bsr * list rvalue) :=
  match cs with
  | [] => Ok (s, acc)
  | c :: r =>
      match bsr_append s c with
      | Ok s1 =>
          match unpack_type t s1 with
          | Ok (s2, vs) => feed_chunks t r s2 (acc ++ vs)
          | Err k => Err k
          | Panic => Panic
          end
      | Err k => Err k
      | Panic => Panic
      end
  end.
