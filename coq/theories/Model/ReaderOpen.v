(** Model of [E57Reader::new] (up to the XML bytes) and [E57Reader::raw_xml]:
    the header is first read from the raw device to learn the page size, then
    read again through the CRC layer; only the validated fields are used.
    No proofs here. *)
From E57 Require Import Base.Prelude Model.Device Model.PagedReader Model.Prog Model.QueueReader Model.FileBin.

(** the checks of [Header::read] on 48 bytes *)
Definition header_parse (data : list N) : res header :=
  let h := mkHeader (le_num (slice 8 4 data)) (le_num (slice 12 4 data)) (le_num (slice 16 8 data))
                    (le_num (slice 24 8 data)) (le_num (slice 32 8 data)) (le_num (slice 40 8 data)) in
  if negb (if list_eq_dec N.eq_dec (take 8 data) SIGNATURE then true else false) then Err EInvalid else
  if negb (h_major h =? 1) then Err EInvalid else
  if negb (h_minor h =? 0) then Err EInvalid else
  if negb (h_page_size h =? 1024) then Err EInvalid else
  Ok h.

(** [Header::read] through the paged reader *)
Definition header_read_paged : rprog header :=
  (data <- rd 48 ;; rlift (header_parse data))%rprog.

(** after the paged reader exists: validated header, then the XML bytes *)
Definition open_paged : rprog (header * list N) :=
  (r_seek 0 ;;;
   h <- header_read_paged ;;
   xml <- extract_xml (h_xml_offset h) (h_xml_length h) ;;
   rret (h, xml))%rprog.

Definition reader_open (d : dev) : dev * res (pr * header * list N) :=
  let '(d1, r) := header_read d in
  match r with
  | Ok h0 =>
      let '(d2, r2) := pr_new (h_page_size h0) d1 in
      match res_relabel ERead r2 with
      | Ok s =>
          let '(s1, r3) := rrun open_paged s in
          match r3 with
          | Ok (h, xml) => (pr_dev s1, Ok (s1, h, xml))
          | Err k => (pr_dev s1, Err k)
          | Panic => (pr_dev s1, Panic)
          end
      | Err k => (d2, Err k)
      | Panic => (d2, Panic)
      end
  | Err k => (d1, Err k)
  | Panic => (d1, Panic)
  end.

(** [raw_xml]: page size raw, offset and length through the CRC layer *)
Definition raw_xml_paged : rprog (list N) :=
  (r_seek 24 ;;;
   b <- rd 16 ;;
   extract_xml (le_num (slice 0 8 b)) (le_num (slice 8 8 b)))%rprog.

Definition raw_xml (d : dev) : dev * res (list N) :=
  let '(d1, r1) := get_u64 40 d in
  match r1 with
  | Ok ps =>
      let '(d2, r2) := pr_new ps d1 in
      match res_relabel ERead r2 with
      | Ok s => let '(s1, r3) := rrun raw_xml_paged s in (pr_dev s1, r3)
      | Err k => (d2, Err k)
      | Panic => (d2, Panic)
      end
  | Err k => (d1, Err k)
  | Panic => (d1, Panic)
  end.
