(** Model of src/crc32.rs: table-driven CRC-32C exactly as [Crc32::new] and
    [Crc32::calculate] compute it.  No proofs here. *)
From E57 Require Import Base.Prelude.

Definition crc_poly_reflected : N := 0x82F63B78.

(** One iteration of the inner loop of [Crc32::new]. *)
Definition crc_bit_step (v : N) : N :=
  if N.even v then v / 2 else N.lxor (v / 2) crc_poly_reflected.

Definition crc_entry (i : N) : N :=
  crc_bit_step (crc_bit_step (crc_bit_step (crc_bit_step
  (crc_bit_step (crc_bit_step (crc_bit_step (crc_bit_step i))))))).

Definition crc_table : list N := map (fun i => crc_entry (N.of_nat i)) (seq 0 256).

(** The closure body of [calculate]: index = (sum ^ next) as u8. *)
Definition crc_step (sum next : N) : N :=
  let index := N.land (N.lxor sum next) 255 in
  N.lxor (nth (N.to_nat index) crc_table 0) (N.shiftr sum 8).

Definition mask32 : N := 0xFFFFFFFF.

Definition crc32c (data : list N) : N :=
  N.lxor (fold_left crc_step data mask32) mask32.

(** The four checksum bytes as stored in a page: big endian. *)
Definition crc_bytes (payload : list N) : list N := be_bytes 4 (crc32c payload).
