(** Model of src/bs_write.rs ([ByteStreamWriteBuffer]).  The buffer is kept
    most-recent-byte first ([bw_rev] = reversed [buffer]) so that the bit loop,
    which only ever touches the last byte, is cheap to run; indices are still
    computed as the code computes them.  No proofs here. *)
From E57 Require Import Base.Prelude.

Record bsw := mkBsw {
  bw_rev : list N;       (* buffer, reversed *)
  bw_lbb : N             (* last_byte_bit *)
}.

Definition bsw_new : bsw := mkBsw [] 0.
Definition bsw_buffer (s : bsw) : list N := rev (bw_rev s).

(** [buffer[idx] |= mask] on the reversed representation; [None] = index out of bounds (panic). *)
Fixpoint or_at_rev (r : list N) (k : nat) (mask : N) : option (list N) :=
  match r, k with
  | [], _ => None
  | x :: t, O => Some (N.lor x mask :: t)
  | x :: t, S k' => match or_at_rev t k' mask with Some t' => Some (x :: t') | None => None end
  end.

(** The [for b in 0..bits] loop of the unaligned branch; [b] counts up. *)
Fixpoint add_bits_loop (n : nat) (b : N) (data : list N) (start_byte start_bit : N) (s : bsw) : res bsw :=
  match n with
  | O => Ok s
  | S n' =>
      match nth_error data (N.to_nat (b / 8)) with
      | None => Panic                                         (* data[source_byte] *)
      | Some src =>
          let source_bit := negb (N.land src (2 ^ (b mod 8)) =? 0) in
          let target_mask := if source_bit then 2 ^ bw_lbb s else 0 in
          let target_byte := start_byte + (start_bit + b) / 8 in
          let r1 := if len (bw_rev s) <=? target_byte then 0 :: bw_rev s else bw_rev s in
          if len r1 <=? target_byte then Panic else           (* buffer[target_byte] *)
          match or_at_rev r1 (N.to_nat (len r1 - 1 - target_byte)) target_mask with
          | None => Panic
          | Some r2 => add_bits_loop n' (b + 1) data start_byte start_bit (mkBsw r2 ((bw_lbb s + 1) mod 8))
          end
      end
  end.

Definition bsw_add_bits (s : bsw) (data : list N) (bits : N) : res bsw :=
  if bw_lbb s =? 0 then
    let to_append := (bits + 7) / 8 in
    if len data <? to_append then Panic                       (* &data[..to_append] *)
    else Ok (mkBsw (rev (take to_append data) ++ bw_rev s) (bits mod 8))
  else
    match bw_rev s with
    | [] => Panic                                             (* self.buffer.len() - 1 *)
    | _ => add_bits_loop (N.to_nat bits) 0 data (len (bw_rev s) - 1) (bw_lbb s) s
    end.

Definition bsw_add_bytes (s : bsw) (data : list N) : res bsw :=
  if bw_lbb s =? 0 then Ok (mkBsw (rev data ++ bw_rev s) 0)
  else bsw_add_bits s data (len data * 8).

Definition bsw_all_bytes (s : bsw) : N := len (bw_rev s).
Definition bsw_full_bytes (s : bsw) : res N :=
  if negb (bw_lbb s =? 0) then
    (if bsw_all_bytes s =? 0 then Panic else Ok (bsw_all_bytes s - 1))   (* len - 1 *)
  else Ok (bsw_all_bytes s).

(** [get_full_bytes]: drain the complete bytes, keep a partial last byte. *)
Definition bsw_get_full_bytes (s : bsw) : res (bsw * list N) :=
  match bsw_full_bytes s with
  | Ok n => let b := bsw_buffer s in Ok (mkBsw (rev (drop n b)) (bw_lbb s), take n b)
  | Err k => Err k
  | Panic => Panic
  end.

Definition bsw_get_all_bytes (s : bsw) : bsw * list N := (mkBsw [] 0, bsw_buffer s).
