(** The metadata a caller hands to the writer and gets back from the reader:
    Coq mirrors of Root, PointCloud, Image, bounds, limits, transform,
    DateTime, Extension, Record, Blob.  Strings are UTF-8 byte lists.  A float
    is its bit pattern together with the text Rust's [Display] prints for it
    (an oracle input: the model does not compute shortest round-trip digits).
    No proofs here. *)
From E57 Require Import Base.Prelude Model.Record.

Definition xstring := list N.

Record f64t := mkF64 { f64_bits : N; f64_text : xstring }.
Record f32t := mkF32 { f32_bits : N; f32_text : xstring }.

Inductive record_name :=
| CartesianX | CartesianY | CartesianZ | CartesianInvalidState
| SphericalRange | SphericalAzimuth | SphericalElevation | SphericalInvalidState
| Intensity | IsIntensityInvalid
| ColorRed | ColorGreen | ColorBlue | IsColorInvalid
| RowIndex | ColumnIndex | ReturnCount | ReturnIndex
| TimeStamp | IsTimeStampInvalid
| Unknown (namespace name : xstring).

(** RecordDataType with everything that goes into the XML *)
Inductive data_type :=
| DSingle (min max : option f32t)
| DDouble (min max : option f64t)
| DScaledInteger (min max : Z) (scale offset : f64t)
| DInteger (min max : Z).

Record record := mkRecord { r_name : record_name; r_type : data_type }.

Definition dtype_of (d : data_type) : dtype :=
  match d with
  | DSingle _ _ => TSingle
  | DDouble _ _ => TDouble
  | DScaledInteger mn mx _ _ => TScaled mn mx
  | DInteger mn mx => TInteger mn mx
  end.

(** RecordValue as it appears in limits (floats with their text) *)
Inductive limit_value :=
| LSingle (v : f32t)
| LDouble (v : f64t)
| LScaledInteger (v : Z)
| LInteger (v : Z).

Record cartesian_bounds := mkCb {
  cb_x_min : option f64t; cb_x_max : option f64t;
  cb_y_min : option f64t; cb_y_max : option f64t;
  cb_z_min : option f64t; cb_z_max : option f64t }.
Record spherical_bounds := mkSb {
  sb_range_min : option f64t; sb_range_max : option f64t;
  sb_elevation_min : option f64t; sb_elevation_max : option f64t;
  sb_azimuth_start : option f64t; sb_azimuth_end : option f64t }.
Record index_bounds := mkIb {
  ib_row_min : option Z; ib_row_max : option Z;
  ib_column_min : option Z; ib_column_max : option Z;
  ib_return_min : option Z; ib_return_max : option Z }.
Record intensity_limits := mkIl { il_min : option limit_value; il_max : option limit_value }.
Record color_limits := mkCl {
  cl_red_min : option limit_value; cl_red_max : option limit_value;
  cl_green_min : option limit_value; cl_green_max : option limit_value;
  cl_blue_min : option limit_value; cl_blue_max : option limit_value }.

Record transform := mkTransform {
  t_rw : f64t; t_rx : f64t; t_ry : f64t; t_rz : f64t;
  t_tx : f64t; t_ty : f64t; t_tz : f64t }.
Record date_time := mkDateTime { dt_gps_time : f64t; dt_atomic : bool }.
Record extension := mkExtension { e_namespace : xstring; e_url : xstring }.
Record blob := mkBlob { b_offset : N; b_length : N }.

Record pointcloud := mkPointCloud {
  pc_guid : option xstring;
  pc_file_offset : N;
  pc_records : N;
  pc_prototype : list record;
  pc_original_guids : option (list xstring);
  pc_name : option xstring;
  pc_description : option xstring;
  pc_cartesian_bounds : option cartesian_bounds;
  pc_spherical_bounds : option spherical_bounds;
  pc_index_bounds : option index_bounds;
  pc_intensity_limits : option intensity_limits;
  pc_color_limits : option color_limits;
  pc_transform : option transform;
  pc_acquisition_start : option date_time;
  pc_acquisition_end : option date_time;
  pc_sensor_vendor : option xstring;
  pc_sensor_model : option xstring;
  pc_sensor_serial : option xstring;
  pc_sensor_hw_version : option xstring;
  pc_sensor_sw_version : option xstring;
  pc_sensor_fw_version : option xstring;
  pc_temperature : option f64t;
  pc_humidity : option f64t;
  pc_atmospheric_pressure : option f64t
}.

Inductive image_format := Png | Jpeg.
Record image_blob := mkImageBlob { ib_data : blob; ib_format : image_format }.

Record visual_reference := mkVisRef {
  vr_blob : image_blob; vr_mask : option blob; vr_width : N; vr_height : N }.
Record pinhole := mkPinhole {
  ph_blob : image_blob; ph_mask : option blob; ph_width : N; ph_height : N;
  ph_focal_length : f64t; ph_pixel_width : f64t; ph_pixel_height : f64t;
  ph_principal_x : f64t; ph_principal_y : f64t }.
Record spherical_image := mkSphImg {
  si_blob : image_blob; si_mask : option blob; si_width : N; si_height : N;
  si_pixel_width : f64t; si_pixel_height : f64t }.
Record cylindrical_image := mkCylImg {
  ci_blob : image_blob; ci_mask : option blob; ci_width : N; ci_height : N;
  ci_radius : f64t; ci_principal_y : f64t; ci_pixel_width : f64t; ci_pixel_height : f64t }.
Inductive projection :=
| PPinhole (p : pinhole) | PSpherical (s : spherical_image) | PCylindrical (c : cylindrical_image).

Record image := mkImage {
  im_guid : option xstring;
  im_visual_reference : option visual_reference;
  im_projection : option projection;
  im_transform : option transform;
  im_pointcloud_guid : option xstring;
  im_name : option xstring;
  im_description : option xstring;
  im_acquisition : option date_time;
  im_sensor_vendor : option xstring;
  im_sensor_model : option xstring;
  im_sensor_serial : option xstring
}.

Record root := mkRoot {
  rt_format : xstring;
  rt_guid : xstring;
  rt_major_version : Z;
  rt_minor_version : Z;
  rt_library_version : option xstring;
  rt_creation : option date_time;
  rt_coordinate_metadata : option xstring
}.

(** ASCII helper: a Coq string as bytes *)
Require Import Coq.Strings.String Coq.Strings.Ascii.
Fixpoint bytes_of_string (s : string) : xstring :=
  match s with
  | EmptyString => []
  | String c r => N_of_ascii c :: bytes_of_string r
  end.
Notation "'B' s" := (bytes_of_string s%string) (at level 0, s at level 0, only parsing).
