(** Mirror of everything the crate serialises into XML: [xml::gen_string],
    [gen_float], [gen_int], every [xml_string] and [root::serialize_root],
    byte for byte.  Strings are UTF-8 byte lists; a float contributes the text
    Rust's [Display] prints for it (the oracle field of [f64t]/[f32t]);
    integers are printed by Coq's decimal conversion ([N.to_uint],
    [Pos.to_uint]), which is what Rust's [Display] for i64/u64/u32 prints
    (exact decimal digits, no leading zeros, '-' for negative values).
    No proofs here. *)
From Coq Require Import Decimal.
From E57 Require Import Base.Prelude Model.Meta Model.MetaFile.
Require Import Coq.Strings.String.
Local Open Scope N_scope.

(** string literals are turned into explicit byte lists when they are read, so
    that nothing here (or extracted from here) mentions Coq's [string] type *)
Local Notation "'B' s" := ltac:(let v := eval vm_compute in (bytes_of_string s%string) in exact v)
  (at level 0, s at level 0, only parsing).

Definition LF : list N := [10].
Definition QUOTE : N := 34.

(** * Decimal printing of integers *)

Fixpoint uint_bytes (d : Decimal.uint) : list N :=
  match d with
  | Nil => []
  | D0 r => 48 :: uint_bytes r
  | D1 r => 49 :: uint_bytes r
  | D2 r => 50 :: uint_bytes r
  | D3 r => 51 :: uint_bytes r
  | D4 r => 52 :: uint_bytes r
  | D5 r => 53 :: uint_bytes r
  | D6 r => 54 :: uint_bytes r
  | D7 r => 55 :: uint_bytes r
  | D8 r => 56 :: uint_bytes r
  | D9 r => 57 :: uint_bytes r
  end.

(** [Display] of u64 / u32 / usize *)
Definition display_u (n : N) : list N := uint_bytes (N.to_uint n).
(** [Display] of i64 *)
Definition display_i (z : Z) : list N :=
  match z with
  | Z0 => [48]
  | Zpos p => uint_bytes (Pos.to_uint p)
  | Zneg p => 45 :: uint_bytes (Pos.to_uint p)
  end.

(** * src/xml.rs *)

(** [str::replace("]]>", "]]]]><![CDATA[>")]: matches are found left to right
    and do not overlap *)
Definition CDATA_SPLIT : list N := B "]]]]><![CDATA[>".
Fixpoint cdata_escape (s : list N) : list N :=
  match s with
  | [] => []
  | b1 :: r1 =>
      match r1 with
      | b2 :: b3 :: r3 =>
          if (b1 =? 93) && (b2 =? 93) && (b3 =? 62) then CDATA_SPLIT ++ cdata_escape r3
          else b1 :: cdata_escape r1
      | _ => b1 :: cdata_escape r1
      end
  end.

Definition open_tag (tag attrs : list N) : list N := B "<" ++ tag ++ attrs ++ B ">".
Definition close_tag (tag : list N) : list N := B "</" ++ tag ++ B ">".

Definition TYPE_STRING : list N := B " type=""String""".
Definition TYPE_FLOAT : list N := B " type=""Float""".
Definition TYPE_INTEGER : list N := B " type=""Integer""".
Definition TYPE_STRUCTURE : list N := B " type=""Structure""".

Definition gen_string (tag : list N) (value : xstring) : list N :=
  open_tag tag TYPE_STRING ++ B "<![CDATA[" ++ cdata_escape value ++ B "]]>" ++ close_tag tag ++ LF.

Definition gen_float (tag : list N) (value : f64t) : list N :=
  open_tag tag TYPE_FLOAT ++ f64_text value ++ close_tag tag ++ LF.

Definition gen_int (tag : list N) (value : Z) : list N :=
  open_tag tag TYPE_INTEGER ++ display_i value ++ close_tag tag ++ LF.

(** [gen_int] at an unsigned type (u32 image sizes) *)
Definition gen_uint (tag : list N) (value : N) : list N :=
  open_tag tag TYPE_INTEGER ++ display_u value ++ close_tag tag ++ LF.

(** [if let Some(x) = opt { xml += f(x) }] *)
Definition opt_gen {A} (f : A -> list N) (o : option A) : list N :=
  match o with Some x => f x | None => [] end.

(** a [type="Structure"] element: start tag, LF, children, end tag, LF *)
Definition structure (tag : list N) (body : list N) : list N :=
  open_tag tag TYPE_STRUCTURE ++ LF ++ body ++ close_tag tag ++ LF.

(** * src/date_time.rs *)

(** [if self.atomic_reference { "1" } else { "0" }] in an Integer element *)
Definition gen_flag (tag : list N) (b : bool) : list N :=
  open_tag tag TYPE_INTEGER ++ (if b then B "1" else B "0") ++ close_tag tag ++ LF.

Definition date_time_xml (tag : list N) (dt : date_time) : list N :=
  structure tag
    (gen_float (B "dateTimeValue") (dt_gps_time dt) ++
     gen_flag (B "isAtomicClockReferenced") (dt_atomic dt)).

(** * src/transform.rs *)
Definition transform_xml (tag : list N) (t : transform) : list N :=
  let quat := structure (B "rotation")
    (gen_float (B "w") (t_rw t) ++ gen_float (B "x") (t_rx t) ++ gen_float (B "y") (t_ry t) ++ gen_float (B "z") (t_rz t)) in
  let trans := structure (B "translation")
    (gen_float (B "x") (t_tx t) ++ gen_float (B "y") (t_ty t) ++ gen_float (B "z") (t_tz t)) in
  structure tag (quat ++ trans).

(** * src/bounds.rs *)
Definition cartesian_bounds_xml (b : cartesian_bounds) : list N :=
  structure (B "cartesianBounds")
    (opt_gen (gen_float (B "xMinimum")) (cb_x_min b) ++ opt_gen (gen_float (B "xMaximum")) (cb_x_max b) ++
     opt_gen (gen_float (B "yMinimum")) (cb_y_min b) ++ opt_gen (gen_float (B "yMaximum")) (cb_y_max b) ++
     opt_gen (gen_float (B "zMinimum")) (cb_z_min b) ++ opt_gen (gen_float (B "zMaximum")) (cb_z_max b)).

Definition spherical_bounds_xml (b : spherical_bounds) : list N :=
  structure (B "sphericalBounds")
    (opt_gen (gen_float (B "azimuthStart")) (sb_azimuth_start b) ++ opt_gen (gen_float (B "azimuthEnd")) (sb_azimuth_end b) ++
     opt_gen (gen_float (B "elevationMinimum")) (sb_elevation_min b) ++ opt_gen (gen_float (B "elevationMaximum")) (sb_elevation_max b) ++
     opt_gen (gen_float (B "rangeMinimum")) (sb_range_min b) ++ opt_gen (gen_float (B "rangeMaximum")) (sb_range_max b)).

Definition index_bounds_xml (b : index_bounds) : list N :=
  structure (B "indexBounds")
    (opt_gen (gen_int (B "rowMinimum")) (ib_row_min b) ++ opt_gen (gen_int (B "rowMaximum")) (ib_row_max b) ++
     opt_gen (gen_int (B "columnMinimum")) (ib_column_min b) ++ opt_gen (gen_int (B "columnMaximum")) (ib_column_max b) ++
     opt_gen (gen_int (B "returnMinimum")) (ib_return_min b) ++ opt_gen (gen_int (B "returnMaximum")) (ib_return_max b)).

(** * src/limits.rs *)
Definition record_value_to_xml (tag : list N) (v : limit_value) : list N :=
  match v with
  | LInteger z => open_tag tag TYPE_INTEGER ++ display_i z ++ close_tag tag ++ LF
  | LScaledInteger z => open_tag tag (B " type=""ScaledInteger""") ++ display_i z ++ close_tag tag ++ LF
  | LSingle f => open_tag tag (B " type=""Float"" precision=""single""") ++ f32_text f ++ close_tag tag ++ LF
  | LDouble f => open_tag tag TYPE_FLOAT ++ f64_text f ++ close_tag tag ++ LF
  end.

Definition intensity_limits_xml (l : intensity_limits) : list N :=
  structure (B "intensityLimits")
    (opt_gen (record_value_to_xml (B "intensityMinimum")) (il_min l) ++
     opt_gen (record_value_to_xml (B "intensityMaximum")) (il_max l)).

Definition color_limits_xml (l : color_limits) : list N :=
  structure (B "colorLimits")
    (opt_gen (record_value_to_xml (B "colorRedMinimum")) (cl_red_min l) ++
     opt_gen (record_value_to_xml (B "colorRedMaximum")) (cl_red_max l) ++
     opt_gen (record_value_to_xml (B "colorGreenMinimum")) (cl_green_min l) ++
     opt_gen (record_value_to_xml (B "colorGreenMaximum")) (cl_green_max l) ++
     opt_gen (record_value_to_xml (B "colorBlueMinimum")) (cl_blue_min l) ++
     opt_gen (record_value_to_xml (B "colorBlueMaximum")) (cl_blue_max l)).

Definition is_some {A} (o : option A) : bool := match o with Some _ => true | None => false end.

(** the completeness tests of PointCloud::xml_string *)
Definition color_limits_complete (l : color_limits) : bool :=
  is_some (cl_red_min l) && is_some (cl_red_max l) && is_some (cl_green_min l) &&
  is_some (cl_green_max l) && is_some (cl_blue_min l) && is_some (cl_blue_max l).
Definition intensity_limits_complete (l : intensity_limits) : bool :=
  is_some (il_min l) && is_some (il_max l).

(** * src/record.rs *)
Definition tag_name (n : record_name) : list N :=
  match n with
  | CartesianX => B "cartesianX"
  | CartesianY => B "cartesianY"
  | CartesianZ => B "cartesianZ"
  | CartesianInvalidState => B "cartesianInvalidState"
  | SphericalRange => B "sphericalRange"
  | SphericalAzimuth => B "sphericalAzimuth"
  | SphericalElevation => B "sphericalElevation"
  | SphericalInvalidState => B "sphericalInvalidState"
  | Intensity => B "intensity"
  | IsIntensityInvalid => B "isIntensityInvalid"
  | ColorRed => B "colorRed"
  | ColorGreen => B "colorGreen"
  | ColorBlue => B "colorBlue"
  | IsColorInvalid => B "isColorInvalid"
  | RowIndex => B "rowIndex"
  | ColumnIndex => B "columnIndex"
  | ReturnCount => B "returnCount"
  | ReturnIndex => B "returnIndex"
  | TimeStamp => B "timeStamp"
  | IsTimeStampInvalid => B "isTimeStampInvalid"
  | Unknown _ name => name
  end.

Definition namespace (n : record_name) : option (list N) :=
  match n with Unknown ns _ => Some ns | _ => None end.

Definition attr (name value : list N) : list N := B " " ++ name ++ B "=""" ++ value ++ B """".

(** [*max < 0.0] on a float given by its bit pattern: sign bit set, not -0.0, not NaN
    (-inf included) *)
Definition f64_lt_zero (f : f64t) : bool :=
  (0x8000000000000000 <? f64_bits f) && (f64_bits f <=? 0xfff0000000000000).
Definition f32_lt_zero (f : f32t) : bool :=
  (0x80000000 <? f32_bits f) && (f32_bits f <=? 0xff800000).

(** the value of a float prototype element:
    [match (min, max) { (Some(min), _) => min, (None, Some(max)) if max < 0.0 => max, _ => 0.0 }],
    printed *)
Definition proto_value64 (mn mx : option f64t) : list N :=
  match mn, mx with
  | Some f, _ => f64_text f
  | None, Some f => if f64_lt_zero f then f64_text f else B "0"
  | None, None => B "0"
  end.
Definition proto_value32 (mn mx : option f32t) : list N :=
  match mn, mx with
  | Some f, _ => f32_text f
  | None, Some f => if f32_lt_zero f then f32_text f else B "0"
  | None, None => B "0"
  end.

(** [serialize_record_type]: attribute string (here with the blank that
    [Record::xml_string] puts before it) and element text *)
Definition serialize_record_type (t : data_type) : list N * list N :=
  match t with
  | DSingle mn mx =>
      (B " type=""Float"" precision=""single""" ++
       opt_gen (fun f => attr (B "minimum") (f32_text f)) mn ++
       opt_gen (fun f => attr (B "maximum") (f32_text f)) mx,
       proto_value32 mn mx)
  | DDouble mn mx =>
      (B " type=""Float""" ++
       opt_gen (fun f => attr (B "minimum") (f64_text f)) mn ++
       opt_gen (fun f => attr (B "maximum") (f64_text f)) mx,
       proto_value64 mn mx)
  | DScaledInteger mn mx scale offset =>
      (B " type=""ScaledInteger""" ++ attr (B "minimum") (display_i mn) ++ attr (B "maximum") (display_i mx) ++
       attr (B "scale") (f64_text scale) ++ attr (B "offset") (f64_text offset),
       display_i mn)
  | DInteger mn mx =>
      (B " type=""Integer""" ++ attr (B "minimum") (display_i mn) ++ attr (B "maximum") (display_i mx),
       display_i mn)
  end.

Definition record_qname (n : record_name) : list N :=
  match namespace n with Some ns => ns ++ B ":" | None => [] end ++ tag_name n.

Definition record_xml (r : record) : list N :=
  let q := record_qname (r_name r) in
  let '(attrs, value) := serialize_record_type (r_type r) in
  open_tag q attrs ++ value ++ close_tag q ++ LF.

(** * src/blob.rs *)
Definition blob_xml (tag : list N) (b : blob) : list N :=
  B "<" ++ tag ++ B " type=""Blob""" ++ attr (B "fileOffset") (display_u (b_offset b))
    ++ attr (B "length") (display_u (b_length b)) ++ B "/>" ++ LF.

(** * src/images.rs *)
Definition image_blob_xml (b : image_blob) : list N :=
  match ib_format b with
  | Png => blob_xml (B "pngImage") (ib_data b)
  | Jpeg => blob_xml (B "jpegImage") (ib_data b)
  end.

Definition visual_reference_xml (v : visual_reference) : list N :=
  structure (B "visualReferenceRepresentation")
    (image_blob_xml (vr_blob v) ++ opt_gen (blob_xml (B "imageMask")) (vr_mask v) ++
     gen_uint (B "imageWidth") (vr_width v) ++ gen_uint (B "imageHeight") (vr_height v)).

Definition pinhole_xml (p : pinhole) : list N :=
  structure (B "pinholeRepresentation")
    (image_blob_xml (ph_blob p) ++ opt_gen (blob_xml (B "imageMask")) (ph_mask p) ++
     gen_uint (B "imageWidth") (ph_width p) ++ gen_uint (B "imageHeight") (ph_height p) ++
     gen_float (B "focalLength") (ph_focal_length p) ++
     gen_float (B "pixelWidth") (ph_pixel_width p) ++ gen_float (B "pixelHeight") (ph_pixel_height p) ++
     gen_float (B "principalPointX") (ph_principal_x p) ++ gen_float (B "principalPointY") (ph_principal_y p)).

Definition spherical_image_xml (s : spherical_image) : list N :=
  structure (B "sphericalRepresentation")
    (image_blob_xml (si_blob s) ++ opt_gen (blob_xml (B "imageMask")) (si_mask s) ++
     gen_uint (B "imageWidth") (si_width s) ++ gen_uint (B "imageHeight") (si_height s) ++
     gen_float (B "pixelWidth") (si_pixel_width s) ++ gen_float (B "pixelHeight") (si_pixel_height s)).

Definition cylindrical_image_xml (c : cylindrical_image) : list N :=
  structure (B "cylindricalRepresentation")
    (image_blob_xml (ci_blob c) ++ opt_gen (blob_xml (B "imageMask")) (ci_mask c) ++
     gen_uint (B "imageWidth") (ci_width c) ++ gen_uint (B "imageHeight") (ci_height c) ++
     gen_float (B "radius") (ci_radius c) ++ gen_float (B "principalPointY") (ci_principal_y c) ++
     gen_float (B "pixelWidth") (ci_pixel_width c) ++ gen_float (B "pixelHeight") (ci_pixel_height c)).

Definition projection_xml (p : projection) : list N :=
  match p with
  | PPinhole x => pinhole_xml x
  | PSpherical x => spherical_image_xml x
  | PCylindrical x => cylindrical_image_xml x
  end.

Definition image_xml (i : image) : list N :=
  structure (B "vectorChild")
    (opt_gen (gen_string (B "guid")) (im_guid i) ++
     opt_gen visual_reference_xml (im_visual_reference i) ++
     opt_gen projection_xml (im_projection i) ++
     opt_gen (transform_xml (B "pose")) (im_transform i) ++
     opt_gen (gen_string (B "associatedData3DGuid")) (im_pointcloud_guid i) ++
     opt_gen (gen_string (B "name")) (im_name i) ++
     opt_gen (gen_string (B "description")) (im_description i) ++
     opt_gen (date_time_xml (B "acquisitionDateTime")) (im_acquisition i) ++
     opt_gen (gen_string (B "sensorVendor")) (im_sensor_vendor i) ++
     opt_gen (gen_string (B "sensorModel")) (im_sensor_model i) ++
     opt_gen (gen_string (B "sensorSerialNumber")) (im_sensor_serial i)).

(** * src/pointcloud.rs *)
Definition original_guids_xml (l : list xstring) : list N :=
  B "<originalGuids type=""Vector"" allowHeterogeneousChildren=""0"">" ++ LF ++
  flat_map (gen_string (B "vectorChild")) l ++ close_tag (B "originalGuids") ++ LF.

Definition points_xml (pc : pointcloud) : list N :=
  open_tag (B "points")
    (B " type=""CompressedVector""" ++ attr (B "fileOffset") (display_u (pc_file_offset pc))
       ++ attr (B "recordCount") (display_u (pc_records pc))) ++ LF ++
  structure (B "prototype") (flat_map record_xml (pc_prototype pc)) ++
  close_tag (B "points") ++ LF.

(** [PointCloud::xml_string] returns a [Result] that is always [Ok] *)
Definition pointcloud_xml (pc : pointcloud) : res (list N) :=
  Ok (structure (B "vectorChild")
    (opt_gen (gen_string (B "guid")) (pc_guid pc) ++
     opt_gen original_guids_xml (pc_original_guids pc) ++
     opt_gen cartesian_bounds_xml (pc_cartesian_bounds pc) ++
     opt_gen spherical_bounds_xml (pc_spherical_bounds pc) ++
     opt_gen index_bounds_xml (pc_index_bounds pc) ++
     opt_gen (fun l => if color_limits_complete l then color_limits_xml l else []) (pc_color_limits pc) ++
     opt_gen (fun l => if intensity_limits_complete l then intensity_limits_xml l else []) (pc_intensity_limits pc) ++
     opt_gen (gen_string (B "name")) (pc_name pc) ++
     opt_gen (gen_string (B "description")) (pc_description pc) ++
     opt_gen (gen_string (B "sensorVendor")) (pc_sensor_vendor pc) ++
     opt_gen (gen_string (B "sensorModel")) (pc_sensor_model pc) ++
     opt_gen (gen_string (B "sensorSerialNumber")) (pc_sensor_serial pc) ++
     opt_gen (gen_string (B "sensorSoftwareVersion")) (pc_sensor_sw_version pc) ++
     opt_gen (gen_string (B "sensorFirmwareVersion")) (pc_sensor_fw_version pc) ++
     opt_gen (gen_string (B "sensorHardwareVersion")) (pc_sensor_hw_version pc) ++
     opt_gen (transform_xml (B "pose")) (pc_transform pc) ++
     opt_gen (date_time_xml (B "acquisitionStart")) (pc_acquisition_start pc) ++
     opt_gen (date_time_xml (B "acquisitionEnd")) (pc_acquisition_end pc) ++
     opt_gen (gen_float (B "temperature")) (pc_temperature pc) ++
     opt_gen (gen_float (B "relativeHumidity")) (pc_humidity pc) ++
     opt_gen (gen_float (B "atmosphericPressure")) (pc_atmospheric_pressure pc) ++
     points_xml pc)).

(** [for pc in pointclouds { xml += &pc.xml_string()?; }] *)
Fixpoint pointclouds_xml (l : list pointcloud) : res (list N) :=
  match l with
  | [] => Ok []
  | pc :: r =>
      res_bind (pointcloud_xml pc) (fun a =>
      res_bind (pointclouds_xml r) (fun b => Ok (a ++ b)))
  end.

(** * src/root.rs *)

(** [str::replace(c, r)] for a one-byte pattern *)
Definition replace1 (c : N) (r : list N) (s : list N) : list N :=
  flat_map (fun b => if b =? c then r else [b]) s.

(** the chain of replacements of serialize_root, in its order *)
Definition url_escape (url : list N) : list N :=
  replace1 13 (B "&#13;")
   (replace1 10 (B "&#10;")
    (replace1 9 (B "&#9;")
     (replace1 34 (B "&quot;")
      (replace1 62 (B "&gt;")
       (replace1 60 (B "&lt;")
        (replace1 38 (B "&amp;") url)))))).

Definition extension_xmlns (e : extension) : list N :=
  B "xmlns:" ++ e_namespace e ++ B "=""" ++ url_escape (e_url e) ++ B """ ".

Definition E57_NS : list N := B "http://www.astm.org/COMMIT/E57/2010-e57-v1.0".
Definition XML_DECL : list N := B "<?xml version=""1.0"" encoding=""UTF-8""?>".
Definition FORMAT_NAME : list N := B "ASTM E57 3D Imaging Data File".
Definition VECTOR_ATTRS : list N := B " type=""Vector"" allowHeterogeneousChildren=""1""".

Definition root_open (exts : list extension) : list N :=
  B "<e57Root type=""Structure"" " ++ flat_map extension_xmlns exts ++ B "xmlns=""" ++ E57_NS ++ B """>" ++ LF.

Definition serialize_root (root : root) (pointclouds : list pointcloud) (images : list image)
    (extensions : list extension) : res (list N) :=
  let head :=
    XML_DECL ++ LF ++ root_open extensions ++
    B "<formatName type=""String""><![CDATA[ASTM E57 3D Imaging Data File]]></formatName>" ++ LF in
  match rt_guid root with
  | [] => Err EInvalid
  | _ :: _ =>
      res_bind (pointclouds_xml pointclouds) (fun pcs =>
      Ok (head ++
          gen_string (B "guid") (rt_guid root) ++
          gen_int (B "versionMajor") (rt_major_version root) ++
          gen_int (B "versionMinor") (rt_minor_version root) ++
          opt_gen (gen_string (B "coordinateMetadata")) (rt_coordinate_metadata root) ++
          opt_gen (gen_string (B "e57LibraryVersion")) (rt_library_version root) ++
          opt_gen (date_time_xml (B "creationDateTime")) (rt_creation root) ++
          open_tag (B "data3D") VECTOR_ATTRS ++ LF ++ pcs ++ close_tag (B "data3D") ++ LF ++
          open_tag (B "images2D") VECTOR_ATTRS ++ LF ++ flat_map image_xml images ++ close_tag (B "images2D") ++ LF ++
          close_tag (B "e57Root") ++ LF))
  end.

Definition gen_root (m : file_meta) : res (list N) :=
  serialize_root (fm_root m) (fm_pointclouds m) (fm_images m) (fm_extensions m).
