(** The device under the library: an in-memory file with a cursor, as
    [std::io::Cursor<Vec<u8>>] behaves, instrumented the same way as the
    harness device (harness/src/dev.rs): every Read/Write/Seek/Flush call is
    one numbered operation; operation number [d_fault] (if any) fails with an
    I/O error and has no effect; every successful write is logged.
    No proofs here. *)
From E57 Require Import Base.Prelude.
Local Open Scope monad_scope.

Record dev := mkDev {
  d_bytes : list N;
  d_cur   : N;
  d_ops   : N;               (* number of device operations issued so far *)
  d_fault : option N;        (* index of the operation that fails *)
  d_log   : list (N * list N) (* successful writes, most recent first: (position, bytes) *)
}.

Definition dev_init (bytes : list N) (fault : option N) : dev :=
  mkDev bytes 0 0 fault [].

Definition set_cur (d : dev) (c : N) : dev :=
  mkDev (d_bytes d) c (d_ops d) (d_fault d) (d_log d).

(** Count one operation; fail if it is the faulty one. *)
Definition tick : M dev unit := fun d =>
  let d' := mkDev (d_bytes d) (d_cur d) (d_ops d + 1) (d_fault d) (d_log d) in
  match d_fault d with
  | Some k => if k =? d_ops d then (d', Err EIo) else (d', Ok tt)
  | None => (d', Ok tt)
  end.

(** [seek(SeekFrom::End(0))] *)
Definition d_seek_end : M dev N :=
  tick ;;; fun d => let e := len (d_bytes d) in (set_cur d e, Ok e).

(** [seek(SeekFrom::Start(p))] *)
Definition d_seek_start (p : N) : M dev N :=
  tick ;;; fun d => (set_cur d p, Ok p).

(** [stream_position()], which the harness device implements by the default
    [seek(SeekFrom::Current(0))]: one operation. *)
Definition d_pos : M dev N :=
  tick ;;; fun d => (d, Ok (d_cur d)).

(** One [read] call with a buffer of [n] bytes: as many bytes as are left. *)
Definition d_read (n : N) : M dev (list N) :=
  tick ;;; fun d =>
    let got := slice (d_cur d) n (d_bytes d) in
    (set_cur d (d_cur d + len got), Ok got).

(** [write_all(bs)]: no operation at all for an empty slice, otherwise one
    [write] call that takes everything. *)
Definition d_write_all (bs : list N) : M dev unit :=
  match bs with
  | [] => ret tt
  | _ => tick ;;; fun d =>
      (mkDev (overwrite (d_bytes d) (d_cur d) bs) (d_cur d + len bs)
             (d_ops d) (d_fault d) ((d_cur d, bs) :: d_log d), Ok tt)
  end.

Definition d_flush : M dev unit := tick.

(** [read] in a loop until the buffer of [want] bytes is full or a read
    returns 0 bytes (the loop of [read_current_page]); returns what was read.
    Every non-empty read makes progress, so fuel [want + 1] suffices. *)
Fixpoint d_read_fill (fuel : nat) (want : N) (acc : list N) : M dev (list N) :=
  match fuel with
  | O => ret acc
  | S f =>
      if want =? 0 then ret acc else
      got <- d_read want ;;
      match got with
      | [] => ret acc
      | _ => d_read_fill f (want - len got) (acc ++ got)
      end
  end.

(** [read_exact] on the raw device: like [d_read_fill] but a 0-byte read with
    bytes still missing is an error (UnexpectedEof). *)
Fixpoint d_read_exact_loop (fuel : nat) (want : N) (acc : list N) : M dev (list N) :=
  match fuel with
  | O => ret acc
  | S f =>
      if want =? 0 then ret acc else
      got <- d_read want ;;
      match got with
      | [] => fail EIo
      | _ => d_read_exact_loop f (want - len got) (acc ++ got)
      end
  end.

Definition d_read_exact (n : N) : M dev (list N) :=
  d_read_exact_loop (S (N.to_nat n)) n [].

(** Replay of a write log (oldest first) on an empty device: the image a crash
    would leave after exactly these writes. *)
Definition apply_writes (ws : list (N * list N)) : list N :=
  fold_left (fun img w => overwrite img (fst w) (snd w)) ws [].
