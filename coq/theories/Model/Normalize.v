(** Model of the normalisation of intensity and colour in
    src/pc_reader_simple.rs: [struct Range], [Range::from_limits],
    [from_record_data_type], [from_min_max], [{intensity,red,green,blue}_from_pointcloud],
    [Range::normalize] and [PointCloudReaderSimple::normalize_value].
    Floats are Flocq's binary64/binary32 through Base/Floats.v.  No proofs here. *)
From Coq Require Import ZArith NArith Bool.
From Flocq Require Import Binary Bits.
From E57 Require Import Base.Prelude Base.Floats.

(** [RecordValue] as it occurs in [IntensityLimits] / [ColorLimits]. *)
Inductive nval :=
| NSingle (x : binary32)
| NDouble (x : binary64)
| NScaled (v : Z)          (* raw integer of a ScaledInteger *)
| NInteger (v : Z).

(** [RecordDataType] of the prototype record of the channel. *)
Inductive ntype :=
| NTSingle (min max : option binary32)
| NTDouble (min max : option binary64)
| NTScaled (min max : Z) (scale offset : binary64)
| NTInteger (min max : Z).

(** What the range selection reads from a [PointCloud] for one channel
    (intensity, red, green or blue): the data type of the prototype record with
    the channel's name (None: no such record) and the two limit values of the
    channel ([pc.intensity_limits] / [pc.color_limits] being [None] is the same
    as both values being [None]: [from_limits] answers [None] for it). *)
Record channel := mkChannel {
  ch_type : option ntype;
  ch_lmin : option nval;
  ch_lmax : option nval
}.

(** [struct Range { min, max, range }] *)
Record range := mkRange { rg_min : binary64; rg_max : binary64; rg_range : binary64 }.

(** [Range::from_min_max]: NaN, infinite and reversed limits are [Error::Invalid]. *)
Definition from_min_max (mn mx : binary64) : res range :=
  if negb (f64_is_finite mn) || negb (f64_is_finite mx) || f64_gt mn mx
  then Err EInvalid
  else Ok (mkRange mn mx (f64_sub mx mn)).

(** [raw as f64 * scale + offset] *)
Definition scaled_to_f64 (raw : Z) (scale offset : binary64) : binary64 :=
  f64_add (f64_mul (f64_of_Z raw) scale) offset.

(** The ScaledInteger case shared by [from_limits] and [from_record_data_type]:
    a negative scale reverses the order, hence [a.min(b)], [a.max(b)]. *)
Definition from_scaled (mn mx : Z) (scale offset : binary64) : res range :=
  let a := scaled_to_f64 mn scale offset in
  let b := scaled_to_f64 mx scale offset in
  from_min_max (f64_min a b) (f64_max a b).

(** [Range::from_limits(min, max, data_type)] *)
Definition from_limits (mn mx : option nval) (dt : option ntype) : res (option range) :=
  match mn, mx, dt with
  | Some (NScaled a), Some (NScaled b), Some (NTScaled _ _ scale offset) =>
      res_map Some (from_scaled a b scale offset)
  | _, _, _ =>
    match mn, mx with
    | Some (NDouble a), Some (NDouble b) => res_map Some (from_min_max a b)
    | Some (NSingle a), Some (NSingle b) =>
        res_map Some (from_min_max (f64_of_f32 a) (f64_of_f32 b))
    | Some (NInteger a), Some (NInteger b) =>
        res_map Some (from_min_max (f64_of_Z a) (f64_of_Z b))
    | _, _ => Ok None
    end
  end.

(** [Range::from_record_data_type] *)
Definition from_record_data_type (dt : ntype) : res range :=
  match dt with
  | NTSingle mn mx =>
      from_min_max (f64_of_f32 (match mn with Some x => x | None => f32_MIN end))
                   (f64_of_f32 (match mx with Some x => x | None => f32_MAX end))
  | NTDouble mn mx =>
      from_min_max (match mn with Some x => x | None => f64_MIN end)
                   (match mx with Some x => x | None => f64_MAX end)
  | NTScaled mn mx scale offset => from_scaled mn mx scale offset
  | NTInteger mn mx => from_min_max (f64_of_Z mn) (f64_of_Z mx)
  end.

(** [Range::{intensity,red,green,blue}_from_pointcloud]: the four functions are
    the same code over the channel's limits and prototype record. *)
Definition range_of_channel (ch : channel) : res (option range) :=
  res_bind (from_limits (ch_lmin ch) (ch_lmax ch) (ch_type ch)) (fun r =>
  match r with
  | Some rg => Ok (Some rg)
  | None =>
    match ch_type ch with
    | Some dt => res_map Some (from_record_data_type dt)
    | None => Ok None
    end
  end).

(** [Range::normalize] *)
Definition normalize (rg : range) (value : binary64) : res binary32 :=
  res_bind (f64_clamp value (rg_min rg) (rg_max rg)) (fun clamped =>
  let normalized :=
    if f64_is_finite (rg_range rg)
    then f64_div (f64_sub clamped (rg_min rg)) (rg_range rg)
    else f64_div (f64_sub (f64_mul clamped f64_half) (f64_mul (rg_min rg) f64_half))
                 (f64_sub (f64_mul (rg_max rg) f64_half) (f64_mul (rg_min rg) f64_half)) in
  Ok (if f64_gt (rg_range rg) f64_zero then f32_of_f64 normalized else f32_zero)).

(** [PointCloudReaderSimple::normalize_value(enabled, value, range)] *)
Definition normalize_value (enabled : bool) (value : binary64) (rg : option range) : res binary32 :=
  if enabled then
    match rg with
    | Some r => normalize r value
    | None => Ok f32_zero
    end
  else Ok (f32_of_f64 value).

(** The verification hook [e57::verif::normalize(pc, channel, value)]:
    range of the channel applied to a value, [None] when there is no range. *)
Definition normalize_hook (ch : channel) (value : binary64) : res (option binary32) :=
  res_bind (range_of_channel ch) (fun r =>
  match r with
  | Some rg => res_map Some (normalize rg value)
  | None => Ok None
  end).

(** What the simple iterator delivers for one stored value of the channel
    (the ranges are computed once in [PointCloudReaderSimple::new], an error
    there fails the constructor). *)
Definition channel_value (ch : channel) (enabled : bool) (value : binary64) : res binary32 :=
  res_bind (range_of_channel ch) (fun r => normalize_value enabled value r).

(** The bundled tool e57-to-xyz: [(c * 255.0) as u8] on the f32 colour. *)
Definition to_u8_color (c : binary32) : Z := f32_to_u8 (f32_mul c (f32_of_Z 255)).
