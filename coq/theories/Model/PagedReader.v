(** Model of src/paged_reader.rs, function by function.  No proofs here. *)
From E57 Require Import Base.Prelude Model.Crc Model.Device.
Local Open Scope monad_scope.

Definition CHECKSUM_SIZE : N := 4.
Definition MAX_PAGE_SIZE : N := 1024 * 1024.

Record pr := mkPr {
  pr_dev : dev;
  pr_page_size : N;
  pr_phy_size : N;
  pr_log_size : N;
  pr_pages : N;
  pr_off : N;
  pr_page_num : option N;
  pr_buf : list N
}.

Definition pr_lift {A} (m : M dev A) : M pr A := fun s =>
  let '(d, r) := m (pr_dev s) in
  (mkPr d (pr_page_size s) (pr_phy_size s) (pr_log_size s) (pr_pages s)
        (pr_off s) (pr_page_num s) (pr_buf s), r).
Definition pr_set_off (o : N) : M pr unit := fun s =>
  (mkPr (pr_dev s) (pr_page_size s) (pr_phy_size s) (pr_log_size s) (pr_pages s)
        o (pr_page_num s) (pr_buf s), Ok tt).
Definition pr_set_page_num (p : option N) : M pr unit := fun s =>
  (mkPr (pr_dev s) (pr_page_size s) (pr_phy_size s) (pr_log_size s) (pr_pages s)
        (pr_off s) p (pr_buf s), Ok tt).
Definition pr_set_buf (b : list N) : M pr unit := fun s =>
  (mkPr (pr_dev s) (pr_page_size s) (pr_phy_size s) (pr_log_size s) (pr_pages s)
        (pr_off s) (pr_page_num s) b, Ok tt).

(** [PagedReader::new]; errors are raw I/O errors here (the callers relabel). *)
Definition pr_new (page_size : N) (d : dev) : dev * res pr :=
  if MAX_PAGE_SIZE <? page_size then (d, Err EIo) else
  if page_size <=? CHECKSUM_SIZE then (d, Err EIo) else
  let '(d1, r) := d_seek_end d in
  match r with
  | Ok phy =>
      if phy =? 0 then (d1, Err EIo) else
      if negb (phy mod page_size =? 0) then (d1, Err EIo) else
      let pages := phy / page_size in
      (d1, Ok (mkPr d1 page_size phy (pages * (page_size - CHECKSUM_SIZE)) pages 0 None
                    (zeros page_size)))
  | Err k => (d1, Err k)
  | Panic => (d1, Panic)
  end.

Definition pr_seek_physical (offset : N) : M pr N := fun s =>
  if pr_phy_size s <=? offset then (s, Err EIo) else
  let pages_before := offset / pr_page_size s in
  let o := offset - pages_before * CHECKSUM_SIZE in
  bind (pr_set_off o) (fun _ => ret o) s.

(** [read_exact] of the raw device into the page buffer: the bytes that were
    transferred before a failure stay in the buffer. *)
Fixpoint pr_fill_loop (fuel : nat) (done want : N) : M pr unit :=
  match fuel with
  | O => ret tt
  | S f =>
      if want =? 0 then ret tt else
      got <- pr_lift (d_read want) ;;
      match got with
      | [] => fail EIo
      | _ => (fun s => pr_set_buf (take done (pr_buf s) ++ got ++ drop (done + len got) (pr_buf s)) s) ;;;
             pr_fill_loop f (done + len got) (want - len got)
      end
  end.

Definition pr_read_page (page : N) : M pr unit := fun s =>
  if pr_pages s <=? page then
    (if pr_pages s =? 0 then (s, Panic) else (s, Err EIo))    (* self.pages - 1 *)
  else
  (pr_lift (d_seek_start (page * pr_page_size s)) ;;;
   pr_fill_loop (S (N.to_nat (pr_page_size s))) 0 (pr_page_size s) ;;;
   (fun s1 =>
      let data_size := pr_page_size s1 - CHECKSUM_SIZE in
      let expected := drop data_size (pr_buf s1) in
      let calculated := crc_bytes (take data_size (pr_buf s1)) in
      if list_eq_dec N.eq_dec expected calculated
      then pr_set_page_num (Some page) s1
      else (pr_set_page_num None ;;; fail EIo) s1)) s.

Definition pr_align : M pr unit := fun s =>
  let a := pr_off s mod 4 in
  if a =? 0 then (s, Ok tt) else
  let skip := 4 - a in
  if pr_log_size s <? pr_off s + skip then (s, Err EIo)
  else pr_set_off (pr_off s + skip) s.

(** One call of [Read::read] with a buffer of [n] bytes. *)
Definition pr_read (n : N) : M pr (list N) := fun s =>
  let payload := pr_page_size s - CHECKSUM_SIZE in
  let page := pr_off s / payload in
  if pr_pages s <=? page then (s, Ok []) else
  ((match pr_page_num s with
    | Some p => if p =? page then ret tt else pr_read_page page
    | None => pr_read_page page
    end) ;;;
   (fun s1 =>
      let page_offset := pr_off s1 mod payload in
      let page_readable := payload - page_offset in
      let read_size := N.min n page_readable in
      bind (pr_set_off (pr_off s1 + read_size))
           (fun _ => ret (slice page_offset read_size (pr_buf s1))) s1)) s.

(** [read_exact] of std over [pr_read]: a 0-byte read while bytes are missing
    is UnexpectedEof.  Each non-empty read makes progress. *)
Fixpoint pr_read_exact_loop (fuel : nat) (want : N) (acc : list N) : M pr (list N) :=
  match fuel with
  | O => ret acc
  | S f =>
      if want =? 0 then ret acc else
      got <- pr_read want ;;
      match got with
      | [] => fail EIo
      | _ => pr_read_exact_loop f (want - len got) (acc ++ got)
      end
  end.
(** No more than the logical file size can ever be read, so that bounds the fuel. *)
Definition pr_read_exact (n : N) : M pr (list N) := fun s =>
  pr_read_exact_loop (S (N.to_nat (N.min n (pr_log_size s)))) n [] s.

Inductive pr_op :=
| PrSeek (p : N)
| PrRead (n : N)        (* one read call *)
| PrReadExact (n : N)
| PrAlign.

Inductive pr_out :=
| PoNum (n : N)
| PoBytes (l : list N)
| PoUnit.

Definition pr_step (o : pr_op) : M pr pr_out :=
  match o with
  | PrSeek p => n <- pr_seek_physical p ;; ret (PoNum n)
  | PrRead n => l <- pr_read n ;; ret (PoBytes l)
  | PrReadExact n => l <- pr_read_exact n ;; ret (PoBytes l)
  | PrAlign => pr_align ;;; ret PoUnit
  end.

Fixpoint pr_run (ops : list pr_op) (s : pr) : pr * list (res pr_out) :=
  match ops with
  | [] => (s, [])
  | o :: r => let '(s1, x) := pr_step o s in
              let '(s2, xs) := pr_run r s1 in (s2, x :: xs)
  end.
