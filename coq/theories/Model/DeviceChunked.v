(** The device of Device.v with short transfers: every [read] / [write] call
    moves at most a scheduled number of bytes, as the harness device does
    (harness/src/dev.rs, [next_chunk]): a request for 0 bytes transfers 0 bytes
    and does not advance the schedule; otherwise [min want (max 1 (plan k))]
    bytes are transferred and the schedule index advances.  On top of the
    single calls: the loops of std and of the crate that the one-shot
    primitives of Device.v stand for ([write_all], [read_exact], the loop of
    [PagedWriter::read_current_page], [read_exact] into the page buffer of
    [PagedReader::read_page]).  No proofs here. *)
From E57 Require Import Base.Prelude Model.Crc Model.Device Model.PagedReader.
Local Open Scope monad_scope.

Record cdev := mkCdev {
  c_dev  : dev;
  c_plan : nat -> N;     (* the schedule of chunk sizes *)
  c_k    : nat           (* index of the next schedule entry *)
}.

(** how many of [want] bytes the next transfer moves *)
Definition next_chunk (want : N) : cdev -> cdev * N := fun c =>
  if want =? 0 then (c, 0)
  else (mkCdev (c_dev c) (c_plan c) (S (c_k c)), N.min want (N.max 1 (c_plan c (c_k c)))).

Definition cd_lift {A} (m : M dev A) : M cdev A := fun c =>
  let '(d, r) := m (c_dev c) in (mkCdev d (c_plan c) (c_k c), r).

Definition cd_seek_end : M cdev N := cd_lift d_seek_end.
Definition cd_seek_start (p : N) : M cdev N := cd_lift (d_seek_start p).
Definition cd_pos : M cdev N := cd_lift d_pos.
Definition cd_flush : M cdev unit := cd_lift d_flush.

(** One [Read::read] call with a buffer of [n] bytes: min(n, available) cut by the schedule. *)
Definition cd_read (n : N) : M cdev (list N) :=
  cd_lift tick ;;; fun c =>
    let d := c_dev c in
    let avail := slice (d_cur d) n (d_bytes d) in
    let '(c1, t) := next_chunk (len avail) c in
    let got := take t avail in
    (mkCdev (set_cur d (d_cur d + len got)) (c_plan c1) (c_k c1), Ok got).

(** One [Write::write] call: returns the number of bytes taken, logs (position, taken bytes). *)
Definition cd_write (bs : list N) : M cdev N :=
  cd_lift tick ;;; fun c =>
    let d := c_dev c in
    let '(c1, t) := next_chunk (len bs) c in
    let taken := take t bs in
    (mkCdev (mkDev (overwrite (d_bytes d) (d_cur d) taken) (d_cur d + len taken)
                   (d_ops d) (d_fault d) ((d_cur d, taken) :: d_log d))
            (c_plan c1) (c_k c1), Ok (len taken)).

(** [Write::write_all] of std: [write] until everything is taken; a write of 0
    bytes is the error WriteZero.  Every write takes at least one byte, so fuel
    [|bs| + 1] suffices. *)
Fixpoint cd_write_all_loop (fuel : nat) (bs : list N) : M cdev unit :=
  match fuel with
  | O => ret tt
  | S f =>
      match bs with
      | [] => ret tt
      | _ => n <- cd_write bs ;;
             if n =? 0 then fail EIo else cd_write_all_loop f (drop n bs)
      end
  end.
Definition cd_write_all (bs : list N) : M cdev unit :=
  cd_write_all_loop (S (length bs)) bs.

(** [Read::read_exact] of std: [read] until the buffer is full; a 0-byte read
    with bytes still missing is UnexpectedEof. *)
Fixpoint cd_read_exact_loop (fuel : nat) (want : N) (acc : list N) : M cdev (list N) :=
  match fuel with
  | O => ret acc
  | S f =>
      if want =? 0 then ret acc else
      got <- cd_read want ;;
      match got with
      | [] => fail EIo
      | _ => cd_read_exact_loop f (want - len got) (acc ++ got)
      end
  end.
Definition cd_read_exact (n : N) : M cdev (list N) :=
  cd_read_exact_loop (S (N.to_nat n)) n [].

(** the loop of [PagedWriter::read_current_page]: until the buffer is full or
    a read returns 0 bytes; returns what was read *)
Fixpoint cd_read_fill_loop (fuel : nat) (want : N) (acc : list N) : M cdev (list N) :=
  match fuel with
  | O => ret acc
  | S f =>
      if want =? 0 then ret acc else
      got <- cd_read want ;;
      match got with
      | [] => ret acc
      | _ => cd_read_fill_loop f (want - len got) (acc ++ got)
      end
  end.
Definition cd_read_fill (want : N) : M cdev (list N) :=
  cd_read_fill_loop (S (N.to_nat want)) want [].

(** * The paged reader over the chunked device *)

(** the paged reader state with its device under a schedule: the device is
    [pr_dev (cp_pr s)] *)
Record cpr := mkCpr {
  cp_pr   : pr;
  cp_plan : nat -> N;
  cp_k    : nat
}.

Definition pr_with_dev (s : pr) (d : dev) : pr :=
  mkPr d (pr_page_size s) (pr_phy_size s) (pr_log_size s) (pr_pages s)
       (pr_off s) (pr_page_num s) (pr_buf s).

(** a device computation on the device inside the reader state *)
Definition cpr_lift {A} (m : M cdev A) : M cpr A := fun s =>
  let '(c, r) := m (mkCdev (pr_dev (cp_pr s)) (cp_plan s) (cp_k s)) in
  (mkCpr (pr_with_dev (cp_pr s) (c_dev c)) (c_plan c) (c_k c), r).

(** a step of the reader model that does not touch the device *)
Definition cpr_pure {A} (m : M pr A) : M cpr A := fun s =>
  let '(s1, r) := m (cp_pr s) in (mkCpr s1 (cp_plan s) (cp_k s), r).

(** [pr_fill_loop] over [cd_read] *)
Fixpoint cpr_fill_loop (fuel : nat) (done want : N) : M cpr unit :=
  match fuel with
  | O => ret tt
  | S f =>
      if want =? 0 then ret tt else
      got <- cpr_lift (cd_read want) ;;
      match got with
      | [] => fail EIo
      | _ => cpr_pure (fun s => pr_set_buf (take done (pr_buf s) ++ got ++ drop (done + len got) (pr_buf s)) s) ;;;
             cpr_fill_loop f (done + len got) (want - len got)
      end
  end.

(** [pr_read_page] over the chunked device *)
Definition cpr_read_page (page : N) : M cpr unit := fun s =>
  let s0 := cp_pr s in
  if pr_pages s0 <=? page then
    (if pr_pages s0 =? 0 then (s, Panic) else (s, Err EIo))
  else
  (cpr_lift (cd_seek_start (page * pr_page_size s0)) ;;;
   cpr_fill_loop (S (N.to_nat (pr_page_size s0))) 0 (pr_page_size s0) ;;;
   cpr_pure (fun s1 =>
      let data_size := pr_page_size s1 - CHECKSUM_SIZE in
      let expected := drop data_size (pr_buf s1) in
      let calculated := crc_bytes (take data_size (pr_buf s1)) in
      if list_eq_dec N.eq_dec expected calculated
      then pr_set_page_num (Some page) s1
      else (pr_set_page_num None ;;; fail EIo) s1)) s.

(** a cyclic schedule from a list of chunk sizes (empty list: chunks of one byte) *)
Definition cyclic_plan (l : list N) : nat -> N := fun k =>
  nth (Nat.modulo k (length l)) l 0.
