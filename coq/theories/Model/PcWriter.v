(** Model of the binary side of src/pc_writer.rs (section header, point
    buffering, data packets, finalisation) with src/cv_section.rs (write) and
    src/packet.rs (write), over the paged writer model.  Prototype name rules,
    bounds and limits are modelled elsewhere.  No proofs here. *)
From E57 Require Import Base.Prelude Model.PagedWriter Model.BsWrite Model.Record Model.Prog.
Local Open Scope wprog_scope.

Definition wr (data : list N) : wprog unit := w_write data.
Definition wfail {A} (k : err_kind) : wprog A := WErr k.
Definition wret {A} (a : A) : wprog A := WRet a.

Definition cv_header_bytes (section_length data_offset index_offset : N) : list N :=
  [1; 0; 0; 0; 0; 0; 0; 0] ++ le_bytes 8 section_length ++ le_bytes 8 data_offset ++ le_bytes 8 index_offset.

Definition DATA_HEADER_SIZE : N := 6.
Definition SAFETY_MARGIN : N := 500.
Definition U16_MAX : N := 65535.

(** [DataPacketHeader::write]: id, flags, (length - 1) as u16, count as u16 *)
Definition data_header_bytes (packet_length count : N) : list N :=
  [1; 0] ++ le_bytes 2 ((packet_length - 1) mod 65536) ++ le_bytes 2 (count mod 65536).

(** [get_max_packet_points] *)
Definition get_max_packet_points (proto : list dtype) : res N :=
  let point_size_bits := fold_left (fun a t => a + bit_size t) proto 0 in
  if point_size_bits =? 0 then Err EInvalid else
  let n := len proto in
  let headers_size := DATA_HEADER_SIZE + n * 2 in
  let reserve := headers_size + n + SAFETY_MARGIN in
  let max_points := if U16_MAX <? reserve then 0 else ((U16_MAX - reserve) * 8) / point_size_bits in
  if max_points =? 0 then Err EInvalid else Ok max_points.

Record pcw := mkPcw {
  w_proto : list dtype;
  w_section_offset : N;
  w_section_length : N;
  w_data_offset : N;
  w_point_count : N;
  w_buffer : list (list rvalue);       (* VecDeque<RawValues>, front first *)
  w_max_ppp : N;
  w_streams : list bsw
}.

Definition pcw_new (proto : list dtype) : wprog pcw :=
  mpp <- wlift (get_max_packet_points proto) ;;
  so <- w_position ;;
  wr (cv_header_bytes 32 0 0) ;;;
  doff <- w_position ;;
  wret (mkPcw proto so 32 doff 0 [] mpp (map (fun _ => bsw_new) proto)).

(** one point into the byte streams: [p.get(i)] and [data_type.write] per prototype entry *)
Fixpoint write_point (proto : list dtype) (p : list rvalue) (streams : list bsw) : res (list bsw) :=
  match proto, streams with
  | t :: pr', s :: sr =>
      match p with
      | [] => Err EInvalid                                    (* p.get(i) is None *)
      | v :: vr =>
          match dtype_write t v s with
          | Ok s' => match write_point pr' vr sr with
                     | Ok r => Ok (s' :: r) | Err k => Err k | Panic => Panic end
          | Err k => Err k
          | Panic => Panic
          end
      end
  | _, _ => Ok []
  end.

Fixpoint write_points (n : nat) (proto : list dtype) (buffer : list (list rvalue)) (streams : list bsw)
  : res (list (list rvalue) * list bsw) :=
  match n with
  | O => Ok (buffer, streams)
  | S k =>
      match buffer with
      | [] => Err EInternal                                   (* pop_front failed *)
      | p :: rest =>
          match write_point proto p streams with
          | Ok s' => write_points k proto rest s'
          | Err e => Err e
          | Panic => Panic
          end
      end
  end.

(** sizes of the streams for this packet: all bytes on the last flush, else full bytes *)
Fixpoint stream_sizes (last : bool) (streams : list bsw) : res (list N) :=
  match streams with
  | [] => Ok []
  | s :: r =>
      match (if last then Ok (bsw_all_bytes s) else bsw_full_bytes s) with
      | Ok n => match stream_sizes last r with Ok l => Ok (n :: l) | Err k => Err k | Panic => Panic end
      | Err k => Err k
      | Panic => Panic
      end
  end.

Fixpoint drain_streams (last : bool) (streams : list bsw) : res (list bsw * list (list N)) :=
  match streams with
  | [] => Ok ([], [])
  | s :: r =>
      match (if last then Ok (bsw_get_all_bytes s) else bsw_get_full_bytes s) with
      | Ok (s', data) =>
          match drain_streams last r with
          | Ok (ss, ds) => Ok (s' :: ss, data :: ds) | Err k => Err k | Panic => Panic end
      | Err k => Err k
      | Panic => Panic
      end
  end.

Fixpoint wr_all (chunks : list (list N)) : wprog unit :=
  match chunks with
  | [] => wret tt
  | c :: r => wr c ;;; wr_all r
  end.

Definition write_buffer_to_disk (last_flush : bool) (w : pcw) : wprog pcw :=
  let packet_points := N.min (w_max_ppp w) (len (w_buffer w)) in
  '(buffer, streams) <- wlift (write_points (N.to_nat packet_points) (w_proto w) (w_buffer w) (w_streams w)) ;;
  sizes <- wlift (stream_sizes last_flush streams) ;;
  let sum := fold_left N.add sizes 0 in
  let proto_len := len (w_proto w) in
  w1 <- (if 0 <? sum then
           let pl0 := DATA_HEADER_SIZE + proto_len * 2 + sum in
           let pl := if pl0 mod 4 =? 0 then pl0 else pl0 + (4 - pl0 mod 4) in
           if U16_MAX <? pl then wfail EInternal else
           wr (data_header_bytes pl proto_len) ;;;
           wr_all (map (fun sz => le_bytes 2 (sz mod 65536)) sizes) ;;;
           '(streams', datas) <- wlift (drain_streams last_flush streams) ;;
           wr_all datas ;;;
           wret (mkPcw (w_proto w) (w_section_offset w) (w_section_length w + pl) (w_data_offset w)
                      (w_point_count w) buffer (w_max_ppp w) streams')
         else
           wret (mkPcw (w_proto w) (w_section_offset w) (w_section_length w) (w_data_offset w)
                      (w_point_count w) buffer (w_max_ppp w) streams)) ;;
  w_align ;;;
  wret w1.

(** The checks of [add_point]: arity, then type and integer range of every value. *)
Fixpoint values_ok (proto : list dtype) (vs : list rvalue) : bool :=
  match proto, vs with
  | [], [] => true
  | t :: pr', v :: vr =>
      (match t, v with
       | TSingle, VSingle _ | TDouble, VDouble _ => true
       | TScaled mn mx, VScaled i | TInteger mn mx, VInteger i => ((mn <=? i) && (i <=? mx))%Z
       | _, _ => false
       end) && values_ok pr' vr
  | _, _ => false
  end.

Definition pcw_add_point (values : list rvalue) (w : pcw) : wprog pcw :=
  if negb (values_ok (w_proto w) values) then wfail EInvalid else
  let w1 := mkPcw (w_proto w) (w_section_offset w) (w_section_length w) (w_data_offset w)
                  (w_point_count w + 1) (w_buffer w ++ [values]) (w_max_ppp w) (w_streams w) in
  if w_max_ppp w1 <=? len (w_buffer w1) then write_buffer_to_disk false w1 else wret w1.

(** the [while !self.buffer.is_empty()] loop of [finalize]; with capacity >= 1
    every round removes a point, so fuel [|buffer| + 1] is never exhausted *)
Fixpoint drain_buffer (fuel : nat) (w : pcw) : wprog pcw :=
  match fuel with
  | O => wfail EInternal
  | S f => match w_buffer w with
           | [] => wret w
           | _ => w' <- write_buffer_to_disk false w ;; drain_buffer f w'
           end
  end.

(** [finalize], binary part: returns (file_offset, record count) for the XML. *)
Definition pcw_finalize (w : pcw) : wprog (pcw * N * N) :=
  w1 <- drain_buffer (S (length (w_buffer w))) w ;;
  w2 <- write_buffer_to_disk true w1 ;;
  end_offset <- wrelabel EWrite w_position ;;
  wrelabel EWrite (w_seek (w_section_offset w2)) ;;;
  wr (cv_header_bytes (w_section_length w2) (w_data_offset w2) 0) ;;;
  wrelabel EWrite (w_seek end_offset) ;;;
  wret (w2, w_section_offset w2, w_point_count w2).
