(** Programs over the page layer as trees of page-layer operations.  The
    packet, section and file level models are written as such trees; running
    a tree on the paged writer / paged reader model ([wrun] / [rrun]) is the
    implementation-shaped semantics (device bytes, operation counts, faults),
    running it on the logical stream ([wrun_spec] / [rrun_spec]) is the
    semantics in which the format-level theorems are proved; the page-layer
    refinement theorems (C11) connect the two for every tree at once.
    No proofs here. *)
From E57 Require Import Base.Prelude Model.PagedWriter Model.PagedReader Spec.PageSpec.

(** * Writer programs *)
Inductive wprog (A : Type) : Type :=
| WRet (a : A)
| WErr (k : err_kind)
| WPanic
| WOp (o : pw_op) (k : res N -> wprog A).
Arguments WRet {A} a.
Arguments WErr {A} k.
Arguments WPanic {A}.
Arguments WOp {A} o k.

Fixpoint wbind {A B} (p : wprog A) (f : A -> wprog B) : wprog B :=
  match p with
  | WRet a => f a
  | WErr k => WErr k
  | WPanic => WPanic
  | WOp o k => WOp o (fun r => wbind (k r) f)
  end.

Fixpoint wrelabel {A} (e : err_kind) (p : wprog A) : wprog A :=
  match p with
  | WRet a => WRet a
  | WErr _ => WErr e
  | WPanic => WPanic
  | WOp o k => WOp o (fun r => wrelabel e (k r))
  end.

Definition wlift {A} (r : res A) : wprog A :=
  match r with Ok a => WRet a | Err k => WErr k | Panic => WPanic end.

(** one operation whose numeric result is kept *)
Definition wop (o : pw_op) : wprog N := WOp o (fun r => wlift r).
(** one operation whose result is only success or failure *)
Definition wop_ (o : pw_op) : wprog unit := WOp o (fun r => wlift (res_map (fun _ => tt) r)).

(** on the paged writer model *)
Fixpoint wrun {A} (p : wprog A) (s : pw) : pw * res A :=
  match p with
  | WRet a => (s, Ok a)
  | WErr k => (s, Err k)
  | WPanic => (s, Panic)
  | WOp o k => let '(s1, r) := pw_step o s in wrun (k r) s1
  end.

(** on the logical stream *)
Fixpoint wrun_spec {A} (p : wprog A) (l : lstream) : lstream * res A :=
  match p with
  | WRet a => (l, Ok a)
  | WErr k => (l, Err k)
  | WPanic => (l, Panic)
  | WOp o k => let '(l1, r) := ls_step o l in wrun_spec (k r) l1
  end.

Declare Scope wprog_scope.
Delimit Scope wprog_scope with wprog.
Notation "x <- m ;; k" := (wbind m (fun x => k))
  (at level 61, m at next level, right associativity) : wprog_scope.
Notation "' p <- m ;; k" := (wbind m (fun x => match x with p => k end))
  (at level 61, p pattern, m at next level, right associativity) : wprog_scope.
Notation "m ;;; k" := (wbind m (fun _ => k))
  (at level 61, right associativity) : wprog_scope.

(** the primitives as the upper layers use them *)
Definition w_write (data : list N) : wprog unit := wop_ (PwWrite data).   (* write_all(..).write_err *)
Definition w_position : wprog N := wop PwPosition.                        (* physical_position() *)
Definition w_seek (p : N) : wprog unit := wop_ (PwSeek p).                (* physical_seek() *)
Definition w_size : wprog N := wop PwSize.                                (* physical_size() *)
Definition w_align : wprog unit := wop_ PwAlign.                          (* align() *)
Definition w_flush : wprog unit := wop_ PwFlush.                          (* flush().write_err *)

(** * Reader programs *)
Inductive rprog (A : Type) : Type :=
| RRet (a : A)
| RErr (k : err_kind)
| RPanic
| ROp (o : pr_op) (k : res pr_out -> rprog A).
Arguments RRet {A} a.
Arguments RErr {A} k.
Arguments RPanic {A}.
Arguments ROp {A} o k.

Fixpoint rbind {A B} (p : rprog A) (f : A -> rprog B) : rprog B :=
  match p with
  | RRet a => f a
  | RErr k => RErr k
  | RPanic => RPanic
  | ROp o k => ROp o (fun r => rbind (k r) f)
  end.

Definition rlift {A} (r : res A) : rprog A :=
  match r with Ok a => RRet a | Err k => RErr k | Panic => RPanic end.

Fixpoint rrun {A} (p : rprog A) (s : pr) : pr * res A :=
  match p with
  | RRet a => (s, Ok a)
  | RErr k => (s, Err k)
  | RPanic => (s, Panic)
  | ROp o k => let '(s1, r) := pr_step o s in rrun (k r) s1
  end.

(** on the logical stream [log] with the logical offset as only state *)
Fixpoint rrun_spec {A} (log : list N) (p : rprog A) (off : N) : N * res A :=
  match p with
  | RRet a => (off, Ok a)
  | RErr k => (off, Err k)
  | RPanic => (off, Panic)
  | ROp o k => let '(off1, r) := lr_step log o off in rrun_spec log (k r) off1
  end.

Declare Scope rprog_scope.
Delimit Scope rprog_scope with rprog.
Notation "x <- m ;; k" := (rbind m (fun x => k))
  (at level 61, m at next level, right associativity) : rprog_scope.
Notation "' p <- m ;; k" := (rbind m (fun x => match x with p => k end))
  (at level 61, p pattern, m at next level, right associativity) : rprog_scope.
Notation "m ;;; k" := (rbind m (fun _ => k))
  (at level 61, right associativity) : rprog_scope.

(** [read_exact(n).read_err(..)]: the bytes, any failure relabelled Read *)
Definition r_read_exact (n : N) : rprog (list N) :=
  ROp (PrReadExact n) (fun r =>
    match r with
    | Ok (PoBytes l) => RRet l
    | Ok _ => RPanic                      (* cannot happen: PrReadExact yields bytes *)
    | Err _ => RErr ERead
    | Panic => RPanic
    end).
(** one [read] call, error kind chosen by the caller *)
Definition r_read (e : err_kind) (n : N) : rprog (list N) :=
  ROp (PrRead n) (fun r =>
    match r with
    | Ok (PoBytes l) => RRet l
    | Ok _ => RPanic
    | Err _ => RErr e
    | Panic => RPanic
    end).
(** [seek_physical(p).read_err(..)] *)
Definition r_seek (p : N) : rprog unit :=
  ROp (PrSeek p) (fun r => match r with Ok _ => RRet tt | Err _ => RErr ERead | Panic => RPanic end).
(** [align().read_err(..)] *)
Definition r_align : rprog unit :=
  ROp PrAlign (fun r => match r with Ok _ => RRet tt | Err _ => RErr ERead | Panic => RPanic end).
