(** The whole writer: the API state machine of Model/WriterApi.v with the XML
    generator of Model/XmlGen.v plugged in.  The state machine computes floats
    as bit patterns; the XML needs their text, which is Rust's [Display] - an
    oracle here ([fmt64], [fmt32], by bit pattern).  [fill_meta] writes the text
    of every float of the metadata just before the XML is generated; the crate
    version enters the text of [e57LibraryVersion].  No proofs here. *)
From E57 Require Import Base.Prelude Base.Floats Model.Prog Model.Meta Model.MetaFile Model.XmlGen Model.WriterApi.

Section Fill.
Variables fmt64 fmt32 : N -> xstring.

(** the text of the bit pattern; the pattern itself with a NaN made canonical (the text "NaN"
    does not carry sign and payload, the reader gets the canonical NaN back) *)
Definition fill64 (f : f64t) : f64t := mkF64 (canon64 (f64_bits f)) (fmt64 (f64_bits f)).
Definition fill32 (f : f32t) : f32t := mkF32 (canon32 (f32_bits f)) (fmt32 (f32_bits f)).
Definition fill_dt (d : date_time) : date_time := mkDateTime (fill64 (dt_gps_time d)) (dt_atomic d).
Definition fill_tr (t : transform) : transform :=
  mkTransform (fill64 (t_rw t)) (fill64 (t_rx t)) (fill64 (t_ry t)) (fill64 (t_rz t))
              (fill64 (t_tx t)) (fill64 (t_ty t)) (fill64 (t_tz t)).
Definition fill_cb (b : cartesian_bounds) : cartesian_bounds :=
  mkCb (option_map fill64 (cb_x_min b)) (option_map fill64 (cb_x_max b)) (option_map fill64 (cb_y_min b))
       (option_map fill64 (cb_y_max b)) (option_map fill64 (cb_z_min b)) (option_map fill64 (cb_z_max b)).
Definition fill_sb (b : spherical_bounds) : spherical_bounds :=
  mkSb (option_map fill64 (sb_range_min b)) (option_map fill64 (sb_range_max b))
       (option_map fill64 (sb_elevation_min b)) (option_map fill64 (sb_elevation_max b))
       (option_map fill64 (sb_azimuth_start b)) (option_map fill64 (sb_azimuth_end b)).
Definition fill_lv (v : limit_value) : limit_value :=
  match v with LSingle f => LSingle (fill32 f) | LDouble f => LDouble (fill64 f) | x => x end.
Definition fill_il (l : intensity_limits) : intensity_limits :=
  mkIl (option_map fill_lv (il_min l)) (option_map fill_lv (il_max l)).
Definition fill_cl (l : color_limits) : color_limits :=
  mkCl (option_map fill_lv (cl_red_min l)) (option_map fill_lv (cl_red_max l))
       (option_map fill_lv (cl_green_min l)) (option_map fill_lv (cl_green_max l))
       (option_map fill_lv (cl_blue_min l)) (option_map fill_lv (cl_blue_max l)).
Definition fill_type (t : data_type) : data_type :=
  match t with
  | DSingle mn mx => DSingle (option_map fill32 mn) (option_map fill32 mx)
  | DDouble mn mx => DDouble (option_map fill64 mn) (option_map fill64 mx)
  | DScaledInteger mn mx s o => DScaledInteger mn mx (fill64 s) (fill64 o)
  | DInteger mn mx => DInteger mn mx
  end.
Definition fill_rec (r : record) : record := mkRecord (r_name r) (fill_type (r_type r)).

Definition fill_pc (p : pointcloud) : pointcloud :=
  mkPointCloud (pc_guid p) (pc_file_offset p) (pc_records p) (map fill_rec (pc_prototype p))
    (pc_original_guids p) (pc_name p) (pc_description p)
    (option_map fill_cb (pc_cartesian_bounds p)) (option_map fill_sb (pc_spherical_bounds p))
    (pc_index_bounds p) (option_map fill_il (pc_intensity_limits p)) (option_map fill_cl (pc_color_limits p))
    (option_map fill_tr (pc_transform p)) (option_map fill_dt (pc_acquisition_start p))
    (option_map fill_dt (pc_acquisition_end p))
    (pc_sensor_vendor p) (pc_sensor_model p) (pc_sensor_serial p) (pc_sensor_hw_version p)
    (pc_sensor_sw_version p) (pc_sensor_fw_version p)
    (option_map fill64 (pc_temperature p)) (option_map fill64 (pc_humidity p))
    (option_map fill64 (pc_atmospheric_pressure p)).

Definition fill_proj (p : projection) : projection :=
  match p with
  | PPinhole x => PPinhole (mkPinhole (ph_blob x) (ph_mask x) (ph_width x) (ph_height x) (fill64 (ph_focal_length x))
                              (fill64 (ph_pixel_width x)) (fill64 (ph_pixel_height x))
                              (fill64 (ph_principal_x x)) (fill64 (ph_principal_y x)))
  | PSpherical x => PSpherical (mkSphImg (si_blob x) (si_mask x) (si_width x) (si_height x)
                                  (fill64 (si_pixel_width x)) (fill64 (si_pixel_height x)))
  | PCylindrical x => PCylindrical (mkCylImg (ci_blob x) (ci_mask x) (ci_width x) (ci_height x) (fill64 (ci_radius x))
                                      (fill64 (ci_principal_y x)) (fill64 (ci_pixel_width x)) (fill64 (ci_pixel_height x)))
  end.
Definition fill_im (i : image) : image :=
  mkImage (im_guid i) (im_visual_reference i) (option_map fill_proj (im_projection i))
          (option_map fill_tr (im_transform i)) (im_pointcloud_guid i) (im_name i) (im_description i)
          (option_map fill_dt (im_acquisition i)) (im_sensor_vendor i) (im_sensor_model i) (im_sensor_serial i).
Definition fill_root (r : root) : root :=
  mkRoot (rt_format r) (rt_guid r) (rt_major_version r) (rt_minor_version r) (rt_library_version r)
         (option_map fill_dt (rt_creation r)) (rt_coordinate_metadata r).

Definition fill_meta (m : file_meta) : file_meta :=
  mkFileMeta (fill_root (fm_root m)) (fm_extensions m) (map fill_pc (fm_pointclouds m)) (map fill_im (fm_images m)).

(** [finalize]'s XML: texts filled in, then [serialize_root] *)
Definition gen_xml_full (m : file_meta) : res (list N) := gen_root (fill_meta m).

(** "Rust E57 Library v" ++ version ++ " github.com/cry-inc/e57" *)
Definition lib_version_text (version : xstring) : xstring :=
  [82; 117; 115; 116; 32; 69; 53; 55; 32; 76; 105; 98; 114; 97; 114; 121; 32; 118] ++ version ++
  [32; 103; 105; 116; 104; 117; 98; 46; 99; 111; 109; 47; 99; 114; 121; 45; 105; 110; 99; 47; 101; 53; 55].

Definition writer_step (version : xstring) : wstate -> wcall -> wprog (wstate * call_result) :=
  wapi_step gen_xml_full (lib_version_text version).
Definition writer_run (version : xstring) (calls : list wcall) : wprog (wstate * list call_result) :=
  wapi_run gen_xml_full (lib_version_text version) ws_init calls.
End Fill.
