(** Crash images (C15): the whole writer program, the sequence of device writes
    it issues, and what a device holds when the process dies between or in the
    middle of two writes (writes reach the device in issue order; the write in
    progress may be torn at any byte).  No proofs here. *)
From E57 Require Import Base.Prelude Model.Device Model.PagedWriter Model.Prog Model.PcWriter Model.FileBin.

(** [E57Writer::new] (after [PagedWriter::new]), the sections, [finalize] *)
Definition crash_prog (is : list item) (xml : list N) : wprog unit :=
  (writer_init ;;; _ <- items_write is ;; writer_finalize xml)%wprog.

(** the same without the top-level [finalize] (writer dropped before it) *)
Definition unfinalized_prog (is : list item) : wprog unit :=
  (writer_init ;;; _ <- items_write is ;; WRet tt)%wprog.

(** the paged writer right after [PagedWriter::new] on an empty fault-free device *)
Definition pw_fresh : pw := mkPw (mkDev [] 0 1 None []) 0 (zeros PAGE).

(** the device after the program and [Drop] *)
Definition dev_after {A} (p : wprog A) : dev :=
  pw_dev (fst (pw_drop (fst (wrun p pw_fresh)))).

(** the device writes of the program and [Drop], oldest first *)
Definition trace_of {A} (p : wprog A) : list (N * list N) := rev (d_log (dev_after p)).

(** the bytes left on the device by a completed run *)
Definition final_image {A} (p : wprog A) : list N := d_bytes (dev_after p).

(** the first [n] writes complete, write number [n] (counted from 0) cut after [cut] bytes *)
Definition torn (w : N * list N) (cut : nat) : N * list N := (fst w, firstn cut (snd w)).

Definition crash_image (tr : list (N * list N)) (n cut : nat) : list N :=
  apply_writes (firstn n tr ++ match nth_error tr n with Some w => [torn w cut] | None => [] end).

(** all crash points of a trace up to write [n] (exclusive), every cut of every write *)
Definition all_cuts (tr : list (N * list N)) : list (nat * nat) :=
  flat_map (fun n => map (fun c => (n, c)) (seq 0 (S (length (snd (nth n tr (0, []))))))) (seq 0 (S (length tr))).
