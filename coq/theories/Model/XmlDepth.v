(** Mirror of [xml::check_depth] (src/xml.rs): a scanner over the bytes of the XML section that
    rejects documents whose elements are nested deeper than MAX_XML_DEPTH = 256, run by
    [E57Reader::new] after the UTF-8 check and before [Document::parse] (the parser recurses per
    nesting level).  Comments, CDATA sections, processing instructions, [<!...>] declarations
    and quoted attribute values are skipped; +1 for a start tag that is not self-closing, -1
    (saturating) for an end tag.  The Rust code works with indices into the byte slice; here the
    state is the remaining suffix.  No proofs here. *)
From E57 Require Import Base.Prelude.

Definition MAX_XML_DEPTH : N := 256.

(** [bytes[i..].starts_with(p)] *)
Fixpoint starts (p s : list N) : bool :=
  match p with
  | [] => true
  | x :: p' => match s with y :: s' => (x =? y) && starts p' s' | [] => false end
  end.

(** [find_after(bytes, start, pattern)]: the suffix behind the first occurrence of the pattern,
    the empty suffix when there is none *)
Fixpoint skip_past (p s : list N) : list N :=
  if starts p s then skipn (length p) s else
  match s with
  | [] => []
  | _ :: r => skip_past p r
  end.

Definition S_COMMENT : list N := [60; 33; 45; 45].                 (* <!-- *)
Definition S_COMMENT_END : list N := [45; 45; 62].                 (* --> *)
Definition S_CDATA : list N := [60; 33; 91; 67; 68; 65; 84; 65; 91].   (* <![CDATA[ *)
Definition S_CDATA_END : list N := [93; 93; 62].                   (* ]]> *)
Definition S_PI : list N := [60; 63].                              (* <? *)
Definition S_PI_END : list N := [63; 62].                          (* ?> *)
Definition S_BANG : list N := [60; 33].                            (* <! *)
Definition S_CLOSE : list N := [60; 47].                           (* </ *)
Definition S_GT : list N := [62].                                  (* > *)

(** the inner loop over a start tag: [quote] is the open quote, [prev] the byte at j-1.
    Returns the byte in front of the closing '>' and the suffix behind it; [None] when the tag
    is not closed. *)
Fixpoint scan_tag (quote : option N) (prev : N) (s : list N) : option (N * list N) :=
  match s with
  | [] => None
  | b :: r =>
      match quote with
      | Some q => if b =? q then scan_tag None b r else scan_tag quote b r
      | None =>
          if (b =? 34) || (b =? 39) then scan_tag (Some b) b r
          else if b =? 62 then Some (prev, r)
          else scan_tag None b r
      end
  end.

(** one iteration of the outer [while i < bytes.len()] loop: stop with the verdict, or go on
    with a new depth and a shorter suffix *)
Inductive step_res := Stop (ok : bool) | Next (depth : N) (rest : list N).

Definition depth_step (depth : N) (s : list N) : step_res :=
  match s with
  | [] => Stop true
  | b :: r =>
      if negb (b =? 60) then Next depth r
      else if starts S_COMMENT s then Next depth (skip_past S_COMMENT_END (skipn 4 s))
      else if starts S_CDATA s then Next depth (skip_past S_CDATA_END (skipn 9 s))
      else if starts S_PI s then Next depth (skip_past S_PI_END (skipn 2 s))
      else if starts S_BANG s then Next depth (skip_past S_GT (skipn 2 s))
      else if starts S_CLOSE s then Next (depth - 1) (skip_past S_GT (skipn 2 s))
      else
        let '(self_closing, rest) :=
          match scan_tag None b r with
          | Some (prev, rest) => (prev =? 47, rest)
          | None => (false, [])
          end in
        if self_closing then Next depth rest
        else if MAX_XML_DEPTH <? depth + 1 then Stop false
        else Next (depth + 1) rest
  end.

(** every step consumes at least one byte, so fuel [length + 1] is never exhausted
    (Proofs/XeDepth.v: [depth_loop_fuel]) *)
Fixpoint depth_loop (fuel : nat) (depth : N) (s : list N) : bool :=
  match fuel with
  | O => false
  | S f => match depth_step depth s with
           | Stop ok => ok
           | Next d r => depth_loop f d r
           end
  end.

(** [check_depth(xml).is_ok()] *)
Definition xml_depth_ok (xml : list N) : bool := depth_loop (S (length xml)) 0 xml.
