(** The XML document tree as the crate sees it through roxmltree 0.20: the
    shared interface between the XML parser model (Model/XmlParse.v), the
    extractors (Model/XmlExtract.v, mirrors of every [from_node]) and the
    specification-side renderer.  Strings are UTF-8 byte lists.  No proofs here. *)
From E57 Require Import Base.Prelude.

Definition xstr := list N.

(** expanded name: namespace URI (None = no namespace) and local name *)
Record xname := mkXName { xn_ns : option xstr; xn_local : xstr }.
Record xattr := mkXAttr { xa_name : xname; xa_value : xstr }.
(** a namespace declaration in scope: prefix (None = default namespace) and URI *)
Record xnsdecl := mkXNs { xns_prefix : option xstr; xns_uri : xstr }.

Inductive xnode :=
| XElem (name : xname) (attrs : list xattr) (scope : list xnsdecl) (children : list xnode)
    (* [scope]: the namespaces in scope at this element, in the order roxmltree's
       [Node::namespaces()] yields them (this is what [lookup_prefix] and
       [Extension::vec_from_document] iterate over) *)
| XText (text : xstr)          (* adjacent character data and CDATA sections are ONE text node *)
| XComment (text : xstr)
| XPI (target : xstr) (value : option xstr).

(** the children of the document's root node (comments, processing instructions, one element) *)
Record xdoc := mkXDoc { xd_children : list xnode }.

(** * What the crate uses of roxmltree's API *)

Definition is_element (n : xnode) : bool := match n with XElem _ _ _ _ => true | _ => false end.

Fixpoint xstr_eqb (a b : xstr) : bool :=
  match a, b with
  | [], [] => true
  | x :: a', y :: b' => (x =? y) && xstr_eqb a' b'
  | _, _ => false
  end.

(** [has_tag_name("local")]: an element whose LOCAL name matches; the namespace is ignored
    when the argument is a plain string *)
Definition has_tag_name (local : xstr) (n : xnode) : bool :=
  match n with XElem nm _ _ _ => xstr_eqb (xn_local nm) local | _ => false end.

Definition children (n : xnode) : list xnode :=
  match n with XElem _ _ _ c => c | _ => [] end.

(** [attribute("name")]: first attribute with this local name and NO namespace *)
Definition attribute (local : xstr) (n : xnode) : option xstr :=
  match n with
  | XElem _ attrs _ _ =>
      match find (fun a => match xn_ns (xa_name a) with None => xstr_eqb (xn_local (xa_name a)) local | Some _ => false end) attrs with
      | Some a => Some (xa_value a)
      | None => None
      end
  | _ => None
  end.

(** [Node::text()]: for an element the text of its FIRST child if that child is a text node;
    for a text node its own text *)
Definition node_text (n : xnode) : option xstr :=
  match n with
  | XElem _ _ _ (XText t :: _) => Some t
  | XText t => Some t
  | _ => None
  end.

(** [descendants()]: the node itself and everything below it, in document order *)
Fixpoint descendants (n : xnode) : list xnode :=
  n :: match n with
       | XElem _ _ _ c => (fix go (l : list xnode) : list xnode :=
                             match l with [] => [] | x :: r => descendants x ++ go r end) c
       | _ => []
       end.

Definition doc_descendants (d : xdoc) : list xnode := flat_map descendants (xd_children d).

Definition root_element (d : xdoc) : option xnode := find is_element (xd_children d).

Definition NS_XML_URI : xstr :=
  [104;116;116;112;58;47;47;119;119;119;46;119;51;46;111;114;103;47;88;77;76;47;49;57;57;56;47;110;97;109;101;115;112;97;99;101].
  (* "http://www.w3.org/XML/1998/namespace" *)

(** [lookup_prefix(uri)] = the prefix of the first in-scope namespace with this URI
    (Some None-prefix collapses to None, as roxmltree's unwrap_or(None) does) *)
Definition lookup_prefix (uri : xstr) (n : xnode) : option xstr :=
  if xstr_eqb uri NS_XML_URI then Some [120;109;108] else
  match n with
  | XElem _ _ scope _ =>
      match find (fun d => xstr_eqb (xns_uri d) uri) scope with
      | Some d => xns_prefix d
      | None => None
      end
  | _ => None
  end.
