(** Model of the data path of the bundled command-line tools
      tools/e57-from-xyz, e57-to-xyz, e57-check-crc, e57-extract-xml, e57-unpack
    as pure functions over the library model.  Argument handling, file I/O and
    process exit are described, not modelled (DESIGN.md, C20: level Partial).

    What Rust takes from outside the language is a Section variable (never an
    axiom): [parse_f32] is [str::parse::<f32>] (text -> bit pattern),
    [fmt_f64_ryu] is [ryu::Buffer::format(f64)] (bit pattern, NaN canonical ->
    text), [fmt_f32_disp] / [fmt_f64_disp] are [f32::to_string] /
    [f64::to_string].  The tie instantiates them with finite tables of what the
    real functions returned and validates the hypotheses used in Proofs/ on
    every generated value.

    Text is bytes ([list N]).  [String]s read by [BufRead::read_line] must be
    valid UTF-8 ([utf8_valid], the table of the Unicode standard that
    [core::str::from_utf8] implements); [str::trim] strips [char::is_whitespace]
    characters: U+0009..U+000D, U+0020, U+0085, U+00A0, U+1680, U+2000..U+200A,
    U+2028, U+2029, U+202F, U+205F, U+3000 - all of them are modelled, on the
    UTF-8 bytes.  No proofs here. *)
From Coq Require Import ZArith NArith Bool List.
From Flocq Require Import Binary Bits.
From E57 Require Import Base.Prelude Base.Floats Model.Normalize Model.Record
  Model.Device Model.FileBin Model.ReaderOpen.

Definition in_rng (lo hi b : N) : bool := (lo <=? b) && (b <=? hi).

(** * Lines: [BufRead::read_line] until it returns 0

    Every line ends with its '\n' (10) except possibly the last one; an empty
    input has no line. *)
Fixpoint xyz_lines_aux (cur : list N) (input : list N) : list (list N) :=
  match input with
  | [] => match cur with [] => [] | _ => [rev cur] end
  | b :: r => if b =? 10 then rev (b :: cur) :: xyz_lines_aux [] r
              else xyz_lines_aux (b :: cur) r
  end.
Definition xyz_lines (input : list N) : list (list N) := xyz_lines_aux [] input.

(** * UTF-8 validity of one line ([read_line] fails with InvalidData otherwise) *)
Definition cont (b : N) : bool := in_rng 128 191 b.
Fixpoint utf8_valid (l : list N) : bool :=
  match l with
  | [] => true
  | b0 :: r0 =>
    if b0 <? 128 then utf8_valid r0 else
    match r0 with
    | [] => false
    | b1 :: r1 =>
      if in_rng 194 223 b0 then cont b1 && utf8_valid r1 else
      match r1 with
      | [] => false
      | b2 :: r2 =>
        if in_rng 224 239 b0 then
          (if b0 =? 224 then in_rng 160 191 b1
           else if b0 =? 237 then in_rng 128 159 b1 else cont b1)
          && cont b2 && utf8_valid r2
        else
        match r2 with
        | [] => false
        | b3 :: r3 =>
          if in_rng 240 244 b0 then
            (if b0 =? 240 then in_rng 144 191 b1
             else if b0 =? 244 then in_rng 128 143 b1 else cont b1)
            && cont b2 && cont b3 && utf8_valid r3
          else false
        end
      end
    end
  end.

(** * [str::trim] *)
Definition ascii_ws (b : N) : bool := in_rng 9 13 b || (b =? 32).

(** one whitespace character at the front: the rest *)
Definition ws_prefix (l : list N) : option (list N) :=
  match l with
  | [] => None
  | b0 :: r0 =>
    if ascii_ws b0 then Some r0 else
    match r0 with
    | [] => None
    | b1 :: r1 =>
      if (b0 =? 194) && ((b1 =? 133) || (b1 =? 160)) then Some r1 else   (* U+0085 U+00A0 *)
      match r1 with
      | [] => None
      | b2 :: r2 =>
        if (b0 =? 225) && (b1 =? 154) && (b2 =? 128) then Some r2 else   (* U+1680 *)
        if (b0 =? 226) && (b1 =? 128) &&
           (in_rng 128 138 b2 || (b2 =? 168) || (b2 =? 169) || (b2 =? 175)) then Some r2 else
                                                     (* U+2000..U+200A U+2028 U+2029 U+202F *)
        if (b0 =? 226) && (b1 =? 129) && (b2 =? 159) then Some r2 else   (* U+205F *)
        if (b0 =? 227) && (b1 =? 128) && (b2 =? 128) then Some r2 else   (* U+3000 *)
        None
      end
    end
  end.

(** the same on the reversed string (one whitespace character at the end; in
    valid UTF-8 a byte pattern at the end is a character at the end) *)
Definition ws_suffix_rev (l : list N) : option (list N) :=
  match l with
  | [] => None
  | b0 :: r0 =>
    if ascii_ws b0 then Some r0 else
    match r0 with
    | [] => None
    | b1 :: r1 =>
      if (b1 =? 194) && ((b0 =? 133) || (b0 =? 160)) then Some r1 else
      match r1 with
      | [] => None
      | b2 :: r2 =>
        if (b2 =? 225) && (b1 =? 154) && (b0 =? 128) then Some r2 else
        if (b2 =? 226) && (b1 =? 128) &&
           (in_rng 128 138 b0 || (b0 =? 168) || (b0 =? 169) || (b0 =? 175)) then Some r2 else
        if (b2 =? 226) && (b1 =? 129) && (b0 =? 159) then Some r2 else
        if (b2 =? 227) && (b1 =? 128) && (b0 =? 128) then Some r2 else
        None
      end
    end
  end.

Fixpoint strip (f : list N -> option (list N)) (fuel : nat) (l : list N) : list N :=
  match fuel with
  | O => l
  | S k => match f l with Some r => strip f k r | None => l end
  end.
Definition trim_start (l : list N) : list N := strip ws_prefix (length l) l.
Definition trim_end (l : list N) : list N := rev (strip ws_suffix_rev (length l) (rev l)).
Definition trim (l : list N) : list N := trim_end (trim_start l).

(** * [str::split(' ')]: n spaces give n + 1 parts, empty parts included *)
Fixpoint split_sp_aux (cur : list N) (l : list N) : list (list N) :=
  match l with
  | [] => [rev cur]
  | b :: r => if b =? 32 then rev cur :: split_sp_aux [] r else split_sp_aux (b :: cur) r
  end.
Definition split_sp (l : list N) : list (list N) := split_sp_aux [] l.

(** * [u8::from_str]: optional '+', at least one digit, only digits, value <= 255 *)
Definition digit_of (b : N) : option N := if in_rng 48 57 b then Some (b - 48) else None.
Fixpoint u8_digits (acc : N) (l : list N) : option N :=
  match l with
  | [] => Some acc
  | b :: r =>
    match digit_of b with
    | Some d => let v := acc * 10 + d in if 255 <? v then None else u8_digits v r
    | None => None
    end
  end.
Definition parse_u8 (s : list N) : option N :=
  match s with
  | [] => None
  | [b] => if (b =? 43) || (b =? 45) then None else u8_digits 0 s
  | b :: r => if b =? 43 then u8_digits 0 r else u8_digits 0 s
  end.

(** decimal text of an integer ([Display] of u8 / i64) *)
Fixpoint dec_N_aux (fuel : nat) (n : N) (acc : list N) : list N :=
  match fuel with
  | O => acc
  | S f => let acc' := (48 + n mod 10) :: acc in
           if n <? 10 then acc' else dec_N_aux f (n / 10) acc'
  end.
Definition dec_N (n : N) : list N := dec_N_aux (S (N.size_nat n)) n [].
Definition dec_Z (z : Z) : list N :=
  if (z <? 0)%Z then 45 :: dec_N (Z.to_N (- z)) else dec_N (Z.to_N z).

(** * Points *)

(** what e57-from-xyz hands to [add_point]: three [Single] bit patterns and
    three [Integer] values for the prototype
    CARTESIAN_{X,Y,Z}_F32, COLOR_{RED,GREEN,BLUE}_U8 *)
Record point6 := mkP6 { p_x : N; p_y : N; p_z : N; p_r : N; p_g : N; p_b : N }.

Definition raw_of_point6 (p : point6) : list rvalue :=
  [VSingle (p_x p); VSingle (p_y p); VSingle (p_z p);
   VInteger (Z.of_N (p_r p)); VInteger (Z.of_N (p_g p)); VInteger (Z.of_N (p_b p))].
Definition proto6 : list dtype :=
  [TSingle; TSingle; TSingle; TInteger 0 255; TInteger 0 255; TInteger 0 255].

(** the part of [e57::Point] that e57-to-xyz looks at *)
Inductive cart :=
| CValid (x y z : binary64)
| CDirection (x y z : binary64)
| CInvalid.
Record spoint := mkSp { sp_cart : cart; sp_color : option (binary32 * binary32 * binary32) }.

(** * The pose as the simple iterator applies it
    ([PointCloudReaderSimple::prepare_transform], [transform_point]) *)
Record pose := mkPose { q_w : binary64; q_x : binary64; q_y : binary64; q_z : binary64;
                        t_x : binary64; t_y : binary64; t_z : binary64 }.
Definition f64_two : binary64 := f64_of_bits 0x4000000000000000.
(** [Transform::default()]: w = 1, everything else 0 *)
Definition pose_default : pose :=
  mkPose f64_one f64_zero f64_zero f64_zero f64_zero f64_zero f64_zero.

Record rot := mkRot { r0 : binary64; r1 : binary64; r2 : binary64; r3 : binary64; r4 : binary64;
                      r5 : binary64; r6 : binary64; r7 : binary64; r8 : binary64 }.
Definition prepare_rotation (p : pose) : rot :=
  let w := q_w p in let x := q_x p in let y := q_y p in let z := q_z p in
  let m := f64_mul in let a := f64_add in let s := f64_sub in
  mkRot (s (s (a (m w w) (m x x)) (m y y)) (m z z))
        (m f64_two (a (m x y) (m w z)))
        (m f64_two (s (m x z) (m w y)))
        (m f64_two (s (m x y) (m w z)))
        (s (s (a (m w w) (m y y)) (m x x)) (m z z))
        (m f64_two (a (m y z) (m w x)))
        (m f64_two (a (m x z) (m w y)))
        (m f64_two (s (m y z) (m w x)))
        (s (s (a (m w w) (m z z)) (m x x)) (m y y)).

Definition transform_xyz (r : rot) (p : pose) (x y z : binary64) : binary64 * binary64 * binary64 :=
  let m := f64_mul in let a := f64_add in
  let nx := a (a (m (r0 r) x) (m (r3 r) y)) (m (r6 r) z) in
  let ny := a (a (m (r1 r) x) (m (r4 r) y)) (m (r7 r) z) in
  let nz := a (a (m (r2 r) x) (m (r5 r) y)) (m (r8 r) z) in
  (a nx (t_x p), a ny (t_y p), a nz (t_z p)).

Definition transform_cart (p : pose) (c : cart) : cart :=
  match c with
  | CValid x y z => let '(nx, ny, nz) := transform_xyz (prepare_rotation p) p x y z in CValid nx ny nz
  | _ => c
  end.

(** * What the simple iterator with e57-to-xyz's options (spherical_to_cartesian,
    intensity_to_color, apply_pose on; cartesian_to_spherical off; colour
    normalisation on by default) delivers for one raw point of the from-xyz
    prototype: no invalid-state records, so the coordinate is Valid and the
    colour present; [convert_to_cartesian] and [convert_intensity] leave such a
    point alone; the colour range comes from the colour limits the writer
    derives from the prototype (Integer 0 / Integer 255); the point cloud has
    no pose, so [Transform::default()] is applied. *)
Definition u8_channel : channel :=
  mkChannel (Some (NTInteger 0 255)) (Some (NInteger 0)) (Some (NInteger 255)).
Definition color_value (v : N) : res binary32 :=
  channel_value u8_channel true (f64_of_Z (Z.of_N v)).

Definition xyz_view (p : point6) : res spoint :=
  res_bind (color_value (p_r p)) (fun r =>
  res_bind (color_value (p_g p)) (fun g =>
  res_bind (color_value (p_b p)) (fun b =>
  Ok (mkSp (transform_cart pose_default
              (CValid (f64_of_f32 (f32_of_bits (p_x p))) (f64_of_f32 (f32_of_bits (p_y p)))
                      (f64_of_f32 (f32_of_bits (p_z p)))))
           (Some (r, g, b)))))).

(** the colour path alone: stored integer -> normalised f32 -> [(c * 255.) as u8] *)
Definition color_path (v : N) : res Z := res_map to_u8_color (color_value v).

Fixpoint map_res {A B} (f : A -> res B) (l : list A) : res (list B) :=
  match l with
  | [] => Ok []
  | a :: r => res_bind (f a) (fun b => res_map (cons b) (map_res f r))
  end.

Section Oracles.

Variable parse_f32 : list N -> option N.     (* str::parse::<f32>, result as bit pattern *)
Variable fmt_f64_ryu : N -> list N.          (* ryu::Buffer::format(f64) of a bit pattern (NaN canonical) *)
Variable fmt_f32_disp : N -> list N.         (* f32::to_string *)
Variable fmt_f64_disp : N -> list N.         (* f64::to_string *)

(** * e57-from-xyz: one line *)
Definition parse6 (p0 p1 p2 p3 p4 p5 : list N) : res (option point6) :=
  match parse_f32 p0 with None => Err EInvalid | Some x =>
  match parse_f32 p1 with None => Err EInvalid | Some y =>
  match parse_f32 p2 with None => Err EInvalid | Some z =>
  match parse_u8 p3 with None => Err EInvalid | Some r =>
  match parse_u8 p4 with None => Err EInvalid | Some g =>
  match parse_u8 p5 with None => Err EInvalid | Some b =>
  Ok (Some (mkP6 x y z r g b)) end end end end end end.

(** [Ok None]: the line is skipped; [Err]: the tool aborts (non-zero exit) *)
Definition from_xyz_line (line : list N) : res (option point6) :=
  if negb (utf8_valid line) then Err EIo else
  match split_sp (trim line) with
  | p0 :: p1 :: p2 :: p3 :: p4 :: p5 :: _ => parse6 p0 p1 p2 p3 p4 p5
  | _ => Ok None
  end.

Fixpoint from_xyz (lines : list (list N)) : res (list point6) :=
  match lines with
  | [] => Ok []
  | l :: r =>
    res_bind (from_xyz_line l) (fun o =>
    res_bind (from_xyz r) (fun ps =>
    Ok (match o with Some p => p :: ps | None => ps end)))
  end.

(** * e57-to-xyz: one point of the simple iterator *)
Definition u8_text (c : binary32) : list N := dec_N (Z.to_N (to_u8_color c)).
Definition to_xyz_point (p : spoint) : list N :=
  match sp_cart p with
  | CValid x y z =>
      fmt_f64_ryu (bits_of_f64c x) ++ [32] ++ fmt_f64_ryu (bits_of_f64c y) ++ [32] ++
      fmt_f64_ryu (bits_of_f64c z) ++
      (match sp_color p with
       | Some (r, g, b) => [32] ++ u8_text r ++ [32] ++ u8_text g ++ [32] ++ u8_text b
       | None => []
       end) ++ [10]
  | _ => []
  end.
Definition to_xyz (pts : list spoint) : list N := flat_map to_xyz_point pts.

(** * from-xyz followed by to-xyz on the file it wrote: XYZ text -> XYZ text.
    The library in between (writer, raw reader: C01; simple iterator: C05) is
    represented by [xyz_view] on each point. *)
Definition xyz_roundtrip (input : list N) : res (list N) :=
  res_bind (from_xyz (xyz_lines input)) (fun pts =>
  res_map to_xyz (map_res xyz_view pts)).

(** * e57-unpack: one CSV line per raw point *)
Definition csv_value (v : rvalue) : list N :=
  match v with
  | VSingle b => fmt_f32_disp b
  | VDouble b => fmt_f64_disp b
  | VScaled i => dec_Z i
  | VInteger i => dec_Z i
  end.
Fixpoint join_semi (l : list (list N)) : list N :=
  match l with
  | [] => []
  | [a] => a
  | a :: r => a ++ [59] ++ join_semi r
  end.
Definition csv_line (p : list rvalue) : list N := join_semi (map csv_value p) ++ [10].
Definition csv_body (pts : list (list rvalue)) : list N := flat_map csv_line pts.

End Oracles.

(** * e57-check-crc on one file: exit status 0 iff [validate_crc] returns Ok;
    on a directory: iff all files do ([Iterator::all] stops at the first
    failure, which does not change the status). *)
Definition check_crc_file (phys : list N) : bool :=
  is_ok (snd (FileBin.validate_crc (dev_init phys None))).
Definition check_crc_files (files : list (list N)) : bool := forallb check_crc_file files.

(** * e57-extract-xml: (exit status 0?, bytes on stdout) *)
Definition extract_xml_tool (phys : list N) : bool * list N :=
  match snd (ReaderOpen.raw_xml (dev_init phys None)) with
  | Ok xml => (true, xml)
  | _ => (false, [])
  end.
