(** Mirror of everything the crate extracts from a parsed XML document:
    xml.rs (opt_string, req_string, opt_num and its instances, opt_date_time,
    opt_transform), root.rs (root_from_document), pointcloud.rs
    (vec_from_document, from_node), record.rs (RecordName::from_namespace_and_tag_name,
    RecordDataType::from_node, optional_attribute), bounds.rs, limits.rs,
    transform.rs, date_time.rs, extension.rs (vec_from_document), blob.rs
    (from_node, from_parent_node), images.rs (all from_node functions) and the
    order in which E57Reader::new runs them.

    Errors are the crate's variants (Invalid / NotImplemented); the only place
    where Rust can panic is [Document::root_element] (an [expect]).

    State of the crate mirrored: with the repairs of the three C18 findings - [xml::is_tag]
    (namespace-aware element lookups), [xml::text] (all text children), e57Root = the root
    element, data3D / images2D / limit values looked up among children only.

    Integers ([str::parse] for i64 / u64 / u32) are modelled exactly.  Floats
    ([str::parse] for f64 / f32) are an ORACLE: the section variables
    [parse_f64] / [parse_f32] map a text to the bit pattern of the result or to
    [None]; nothing is assumed about them.  A float read from the document is
    stored with its source text; a float the crate makes up (defaults) has the
    text [[]].  The one float computation of the extractors, the default pixel
    size of a spherical image, (2.0 * PI) / width as f64, is a third section
    variable [fdiv], instantiated with Flocq's division in [extract_all_impl].

    No proofs here. *)
From Coq Require Import Strings.String.
From Coq Require Import List.
From E57 Require Import Base.Prelude Base.Floats Model.Record Model.Meta Model.MetaFile Model.XmlTree.

(** names are written as string literals and turned into byte lists when the definition is
    elaborated, so that the extracted code contains plain lists (and no Coq [String] module,
    which would shadow OCaml's) *)
Local Notation "'B' s" := (ltac:(let v := eval vm_compute in (bytes_of_string s%string) in exact v))
  (at level 0, s at level 0, only parsing).

Local Notation "'do' x <- m ; k" := (res_bind m (fun x => k))
  (at level 200, x pattern, m at level 100, k at level 200).

(** * Integers as [core::num::from_str_radix(_, 10)] reads them

    empty -> error; a lone sign -> error; one leading '+' is accepted by every
    type, one leading '-' only by signed types (for an unsigned type it is an
    invalid digit); then one or more ASCII digits, nothing else; a value outside
    the type's range is an error (also when only an intermediate value
    overflows, which for a decimal string happens exactly when the final value
    does).  No white space, no underscores. *)

Definition digit_val (b : N) : option Z :=
  if (48 <=? b) && (b <=? 57) then Some (Z.of_N (b - 48)) else None.

Fixpoint parse_digits (neg : bool) (lo hi : Z) (acc : Z) (s : xstr) : option Z :=
  match s with
  | [] => Some acc
  | b :: r =>
      match digit_val b with
      | None => None
      | Some d =>
          let acc' := (if neg then acc * 10 - d else acc * 10 + d)%Z in
          if ((lo <=? acc') && (acc' <=? hi))%Z then parse_digits neg lo hi acc' r else None
      end
  end.

Definition parse_int (signed : bool) (lo hi : Z) (s : xstr) : option Z :=
  match s with
  | [] => None
  | [43] => None
  | [45] => None
  | 43 :: r => parse_digits false lo hi 0%Z r
  | 45 :: r => if signed then parse_digits true lo hi 0%Z r else None
  | _ => parse_digits false lo hi 0%Z s
  end.

Definition parse_i64 : xstr -> option Z := parse_int true (- 2 ^ 63)%Z (2 ^ 63 - 1)%Z.
Definition parse_u64 : xstr -> option Z := parse_int false 0%Z (2 ^ 64 - 1)%Z.
Definition parse_u32 : xstr -> option Z := parse_int false 0%Z (2 ^ 32 - 1)%Z.

(** * [str::trim() == "1"] (date_time.rs)

    [trim] removes leading and trailing characters with the Unicode property
    White_Space: U+0009..U+000D, U+0020, U+0085, U+00A0, U+1680, U+2000..U+200A,
    U+2028, U+2029, U+202F, U+205F, U+3000 (here on their UTF-8 encodings). *)
Definition strip_ws1 (s : xstr) : option xstr :=
  match s with
  | b :: r =>
      if ((9 <=? b) && (b <=? 13)) || (b =? 32) then Some r else
      match s with
      | 194 :: 133 :: r2 => Some r2
      | 194 :: 160 :: r2 => Some r2
      | 225 :: 154 :: 128 :: r3 => Some r3
      | 226 :: 128 :: c :: r3 =>
          if ((128 <=? c) && (c <=? 138)) || (c =? 168) || (c =? 169) || (c =? 175) then Some r3 else None
      | 226 :: 129 :: 159 :: r3 => Some r3
      | 227 :: 128 :: 128 :: r3 => Some r3
      | _ => None
      end
  | [] => None
  end.

Fixpoint strip_ws (fuel : nat) (s : xstr) : xstr :=
  match fuel with
  | O => s
  | S f => match strip_ws1 s with Some r => strip_ws f r | None => s end
  end.

Definition trim_is_one (s : xstr) : bool :=
  match strip_ws (length s) s with
  | 49 :: r => match strip_ws (length r) r with [] => true | _ => false end
  | _ => false
  end.

(** * Names *)
Definition TYPE : xstr := B"type".
Definition ZERO_TEXT : xstr := B"0".

Definition attr_is (a v : xstr) (n : xnode) : bool :=
  match attribute a n with Some x => xstr_eqb x v | None => false end.

(** xml.rs: [const E57_NAMESPACE] *)
Definition E57_NAMESPACE : xstr := B"http://www.astm.org/COMMIT/E57/2010-e57-v1.0".
Definition is_empty (s : xstr) : bool := match s with [] => true | _ => false end.

(** [xml::is_tag(node, name)]: the local name matches and the element has no namespace or the
    E57 namespace; elements of other namespaces are never standard elements *)
Definition std_ns (n : xnode) : bool :=
  match n with
  | XElem nm _ _ _ => match xn_ns nm with
                      | Some u => is_empty u || xstr_eqb u E57_NAMESPACE
                      | None => true
                      end
  | _ => false
  end.
Definition is_tag (name : xstr) (n : xnode) : bool := has_tag_name name n && std_ns n.

(** [xml::text(node)]: all direct text children concatenated in document order, [None] when
    there is no text child *)
Fixpoint cat_texts (l : list xnode) : xstr :=
  match l with
  | [] => []
  | XText t :: r => t ++ cat_texts r
  | _ :: r => cat_texts r
  end.
Definition is_text_node (n : xnode) : bool := match n with XText _ => true | _ => false end.
Definition elem_text (n : xnode) : option xstr :=
  if existsb is_text_node (children n) then Some (cat_texts (children n)) else None.

(** [parent.children().find(|n| is_tag(n, name))] *)
Definition find_child (name : xstr) (n : xnode) : option xnode :=
  find (is_tag name) (children n).
(** [.find(|n| is_tag(n, name) && n.attribute("type") == Some(ty))] *)
Definition find_child_typed (name ty : xstr) (n : xnode) : option xnode :=
  find (fun c => is_tag name c && attr_is TYPE ty c) (children n).

(** [Some(document.root_element()).filter(|n| is_tag(n, "e57Root"))]; [root_element] is an
    [expect]: a document without root element (never produced by the parser) panics *)
Definition e57_root (d : xdoc) : res (option xnode) :=
  match root_element d with
  | Some r => Ok (if is_tag (B"e57Root") r then Some r else None)
  | None => Panic
  end.

Definition opt_text (dflt : xstr) (n : xnode) : xstr :=
  match elem_text n with Some t => t | None => dflt end.

Definition invalid_err {A} (o : option A) : res A :=
  match o with Some a => Ok a | None => Err EInvalid end.

(** the type attribute check shared by opt_string / opt_num / opt_date_time *)
Definition check_type (expected : xstr) (tag : xnode) : res unit :=
  match attribute TYPE tag with
  | Some found => if xstr_eqb found expected then Ok tt else Err EInvalid
  | None => Err EInvalid
  end.

(** [if let Some(c) = o { f(c) } else { d }] *)
Definition opt_case {A} (o : option xnode) (f : xnode -> A) (d : A) : A :=
  match o with Some c => f c | None => d end.

(** [let c = o.invalid_err(..)?; k(c)] *)
Definition req_node {A} (o : option xnode) (k : xnode -> res A) : res A :=
  opt_case o k (Err EInvalid).

Definition opt_bind {A} (o : option xnode) (f : xnode -> res (option A)) : res (option A) :=
  opt_case o f (Ok None).

(** [optional node -> Option<from_node(node)?>] *)
Definition opt_node {A} (o : option xnode) (f : xnode -> res A) : res (option A) :=
  opt_case o (fun c => do a <- f c; Ok (Some a)) (Ok None).

Section Extract.
Variable parse_f64 : xstr -> option N.
Variable parse_f32 : xstr -> option N.
(** [fdiv c v]: the bits of [f64::from_bits(c) / (v as f64)] for [v : u32]; the only float
    arithmetic of the extractors (default pixel size of spherical images).  The theorems hold for
    any function; the tie instantiates it with Flocq's division ([f64_div_u32_bits] below). *)
Variable fdiv : N -> Z -> N.

Definition f64_parsed (t : xstr) : option f64t :=
  match parse_f64 t with Some b => Some (mkF64 b t) | None => None end.
Definition f32_parsed (t : xstr) : option f32t :=
  match parse_f32 t with Some b => Some (mkF32 b t) | None => None end.
Definition f64_const (bits : N) : f64t := mkF64 bits [].

(** * xml.rs *)

Definition opt_string (n : xnode) (name : xstr) : res (option xstring) :=
  opt_bind (find_child name n) (fun tag =>
    do _ <- check_type (B"String") tag;
    Ok (Some (opt_text [] tag))).

Definition req_string (n : xnode) (name : xstr) : res xstring :=
  do o <- opt_string n name; invalid_err o.

(** [opt_num::<T>]: [parse] is [str::parse::<T>] *)
Definition opt_num {T} (parse : xstr -> option T) (n : xnode) (name expected : xstr) : res (option T) :=
  opt_bind (find_child name n) (fun tag =>
    do _ <- check_type expected tag;
    match parse (opt_text ZERO_TEXT tag) with
    | Some v => Ok (Some v)
    | None => Err EInvalid
    end).

Definition opt_f64 (n : xnode) (name : xstr) : res (option f64t) := opt_num f64_parsed n name (B"Float").
Definition req_f64 (n : xnode) (name : xstr) : res f64t :=
  do o <- opt_f64 n name; invalid_err o.
Definition opt_int (parse : xstr -> option Z) (n : xnode) (name : xstr) : res (option Z) :=
  opt_num parse n name (B"Integer").
Definition req_int (parse : xstr -> option Z) (n : xnode) (name : xstr) : res Z :=
  do o <- opt_int parse n name; invalid_err o.

(** * date_time.rs *)
Definition date_time_from_node (n : xnode) : res (option date_time) :=
  req_node (find_child_typed (B"dateTimeValue") (B"Float") n) (fun v =>
  match elem_text v with
  | None => Ok None
  | Some text =>
      do gps <- invalid_err (f64_parsed text);
      opt_case (find_child_typed (B"isAtomicClockReferenced") (B"Integer") n)
        (fun a => Ok (Some (mkDateTime gps (trim_is_one (opt_text ZERO_TEXT a)))))
        (Ok None)
  end).

Definition opt_date_time (n : xnode) (name : xstr) : res (option date_time) :=
  opt_bind (find_child name n) (fun tag =>
    do _ <- check_type (B"Structure") tag;
    date_time_from_node tag).

(** * transform.rs *)
Definition translation_from_node (n : xnode) : res (f64t * f64t * f64t) :=
  do x <- req_f64 n (B"x"); do y <- req_f64 n (B"y"); do z <- req_f64 n (B"z");
  Ok (x, y, z).
Definition quaternion_from_node (n : xnode) : res (f64t * f64t * f64t * f64t) :=
  do w <- req_f64 n (B"w"); do x <- req_f64 n (B"x"); do y <- req_f64 n (B"y"); do z <- req_f64 n (B"z");
  Ok (w, x, y, z).

Definition transform_from_node (n : xnode) : res transform :=
  do t <- opt_case (find_child (B"translation") n) translation_from_node
            (Ok (f64_const 0, f64_const 0, f64_const 0));
  do r <- opt_case (find_child (B"rotation") n) quaternion_from_node
            (Ok (f64_const f64_one_bits, f64_const 0, f64_const 0, f64_const 0));
  let '(tx, ty, tz) := t in
  let '(rw, rx, ry, rz) := r in
  Ok (mkTransform rw rx ry rz tx ty tz).

Definition opt_transform (n : xnode) (name : xstr) : res (option transform) :=
  opt_node (find_child name n) transform_from_node.

(** * bounds.rs *)
Definition cartesian_bounds_from_node (n : xnode) : res cartesian_bounds :=
  do a <- opt_f64 n (B"xMinimum"); do b <- opt_f64 n (B"xMaximum");
  do c <- opt_f64 n (B"yMinimum"); do d <- opt_f64 n (B"yMaximum");
  do e <- opt_f64 n (B"zMinimum"); do f <- opt_f64 n (B"zMaximum");
  Ok (mkCb a b c d e f).
Definition spherical_bounds_from_node (n : xnode) : res spherical_bounds :=
  do a <- opt_f64 n (B"rangeMinimum"); do b <- opt_f64 n (B"rangeMaximum");
  do c <- opt_f64 n (B"elevationMinimum"); do d <- opt_f64 n (B"elevationMaximum");
  do e <- opt_f64 n (B"azimuthStart"); do f <- opt_f64 n (B"azimuthEnd");
  Ok (mkSb a b c d e f).
Definition index_bounds_from_node (n : xnode) : res index_bounds :=
  do a <- opt_int parse_i64 n (B"rowMinimum"); do b <- opt_int parse_i64 n (B"rowMaximum");
  do c <- opt_int parse_i64 n (B"columnMinimum"); do d <- opt_int parse_i64 n (B"columnMaximum");
  do e <- opt_int parse_i64 n (B"returnMinimum"); do f <- opt_int parse_i64 n (B"returnMaximum");
  Ok (mkIb a b c d e f).

(** * limits.rs *)
Definition extract_limit (bounds : xnode) (name : xstr) : res (option limit_value) :=
  opt_bind (find_child name bounds) (fun tag =>
    do ty <- invalid_err (attribute TYPE tag);
    let value := opt_text ZERO_TEXT tag in
    if xstr_eqb ty (B"Integer") then
      do v <- invalid_err (parse_i64 value); Ok (Some (LInteger v))
    else if xstr_eqb ty (B"ScaledInteger") then
      do v <- invalid_err (parse_i64 value); Ok (Some (LScaledInteger v))
    else if xstr_eqb ty (B"Float") then
      let prec := match attribute (B"precision") tag with Some p => p | None => B"double" end in
      if xstr_eqb prec (B"single") then
        do v <- invalid_err (f32_parsed value); Ok (Some (LSingle v))
      else
        do v <- invalid_err (f64_parsed value); Ok (Some (LDouble v))
    else Err ENotImpl).

Definition intensity_limits_from_node (n : xnode) : res intensity_limits :=
  do a <- extract_limit n (B"intensityMinimum"); do b <- extract_limit n (B"intensityMaximum");
  Ok (mkIl a b).
Definition color_limits_from_node (n : xnode) : res color_limits :=
  do a <- extract_limit n (B"colorRedMinimum"); do b <- extract_limit n (B"colorRedMaximum");
  do c <- extract_limit n (B"colorGreenMinimum"); do d <- extract_limit n (B"colorGreenMaximum");
  do e <- extract_limit n (B"colorBlueMinimum"); do f <- extract_limit n (B"colorBlueMaximum");
  Ok (mkCl a b c d e f).

(** * record.rs *)
Definition record_name_table : list (xstr * record_name) :=
  [ (B"cartesianX", CartesianX); (B"cartesianY", CartesianY); (B"cartesianZ", CartesianZ);
    (B"cartesianInvalidState", CartesianInvalidState);
    (B"sphericalRange", SphericalRange); (B"sphericalAzimuth", SphericalAzimuth);
    (B"sphericalElevation", SphericalElevation); (B"sphericalInvalidState", SphericalInvalidState);
    (B"intensity", Intensity); (B"isIntensityInvalid", IsIntensityInvalid);
    (B"colorRed", ColorRed); (B"colorGreen", ColorGreen); (B"colorBlue", ColorBlue);
    (B"isColorInvalid", IsColorInvalid);
    (B"rowIndex", RowIndex); (B"columnIndex", ColumnIndex);
    (B"returnCount", ReturnCount); (B"returnIndex", ReturnIndex);
    (B"timeStamp", TimeStamp); (B"isTimeStampInvalid", IsTimeStampInvalid) ].

(** [RecordName::from_namespace_and_tag_name]: the namespace PREFIX is only used for unknown names *)
Definition record_name_of (prefix : option xstr) (tag : xstr) : record_name :=
  match find (fun p => xstr_eqb (fst p) tag) record_name_table with
  | Some p => snd p
  | None => Unknown (match prefix with Some p => p | None => [] end) tag
  end.

(** [optional_attribute::<T>] *)
Definition optional_attribute {T} (parse : xstr -> option T) (n : xnode) (a : xstr) : res (option T) :=
  match attribute a n with
  | Some v => do x <- invalid_err (parse v); Ok (Some x)
  | None => Ok None
  end.

Definition i64_MIN : Z := (- 2 ^ 63)%Z.
Definition i64_MAX : Z := (2 ^ 63 - 1)%Z.
Definition dflt {A} (o : option A) (d : A) : A := match o with Some a => a | None => d end.

Definition data_type_from_node (n : xnode) : res data_type :=
  do ty <- invalid_err (attribute TYPE n);
  if xstr_eqb ty (B"Float") then
    let prec := match attribute (B"precision") n with Some p => p | None => B"double" end in
    if xstr_eqb prec (B"double") then
      do mn <- optional_attribute f64_parsed n (B"minimum");
      do mx <- optional_attribute f64_parsed n (B"maximum");
      Ok (DDouble mn mx)
    else if xstr_eqb prec (B"single") then
      do mn <- optional_attribute f32_parsed n (B"minimum");
      do mx <- optional_attribute f32_parsed n (B"maximum");
      Ok (DSingle mn mx)
    else Err EInvalid
  else if xstr_eqb ty (B"Integer") then
    do mn <- optional_attribute parse_i64 n (B"minimum");
    do mx <- optional_attribute parse_i64 n (B"maximum");
    let mn := dflt mn i64_MIN in let mx := dflt mx i64_MAX in
    if (mx <? mn)%Z then Err EInvalid else Ok (DInteger mn mx)
  else if xstr_eqb ty (B"ScaledInteger") then
    do mn <- optional_attribute parse_i64 n (B"minimum");
    do mx <- optional_attribute parse_i64 n (B"maximum");
    let mn := dflt mn i64_MIN in let mx := dflt mx i64_MAX in
    if (mx <? mn)%Z then Err EInvalid else
    do sc <- optional_attribute f64_parsed n (B"scale");
    do off <- optional_attribute f64_parsed n (B"offset");
    Ok (DScaledInteger mn mx (dflt sc (f64_const f64_one_bits)) (dflt off (f64_const 0)))
  else Err ENotImpl.


(** one iteration of the prototype loop of [PointCloud::from_node] (element children only):
    only elements without namespace or in the E57 namespace can be standard attributes *)
Definition record_from_node (n : xnode) : res record :=
  match n with
  | XElem nm _ _ _ =>
      let uri := match xn_ns nm with Some u => u | None => [] end in
      let prefix := lookup_prefix uri n in
      let name :=
        if is_empty uri || xstr_eqb uri E57_NAMESPACE
        then record_name_of prefix (xn_local nm)
        else Unknown (match prefix with Some p => p | None => [] end) (xn_local nm) in
      do dt <- data_type_from_node n;
      Ok (mkRecord name dt)
  | _ => Err EInternal (* not reached: callers filter with [is_element] *)
  end.

(** [for x in l { out.push(f(x)?) }] *)
Fixpoint map_res {A C} (f : A -> res C) (l : list A) : res (list C) :=
  match l with
  | [] => Ok []
  | x :: r => do y <- f x; do ys <- map_res f r; Ok (y :: ys)
  end.

(** * blob.rs *)
Definition blob_from_node (n : xnode) : res blob :=
  if negb (attr_is TYPE (B"Blob") n) then Err EInvalid else
  do o <- invalid_err (attribute (B"fileOffset") n);
  do off <- invalid_err (parse_u64 o);
  do l <- invalid_err (attribute (B"length") n);
  do ln <- invalid_err (parse_u64 l);
  Ok (mkBlob (Z.to_N off) (Z.to_N ln)).

Definition blob_from_parent_node (name : xstr) (parent : xnode) : res (option blob) :=
  opt_node (find_child name parent) blob_from_node.

(** * pointcloud.rs *)
Definition is_vector_child (ty : xstr) (n : xnode) : bool :=
  is_tag (B"vectorChild") n && attr_is TYPE ty n.

Definition original_guids_of (n : xnode) : list xstring :=
  map (opt_text []) (filter (fun c => is_element c && is_vector_child (B"String") c) (children n)).

Definition original_guids_from_node (n : xnode) : option (list xstring) :=
  opt_case (find_child (B"originalGuids") n) (fun og => Some (original_guids_of og)) None.

(** the [points] child: fileOffset, recordCount and the prototype *)
Definition prototype_records (proto_tag : xnode) : res (list record) :=
  map_res record_from_node (filter is_element (children proto_tag)).

Definition points_from_node (n : xnode) : res (Z * Z * list record) :=
  req_node (find_child_typed (B"points") (B"CompressedVector") n) (fun points =>
  do fo <- invalid_err (attribute (B"fileOffset") points);
  do file_offset <- invalid_err (parse_u64 fo);
  do rc <- invalid_err (attribute (B"recordCount") points);
  do records <- invalid_err (parse_u64 rc);
  req_node (find_child_typed (B"prototype") (B"Structure") points) (fun proto_tag =>
  do prototype <- prototype_records proto_tag;
  Ok (file_offset, records, prototype))).

Definition pointcloud_from_node (n : xnode) : res pointcloud :=
  do guid <- opt_string n (B"guid");
  do name <- opt_string n (B"name");
  do description <- opt_string n (B"description");
  do sensor_model <- opt_string n (B"sensorModel");
  do sensor_vendor <- opt_string n (B"sensorVendor");
  do sensor_serial <- opt_string n (B"sensorSerialNumber");
  do sensor_hw <- opt_string n (B"sensorHardwareVersion");
  do sensor_sw <- opt_string n (B"sensorSoftwareVersion");
  do sensor_fw <- opt_string n (B"sensorFirmwareVersion");
  do temperature <- opt_f64 n (B"temperature");
  do humidity <- opt_f64 n (B"relativeHumidity");
  do pressure <- opt_f64 n (B"atmosphericPressure");
  do acq_start <- opt_date_time n (B"acquisitionStart");
  do acq_end <- opt_date_time n (B"acquisitionEnd");
  do transform <- opt_transform n (B"pose");
  let original_guids := original_guids_from_node n in
  do pts <- points_from_node n;
  let '(file_offset, records, prototype) := pts in
  do cb <- opt_node (find_child (B"cartesianBounds") n) cartesian_bounds_from_node;
  do sb <- opt_node (find_child (B"sphericalBounds") n) spherical_bounds_from_node;
  do ib <- opt_node (find_child (B"indexBounds") n) index_bounds_from_node;
  do il <- opt_node (find_child (B"intensityLimits") n) intensity_limits_from_node;
  do cl <- opt_node (find_child (B"colorLimits") n) color_limits_from_node;
  Ok (mkPointCloud guid (Z.to_N file_offset) (Z.to_N records) prototype original_guids name description
        cb sb ib il cl transform acq_start acq_end
        sensor_vendor sensor_model sensor_serial sensor_hw sensor_sw sensor_fw
        temperature humidity pressure).

(** [vec_from_document] of pointcloud.rs and images.rs *)
Definition vec_from_document {A} (tag : xstr) (from_node : xnode -> res A) (d : xdoc) : res (list A) :=
  do root <- e57_root d;
  opt_case (opt_case root (fun r => find_child tag r) None)
    (fun v => map_res from_node (filter (is_vector_child (B"Structure")) (children v)))
    (Ok []).

Definition pointclouds_from_document : xdoc -> res (list pointcloud) :=
  vec_from_document (B"data3D") pointcloud_from_node.

(** * images.rs *)
Definition image_blob_from_rep_node (n : xnode) : res image_blob :=
  opt_case (find_child (B"jpegImage") n)
    (fun c => do b <- blob_from_node c; Ok (mkImageBlob b Jpeg))
    (opt_case (find_child (B"pngImage") n)
       (fun c => do b <- blob_from_node c; Ok (mkImageBlob b Png))
       (Err EInvalid)).

Definition visual_reference_from_node (n : xnode) : res visual_reference :=
  do b <- image_blob_from_rep_node n;
  do m <- blob_from_parent_node (B"imageMask") n;
  do w <- req_int parse_u32 n (B"imageWidth");
  do h <- req_int parse_u32 n (B"imageHeight");
  Ok (mkVisRef b m (Z.to_N w) (Z.to_N h)).

Definition pinhole_from_node (n : xnode) : res pinhole :=
  do b <- image_blob_from_rep_node n;
  do m <- blob_from_parent_node (B"imageMask") n;
  do w <- req_int parse_u32 n (B"imageWidth");
  do h <- req_int parse_u32 n (B"imageHeight");
  do fl <- req_f64 n (B"focalLength");
  do pw <- req_f64 n (B"pixelWidth");
  do ph <- req_f64 n (B"pixelHeight");
  do px <- req_f64 n (B"principalPointX");
  do py <- req_f64 n (B"principalPointY");
  Ok (mkPinhole b m (Z.to_N w) (Z.to_N h) fl pw ph px py).

(** 2.0 * PI (constant-folded: one exact doubling) and PI as f64 *)
Definition TWO_PI_bits : N := 0x401921FB54442D18.
Definition PI_bits : N := 0x400921FB54442D18.
(** [c / (v as f64)] for v : u32 *)
Definition f64_div_u32 (c : N) (v : Z) : f64t := f64_const (fdiv c v).

Definition spherical_from_node (n : xnode) : res spherical_image :=
  do w <- req_int parse_u32 n (B"imageWidth");
  do h <- req_int parse_u32 n (B"imageHeight");
  do b <- image_blob_from_rep_node n;
  do m <- blob_from_parent_node (B"imageMask") n;
  do pw <- opt_f64 n (B"pixelWidth");
  do ph <- opt_f64 n (B"pixelHeight");
  Ok (mkSphImg b m (Z.to_N w) (Z.to_N h)
        (dflt pw (f64_div_u32 TWO_PI_bits w)) (dflt ph (f64_div_u32 PI_bits h))).

Definition cylindrical_from_node (n : xnode) : res cylindrical_image :=
  do b <- image_blob_from_rep_node n;
  do m <- blob_from_parent_node (B"imageMask") n;
  do w <- req_int parse_u32 n (B"imageWidth");
  do h <- req_int parse_u32 n (B"imageHeight");
  do r <- req_f64 n (B"radius");
  do py <- req_f64 n (B"principalPointY");
  do pw <- req_f64 n (B"pixelWidth");
  do ph <- req_f64 n (B"pixelHeight");
  Ok (mkCylImg b m (Z.to_N w) (Z.to_N h) r py pw ph).

Definition projection_from_image_node (n : xnode) : res (option projection) :=
  opt_case (find_child (B"pinholeRepresentation") n)
    (fun c => do p <- pinhole_from_node c; Ok (Some (PPinhole p)))
  (opt_case (find_child (B"sphericalRepresentation") n)
    (fun c => do p <- spherical_from_node c; Ok (Some (PSpherical p)))
  (opt_case (find_child (B"cylindricalRepresentation") n)
    (fun c => do p <- cylindrical_from_node c; Ok (Some (PCylindrical p)))
    (Ok None))).

Definition image_from_node (n : xnode) : res image :=
  do guid <- opt_string n (B"guid");
  do pc_guid <- opt_string n (B"associatedData3DGuid");
  do transform <- opt_transform n (B"pose");
  do name <- opt_string n (B"name");
  do description <- opt_string n (B"description");
  do sensor_model <- opt_string n (B"sensorModel");
  do sensor_vendor <- opt_string n (B"sensorVendor");
  do sensor_serial <- opt_string n (B"sensorSerialNumber");
  do acquisition <- opt_date_time n (B"acquisitionDateTime");
  do projection <- projection_from_image_node n;
  do vr <- opt_node (find_child (B"visualReferenceRepresentation") n) visual_reference_from_node;
  Ok (mkImage guid vr projection transform pc_guid name description acquisition
        sensor_vendor sensor_model sensor_serial).

Definition images_from_document : xdoc -> res (list image) :=
  vec_from_document (B"images2D") image_from_node.

(** * root.rs (versionMajor is read twice, as the code does) *)
Definition root_from_document (d : xdoc) : res root :=
  do root <- e57_root d;
  req_node root (fun r =>
  do format <- req_string r (B"formatName");
  do guid <- req_string r (B"guid");
  do major <- req_int parse_i64 r (B"versionMajor");
  do minor <- req_int parse_i64 r (B"versionMajor");
  do creation <- opt_date_time r (B"creationDateTime");
  do cm <- opt_string r (B"coordinateMetadata");
  do lv <- opt_string r (B"e57LibraryVersion");
  Ok (mkRoot format guid major minor lv creation cm)).

(** * extension.rs: the prefixed namespaces in scope at the root element *)
Definition extensions_of_scope (scope : list xnsdecl) : list extension :=
  flat_map (fun d => match xns_prefix d with
                     | Some p => [mkExtension p (xns_uri d)]
                     | None => []
                     end) scope.

Definition extensions_from_document (d : xdoc) : res (list extension) :=
  match root_element d with
  | Some (XElem _ _ scope _) => Ok (extensions_of_scope scope)
  | _ => Panic   (* [Document::root_element] is an [expect] *)
  end.

(** * e57_reader.rs: E57Reader::new after [Document::parse] *)
Definition extract_all (d : xdoc) : res file_meta :=
  do r <- root_from_document d;
  do pcs <- pointclouds_from_document d;
  do imgs <- images_from_document d;
  do exts <- extensions_from_document d;
  Ok (mkFileMeta r exts pcs imgs).

End Extract.

(** IEEE-754 division, round to nearest even, of the constant by the exactly converted integer *)
Definition f64_div_u32_bits (c : N) (v : Z) : N :=
  bits_of_f64 (f64_div (f64_of_bits c) (f64_of_Z v)).

(** [extract_all] as the crate computes it, given the two float parsers *)
Definition extract_all_impl (parse_f64 parse_f32 : xstr -> option N) : xdoc -> res file_meta :=
  extract_all parse_f64 parse_f32 f64_div_u32_bits.
