(** Everything the XML of one file carries, in the shape [E57Writer] holds it
    before [serialize_root] and [E57Reader] holds it after extraction: the
    shared interface between the writer-API model, the XML generator and the
    XML extractors.  No proofs here. *)
From E57 Require Import Base.Prelude Model.Meta.

Record file_meta := mkFileMeta {
  fm_root : root;
  fm_extensions : list extension;
  fm_pointclouds : list pointcloud;
  fm_images : list image
}.
