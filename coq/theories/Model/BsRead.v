(** Model of src/bs_read.rs ([ByteStreamReadBuffer]).  No proofs here. *)
From E57 Require Import Base.Prelude.

Record bsr := mkBsr {
  br_buf : list N;
  br_off : N              (* bit offset into br_buf *)
}.

Definition bsr_new : bsr := mkBsr [] 0.

Definition bsr_append (s : bsr) (data : list N) : res bsr :=
  let consumed := br_off s / 8 in
  if len (br_buf s) <? consumed then Panic                   (* buffer.len() - consumed_bytes *)
  else Ok (mkBsr (drop consumed (br_buf s) ++ data) (br_off s - consumed * 8)).

Definition bsr_available (s : bsr) : res N :=
  if len (br_buf s) * 8 <? br_off s then Panic else Ok (len (br_buf s) * 8 - br_off s).

(** [extract(bits)]: [Ok None] when not enough bits are available. *)
Definition bsr_extract (s : bsr) (bits : N) : res (bsr * option N) :=
  match bsr_available s with
  | Ok av =>
      if av <? bits then Ok (s, None) else
      let start_offset := br_off s / 8 in
      let end_offset := (br_off s + bits + 7) / 8 in
      let offset := br_off s mod 8 in
      let data_len := end_offset - start_offset in
      if 16 <? data_len then Panic else                      (* &mut data[..data_len] *)
      if len (br_buf s) <? end_offset then Panic else        (* &self.buffer[start..end] *)
      let window := slice start_offset data_len (br_buf s) in
      let v := N.shiftr (le_num window) offset mod 2 ^ 64 in (* u128 >> offset, as u64 *)
      Ok (mkBsr (br_buf s) (br_off s + bits), Some v)
  | Err k => Err k
  | Panic => Panic
  end.
