(** Model of the binary (non-XML) side of the file level: src/header.rs,
    src/blob.rs, the binary steps of src/e57_writer.rs and src/e57_reader.rs.
    The XML text is an input here (it is modelled in the XML layer).
    No proofs here. *)
From E57 Require Import Base.Prelude Model.Device Model.PagedWriter Model.PagedReader
  Model.Record Model.Prog Model.PcWriter Model.QueueReader.
Local Open Scope monad_scope.

(** * Header *)
Definition SIGNATURE : list N := [65; 83; 84; 77; 45; 69; 53; 55].   (* "ASTM-E57" *)

(** the seven [write_all] calls of [Header::write] *)
Definition header_fields (phys_length xml_offset xml_length : N) : list (list N) :=
  [SIGNATURE; le_bytes 4 1; le_bytes 4 0; le_bytes 8 phys_length; le_bytes 8 xml_offset;
   le_bytes 8 xml_length; le_bytes 8 1024].
Definition header_write (phys_length xml_offset xml_length : N) : wprog unit :=
  wr_all (header_fields phys_length xml_offset xml_length).

Record header := mkHeader {
  h_major : N; h_minor : N; h_phys_length : N; h_xml_offset : N; h_xml_length : N; h_page_size : N
}.

(** [Header::read] on the raw device (not through the page layer). *)
Definition header_read : M dev header :=
  data <- relabel ERead (d_read_exact 48) ;;
  let h := mkHeader (le_num (slice 8 4 data)) (le_num (slice 12 4 data)) (le_num (slice 16 8 data))
                    (le_num (slice 24 8 data)) (le_num (slice 32 8 data)) (le_num (slice 40 8 data)) in
  if negb (if list_eq_dec N.eq_dec (take 8 data) SIGNATURE then true else false) then fail EInvalid else
  if negb (h_major h =? 1) then fail EInvalid else
  if negb (h_minor h =? 0) then fail EInvalid else
  if negb (h_page_size h =? 1024) then fail EInvalid else
  ret h.

(** * Blobs *)
Definition BLOB_HEADER_SIZE : N := 16.

Definition blob_write (data : list N) : wprog (N * N) :=
  (start <- w_position ;;
   wr (zeros 16) ;;;
   wr data ;;;
   end_offset <- w_position ;;
   w_seek start ;;;
   wr (zeros 8 ++ le_bytes 8 (((BLOB_HEADER_SIZE + len data + 3) / 4) * 4)) ;;;
   w_seek end_offset ;;;
   wrelabel EWrite w_align ;;;
   wret (start, len data))%wprog.

(** [io::copy] of a [Take]: single reads until the limit or end of file *)
Fixpoint copy_loop (fuel : nat) (want : N) (acc : list N) : rprog (list N) :=
  match fuel with
  | O => rret acc
  | S f =>
      if want =? 0 then rret acc else
      (got <- r_read ERead (N.min want 8192) ;;
       match got with
       | [] => rret acc
       | _ => copy_loop f (want - len got) (acc ++ got)
       end)%rprog
  end.

Definition U64_MAX : N := 2 ^ 64 - 1.

(** [Blob::read]; [log_size] bounds the fuel of the copy loop *)
Definition blob_read (log_size : N) (offset length : N) : rprog (list N) :=
  (r_seek offset ;;;
   b <- rd 16 ;;
   if negb (byte_at b 0 =? 0) then rfail EInvalid else
   let section_length := le_num (slice 8 8 b) in
   if N.min (section_length + 16) U64_MAX <? length then rfail EInvalid else
   data <- copy_loop (S (N.to_nat (N.min length log_size))) length [] ;;
   if negb (len data =? length) then rfail EInvalid else
   rret data)%rprog.

(** * Writer, binary side *)
Inductive item :=
| IBlob (data : list N)
| IPc (proto : list dtype) (points : list (list rvalue)).

(** what an item publishes for the XML: blob (offset, length) / point cloud (offset, records) *)
Inductive item_out :=
| OBlob (offset length : N)
| OPc (offset records : N).

Fixpoint add_points (points : list (list rvalue)) (w : pcw) : wprog pcw :=
  match points with
  | [] => wret w
  | p :: r => (w' <- pcw_add_point p w ;; add_points r w')%wprog
  end.

Definition item_write (i : item) : wprog item_out :=
  match i with
  | IBlob data => ('(o, l) <- blob_write data ;; wret (OBlob o l))%wprog
  | IPc proto points =>
      (w <- pcw_new proto ;;
       w1 <- add_points points w ;;
       '(_, o, n) <- pcw_finalize w1 ;;
       wret (OPc o n))%wprog
  end.

Fixpoint items_write (is : list item) : wprog (list item_out) :=
  match is with
  | [] => wret []
  | i :: r => (o <- item_write i ;; os <- items_write r ;; wret (o :: os))%wprog
  end.

(** [E57Writer::new] after [PagedWriter::new]: the placeholder header *)
Definition writer_init : wprog unit := header_write 0 0 0.

(** [finalize_customized_xml] once the XML text is known *)
Definition writer_finalize (xml : list N) : wprog unit :=
  (xml_offset <- w_position ;;
   wr xml ;;;
   phys_length <- w_size ;;
   w_seek 0 ;;;
   header_write phys_length xml_offset (len xml) ;;;
   w_flush)%wprog.

(** * Reader, binary side *)
Definition MAX_XML_SIZE : N := 1024 * 1024 * 10.

Definition extract_xml (offset length : N) : rprog (list N) :=
  if MAX_XML_SIZE <? length then rfail ENotImpl else
  (r_seek offset ;;; rd length)%rprog.

(** [E57Reader::new] up to and including the XML bytes *)
Definition reader_open (d : dev) : dev * res (pr * header * list N) :=
  let '(d1, r) := header_read d in
  match r with
  | Ok h =>
      let '(d2, r2) := pr_new (h_page_size h) d1 in
      match res_relabel ERead r2 with
      | Ok s =>
          let '(s1, r3) := rrun (extract_xml (h_xml_offset h) (h_xml_length h)) s in
          match r3 with
          | Ok xml => (pr_dev s1, Ok (s1, h, xml))
          | Err k => (pr_dev s1, Err k)
          | Panic => (pr_dev s1, Panic)
          end
      | Err k => (d2, Err k)
      | Panic => (d2, Panic)
      end
  | Err k => (d1, Err k)
  | Panic => (d1, Panic)
  end.

(** [get_u64]: seek + read_exact 8 on the raw device *)
Definition get_u64 (offset : N) : M dev N :=
  relabel ERead (d_seek_start offset) ;;;
  b <- relabel ERead (d_read_exact 8) ;;
  ret (le_num b).

(** the page loop of [validate_crc]: one buffer-sized read per iteration *)
Fixpoint validate_loop (fuel : nat) (page_size : N) : rprog unit :=
  match fuel with
  | O => rret tt
  | S f => (got <- r_read ERead page_size ;;
            match got with [] => rret tt | _ => validate_loop f page_size end)%rprog
  end.

(** [E57Reader::validate_crc] *)
Definition validate_crc (d : dev) : dev * res N :=
  let '(d1, r) := get_u64 40 d in
  match r with
  | Ok page_size =>
      let '(d2, r2) := pr_new page_size d1 in
      match res_relabel ERead r2 with
      | Ok s =>
          let '(s1, r3) := rrun (validate_loop (S (S (N.to_nat (pr_pages s)))) page_size) s in
          (pr_dev s1, res_map (fun _ => page_size) r3)
      | Err k => (d2, Err k)
      | Panic => (d2, Panic)
      end
  | Err k => (d1, Err k)
  | Panic => (d1, Panic)
  end.

(** [E57Reader::raw_xml] *)
Definition raw_xml (d : dev) : dev * res (list N) :=
  let '(d1, r1) := (ps <- get_u64 40 ;; xo <- get_u64 24 ;; xl <- get_u64 32 ;; ret (ps, xo, xl)) d in
  match r1 with
  | Ok (ps, xo, xl) =>
      let '(d2, r2) := pr_new ps d1 in
      match res_relabel ERead r2 with
      | Ok s => let '(s1, r3) := rrun (extract_xml xo xl) s in (pr_dev s1, r3)
      | Err k => (d2, Err k)
      | Panic => (d2, Panic)
      end
  | Err k => (d1, Err k)
  | Panic => (d1, Panic)
  end.
