(** The XML side plugged into the file-level specification: the section
    descriptors the decoder of Spec/FileSpec.v takes as a parameter are what
    the XML text says - parse it ([xml_parse]: well-formed, every prefix
    declared), extract the metadata ([extract_all]: the E57 vocabulary), and
    take the point clouds' (fileOffset, recordCount, prototype types) and the
    images' blob references.  Float parsing is an oracle parameter, as in
    Model/XmlExtract.v; the descriptors contain no floats.  No proofs here. *)
From E57 Require Import Base.Prelude Base.Floats Model.Record Model.Meta Model.MetaFile Model.XmlTree Model.XmlParse
  Model.XmlExtract Spec.FileSpec.

Definition pointcloud_descriptor (pc : pointcloud) : descriptor :=
  DPc (pc_file_offset pc) (pc_records pc) (map (fun r => dtype_of (r_type r)) (pc_prototype pc)).

Definition blob_descriptor (b : blob) : descriptor := DBlob (b_offset b) (b_length b).

Definition opt_list {A} (o : option A) : list A := match o with Some a => [a] | None => [] end.

(** data blob and mask of the visual reference, then of the projection *)
Definition image_blobs (im : image) : list blob :=
  match im_visual_reference im with
  | Some v => ib_data (vr_blob v) :: opt_list (vr_mask v)
  | None => []
  end ++
  match im_projection im with
  | Some (PPinhole p) => ib_data (ph_blob p) :: opt_list (ph_mask p)
  | Some (PSpherical s) => ib_data (si_blob s) :: opt_list (si_mask s)
  | Some (PCylindrical c) => ib_data (ci_blob c) :: opt_list (ci_mask c)
  | None => []
  end.

(** every binary section the metadata refers to: the point clouds in document order, then the
    blobs of the images in document order *)
Definition meta_descriptors (m : file_meta) : list descriptor :=
  map pointcloud_descriptor (fm_pointclouds m)
  ++ flat_map (fun im => map blob_descriptor (image_blobs im)) (fm_images m).

Section Dx.
Variable pf64 pf32 : xstr -> option N.
Variable fdiv : N -> Z -> N.

(** metadata of an XML text: it must parse (well-formed XML 1.0 with namespaces, every prefix
    declared - that is what [ParseOk] means) and carry the E57 vocabulary *)
Definition xml_meta (x : list N) : option file_meta :=
  match xml_parse x with
  | ParseOk d => match extract_all pf64 pf32 fdiv d with Ok m => Some m | _ => None end
  | _ => None
  end.

Definition dx_of (x : list N) : option (list descriptor) :=
  match xml_meta x with Some m => Some (meta_descriptors m) | None => None end.

Definition dx_total (x : list N) : list descriptor :=
  match dx_of x with Some l => l | None => [] end.

(** ** The value of a prototype element lies within the element's own limits

    The text of an Integer / ScaledInteger / Float element is its value; in a prototype it is
    a sample value and, like every value of that element, has to lie within [minimum, maximum]
    of the same element where these are declared (an implementation that builds typed nodes from
    the XML rejects the file otherwise).  Read from the parsed tree: the extractors of the
    crate's reader ignore this text.  An absent text is the value 0; absent integer limits are
    the i64 range, absent float limits do not bound; floats are compared as floats (a NaN
    limit or value is never in bounds). *)
Definition S_PROTOTYPE : xstr := [112;114;111;116;111;116;121;112;101].
Definition S_TYPE_ : xstr := [116;121;112;101].
Definition S_INTEGER : xstr := [73;110;116;101;103;101;114].
Definition S_SCALED : xstr := [83;99;97;108;101;100;73;110;116;101;103;101;114].
Definition S_FLOAT : xstr := [70;108;111;97;116].
Definition S_MINIMUM : xstr := [109;105;110;105;109;117;109].
Definition S_MAXIMUM : xstr := [109;97;120;105;109;117;109].
Definition S_PRECISION : xstr := [112;114;101;99;105;115;105;111;110].
Definition S_SINGLE : xstr := [115;105;110;103;108;101].

Definition le64 (a b : N) : bool := f64_le (f64_of_bits a) (f64_of_bits b).
Definition le32 (a b : N) : bool := f32_le (f32_of_bits a) (f32_of_bits b).

(** parse what is there, take the default for what is absent *)
Definition opt_parse {A} (p : xstr -> option A) (o : option xstr) (d : A) : option A :=
  match o with Some t => p t | None => Some d end.

Definition int_value_ok (n : xnode) : bool :=
  match opt_parse parse_i64 (node_text n) 0%Z,
        opt_parse parse_i64 (attribute S_MINIMUM n) i64_MIN,
        opt_parse parse_i64 (attribute S_MAXIMUM n) i64_MAX with
  | Some v, Some mn, Some mx => ((mn <=? v) && (v <=? mx))%Z
  | _, _, _ => false
  end.

(** a declared float limit must parse and satisfy [cmp]; an absent one does not bound *)
Definition float_bound_ok (pf : xstr -> option N) (o : option xstr) (cmp : N -> bool) : bool :=
  match o with
  | None => true
  | Some t => match pf t with Some b => cmp b | None => false end
  end.

Definition float_value_ok (pf : xstr -> option N) (le : N -> N -> bool) (n : xnode) : bool :=
  match opt_parse pf (node_text n) 0 with
  | Some v => float_bound_ok pf (attribute S_MINIMUM n) (fun b => le b v)
              && float_bound_ok pf (attribute S_MAXIMUM n) (fun b => le v b)
  | None => false
  end.

Definition proto_elem_ok (n : xnode) : bool :=
  match attribute S_TYPE_ n with
  | Some ty =>
      if xstr_eqb ty S_INTEGER || xstr_eqb ty S_SCALED then int_value_ok n
      else if xstr_eqb ty S_FLOAT then
        match attribute S_PRECISION n with
        | Some p => if xstr_eqb p S_SINGLE then float_value_ok pf32 le32 n else float_value_ok pf64 le64 n
        | None => float_value_ok pf64 le64 n
        end
      else true
  | None => true
  end.

(** the element children of every element named [prototype] *)
Definition prototype_elements (d : xdoc) : list xnode :=
  flat_map (fun n => if has_tag_name S_PROTOTYPE n then filter is_element (children n) else [])
           (doc_descendants d).

Definition proto_values_ok (d : xdoc) : bool := forallb proto_elem_ok (prototype_elements d).

Definition xml_proto_values_ok (x : list N) : bool :=
  match xml_parse x with ParseOk d => proto_values_ok d | _ => false end.

(** the whole file: binary side as in Spec/FileSpec.v, with the descriptors the XML states; the
    XML itself must parse and extract, and its prototype values must lie within their limits *)
Definition spec_wellformed_xml (f : list N) : bool :=
  match dx_of (file_xml f) with
  | Some _ => spec_wellformed f dx_total && xml_proto_values_ok (file_xml f)
  | None => false
  end.

Definition spec_decode_file_xml (f : list N) : option (file_meta * decoded) :=
  match xml_meta (file_xml f) with
  | Some m => match spec_decode_file f dx_total with Some d => Some (m, d) | None => None end
  | None => None
  end.
End Dx.
