(** The XML side plugged into the file-level specification: the section
    descriptors the decoder of Spec/FileSpec.v takes as a parameter are what
    the XML text says - parse it ([xml_parse]: well-formed, every prefix
    declared), extract the metadata ([extract_all]: the E57 vocabulary), and
    take the point clouds' (fileOffset, recordCount, prototype types) and the
    images' blob references.  Float parsing is an oracle parameter, as in
    Model/XmlExtract.v; the descriptors contain no floats.  No proofs here. *)
From E57 Require Import Base.Prelude Model.Record Model.Meta Model.MetaFile Model.XmlTree Model.XmlParse
  Model.XmlExtract Spec.FileSpec.

Definition pointcloud_descriptor (pc : pointcloud) : descriptor :=
  DPc (pc_file_offset pc) (pc_records pc) (map (fun r => dtype_of (r_type r)) (pc_prototype pc)).

Definition blob_descriptor (b : blob) : descriptor := DBlob (b_offset b) (b_length b).

Definition opt_list {A} (o : option A) : list A := match o with Some a => [a] | None => [] end.

(** data blob and mask of the visual reference, then of the projection *)
Definition image_blobs (im : image) : list blob :=
  match im_visual_reference im with
  | Some v => ib_data (vr_blob v) :: opt_list (vr_mask v)
  | None => []
  end ++
  match im_projection im with
  | Some (PPinhole p) => ib_data (ph_blob p) :: opt_list (ph_mask p)
  | Some (PSpherical s) => ib_data (si_blob s) :: opt_list (si_mask s)
  | Some (PCylindrical c) => ib_data (ci_blob c) :: opt_list (ci_mask c)
  | None => []
  end.

(** every binary section the metadata refers to: the point clouds in document order, then the
    blobs of the images in document order *)
Definition meta_descriptors (m : file_meta) : list descriptor :=
  map pointcloud_descriptor (fm_pointclouds m)
  ++ flat_map (fun im => map blob_descriptor (image_blobs im)) (fm_images m).

Section Dx.
Variable pf64 pf32 : xstr -> option N.
Variable fdiv : N -> Z -> N.

(** metadata of an XML text: it must parse (well-formed XML 1.0 with namespaces, every prefix
    declared - that is what [ParseOk] means) and carry the E57 vocabulary *)
Definition xml_meta (x : list N) : option file_meta :=
  match xml_parse x with
  | ParseOk d => match extract_all pf64 pf32 fdiv d with Ok m => Some m | _ => None end
  | _ => None
  end.

Definition dx_of (x : list N) : option (list descriptor) :=
  match xml_meta x with Some m => Some (meta_descriptors m) | None => None end.

Definition dx_total (x : list N) : list descriptor :=
  match dx_of x with Some l => l | None => [] end.

(** the whole file: binary side as in Spec/FileSpec.v, with the descriptors the XML states; the
    XML itself must parse and extract *)
Definition spec_wellformed_xml (f : list N) : bool :=
  match dx_of (file_xml f) with
  | Some _ => spec_wellformed f dx_total
  | None => false
  end.

Definition spec_decode_file_xml (f : list N) : option (file_meta * decoded) :=
  match xml_meta (file_xml f) with
  | Some m => match spec_decode_file f dx_total with Some d => Some (m, d) | None => None end
  | None => None
  end.
End Dx.
