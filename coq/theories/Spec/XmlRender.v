(** Specification side of the XML layer: which trees are well formed ([wf_doc]) and the set
    of byte strings that denote a tree, written as a function [render] of the tree and of the
    producer's lexical choices ([render_choices]).  Written from XML 1.0 + Namespaces, not from
    the parser; it depends on Model/XmlTree.v (the tree type) only.  The theorem
    [parse_render] (Proofs/XmlpRoundtrip.v) says the parser model reads every rendering of a
    well-formed tree back as that tree.  No proofs here. *)
From E57 Require Import Base.Prelude Model.XmlTree.

(** * Lexical choices *)
Inductive quote_style := QDouble | QSingle.

(** how one byte of character data / of an attribute value is written.  A request that is
    not legal for the byte falls back:
    - bytes >= 128 are always written raw;
    - [RsRaw] on a byte that must be escaped in this context -> the named reference when the
      byte has one, else the decimal reference;
    - [RsNamed] on a byte without a named reference -> raw, or decimal when it must be escaped.
    Must be escaped: in character data '<' '&' '>'; in an attribute value '<' '&', the quote
    in use, TAB, LF, CR. *)
Inductive ref_style := RsRaw | RsNamed | RsDec | RsHex.

Inductive text_choice :=
| TcEscaped (st : nat -> N -> ref_style)   (* byte position, byte *)
| TcCData.                                 (* CDATA sections, "]]>" split as "]]]]><![CDATA[>" *)

Inductive decl_choice :=
| DeclNone
| DeclStd.      (* <?xml version="1.0" encoding="UTF-8"?> *)

Record elem_choice := mkEC {
  ec_merge : list bool;       (* interleaving: true = next ordinary attribute, false = next own xmlns
                                 declaration; when exhausted: remaining attributes, then remaining declarations *)
  ec_quote : nat -> quote_style;           (* i-th emitted attribute (declarations included, in emitted order) *)
  ec_ref : nat -> nat -> N -> ref_style;   (* i-th emitted attribute, byte position, byte *)
  ec_ws : nat -> xstr;        (* blanks before the i-th emitted attribute (non-blanks are dropped, empty -> " ") *)
  ec_ws_end : xstr;           (* blanks before '>' or '/>' (may be empty) *)
  ec_ws_close : xstr;         (* blanks in the end tag before '>' *)
  ec_self_close : bool        (* an element without children: true "<a/>", false "<a></a>" *)
}.

Record render_choices := mkRC {
  rc_bom : bool;
  rc_decl : decl_choice;
  rc_doc_ws : nat -> xstr;    (* blanks before the i-th document-level node; i = number of nodes: at the end *)
  rc_elem : list nat -> xnode -> elem_choice;      (* path (child indices from the document) and the element *)
  rc_text : list nat -> xname -> list xattr -> xstr -> text_choice
                              (* path of the text node, name and attributes of its parent, the text *)
}.

(** * Byte-string helpers *)
Definition is_blank (b : N) : bool := (b =? 32) || (b =? 9) || (b =? 10) || (b =? 13).
Definition blanks (w : xstr) : xstr := filter is_blank w.
Definition blanks1 (w : xstr) : xstr := match blanks w with [] => [32] | l => l end.

Fixpoint sub_at (p s : xstr) : bool :=
  match p with
  | [] => true
  | x :: p' => match s with y :: s' => (x =? y) && sub_at p' s' | [] => false end
  end.
Fixpoint has_sub (p s : xstr) : bool :=
  sub_at p s || match s with [] => false | _ :: r => has_sub p r end.

Definition S_XML : xstr := [120;109;108].
Definition S_XMLNS : xstr := [120;109;108;110;115].
Definition XMLNS_URI : xstr :=
  [104;116;116;112;58;47;47;119;119;119;46;119;51;46;111;114;103;47;50;48;48;48;47;120;109;108;110;115;47].

(** * Character references *)
Definition dec_digits (b : N) : xstr :=
  if b <? 10 then [48 + b]
  else if b <? 100 then [48 + b / 10; 48 + b mod 10]
  else [48 + b / 100; 48 + (b / 10) mod 10; 48 + b mod 10].
Definition hex_digit (d : N) : N := if d <? 10 then 48 + d else 87 + d.
Definition hex_digits (b : N) : xstr :=
  if b <? 16 then [hex_digit b] else [hex_digit (b / 16); hex_digit (b mod 16)].

Definition named_ref (b : N) : option xstr :=
  if b =? 60 then Some [38;108;116;59]              (* &lt; *)
  else if b =? 62 then Some [38;103;116;59]         (* &gt; *)
  else if b =? 38 then Some [38;97;109;112;59]      (* &amp; *)
  else if b =? 34 then Some [38;113;117;111;116;59] (* &quot; *)
  else if b =? 39 then Some [38;97;112;111;115;59]  (* &apos; *)
  else None.
Definition dec_ref (b : N) : xstr := [38;35] ++ dec_digits b ++ [59].
Definition hex_ref (b : N) : xstr := [38;35;120] ++ hex_digits b ++ [59].

Definition render_byte (st : ref_style) (must : bool) (b : N) : xstr :=
  if 128 <=? b then [b] else
  match st with
  | RsHex => hex_ref b
  | RsDec => dec_ref b
  | RsNamed => match named_ref b with Some r => r | None => if must then dec_ref b else [b] end
  | RsRaw => if must then match named_ref b with Some r => r | None => dec_ref b end else [b]
  end.

Fixpoint esc_bytes (must : N -> bool) (st : nat -> N -> ref_style) (i : nat) (t : xstr) : xstr :=
  match t with
  | [] => []
  | b :: r => render_byte (st i b) (must b) b ++ esc_bytes must st (S i) r
  end.

Definition text_must (b : N) : bool := (b =? 60) || (b =? 38) || (b =? 62).
Definition attr_must (q : N) (b : N) : bool :=
  (b =? 60) || (b =? 38) || (b =? q) || (b =? 9) || (b =? 10) || (b =? 13).

(** * Character data *)
Definition CDATA_OPEN : xstr := [60;33;91;67;68;65;84;65;91].      (* <![CDATA[ *)
Definition CDATA_CLOSE : xstr := [93;93;62].                       (* ]]> *)
Definition CDATA_SPLIT : xstr := [93;93;93;93;62;60;33;91;67;68;65;84;65;91;62].   (* ]]]]><![CDATA[> *)

(** [str::replace("]]>", "]]]]><![CDATA[>")] *)
Fixpoint cdata_body (t : xstr) : xstr :=
  match t with
  | [] => []
  | b1 :: r1 =>
    match r1 with
    | b2 :: b3 :: r3 =>
      if (b1 =? 93) && (b2 =? 93) && (b3 =? 62) then CDATA_SPLIT ++ cdata_body r3 else b1 :: cdata_body r1
    | _ => b1 :: cdata_body r1
    end
  end.
Definition render_cdata (t : xstr) : xstr := CDATA_OPEN ++ cdata_body t ++ CDATA_CLOSE.

(** an empty text node can only be written as an empty CDATA section *)
Definition render_text (tc : text_choice) (t : xstr) : xstr :=
  match t with
  | [] => render_cdata []
  | _ => match tc with
         | TcCData => render_cdata t
         | TcEscaped st => esc_bytes text_must st 0%nat t
         end
  end.

(** * Names and namespaces *)
Definition opt_str_eqb (a b : option xstr) : bool :=
  match a, b with
  | None, None => true
  | Some x, Some y => xstr_eqb x y
  | _, _ => false
  end.
Definition has_prefix (p : option xstr) (l : list xnsdecl) : bool :=
  existsb (fun d => opt_str_eqb (xns_prefix d) p) l.

(** what a start tag with declarations [own] has in scope below a parent with [P] in scope *)
Definition scope_below (own P : list xnsdecl) : list xnsdecl :=
  own ++ filter (fun d => negb (has_prefix (xns_prefix d) own)) P.

Definition decl_eqb (a b : xnsdecl) : bool :=
  opt_str_eqb (xns_prefix a) (xns_prefix b) && xstr_eqb (xns_uri a) (xns_uri b).
Fixpoint scope_eqb (a b : list xnsdecl) : bool :=
  match a, b with
  | [], [] => true
  | x :: a', y :: b' => decl_eqb x y && scope_eqb a' b'
  | _, _ => false
  end.

(** the declarations an element with scope [S] carries itself, below a parent with [P] in
    scope ([None]: the document): nothing when the scopes agree, else the shortest non-empty
    prefix [own] of [S] with [S = scope_below own P] *)
Fixpoint find_own (k : nat) (fuel : nat) (P sc : list xnsdecl) : option (list xnsdecl) :=
  match fuel with
  | O => None
  | S f => if scope_eqb (scope_below (firstn k sc) P) sc then Some (firstn k sc) else find_own (S k) f P sc
  end.
Definition own_decls (P : option (list xnsdecl)) (sc : list xnsdecl) : option (list xnsdecl) :=
  match P with
  | None => Some sc
  | Some P => if scope_eqb sc P then Some [] else find_own 1 (length sc) P sc
  end.

Definition qname (prefix : option xstr) (local : xstr) : xstr :=
  match prefix with Some p => p ++ 58 :: local | None => local end.

(** prefix of an element name: the first declaration in scope with this URI *)
Definition elem_prefix (sc : list xnsdecl) (ns : option xstr) : option (option xstr) :=
  match ns with
  | None => if has_prefix None sc then None else Some None
  | Some u => match find (fun d => xstr_eqb (xns_uri d) u) sc with
              | Some d => Some (xns_prefix d)
              | None => None
              end
  end.

(** prefix of an attribute name: none without a namespace, "xml" for the xml namespace, else
    the first PREFIXED declaration in scope with this URI *)
Definition attr_prefix (sc : list xnsdecl) (ns : option xstr) : option (option xstr) :=
  match ns with
  | None => Some None
  | Some u =>
    if xstr_eqb u NS_XML_URI then Some (Some S_XML)
    else match find (fun d => xstr_eqb (xns_uri d) u && match xns_prefix d with Some _ => true | None => false end) sc with
         | Some d => Some (xns_prefix d)
         | None => None
         end
  end.

Definition or_default {A} (o : option A) (d : A) : A := match o with Some a => a | None => d end.

(** * Start tags *)
Inductive item := ItAttr (a : xattr) | ItDecl (d : xnsdecl).

Fixpoint merge_items (m : list bool) (attrs : list xattr) (decls : list xnsdecl) : list item :=
  match m with
  | [] => map ItAttr attrs ++ map ItDecl decls
  | true :: m' =>
    match attrs with
    | a :: ar => ItAttr a :: merge_items m' ar decls
    | [] => merge_items m' [] decls
    end
  | false :: m' =>
    match decls with
    | d :: dr => ItDecl d :: merge_items m' attrs dr
    | [] => merge_items m' attrs []
    end
  end.

Definition item_name (sc : list xnsdecl) (it : item) : xstr :=
  match it with
  | ItAttr a => qname (or_default (attr_prefix sc (xn_ns (xa_name a))) None) (xn_local (xa_name a))
  | ItDecl d => match xns_prefix d with Some p => S_XMLNS ++ 58 :: p | None => S_XMLNS end
  end.
Definition item_value (it : item) : xstr :=
  match it with ItAttr a => xa_value a | ItDecl d => xns_uri d end.
Definition quote_byte (q : quote_style) : N := match q with QDouble => 34 | QSingle => 39 end.

Fixpoint render_items (ec : elem_choice) (sc : list xnsdecl) (i : nat) (l : list item) : xstr :=
  match l with
  | [] => blanks (ec_ws_end ec)
  | it :: r =>
    let q := quote_byte (ec_quote ec i) in
    blanks1 (ec_ws ec i) ++ item_name sc it ++ 61 :: q :: esc_bytes (attr_must q) (ec_ref ec i) 0%nat (item_value it) ++ q
      :: render_items ec sc (S i) r
  end.

(** * Nodes *)
Definition COMMENT_OPEN : xstr := [60;33;45;45].
Definition COMMENT_CLOSE : xstr := [45;45;62].
Definition PI_OPEN : xstr := [60;63].
Definition PI_CLOSE : xstr := [63;62].

Fixpoint render_node (c : render_choices) (path : list nat) (P : option (list xnsdecl))
    (pn : xname) (pa : list xattr) (n : xnode) {struct n} : xstr :=
  match n with
  | XText t => render_text (rc_text c path pn pa t) t
  | XComment t => COMMENT_OPEN ++ t ++ COMMENT_CLOSE
  | XPI tg v => PI_OPEN ++ tg ++ (match v with Some v => 32 :: v | None => [] end) ++ PI_CLOSE
  | XElem nm attrs sc ch =>
    let ec := rc_elem c path n in
    let tag := qname (or_default (elem_prefix sc (xn_ns nm)) None) (xn_local nm) in
    let own := or_default (own_decls P sc) [] in
    let body :=
      (fix go (i : nat) (l : list xnode) : xstr :=
         match l with
         | [] => []
         | x :: r => render_node c (path ++ [i]) (Some sc) nm attrs x ++ go (S i) r
         end) 0%nat ch in
    60 :: tag ++ render_items ec sc 0%nat (merge_items (ec_merge ec) attrs own) ++
    (match ch with
     | [] => if ec_self_close ec then [47;62] else 62 :: 60 :: 47 :: tag ++ blanks (ec_ws_close ec) ++ [62]
     | _ => 62 :: body ++ 60 :: 47 :: tag ++ blanks (ec_ws_close ec) ++ [62]
     end)
  end.

Definition BOM : xstr := [0xEF; 0xBB; 0xBF].
Definition DECL_STD : xstr :=
  [60;63;120;109;108;32;118;101;114;115;105;111;110;61;34;49;46;48;34;32;101;110;99;111;100;105;110;103;61;34;85;84;70;45;56;34;63;62].
Definition render_decl (d : decl_choice) : xstr := match d with DeclNone => [] | DeclStd => DECL_STD end.

Definition no_name : xname := mkXName None [].

Fixpoint render_doc_nodes (c : render_choices) (i : nat) (l : list xnode) : xstr :=
  match l with
  | [] => blanks (rc_doc_ws c i)
  | x :: r => blanks (rc_doc_ws c i) ++ render_node c [i] None no_name [] x ++ render_doc_nodes c (S i) r
  end.

Definition render (c : render_choices) (d : xdoc) : xstr :=
  (if rc_bom c then BOM else []) ++ render_decl (rc_decl c) ++ render_doc_nodes c 0%nat (xd_children d).

(** the crate's writer: declaration and LF, double quotes, single blanks, attributes before
    declarations, the strings (children of elements with type="String") as CDATA, everything
    else as plain character data *)
Definition S_TYPE : xstr := [116;121;112;101].
Definition S_STRING : xstr := [83;116;114;105;110;103].
Definition writer_ref (b : N) : ref_style :=
  if (b =? 38) || (b =? 60) || (b =? 62) || (b =? 34) then RsNamed else RsRaw.
Definition writer_elem_choice : elem_choice :=
  mkEC [] (fun _ => QDouble) (fun _ _ b => writer_ref b) (fun _ => [32]) [] [] true.
Definition writer_choices : render_choices :=
  mkRC false DeclStd (fun _ => [10])
       (fun _ _ => writer_elem_choice)
       (fun _ _ pa _ =>
          match find (fun a => match xn_ns (xa_name a) with None => xstr_eqb (xn_local (xa_name a)) S_TYPE | Some _ => false end) pa with
          | Some a => if xstr_eqb (xa_value a) S_STRING then TcCData else TcEscaped (fun _ _ => RsRaw)
          | None => TcEscaped (fun _ _ => RsRaw)
          end).

(** * Well-formed trees *)

(** NCNames over an explicit alphabet: [A-Za-z_][A-Za-z0-9_.-]* *)
Definition in_rng (lo hi c : N) : bool := (lo <=? c) && (c <=? hi).
Definition name_start_byte (b : N) : bool := in_rng 65 90 b || in_rng 97 122 b || (b =? 95).
Definition name_byte (b : N) : bool := name_start_byte b || in_rng 48 57 b || (b =? 45) || (b =? 46).
Definition ncname (s : xstr) : bool :=
  match s with
  | [] => false
  | b :: r => name_start_byte b && forallb name_byte r
  end.

(** every character is an XML Char, on UTF-8 bytes: no control characters other than TAB, LF, CR;
    no U+FFFE / U+FFFF (EF BF BE / EF BF BF) *)
Fixpoint chars_ok (s : xstr) : bool :=
  match s with
  | [] => true
  | b :: r =>
    (b <? 256) &&
    (if b <? 32 then (b =? 9) || (b =? 10) || (b =? 13)
     else if b =? 0xEF then
       match r with
       | b2 :: b3 :: _ => negb ((b2 =? 0xBF) && ((b3 =? 0xBE) || (b3 =? 0xBF)))
       | _ => true
       end
     else true)
    && chars_ok r
  end.

Definition is_text (n : xnode) : bool := match n with XText _ => true | _ => false end.
Fixpoint no_adjacent_text (l : list xnode) : bool :=
  match l with
  | a :: ((b :: _) as r) => negb (is_text a && is_text b) && no_adjacent_text r
  | _ => true
  end.

Fixpoint distinct_prefixes (l : list xnsdecl) : bool :=
  match l with
  | [] => true
  | d :: r => negb (has_prefix (xns_prefix d) r) && distinct_prefixes r
  end.

Definition decl_ok (d : xnsdecl) : bool :=
  match xns_prefix d with
  | Some p => ncname p && negb (xstr_eqb p S_XML) && negb (xstr_eqb p S_XMLNS)
  | None => true
  end
  && chars_ok (xns_uri d) && negb (xstr_eqb (xns_uri d) NS_XML_URI) && negb (xstr_eqb (xns_uri d) XMLNS_URI).

Definition scope_ok (P : option (list xnsdecl)) (sc : list xnsdecl) : bool :=
  forallb decl_ok sc && distinct_prefixes sc &&
  match own_decls P sc with Some _ => true | None => false end.

Definition xname_eqb' (a b : xname) : bool :=
  opt_str_eqb (xn_ns a) (xn_ns b) && xstr_eqb (xn_local a) (xn_local b).
Fixpoint distinct_attrs (l : list xattr) : bool :=
  match l with
  | [] => true
  | a :: r => negb (existsb (fun x => xname_eqb' (xa_name x) (xa_name a)) r) && distinct_attrs r
  end.

Definition attr_ok (sc : list xnsdecl) (a : xattr) : bool :=
  ncname (xn_local (xa_name a)) && negb (xstr_eqb (xn_local (xa_name a)) S_XMLNS)
  && chars_ok (xa_value a)
  && match attr_prefix sc (xn_ns (xa_name a)) with Some _ => true | None => false end.

Definition pi_ok (tg : xstr) (v : option xstr) : bool :=
  ncname tg && negb (xstr_eqb tg S_XML) &&
  match v with
  | None => true
  | Some v => chars_ok v && negb (has_sub PI_CLOSE v)
              && match v with b :: _ => negb (is_blank b) | [] => false end
  end.

Definition comment_ok (t : xstr) : bool :=
  chars_ok t && negb (has_sub [45;45] t) && negb (match rev t with 45 :: _ => true | _ => false end).

Definition text_ok (t : xstr) : bool := chars_ok t && negb (existsb (N.eqb 13) t).

Fixpoint wf_node (P : option (list xnsdecl)) (n : xnode) {struct n} : bool :=
  match n with
  | XText t => text_ok t
  | XComment t => comment_ok t
  | XPI tg v => pi_ok tg v
  | XElem nm attrs sc ch =>
    ncname (xn_local nm) && scope_ok P sc
    && match elem_prefix sc (xn_ns nm) with Some _ => true | None => false end
    && forallb (attr_ok sc) attrs && distinct_attrs attrs
    && no_adjacent_text ch
    && (fix all (l : list xnode) : bool :=
          match l with [] => true | x :: r => wf_node (Some sc) x && all r end) ch
  end.

(** number of namespace declarations written *)
Fixpoint decl_count (P : option (list xnsdecl)) (n : xnode) {struct n} : N :=
  match n with
  | XElem _ _ sc ch =>
    len (or_default (own_decls P sc) []) +
    (fix sum (l : list xnode) : N := match l with [] => 0 | x :: r => decl_count (Some sc) x + sum r end) ch
  | _ => 0
  end.

Definition DECL_LIMIT : N := 65535.

(** comments and processing instructions around exactly one element; no character data at
    document level; at most 65535 namespace declarations in the whole document *)
Definition wf_doc (d : xdoc) : bool :=
  let l := xd_children d in
  forallb (wf_node None) l
  && forallb (fun n => negb (is_text n)) l
  && (length (filter is_element l) =? 1)%nat
  && (fold_right (fun n acc => decl_count None n + acc) 0 l <=? DECL_LIMIT).
