(** Bit-level codec of E57 compressed-vector streams, written from the format
    and not shaped like the crate: a stream is a list of bits, least
    significant bit first; an integer in min..max occupies the least w with
    max - min < 2^w bits and stores value - min; floats are 32 or 64 bits of
    their IEEE pattern.  Bytes are filled from bit 0 upwards, the last byte is
    zero padded.  No proofs here. *)
From E57 Require Import Base.Prelude Model.Record.

(** Least w in 0..64 with range < 2^w (range = max - min, at most 2^64 - 1). *)
Definition spec_width (mn mx : Z) : N :=
  match find (fun w => (mx - mn <? 2 ^ Z.of_nat w)%Z) (seq 0 65) with
  | Some w => N.of_nat w
  | None => 64
  end.

Definition spec_bit_size (t : dtype) : N :=
  match t with
  | TSingle => 32 | TDouble => 64
  | TScaled mn mx => spec_width mn mx
  | TInteger mn mx => spec_width mn mx
  end.

(** The low [w] bits of [v], least significant first. *)
Definition bits_lsb (w : N) (v : N) : list bool :=
  map (fun i => N.testbit v (N.of_nat i)) (seq 0 (N.to_nat w)).

Fixpoint num_of_bits (l : list bool) : N :=
  match l with
  | [] => 0
  | b :: r => (if b then 1 else 0) + 2 * num_of_bits r
  end.

(** The unsigned number a value stores, and its range condition. *)
Definition stored (t : dtype) (v : rvalue) : option N :=
  match t, v with
  | TSingle, VSingle x => if x <? 2 ^ 32 then Some x else None
  | TDouble, VDouble x => if x <? 2 ^ 64 then Some x else None
  | TScaled mn mx, VScaled i => if ((mn <=? i) && (i <=? mx))%Z then Some (Z.to_N (i - mn)) else None
  | TInteger mn mx, VInteger i => if ((mn <=? i) && (i <=? mx))%Z then Some (Z.to_N (i - mn)) else None
  | _, _ => None
  end.

Definition in_range (t : dtype) (v : rvalue) : bool :=
  match stored t v with Some _ => true | None => false end.

Definition type_ok (t : dtype) : bool :=
  match t with
  | TSingle | TDouble => true
  | TScaled mn mx | TInteger mn mx => (in_i64 mn && in_i64 mx && (mn <=? mx)%Z)
  end.

Definition value_bits (t : dtype) (v : rvalue) : list bool :=
  match stored t v with
  | Some u => bits_lsb (spec_bit_size t) u
  | None => []
  end.

(** The bit stream of one attribute over all points. *)
Definition stream_bits (t : dtype) (vs : list rvalue) : list bool :=
  concat (map (value_bits t) vs).

(** Pack bits into bytes, bit 0 first, zero padding the last byte. *)
Fixpoint bytes_of_bits_fuel (fuel : nat) (l : list bool) : list N :=
  match fuel with
  | O => []
  | S f =>
      match l with
      | [] => []
      | _ => num_of_bits (firstn 8 l) :: bytes_of_bits_fuel f (skipn 8 l)
      end
  end.
Definition bytes_of_bits (l : list bool) : list N := bytes_of_bits_fuel (length l) l.

Definition bits_of_bytes (l : list N) : list bool := flat_map (bits_lsb 8) l.

Definition spec_stream_bytes (t : dtype) (vs : list rvalue) : list N :=
  bytes_of_bits (stream_bits t vs).

(** Decoding: cut the bit stream into groups of w bits. *)
Definition mk_value (t : dtype) (u : N) : rvalue :=
  match t with
  | TSingle => VSingle u
  | TDouble => VDouble u
  | TScaled mn _ => VScaled (Z.of_N u + mn)
  | TInteger mn _ => VInteger (Z.of_N u + mn)
  end.

Fixpoint decode_bits_fuel (fuel : nat) (t : dtype) (w : nat) (l : list bool) : list rvalue :=
  match fuel with
  | O => []
  | S f =>
      if Nat.ltb (length l) w then []
      else mk_value t (num_of_bits (firstn w l)) :: decode_bits_fuel f t w (skipn w l)
  end.

(** All complete values of a byte stream (for w > 0). *)
Definition spec_decode_stream (t : dtype) (bytes : list N) : list rvalue :=
  let w := N.to_nat (spec_bit_size t) in
  let bits := bits_of_bytes bytes in
  decode_bits_fuel (length bits) t w bits.
