(** Compressed-vector sections as ASTM E2807 lays them out, written from the
    format and not from the crate: a 32-byte section header followed by
    packets; a data packet is a 6-byte header, one little-endian u16 length per
    byte stream, the stream chunks, and zero padding to a multiple of four;
    index and ignored packets carry their total length in the same field.
    A [layout] makes every choice of the producer explicit.  No proofs here. *)
From E57 Require Import Base.Prelude Model.Record Spec.BitSpec.

Inductive spec_packet :=
| SData (chunks : list (list N))    (* one chunk per record, in prototype order *)
| SIndex (total : N)                (* total packet length: multiple of 4, 16..65536 *)
| SIgnored (total : N).             (* total packet length: multiple of 4, 4..65536 *)

Definition pad4 (l : list N) : list N := l ++ zeros ((4 - len l mod 4) mod 4).

Definition data_packet_len (chunks : list (list N)) : N :=
  let raw := 6 + 2 * len chunks + len (concat chunks) in
  raw + (4 - raw mod 4) mod 4.

Definition encode_packet (p : spec_packet) : list N :=
  match p with
  | SData chunks =>
      pad4 ([1; 0] ++ le_bytes 2 (data_packet_len chunks - 1) ++ le_bytes 2 (len chunks)
            ++ concat (map (fun c => le_bytes 2 (len c)) chunks) ++ concat chunks)
  | SIndex total => [0; 0] ++ le_bytes 2 (total - 1) ++ zeros (total - 4)
  | SIgnored total => [2; 0] ++ le_bytes 2 (total - 1) ++ zeros (total - 4)
  end.

Definition packet_ok (nrec : nat) (p : spec_packet) : bool :=
  match p with
  | SData chunks =>
      (length chunks =? nrec)%nat && (0 <? len chunks) && (data_packet_len chunks <=? 65536)
      && forallb (fun c => len c <? 65536) chunks && forallb bytes_okb chunks
  | SIndex total => (16 <=? total) && (total <=? 65536) && (total mod 4 =? 0)
  | SIgnored total => (4 <=? total) && (total <=? 65536) && (total mod 4 =? 0)
  end.

Definition layout := list spec_packet.

(** The chunks of record [i] over all data packets, in order. *)
Definition record_chunks (i : nat) (l : layout) : list (list N) :=
  flat_map (fun p => match p with SData chunks => [nth i chunks []] | _ => [] end) l.

(** Column [i] of a point list. *)
Definition column (i : nat) (points : list (list rvalue)) : list rvalue :=
  map (fun p => nth i p (VInteger 0)) points.

Fixpoint all_nat (n : nat) (f : nat -> bool) : bool :=
  match n with O => true | S k => f k && all_nat k f end.

Definition point_ok (proto : list dtype) (p : list rvalue) : bool :=
  (length p =? length proto)%nat &&
  forallb (fun tv => in_range (fst tv) (snd tv)) (combine proto p).

(** What the format requires of a layout for these points: every packet is
    well formed, and the chunks of each record concatenate to exactly that
    record's byte stream. *)
Definition legal (proto : list dtype) (points : list (list rvalue)) (l : layout) : bool :=
  forallb (packet_ok (length proto)) l &&
  all_nat (length proto) (fun i =>
    if list_eq_dec N.eq_dec (concat (record_chunks i l))
                   (spec_stream_bytes (nth i proto TSingle) (column i points))
    then true else false).

Definition scene_ok (proto : list dtype) (points : list (list rvalue)) : bool :=
  forallb type_ok proto && forallb (point_ok proto) points &&
  existsb (fun t => 0 <? spec_bit_size t) proto.

(** Section bytes for a section whose first packet starts at physical offset [data_offset]. *)
Definition section_body (l : layout) : list N := concat (map encode_packet l).
Definition encode_section (data_offset : N) (l : layout) : list N :=
  [1; 0; 0; 0; 0; 0; 0; 0] ++ le_bytes 8 (32 + len (section_body l)) ++ le_bytes 8 data_offset
  ++ le_bytes 8 0 ++ section_body l.

(** * Independent decoder: packets -> per-record streams -> values *)

(** Split [sizes] off the front of [l]. *)
Fixpoint split_sizes (sizes : list N) (l : list N) : option (list (list N) * list N) :=
  match sizes with
  | [] => Some ([], l)
  | n :: r =>
      if len l <? n then None else
      match split_sizes r (drop n l) with
      | Some (cs, rest) => Some (take n l :: cs, rest)
      | None => None
      end
  end.

Fixpoint u16s (n : nat) (l : list N) : list N :=
  match n with
  | O => []
  | S k => le_num (firstn 2 l) :: u16s k (skipn 2 l)
  end.

(** Parse packets until the body is exhausted; collects the chunks per data packet. *)
Fixpoint parse_packets (fuel : nat) (nrec : nat) (body : list N) : option (list (list (list N))) :=
  match fuel with
  | O => None
  | S f =>
      match body with
      | [] => Some []
      | id :: _ =>
          let total := le_num (slice 2 2 body) + 1 in
          if negb (total mod 4 =? 0) || (len body <? total) then None else
          let pkt := take total body in
          let rest := drop total body in
          if id =? 1 then
            let count := le_num (slice 4 2 pkt) in
            if negb (count =? N.of_nat nrec) then None else
            let sizes := u16s nrec (drop 6 pkt) in
            match split_sizes sizes (drop (6 + 2 * N.of_nat nrec) pkt) with
            | Some (chunks, _) =>
                match parse_packets f nrec rest with
                | Some r => Some (chunks :: r)
                | None => None
                end
            | None => None
            end
          else if (id =? 0) || (id =? 2) then parse_packets f nrec rest
          else None
      end
  end.

Definition decode_column (t : dtype) (records : nat) (stream : list N) : option (list rvalue) :=
  if spec_bit_size t =? 0 then
    match t with
    | TScaled mn _ => Some (repeat (VScaled mn) records)
    | TInteger mn _ => Some (repeat (VInteger mn) records)
    | _ => None
    end
  else
    let vs := spec_decode_stream t stream in
    if (length vs <? records)%nat then None else Some (firstn records vs).

(** Transpose columns into points. *)
Fixpoint transpose (records : nat) (cols : list (list rvalue)) : list (list rvalue) :=
  match records with
  | O => []
  | S k => map (fun c => hd (VInteger 0) c) cols :: transpose k (map (@tl rvalue) cols)
  end.

Fixpoint sequence_opt {A} (l : list (option A)) : option (list A) :=
  match l with
  | [] => Some []
  | None :: _ => None
  | Some a :: r => match sequence_opt r with Some t => Some (a :: t) | None => None end
  end.

(** Decode a whole section (header included) into [records] points. *)
Definition decode_section (proto : list dtype) (records : nat) (section : list N) : option (list (list rvalue)) :=
  if negb (nth 0 section 0 =? 1) then None else
  let sl := le_num (slice 8 8 section) in
  if (sl <? 32) || (len section <? sl) || negb (sl mod 4 =? 0) then None else
  let body := slice 32 (sl - 32) section in
  match parse_packets (S (length body)) (length proto) body with
  | None => None
  | Some pkts =>
      let cols := map (fun i => decode_column (nth i proto TSingle) records
                                  (concat (map (fun chunks => nth i chunks []) pkts)))
                      (seq 0 (length proto)) in
      match sequence_opt cols with
      | Some cs => Some (transpose records cs)
      | None => None
      end
  end.
