(** A cache-less, validating page reader over an arbitrary physical image and
    page size: the only state is the logical offset; every read validates the
    page it touches.  The paged reader model is proved equivalent to it for
    every history (the cache is transparent, a page with a bad checksum is
    never served), which is the page-level core of C07 and C17.  No proofs here. *)
From E57 Require Import Base.Prelude Model.Crc Model.PagedReader.

Definition page_at (ps : N) (phys : list N) (p : N) : list N := slice (p * ps) ps phys.

Definition page_ok (ps : N) (pg : list N) : bool :=
  if list_eq_dec N.eq_dec (drop (ps - 4) pg) (crc_bytes (take (ps - 4) pg)) then true else false.

(** One [read] call with a buffer of [n] bytes at logical offset [off]. *)
Definition gr_read (ps : N) (phys : list N) (n off : N) : N * res (list N) :=
  let payload := ps - 4 in
  let pages := len phys / ps in
  let pg := off / payload in
  if pages <=? pg then (off, Ok [])
  else if page_ok ps (page_at ps phys pg) then
    let k := N.min n (payload - off mod payload) in
    (off + k, Ok (slice (off mod payload) k (page_at ps phys pg)))
  else (off, Err EIo).

Fixpoint gr_read_exact_loop (ps : N) (phys : list N) (fuel : nat) (want : N) (acc : list N) (off : N)
  : N * res (list N) :=
  match fuel with
  | O => (off, Ok acc)
  | S f =>
      if want =? 0 then (off, Ok acc) else
      let '(off1, r) := gr_read ps phys want off in
      match r with
      | Ok [] => (off1, Err EIo)
      | Ok got => gr_read_exact_loop ps phys f (want - len got) (acc ++ got) off1
      | Err k => (off1, Err k)
      | Panic => (off1, Panic)
      end
  end.

Definition gr_step (ps : N) (phys : list N) (o : pr_op) (off : N) : N * res pr_out :=
  let payload := ps - 4 in
  let pages := len phys / ps in
  match o with
  | PrSeek p =>
      if len phys <=? p then (off, Err EIo)
      else let o' := p - (p / ps) * 4 in (o', Ok (PoNum o'))
  | PrRead n => let '(off1, r) := gr_read ps phys n off in (off1, res_map PoBytes r)
  | PrReadExact n =>
      let '(off1, r) := gr_read_exact_loop ps phys (S (N.to_nat (N.min n (pages * payload)))) n [] off in
      (off1, res_map PoBytes r)
  | PrAlign =>
      let a := off mod 4 in
      if a =? 0 then (off, Ok PoUnit)
      else if pages * payload <? off + (4 - a) then (off, Err EIo)
      else (off + (4 - a), Ok PoUnit)
  end.

Fixpoint gr_run (ps : N) (phys : list N) (ops : list pr_op) (off : N) : list (res pr_out) :=
  match ops with
  | [] => []
  | o :: r => let '(off1, x) := gr_step ps phys o off in x :: gr_run ps phys r off1
  end.
