(** Specification of the page layer, written from the E57 format and not from
    the crate: a file is a logical byte stream cut into 1020-byte payloads,
    zero-padded to a whole page, each followed by the big-endian CRC-32C of
    the payload.  The writer is a cursor over a growable logical stream, the
    reader a cursor over a fixed one.  No proofs here. *)
From E57 Require Import Base.Prelude Model.Crc Model.PagedWriter Model.PagedReader.

Definition PAYLOAD_SZ : N := 1020.
Definition PAGE_SZ : N := 1024.

Definition phys_of_log (l : N) : N := l + 4 * (l / PAYLOAD_SZ).
Definition log_of_phys (p : N) : N := p - 4 * (p / PAGE_SZ).
Definition pages_for (l : N) : N := (l + (PAYLOAD_SZ - 1)) / PAYLOAD_SZ.
Definition pad_payload (data : list N) : list N :=
  data ++ zeros (pages_for (len data) * PAYLOAD_SZ - len data).

(** Cut a padded logical stream into sealed pages. *)
Fixpoint paginate_n (pages : nat) (data : list N) : list N :=
  match pages with
  | O => []
  | S k => let p := take PAYLOAD_SZ data in
           p ++ crc_bytes p ++ paginate_n k (drop PAYLOAD_SZ data)
  end.
Definition paginate (data : list N) : list N :=
  paginate_n (N.to_nat (pages_for (len data))) (pad_payload data).

(** Payload of a physical image: drop 4 bytes after every 1020. *)
Fixpoint strip_n (pages : nat) (phys : list N) : list N :=
  match pages with
  | O => []
  | S k => take PAYLOAD_SZ phys ++ strip_n k (drop PAGE_SZ phys)
  end.
Definition strip_crc (phys : list N) : list N :=
  strip_n (N.to_nat (len phys / PAGE_SZ)) phys.

Definition page_of (phys : list N) (p : N) : list N := slice (p * PAGE_SZ) PAGE_SZ phys.
Definition page_valid (pg : list N) : bool :=
  if list_eq_dec N.eq_dec (drop PAYLOAD_SZ pg) (crc_bytes (take PAYLOAD_SZ pg)) then true else false.
Definition all_pages_valid (phys : list N) : bool :=
  (len phys mod PAGE_SZ =? 0) &&
  forallb (fun p => page_valid (page_of phys (N.of_nat p))) (seq 0 (N.to_nat (len phys / PAGE_SZ))).

(** * Writer: a cursor over a growable logical stream *)

Record lstream := mkLs { ls_data : list N; ls_pos : N }.
Definition ls_init : lstream := mkLs [] 0.

Definition ls_phys_size (s : lstream) : N := pages_for (len (ls_data s)) * PAGE_SZ.

Definition ls_write (s : lstream) (bs : list N) : lstream :=
  match bs with
  | [] => s
  | _ => mkLs (overwrite (ls_data s) (ls_pos s) bs) (ls_pos s + len bs)
  end.

(** A rejected operation leaves the logical stream unchanged. *)
Definition ls_step (o : pw_op) (s : lstream) : lstream * res N :=
  match o with
  | PwWrite bs => (ls_write s bs, Ok 0)
  | PwSeek p =>
      if ls_phys_size s <? p then (s, Err EInvalid)
      else if PAYLOAD_SZ <=? p mod PAGE_SZ then (s, Err EInvalid)
      else (mkLs (ls_data s) (log_of_phys p), Ok 0)
  | PwFlush => (s, Ok 0)
  | PwAlign => (ls_write s (zeros ((4 - ls_pos s mod 4) mod 4)), Ok 0)
  | PwPosition => (s, Ok (phys_of_log (ls_pos s)))
  | PwSize => (s, Ok (ls_phys_size s))
  end.

Fixpoint ls_run (ops : list pw_op) (s : lstream) : lstream * list (res N) :=
  match ops with
  | [] => (s, [])
  | o :: r => let '(s1, x) := ls_step o s in
              let '(s2, xs) := ls_run r s1 in (s2, x :: xs)
  end.

(** * Reader: a cursor over a fixed logical stream [log] (a whole number of payloads) *)

Definition lr_step (log : list N) (o : pr_op) (off : N) : N * res pr_out :=
  let L := len log in
  match o with
  | PrSeek p =>
      if (L / PAYLOAD_SZ) * PAGE_SZ <=? p then (off, Err EIo)
      else (log_of_phys p, Ok (PoNum (log_of_phys p)))
  | PrRead n =>
      if L <=? off then (off, Ok (PoBytes []))
      else let k := N.min n (PAYLOAD_SZ - off mod PAYLOAD_SZ) in
           (off + k, Ok (PoBytes (slice off k log)))
  | PrReadExact n =>
      if n =? 0 then (off, Ok (PoBytes []))
      else if off + n <=? L then (off + n, Ok (PoBytes (slice off n log)))
      else (N.max off L, Err EIo)
  | PrAlign =>
      let a := off mod 4 in
      if a =? 0 then (off, Ok PoUnit)
      else if L <? off + (4 - a) then (off, Err EIo)
      else (off + (4 - a), Ok PoUnit)
  end.

Fixpoint lr_run (log : list N) (ops : list pr_op) (off : N) : list (res pr_out) :=
  match ops with
  | [] => []
  | o :: r => let '(off1, x) := lr_step log o off in x :: lr_run log r off1
  end.
