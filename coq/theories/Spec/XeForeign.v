(** Property C18: what "adding foreign content to a document" means, on trees.

    [attrs_ext a a']     a' is a with attributes that carry a namespace inserted anywhere
    [ins_gen P n n']     n' is n with (i) namespaced attributes added to any element, (ii) nodes
                         satisfying [P] inserted anywhere among the children of any element - but
                         among the children of an element named [prototype] only non-elements -
                         and (iii) text nodes split where something is inserted inside a text
    [fins] / [fins_doc] / [insert_foreign]
                         C18 at full strength: the inserted nodes are elements of a foreign
                         namespace (non-empty, not the E57 one) with ANY local name and ANY
                         subtree, comments and processing instructions; any position: before a
                         standard sibling of the same name, as first child of a leaf, inside its
                         text, anywhere in document order.  At document level (around the root
                         element) comments and processing instructions.
    [fattr]              only namespaced attributes are added.
    The namespace declarations an inserted element needs are carried by the element itself (or
    exist already): the in-scope namespaces of the original elements are unchanged.
    No proofs here. *)
From Coq Require Import Strings.String.
From Coq Require Import List.
From E57 Require Import Base.Prelude Model.Meta Model.XmlTree.

Local Notation "'B' s" := (ltac:(let v := eval vm_compute in (bytes_of_string s%string) in exact v))
  (at level 0, s at level 0, only parsing).

Definition E57_NS : xstr := B"http://www.astm.org/COMMIT/E57/2010-e57-v1.0".
Definition PROTOTYPE : xstr := B"prototype".

Definition local_name (n : xnode) : xstr :=
  match n with XElem nm _ _ _ => xn_local nm | _ => [] end.

(** an element in a namespace that is neither empty nor the E57 one *)
Definition foreign_elem (n : xnode) : bool :=
  match n with
  | XElem nm _ _ _ =>
      match xn_ns nm with
      | Some u => negb (match u with [] => true | _ => false end) && negb (xstr_eqb u E57_NS)
      | None => false
      end
  | _ => false
  end.

(** what may be inserted: a foreign element with any subtree, a comment, a processing instruction *)
Definition insertable (n : xnode) : bool :=
  match n with
  | XElem _ _ _ _ => foreign_elem n
  | XComment _ => true
  | XPI _ _ => true
  | XText _ => false
  end.

Definition is_textb (n : xnode) : bool := match n with XText _ => true | _ => false end.

Definition namespaced (a : xattr) : bool :=
  match xn_ns (xa_name a) with Some _ => true | None => false end.

Inductive attrs_ext : list xattr -> list xattr -> Prop :=
| ae_nil : attrs_ext [] []
| ae_keep a l l' : attrs_ext l l' -> attrs_ext (a :: l) (a :: l')
| ae_ins a l l' : namespaced a = true -> attrs_ext l l' -> attrs_ext l (a :: l').

Section Gen.
Variable P : xnode -> bool.                            (* which nodes may be inserted *)

Inductive ins_gen : xnode -> xnode -> Prop :=
| ig_text t : ins_gen (XText t) (XText t)
| ig_comment t : ins_gen (XComment t) (XComment t)
| ig_pi t v : ins_gen (XPI t v) (XPI t v)
| ig_elem nm a a' sc ch ch' :
    attrs_ext a a' ->
    ins_list (xstr_eqb (xn_local nm) PROTOTYPE) ch ch' ->
    ins_gen (XElem nm a sc ch) (XElem nm a' sc ch')
(** [ins_list only_misc old new]: with [only_misc] only non-elements are inserted *)
with ins_list : bool -> list xnode -> list xnode -> Prop :=
| il_nil b : ins_list b [] []
| il_keep b c c' r r' : ins_gen c c' -> ins_list b r r' -> ins_list b (c :: r) (c' :: r')
| il_ins b f r r' :
    P f = true -> is_textb f = false -> (b = false \/ is_element f = false) ->
    ins_list b r r' -> ins_list b r (f :: r')
| il_split b t1 t2 r r' :
    ins_list b (XText t2 :: r) r' -> ins_list b (XText (t1 ++ t2) :: r) (XText t1 :: r').

(** documents: comments and processing instructions may be added around the root element *)
Definition ins_doc_gen (d d' : xdoc) : Prop := ins_list true (xd_children d) (xd_children d').
End Gen.

(** C18 at full strength *)
Definition fins : xnode -> xnode -> Prop := ins_gen insertable.
Definition fins_doc : xdoc -> xdoc -> Prop := ins_doc_gen insertable.
Definition insert_foreign : xdoc -> xdoc -> Prop := fins_doc.

(** only namespaced attributes are added (anywhere, also inside prototypes) *)
Definition fattr : xnode -> xnode -> Prop := ins_gen (fun _ => false).
Definition fattr_doc : xdoc -> xdoc -> Prop := ins_doc_gen (fun _ => false).
