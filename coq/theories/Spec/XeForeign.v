(** Property C18: what "adding foreign content to a document" means, on trees.

    [attrs_ext a a']        a' is a with attributes that carry a namespace inserted anywhere
    [ins_gen P Hd n n']     n' is n with (i) namespaced attributes added to any element and
                            (ii) elements satisfying [P] inserted anywhere among the children of
                            any element that is not named [prototype], subject to the condition
                            [Hd] on (old children, new children) of every element.
    [fins]                  the insertion of property C18 at full strength: any element whose
                            namespace is neither the E57 namespace nor "none", any local name, any
                            subtree, any position.
    [ins]                   the restricted insertion for which extraction provably does not
                            change: no element of an inserted subtree has a local name the
                            extractors look up, and nothing is inserted in front of a leading
                            text node.
    The namespace declarations an inserted element needs are carried by the element itself (or
    exist already): the in-scope namespaces of the original elements are unchanged.
    No proofs here. *)
From Coq Require Import Strings.String.
From Coq Require Import List.
From E57 Require Import Base.Prelude Model.Meta Model.XmlTree.

Local Notation "'B' s" := (ltac:(let v := eval vm_compute in (bytes_of_string s%string) in exact v))
  (at level 0, s at level 0, only parsing).

Definition E57_NS : xstr := B"http://www.astm.org/COMMIT/E57/2010-e57-v1.0".
Definition PROTOTYPE : xstr := B"prototype".

(** every string the extractors pass to [has_tag_name] *)
Definition lookup_names : list xstr :=
  [ B"e57Root"; B"formatName"; B"guid"; B"versionMajor"; B"creationDateTime"; B"coordinateMetadata";
    B"e57LibraryVersion"; B"data3D"; B"images2D"; B"vectorChild";
    B"name"; B"description"; B"sensorModel"; B"sensorVendor"; B"sensorSerialNumber";
    B"sensorHardwareVersion"; B"sensorSoftwareVersion"; B"sensorFirmwareVersion";
    B"temperature"; B"relativeHumidity"; B"atmosphericPressure";
    B"acquisitionStart"; B"acquisitionEnd"; B"pose";
    B"cartesianBounds"; B"sphericalBounds"; B"indexBounds"; B"intensityLimits"; B"colorLimits";
    B"originalGuids"; B"points"; B"prototype";
    B"dateTimeValue"; B"isAtomicClockReferenced"; B"translation"; B"rotation"; B"w"; B"x"; B"y"; B"z";
    B"xMinimum"; B"xMaximum"; B"yMinimum"; B"yMaximum"; B"zMinimum"; B"zMaximum";
    B"rangeMinimum"; B"rangeMaximum"; B"elevationMinimum"; B"elevationMaximum"; B"azimuthStart"; B"azimuthEnd";
    B"rowMinimum"; B"rowMaximum"; B"columnMinimum"; B"columnMaximum"; B"returnMinimum"; B"returnMaximum";
    B"intensityMinimum"; B"intensityMaximum";
    B"colorRedMinimum"; B"colorRedMaximum"; B"colorGreenMinimum"; B"colorGreenMaximum";
    B"colorBlueMinimum"; B"colorBlueMaximum";
    B"associatedData3DGuid"; B"acquisitionDateTime";
    B"visualReferenceRepresentation"; B"pinholeRepresentation"; B"sphericalRepresentation";
    B"cylindricalRepresentation"; B"jpegImage"; B"pngImage"; B"imageMask"; B"imageWidth"; B"imageHeight";
    B"focalLength"; B"pixelWidth"; B"pixelHeight"; B"principalPointX"; B"principalPointY"; B"radius" ].

Definition is_lookup_name (s : xstr) : bool := existsb (xstr_eqb s) lookup_names.

Definition local_name (n : xnode) : xstr :=
  match n with XElem nm _ _ _ => xn_local nm | _ => [] end.

(** an element in a namespace that is neither the E57 one nor "no namespace" *)
Definition foreign_elem (n : xnode) : bool :=
  match n with
  | XElem nm _ _ _ =>
      match xn_ns nm with Some u => negb (xstr_eqb u E57_NS) | None => false end
  | _ => false
  end.

(** an element none of whose elements (itself included) has a looked-up local name *)
Definition inert_node (n : xnode) : bool :=
  match n with XElem nm _ _ _ => negb (is_lookup_name (xn_local nm)) | _ => true end.
Definition inert_subtree (n : xnode) : bool :=
  is_element n && forallb inert_node (descendants n).

Definition namespaced (a : xattr) : bool :=
  match xn_ns (xa_name a) with Some _ => true | None => false end.

Inductive attrs_ext : list xattr -> list xattr -> Prop :=
| ae_nil : attrs_ext [] []
| ae_keep a l l' : attrs_ext l l' -> attrs_ext (a :: l) (a :: l')
| ae_ins a l l' : namespaced a = true -> attrs_ext l l' -> attrs_ext l (a :: l').

Section Gen.
Variable P : xnode -> Prop.                            (* which elements may be inserted *)
Variable Hd : list xnode -> list xnode -> Prop.        (* condition on (old, new) children *)

Inductive ins_gen : xnode -> xnode -> Prop :=
| ig_text t : ins_gen (XText t) (XText t)
| ig_comment t : ins_gen (XComment t) (XComment t)
| ig_pi t v : ins_gen (XPI t v) (XPI t v)
| ig_elem nm a a' sc ch ch' :
    attrs_ext a a' ->
    ins_list (xstr_eqb (xn_local nm) PROTOTYPE) ch ch' ->
    Hd ch ch' ->
    ins_gen (XElem nm a sc ch) (XElem nm a' sc ch')
(** [ins_list proto old new]: no insertion among the children of a prototype *)
with ins_list : bool -> list xnode -> list xnode -> Prop :=
| il_nil b : ins_list b [] []
| il_keep b c c' r r' : ins_gen c c' -> ins_list b r r' -> ins_list b (c :: r) (c' :: r')
| il_ins f r r' : is_element f = true -> P f -> ins_list false r r' -> ins_list false r (f :: r').

(** documents: the children of the document node correspond one to one *)
Definition ins_doc_gen (d d' : xdoc) : Prop := Forall2 ins_gen (xd_children d) (xd_children d').
End Gen.

(** nothing inserted in front of a leading text node *)
Definition head_text_kept (ch ch' : list xnode) : Prop :=
  match ch with
  | XText _ :: _ => match ch' with XText _ :: _ => True | _ => False end
  | _ => True
  end.

(** C18 at full strength *)
Definition fins : xnode -> xnode -> Prop := ins_gen (fun f => foreign_elem f = true) (fun _ _ => True).
Definition fins_doc : xdoc -> xdoc -> Prop := ins_doc_gen (fun f => foreign_elem f = true) (fun _ _ => True).
Definition insert_foreign : xdoc -> xdoc -> Prop := fins_doc.

(** the restriction under which extraction is unchanged (the namespace of the inserted elements
    does not matter) *)
Definition ins : xnode -> xnode -> Prop := ins_gen (fun f => inert_subtree f = true) head_text_kept.
Definition ins_doc : xdoc -> xdoc -> Prop := ins_doc_gen (fun f => inert_subtree f = true) head_text_kept.

(** the same with the inserted elements required to be foreign as well *)
Definition fins_inert : xnode -> xnode -> Prop :=
  ins_gen (fun f => foreign_elem f = true /\ inert_subtree f = true) head_text_kept.
Definition fins_inert_doc : xdoc -> xdoc -> Prop :=
  ins_doc_gen (fun f => foreign_elem f = true /\ inert_subtree f = true) head_text_kept.

(** only namespaced attributes are added (anywhere, also inside prototypes) *)
Definition fattr : xnode -> xnode -> Prop := ins_gen (fun _ => False) (fun _ _ => True).
Definition fattr_doc : xdoc -> xdoc -> Prop := ins_doc_gen (fun _ => False) (fun _ _ => True).
