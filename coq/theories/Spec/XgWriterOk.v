(** The metadata values for which the bytes of the writer are a rendering of the
    abstract tree: the hypothesis of [gen_is_render] (Proofs/XgRender.v), as a
    boolean.  Each conjunct names one way in which the real writer emits bytes
    that do NOT denote the metadata it was given (all confirmed on the real
    code by the probes of tools/props/c04.py), or one assumption on the float
    oracle:

    - [rt_format] must be the standard format name (the writer ignores it);
    - colour / intensity limits must be complete or absent (incomplete ones are
      silently not written);
    - no extension URL may equal the E57 namespace, and the prefix of an
      extension record must be the FIRST prefix bound to its URL (two
      extensions with one URL: the element is attributed to the first);
    - an extension record must use a registered prefix;
    - the text of every float (oracle: Rust's Display) is non-empty printable
      ASCII without markup characters.

    [meta_xml_ok] collects what makes the abstract tree a well-formed XML tree
    ([wf_doc] of Spec/XmlRender.v): strings of XML characters without carriage
    return, extension prefixes that are XML names and pairwise distinct,
    extension URLs of XML characters other than the two reserved ones,
    extension records with a registered prefix and an XML name.
    No proofs here. *)
From E57 Require Import Base.Prelude Model.Meta Model.MetaFile Model.XmlTree Model.XmlGen Spec.XmlRender Spec.MetaTree.
Require Import Coq.Strings.String.
Local Open Scope N_scope.

Local Notation "'B' s" := ltac:(let v := eval vm_compute in (bytes_of_string s%string) in exact v)
  (at level 0, s at level 0, only parsing).

(** a printable ASCII byte that is written as itself both in character data and in
    attribute values (no markup character, no blank other than the space) *)
Definition plain_byte (b : N) : bool :=
  (32 <=? b) && (b <? 127) && negb ((b =? 38) || (b =? 60) || (b =? 62) || (b =? 34)).
Definition plain_text (t : list N) : bool :=
  match t with [] => false | _ => forallb plain_byte t end.

Definition f64_ok (f : f64t) : bool := plain_text (f64_text f).
Definition f32_ok (f : f32t) : bool := plain_text (f32_text f).
Definition opt_ok {A} (p : A -> bool) (o : option A) : bool := match o with Some x => p x | None => true end.

Definition date_time_ok (d : date_time) : bool := f64_ok (dt_gps_time d).
Definition transform_ok (t : transform) : bool :=
  f64_ok (t_rw t) && f64_ok (t_rx t) && f64_ok (t_ry t) && f64_ok (t_rz t) &&
  f64_ok (t_tx t) && f64_ok (t_ty t) && f64_ok (t_tz t).
Definition cartesian_bounds_ok (b : cartesian_bounds) : bool :=
  opt_ok f64_ok (cb_x_min b) && opt_ok f64_ok (cb_x_max b) && opt_ok f64_ok (cb_y_min b) &&
  opt_ok f64_ok (cb_y_max b) && opt_ok f64_ok (cb_z_min b) && opt_ok f64_ok (cb_z_max b).
Definition spherical_bounds_ok (b : spherical_bounds) : bool :=
  opt_ok f64_ok (sb_azimuth_start b) && opt_ok f64_ok (sb_azimuth_end b) && opt_ok f64_ok (sb_elevation_min b) &&
  opt_ok f64_ok (sb_elevation_max b) && opt_ok f64_ok (sb_range_min b) && opt_ok f64_ok (sb_range_max b).
Definition limit_ok (v : limit_value) : bool :=
  match v with LSingle f => f32_ok f | LDouble f => f64_ok f | _ => true end.
Definition intensity_limits_ok (l : intensity_limits) : bool :=
  intensity_limits_complete l && opt_ok limit_ok (il_min l) && opt_ok limit_ok (il_max l).
Definition color_limits_ok (l : color_limits) : bool :=
  color_limits_complete l &&
  opt_ok limit_ok (cl_red_min l) && opt_ok limit_ok (cl_red_max l) && opt_ok limit_ok (cl_green_min l) &&
  opt_ok limit_ok (cl_green_max l) && opt_ok limit_ok (cl_blue_min l) && opt_ok limit_ok (cl_blue_max l).

Definition data_type_ok (t : data_type) : bool :=
  match t with
  | DSingle mn mx => opt_ok f32_ok mn && opt_ok f32_ok mx
  | DDouble mn mx => opt_ok f64_ok mn && opt_ok f64_ok mx
  | DScaledInteger _ _ scale offset => f64_ok scale && f64_ok offset
  | DInteger _ _ => true
  end.

(** the prefix the renderer gives an element in this namespace is [p] *)
Definition prefix_is (sc : list xnsdecl) (ns : option xstr) (p : option xstr) : bool :=
  match elem_prefix sc ns with
  | Some q => opt_str_eqb q p
  | None => false
  end.

Definition record_name_ok (exts : list extension) (n : record_name) : bool :=
  match n with
  | Unknown ns _ =>
      match ext_uri exts ns with
      | Some u => prefix_is (scope_of exts) (Some u) (Some ns)
      | None => false
      end
  | _ => true
  end.
Definition record_ok (exts : list extension) (r : record) : bool :=
  record_name_ok exts (r_name r) && data_type_ok (r_type r).

Definition pointcloud_ok (exts : list extension) (pc : pointcloud) : bool :=
  forallb (record_ok exts) (pc_prototype pc) &&
  opt_ok cartesian_bounds_ok (pc_cartesian_bounds pc) &&
  opt_ok spherical_bounds_ok (pc_spherical_bounds pc) &&
  opt_ok color_limits_ok (pc_color_limits pc) &&
  opt_ok intensity_limits_ok (pc_intensity_limits pc) &&
  opt_ok transform_ok (pc_transform pc) &&
  opt_ok date_time_ok (pc_acquisition_start pc) &&
  opt_ok date_time_ok (pc_acquisition_end pc) &&
  opt_ok f64_ok (pc_temperature pc) && opt_ok f64_ok (pc_humidity pc) && opt_ok f64_ok (pc_atmospheric_pressure pc).

Definition projection_ok (p : projection) : bool :=
  match p with
  | PPinhole x => f64_ok (ph_focal_length x) && f64_ok (ph_pixel_width x) && f64_ok (ph_pixel_height x) &&
                  f64_ok (ph_principal_x x) && f64_ok (ph_principal_y x)
  | PSpherical x => f64_ok (si_pixel_width x) && f64_ok (si_pixel_height x)
  | PCylindrical x => f64_ok (ci_radius x) && f64_ok (ci_principal_y x) && f64_ok (ci_pixel_width x) && f64_ok (ci_pixel_height x)
  end.
Definition image_ok (i : image) : bool :=
  opt_ok projection_ok (im_projection i) && opt_ok transform_ok (im_transform i) && opt_ok date_time_ok (im_acquisition i).

Definition writer_meta_ok (m : file_meta) : bool :=
  xstr_eqb (rt_format (fm_root m)) STD_FORMAT_NAME &&
  prefix_is (scope_of (fm_extensions m)) (Some E57_URI) None &&
  opt_ok date_time_ok (rt_creation (fm_root m)) &&
  forallb (pointcloud_ok (fm_extensions m)) (fm_pointclouds m) &&
  forallb image_ok (fm_images m).

(** * well-formedness of the tree *)
Definition string_ok (s : xstring) : bool := text_ok s.
Definition opt_string_ok (o : option xstring) : bool := opt_ok string_ok o.

Definition ext_decl (e : extension) : xnsdecl := mkXNs (Some (e_namespace e)) (e_url e).
Definition extensions_ok (exts : list extension) : bool :=
  forallb (fun e => decl_ok (ext_decl e)) exts && distinct_prefixes (scope_of exts) && (len exts <? 65535).

Definition record_xml_ok (exts : list extension) (r : record) : bool :=
  match r_name r with
  | Unknown ns name => ncname name && match ext_uri exts ns with Some _ => true | None => false end
  | _ => true
  end.

Definition pointcloud_xml_ok (exts : list extension) (pc : pointcloud) : bool :=
  opt_string_ok (pc_guid pc) && opt_ok (forallb string_ok) (pc_original_guids pc) &&
  opt_string_ok (pc_name pc) && opt_string_ok (pc_description pc) &&
  opt_string_ok (pc_sensor_vendor pc) && opt_string_ok (pc_sensor_model pc) && opt_string_ok (pc_sensor_serial pc) &&
  opt_string_ok (pc_sensor_hw_version pc) && opt_string_ok (pc_sensor_sw_version pc) && opt_string_ok (pc_sensor_fw_version pc) &&
  forallb (record_xml_ok exts) (pc_prototype pc).

Definition image_xml_ok (i : image) : bool :=
  opt_string_ok (im_guid i) && opt_string_ok (im_pointcloud_guid i) && opt_string_ok (im_name i) &&
  opt_string_ok (im_description i) && opt_string_ok (im_sensor_vendor i) && opt_string_ok (im_sensor_model i) &&
  opt_string_ok (im_sensor_serial i).

Definition meta_xml_ok (m : file_meta) : bool :=
  let r := fm_root m in
  string_ok (rt_format r) && string_ok (rt_guid r) && opt_string_ok (rt_library_version r) &&
  opt_string_ok (rt_coordinate_metadata r) &&
  extensions_ok (fm_extensions m) &&
  forallb (pointcloud_xml_ok (fm_extensions m)) (fm_pointclouds m) &&
  forallb image_xml_ok (fm_images m).

(** * a concrete metadata value (non-vacuity examples of the theorems; also evaluated by the
    extracted code in every run of the check, tools/props/c04.py, against the digest proved in
    Proofs/XgRender.v) *)
Definition xg_f (bits : N) (text : list N) : f64t := mkF64 bits text.
Definition xg_example : file_meta :=
  let one := xg_f 0x3ff0000000000000 (B "1") in
  let half := xg_f 0x3fe0000000000000 (B "0.5") in
  let ninf := xg_f 0xfff0000000000000 (B "-inf") in
  mkFileMeta
    (mkRoot STD_FORMAT_NAME (B "{guid}") 1 0 (Some (B "lib <&>")) (Some (mkDateTime half true)) (Some (B "a]]>b")))
    [mkExtension (B "nor") (B "http://x/?a=1&b=""2""")]
    [mkPointCloud (Some (B "pc]]>")) 48 2
       [mkRecord CartesianX (DDouble None (Some one)); mkRecord CartesianY (DSingle (Some (mkF32 0x3f800000 (B "1"))) None);
        mkRecord CartesianZ (DScaledInteger (-5) 5 half ninf); mkRecord Intensity (DInteger 0 255);
        mkRecord (Unknown (B "nor") (B "normalX")) (DInteger (-9223372036854775808) 9223372036854775807)]
       (Some [B "g1"; []]) (Some []) None
       (Some (mkCb (Some ninf) (Some one) None None None None)) None
       (Some (mkIb (Some (-1)%Z) None None None None None))
       (Some (mkIl (Some (LInteger 0)) (Some (LInteger 255)))) None
       (Some (mkTransform one half half half ninf one half)) (Some (mkDateTime one false)) None
       (Some (B " ")) None None None None None (Some half) None None]
    [mkImage (Some (B "img")) None
       (Some (PSpherical (mkSphImg (mkImageBlob (mkBlob 1024 10) Jpeg) (Some (mkBlob 2048 3)) 4294967295 0 half one)))
       None None (Some []) None None None None None].


Definition xg_digest (bs : list N) : N * N :=
  (len bs, fold_left (fun a b => (a * 31 + b) mod 4294967296) bs 0).
