(** Nesting depth of the elements of a tree (text, comments and processing instructions do not
    count): what [xml::check_depth] bounds by 256.  No proofs here. *)
From E57 Require Import Base.Prelude Model.XmlTree.

Fixpoint node_depth (n : xnode) : N :=
  match n with
  | XElem _ _ _ ch =>
      1 + (fix mx (l : list xnode) : N :=
             match l with [] => 0 | x :: r => N.max (node_depth x) (mx r) end) ch
  | _ => 0
  end.

Definition max_depth (l : list xnode) : N := fold_right (fun x acc => N.max (node_depth x) acc) 0 l.
Definition tree_depth (d : xdoc) : N := max_depth (xd_children d).
