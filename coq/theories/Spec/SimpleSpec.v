(** The documented view of one raw point: what the documentation of [Point],
    [CartesianCoordinate], [SphericalCoordinate], [Color] and the six option
    setters of [PointCloudReaderSimple] (and the text of property C05) say a
    simple point is, as a function of the point cloud descriptor, the option
    vector and the raw values of the point.  Written field by field over an
    association of attribute names to raw values, not over indices, queues or
    passes.  Float operations are binary64 in the order the formulas are
    written; [cos], [sin], [asin], [atan2] are Section variables.
    No proofs here. *)
From Coq Require Import ZArith NArith Bool List.
From Flocq Require Import Binary Bits.
From E57 Require Import Base.Prelude Base.Floats Model.Record Model.Meta Model.Normalize Model.SimpleIter.

Local Open Scope res_scope.

(** * Attributes of a raw point *)

(** The attribute called [nm]: data type and raw value of the first prototype
    record with that name. *)
Definition field (pc : pointcloud) (raw : list rvalue) (nm : record_name) : option (data_type * rvalue) :=
  option_map (fun rv => (r_type (fst rv), snd rv))
    (find (fun rv => name_eqb (r_name (fst rv)) nm) (combine (pc_prototype pc) raw)).

(** The number an attribute stands for: a float is itself (single widened
    exactly), an integer is converted, a scaled integer is value x scale + offset. *)
Definition number (f : data_type * rvalue) : res binary64 :=
  match snd f with
  | VSingle b => Ok (f64_of_f32 (f32_of_bits b))
  | VDouble b => Ok (f64_of_bits b)
  | VInteger i => Ok (f64_of_Z i)
  | VScaled i =>
      match fst f with
      | DScaledInteger _ _ scale offset =>
          Ok (f64_add (f64_mul (f64_of_Z i) (f64v scale)) (f64v offset))
      | _ => Err EInternal                       (* not a value of this record *)
      end
  end.

(** Invalid-state attributes, row and column are integers. *)
Definition integer (f : data_type * rvalue) : res Z :=
  match f with
  | (DInteger _ _, VInteger i) => Ok i
  | _ => Err EInternal
  end.

Definition opt_integer (f : option (data_type * rvalue)) : res (option Z) :=
  match f with
  | Some f => res_map Some (integer f)
  | None => Ok None
  end.

(** * Validity *)
Inductive validity := Full | DirectionOnly | NoValue.

(** cartesianInvalidState / sphericalInvalidState: 0 valid, 1 direction only,
    2 invalid; without the attribute every stored coordinate is valid. *)
Definition validity3 (st : option Z) : res validity :=
  match st with
  | None => Ok Full
  | Some z =>
      if (z =? 0)%Z then Ok Full else if (z =? 1)%Z then Ok DirectionOnly
      else if (z =? 2)%Z then Ok NoValue else Err EInvalid
  end.

(** isColorInvalid / isIntensityInvalid: 0 valid, 1 invalid. *)
Definition validity2 (st : option Z) : res bool :=
  match st with
  | None => Ok true
  | Some z => if (z =? 0)%Z then Ok true else if (z =? 1)%Z then Ok false else Err EInvalid
  end.

(** The documented sets, as a condition on a raw point. *)
Definition state_in (pc : pointcloud) (raw : list rvalue) (nm : record_name) (top : Z) : bool :=
  match field pc raw nm with
  | None => true
  | Some (_, VInteger z) => (0 <=? z)%Z && (z <=? top)%Z
  | Some _ => false
  end.
Definition invalid_states_in_set (pc : pointcloud) (raw : list rvalue) : bool :=
  state_in pc raw CartesianInvalidState 2 && state_in pc raw SphericalInvalidState 2
  && state_in pc raw IsColorInvalid 1 && state_in pc raw IsIntensityInvalid 1.

(** The invalid-state, row and column records are integers (ASTM E2807 table
    of standard point attributes); a descriptor-level condition. *)
Definition integer_record (pc : pointcloud) (nm : record_name) : bool :=
  match find_record (pc_prototype pc) nm with
  | Some r => match r_type r with DInteger _ _ => true | _ => false end
  | None => true
  end.
Definition index_records_are_integers (pc : pointcloud) : bool :=
  integer_record pc CartesianInvalidState && integer_record pc SphericalInvalidState
  && integer_record pc IsColorInvalid && integer_record pc IsIntensityInvalid
  && integer_record pc RowIndex && integer_record pc ColumnIndex.

Section View.
  Variables (fcos fsin fasin : binary64 -> binary64) (fatan2 : binary64 -> binary64 -> binary64).
  Variable pc : pointcloud.
  Variable o : opts.
  Variable raw : list rvalue.

  Local Notation attr := (field pc raw).

  (** ** What is stored *)

  Definition stored_cartesian : res cartesian :=
    st <-- opt_integer (attr CartesianInvalidState) ;;
    match attr CartesianX, attr CartesianY, attr CartesianZ with
    | Some fx, Some fy, Some fz =>
        v <-- validity3 st ;;
        match v with
        | Full => x <-- number fx ;; y <-- number fy ;; z <-- number fz ;; Ok (CValid x y z)
        | DirectionOnly => x <-- number fx ;; y <-- number fy ;; z <-- number fz ;; Ok (CDirection x y z)
        | NoValue => Ok CInvalid
        end
    | _, _, _ => Ok CInvalid
    end.

  Definition stored_spherical : res spherical :=
    st <-- opt_integer (attr SphericalInvalidState) ;;
    match attr SphericalRange, attr SphericalAzimuth, attr SphericalElevation with
    | Some fr, Some fa, Some fe =>
        v <-- validity3 st ;;
        match v with
        | Full => r <-- number fr ;; a <-- number fa ;; e <-- number fe ;; Ok (SValid r a e)
        | DirectionOnly => a <-- number fa ;; e <-- number fe ;; Ok (SDirection a e)
        | NoValue => Ok SInvalid
        end
    | _, _, _ => Ok SInvalid
    end.

  (** One colour channel or the intensity: the stored number, normalised with
      the limits of the point cloud when the switch is on, else narrowed to f32. *)
  Definition channel_number (c : chan) (enabled : bool) (f : data_type * rvalue) : res binary32 :=
    v <-- number f ;; channel_value (channel_of pc c) enabled v.

  (** absent exactly when flagged invalid or not stored *)
  Definition view_color_stored : res (option color) :=
    st <-- opt_integer (attr IsColorInvalid) ;;
    match attr ColorRed, attr ColorGreen, attr ColorBlue with
    | Some fr, Some fg, Some fb =>
        ok <-- validity2 st ;;
        if ok then
          r <-- channel_number ChRed (o_nc o) fr ;;
          g <-- channel_number ChGreen (o_nc o) fg ;;
          b <-- channel_number ChBlue (o_nc o) fb ;;
          Ok (Some (mkColor r g b))
        else Ok None
    | _, _, _ => Ok None
    end.

  Definition view_intensity : res (option binary32) :=
    st <-- opt_integer (attr IsIntensityInvalid) ;;
    match attr Intensity with
    | Some fi =>
        ok <-- validity2 st ;;
        if ok then i <-- channel_number ChIntensity (o_ni o) fi ;; Ok (Some i) else Ok None
    | None => Ok None
    end.

  (** row / column default to -1 *)
  Definition view_index (nm : record_name) : res Z :=
    match attr nm with
    | Some f => integer f
    | None => Ok (-1)%Z
    end.

  (** ** The conversions *)

  (** x = r cos(el) cos(az), y = r cos(el) sin(az), z = r sin(el) *)
  Definition cartesian_of_spherical (r az el : binary64) : binary64 * binary64 * binary64 :=
    (f64_mul (f64_mul r (fcos el)) (fcos az),
     f64_mul (f64_mul r (fcos el)) (fsin az),
     f64_mul r (fsin el)).

  (** spherical_to_cartesian: when no valid Cartesian value exists and a valid
      spherical one does, it is converted; when there is not even a Cartesian
      direction but a spherical direction, that one is converted with r = 1. *)
  Definition converted_cartesian (c : cartesian) (s : spherical) : cartesian :=
    match c, s with
    | CValid _ _ _, _ => c
    | _, SValid r az el => let '(x, y, z) := cartesian_of_spherical r az el in CValid x y z
    | CDirection _ _ _, _ => c
    | CInvalid, SDirection az el => let '(x, y, z) := cartesian_of_spherical f64_one az el in CDirection x y z
    | CInvalid, SInvalid => c
    end.

  (** r = sqrt(x^2 + y^2 + z^2), azimuth = atan2(y, x), elevation = asin(z / r) *)
  Definition radius (x y z : binary64) : binary64 :=
    f64_sqrt (f64_add (f64_add (f64_mul x x) (f64_mul y y)) (f64_mul z z)).

  (** cartesian_to_spherical, the mirror image *)
  Definition converted_spherical (c : cartesian) (s : spherical) : spherical :=
    match s, c with
    | SValid _ _ _, _ => s
    | _, CValid x y z => SValid (radius x y z) (fatan2 y x) (fasin (f64_div z (radius x y z)))
    | SDirection _ _, _ => s
    | SInvalid, CDirection x y z => SDirection (fatan2 y x) (fasin (f64_div z (radius x y z)))
    | SInvalid, CInvalid => s
    end.

  (** intensity_to_color: grey from the intensity when there is no colour *)
  Definition converted_color (c : option color) (i : option binary32) : option color :=
    match c, i with
    | Some _, _ => c
    | None, Some v => Some (mkColor v v v)
    | None, None => None
    end.

  (** apply_pose: rotation by the quaternion of the pose, then its translation,
      on valid Cartesian coordinates only; no pose is the identity pose. *)
  Definition pose_rotation : mat9 binary64 := fst (prepare_transform (pc_transform pc)).
  Definition pose_translation : vec3 binary64 := snd (prepare_transform (pc_transform pc)).
  Definition posed (c : cartesian) : cartesian :=
    match c with
    | CValid x y z =>
        let v := apply_pose64 pose_rotation pose_translation (mkVec3 x y z) in
        CValid (v_x v) (v_y v) (v_z v)
    | _ => c
    end.

  (** ** The point *)
  Definition view_cartesian (c : cartesian) (s : spherical) : cartesian :=
    let c1 := if o_s2c o then converted_cartesian c s else c in
    if o_pose o then posed c1 else c1.
  Definition view_spherical (c : cartesian) (s : spherical) : spherical :=
    if o_c2s o then converted_spherical c s else s.
  Definition view_color (c : option color) (i : option binary32) : option color :=
    if o_i2c o then converted_color c i else c.

  Definition view : res point :=
    c <-- stored_cartesian ;;
    s <-- stored_spherical ;;
    col <-- view_color_stored ;;
    i <-- view_intensity ;;
    row <-- view_index RowIndex ;;
    column <-- view_index ColumnIndex ;;
    Ok (mkPoint (view_cartesian c s) (view_spherical c s) (view_color col i) i row column).
End View.

(** [view] of every raw point, in order; the first failure is the result. *)
Fixpoint res_all {X Y} (f : X -> res Y) (l : list X) : res (list Y) :=
  match l with
  | [] => Ok []
  | a :: r =>
      match f a with
      | Ok b => match res_all f r with Ok bs => Ok (b :: bs) | Err e => Err e | Panic => Panic end
      | Err e => Err e
      | Panic => Panic
      end
  end.
