(** The abstract XML tree of a metadata value: what the XML parser of a reader
    (roxmltree, Model/XmlTree.v) must see for the file to carry exactly this
    metadata.  Written from the E57 XML vocabulary (ASTM E2807 table of
    elements: names, [type] attributes, nesting), independently of the byte
    generator Model/XmlGen.v:

    - every element is in the E57 namespace, except prototype records of an
      extension, which are in the namespace the extension prefix is bound to;
    - a String element has ONE text child holding the string (the empty string
      is an empty text node: that is what an empty CDATA section parses to);
    - Integer / Float elements have one text child: the decimal digits
      (standard library [Z.to_int] / [N.to_uint]) resp. the text of the float;
    - Structure / Vector / CompressedVector elements hold their children
      separated by a line feed: a text node [\n] after the start tag and after
      every child (the writer's layout; roxmltree keeps white space inside
      elements as text nodes);
    - the root element declares the extension prefixes in registration order
      and the default namespace last; every element has that scope.
    No proofs here. *)
From Coq Require Import Decimal.
From E57 Require Import Base.Prelude Model.Meta Model.MetaFile Model.XmlTree.
Require Import Coq.Strings.String.
Local Open Scope N_scope.

(** string literals become explicit byte lists when they are read *)
Local Notation "'B' s" := ltac:(let v := eval vm_compute in (bytes_of_string s%string) in exact v)
  (at level 0, s at level 0, only parsing).

Definition E57_URI : xstr := B "http://www.astm.org/COMMIT/E57/2010-e57-v1.0".
Definition STD_FORMAT_NAME : xstr := B "ASTM E57 3D Imaging Data File".

(** decimal text of integers: the digits of the standard library's decimal
    conversion ([N.to_uint], [Z.to_int]), most significant first, '-' for negative numbers *)
Definition digit_byte (d : Decimal.uint) : N :=
  match d with
  | Nil => 0 | D0 _ => 48 | D1 _ => 49 | D2 _ => 50 | D3 _ => 51 | D4 _ => 52
  | D5 _ => 53 | D6 _ => 54 | D7 _ => 55 | D8 _ => 56 | D9 _ => 57
  end.
Fixpoint dec_uint (d : Decimal.uint) : xstr :=
  match d with
  | Nil => []
  | D0 r | D1 r | D2 r | D3 r | D4 r | D5 r | D6 r | D7 r | D8 r | D9 r => digit_byte d :: dec_uint r
  end.
Definition dec_n (n : N) : xstr := dec_uint (N.to_uint n).
Definition dec_z (z : Z) : xstr :=
  match Z.to_int z with
  | Decimal.Pos d => dec_uint d
  | Decimal.Neg d => 45 :: dec_uint d
  end.

Definition nl : xnode := XText [10].

Section WithScope.
  (** the namespaces in scope (the same list at every element) and the registered extensions *)
  Variable sc : list xnsdecl.
  Variable exts : list extension.

  Definition ename (local : xstr) : xname := mkXName (Some E57_URI) local.
  Definition at_ (name value : xstr) : xattr := mkXAttr (mkXName None name) value.
  Definition ty (t : xstr) : xattr := at_ (B "type") t.

  Definition el (name : xstr) (attrs : list xattr) (ch : list xnode) : xnode :=
    XElem (ename name) attrs sc ch.

  (** children laid out one per line *)
  Definition lines (ch : list xnode) : list xnode := nl :: flat_map (fun c => [c; nl]) ch.

  Definition t_string (name : xstr) (s : xstring) : xnode := el name [ty (B "String")] [XText s].
  Definition t_float (name : xstr) (f : f64t) : xnode := el name [ty (B "Float")] [XText (f64_text f)].
  Definition t_int (name : xstr) (z : Z) : xnode := el name [ty (B "Integer")] [XText (dec_z z)].
  Definition t_uint (name : xstr) (n : N) : xnode := el name [ty (B "Integer")] [XText (dec_n n)].
  Definition t_struct (name : xstr) (ch : list xnode) : xnode := el name [ty (B "Structure")] (lines ch).
  Definition t_vector (name : xstr) (hetero : bool) (ch : list xnode) : xnode :=
    el name [ty (B "Vector"); at_ (B "allowHeterogeneousChildren") (if hetero then B "1" else B "0")] (lines ch).

  Definition opt1 {A} (f : A -> xnode) (o : option A) : list xnode :=
    match o with Some x => [f x] | None => [] end.

  (** DateTime: dateTimeValue (Float), isAtomicClockReferenced (Integer 0/1) *)
  Definition t_date_time (name : xstr) (d : date_time) : xnode :=
    t_struct name
      [t_float (B "dateTimeValue") (dt_gps_time d);
       el (B "isAtomicClockReferenced") [ty (B "Integer")] [XText (if dt_atomic d then B "1" else B "0")]].

  (** RigidBodyTransform: rotation (Quaternion w x y z), translation (x y z) *)
  Definition t_transform (name : xstr) (t : transform) : xnode :=
    t_struct name
      [t_struct (B "rotation") [t_float (B "w") (t_rw t); t_float (B "x") (t_rx t); t_float (B "y") (t_ry t); t_float (B "z") (t_rz t)];
       t_struct (B "translation") [t_float (B "x") (t_tx t); t_float (B "y") (t_ty t); t_float (B "z") (t_tz t)]].

  Definition t_cartesian_bounds (b : cartesian_bounds) : xnode :=
    t_struct (B "cartesianBounds")
      (opt1 (t_float (B "xMinimum")) (cb_x_min b) ++ opt1 (t_float (B "xMaximum")) (cb_x_max b) ++
       opt1 (t_float (B "yMinimum")) (cb_y_min b) ++ opt1 (t_float (B "yMaximum")) (cb_y_max b) ++
       opt1 (t_float (B "zMinimum")) (cb_z_min b) ++ opt1 (t_float (B "zMaximum")) (cb_z_max b)).

  Definition t_spherical_bounds (b : spherical_bounds) : xnode :=
    t_struct (B "sphericalBounds")
      (opt1 (t_float (B "azimuthStart")) (sb_azimuth_start b) ++ opt1 (t_float (B "azimuthEnd")) (sb_azimuth_end b) ++
       opt1 (t_float (B "elevationMinimum")) (sb_elevation_min b) ++ opt1 (t_float (B "elevationMaximum")) (sb_elevation_max b) ++
       opt1 (t_float (B "rangeMinimum")) (sb_range_min b) ++ opt1 (t_float (B "rangeMaximum")) (sb_range_max b)).

  Definition t_index_bounds (b : index_bounds) : xnode :=
    t_struct (B "indexBounds")
      (opt1 (t_int (B "rowMinimum")) (ib_row_min b) ++ opt1 (t_int (B "rowMaximum")) (ib_row_max b) ++
       opt1 (t_int (B "columnMinimum")) (ib_column_min b) ++ opt1 (t_int (B "columnMaximum")) (ib_column_max b) ++
       opt1 (t_int (B "returnMinimum")) (ib_return_min b) ++ opt1 (t_int (B "returnMaximum")) (ib_return_max b)).

  (** a limit carries the element type of the record it bounds *)
  Definition t_limit (name : xstr) (v : limit_value) : xnode :=
    match v with
    | LInteger z => el name [ty (B "Integer")] [XText (dec_z z)]
    | LScaledInteger z => el name [ty (B "ScaledInteger")] [XText (dec_z z)]
    | LSingle f => el name [ty (B "Float"); at_ (B "precision") (B "single")] [XText (f32_text f)]
    | LDouble f => el name [ty (B "Float")] [XText (f64_text f)]
    end.

  Definition t_intensity_limits (l : intensity_limits) : xnode :=
    t_struct (B "intensityLimits")
      (opt1 (t_limit (B "intensityMinimum")) (il_min l) ++ opt1 (t_limit (B "intensityMaximum")) (il_max l)).

  Definition t_color_limits (l : color_limits) : xnode :=
    t_struct (B "colorLimits")
      (opt1 (t_limit (B "colorRedMinimum")) (cl_red_min l) ++ opt1 (t_limit (B "colorRedMaximum")) (cl_red_max l) ++
       opt1 (t_limit (B "colorGreenMinimum")) (cl_green_min l) ++ opt1 (t_limit (B "colorGreenMaximum")) (cl_green_max l) ++
       opt1 (t_limit (B "colorBlueMinimum")) (cl_blue_min l) ++ opt1 (t_limit (B "colorBlueMaximum")) (cl_blue_max l)).

  (** ** prototype records *)
  Definition std_record_name (n : record_name) : xstr :=
    match n with
    | CartesianX => B "cartesianX" | CartesianY => B "cartesianY" | CartesianZ => B "cartesianZ"
    | CartesianInvalidState => B "cartesianInvalidState"
    | SphericalRange => B "sphericalRange" | SphericalAzimuth => B "sphericalAzimuth"
    | SphericalElevation => B "sphericalElevation" | SphericalInvalidState => B "sphericalInvalidState"
    | Intensity => B "intensity" | IsIntensityInvalid => B "isIntensityInvalid"
    | ColorRed => B "colorRed" | ColorGreen => B "colorGreen" | ColorBlue => B "colorBlue"
    | IsColorInvalid => B "isColorInvalid"
    | RowIndex => B "rowIndex" | ColumnIndex => B "columnIndex"
    | ReturnCount => B "returnCount" | ReturnIndex => B "returnIndex"
    | TimeStamp => B "timeStamp" | IsTimeStampInvalid => B "isTimeStampInvalid"
    | Unknown _ name => name
    end.

  (** the URI an extension prefix is bound to (None: not registered) *)
  Definition ext_uri (prefix : xstr) : option xstr :=
    match find (fun e => xstr_eqb (e_namespace e) prefix) exts with
    | Some e => Some (e_url e)
    | None => None
    end.

  Definition record_xname (n : record_name) : xname :=
    match n with
    | Unknown ns name => mkXName (ext_uri ns) name
    | _ => ename (std_record_name n)
    end.

  (** the text of a prototype element is a sample value inside the element's own limits: the
      minimum; without a minimum the maximum when that is below zero (negative, not -0, not NaN:
      the bit patterns strictly between -0.0 and the negative NaNs, -inf included); else 0 *)
  Definition below_zero64 (f : f64t) : bool :=
    (0x8000000000000000 <? f64_bits f) && (f64_bits f <=? 0xfff0000000000000).
  Definition below_zero32 (f : f32t) : bool :=
    (0x80000000 <? f32_bits f) && (f32_bits f <=? 0xff800000).
  Definition sample64 (mn mx : option f64t) : xstr :=
    match mn, mx with
    | Some f, _ => f64_text f
    | None, Some f => if below_zero64 f then f64_text f else B "0"
    | None, None => B "0"
    end.
  Definition sample32 (mn mx : option f32t) : xstr :=
    match mn, mx with
    | Some f, _ => f32_text f
    | None, Some f => if below_zero32 f then f32_text f else B "0"
    | None, None => B "0"
    end.

  Definition t_record (r : record) : xnode :=
    let '(attrs, text) :=
      match r_type r with
      | DSingle mn mx =>
          ([ty (B "Float"); at_ (B "precision") (B "single")] ++
           match mn with Some f => [at_ (B "minimum") (f32_text f)] | None => [] end ++
           match mx with Some f => [at_ (B "maximum") (f32_text f)] | None => [] end,
           sample32 mn mx)
      | DDouble mn mx =>
          ([ty (B "Float")] ++
           match mn with Some f => [at_ (B "minimum") (f64_text f)] | None => [] end ++
           match mx with Some f => [at_ (B "maximum") (f64_text f)] | None => [] end,
           sample64 mn mx)
      | DScaledInteger mn mx scale offset =>
          ([ty (B "ScaledInteger"); at_ (B "minimum") (dec_z mn); at_ (B "maximum") (dec_z mx);
            at_ (B "scale") (f64_text scale); at_ (B "offset") (f64_text offset)], dec_z mn)
      | DInteger mn mx =>
          ([ty (B "Integer"); at_ (B "minimum") (dec_z mn); at_ (B "maximum") (dec_z mx)], dec_z mn)
      end in
    XElem (record_xname (r_name r)) attrs sc [XText text].

  (** ** Data3D *)
  Definition t_points (pc : pointcloud) : xnode :=
    el (B "points")
      [ty (B "CompressedVector"); at_ (B "fileOffset") (dec_n (pc_file_offset pc)); at_ (B "recordCount") (dec_n (pc_records pc))]
      (lines [t_struct (B "prototype") (map t_record (pc_prototype pc))]).

  Definition t_pointcloud (pc : pointcloud) : xnode :=
    t_struct (B "vectorChild")
      (opt1 (t_string (B "guid")) (pc_guid pc) ++
       opt1 (fun l => t_vector (B "originalGuids") false (map (t_string (B "vectorChild")) l)) (pc_original_guids pc) ++
       opt1 t_cartesian_bounds (pc_cartesian_bounds pc) ++
       opt1 t_spherical_bounds (pc_spherical_bounds pc) ++
       opt1 t_index_bounds (pc_index_bounds pc) ++
       opt1 t_color_limits (pc_color_limits pc) ++
       opt1 t_intensity_limits (pc_intensity_limits pc) ++
       opt1 (t_string (B "name")) (pc_name pc) ++
       opt1 (t_string (B "description")) (pc_description pc) ++
       opt1 (t_string (B "sensorVendor")) (pc_sensor_vendor pc) ++
       opt1 (t_string (B "sensorModel")) (pc_sensor_model pc) ++
       opt1 (t_string (B "sensorSerialNumber")) (pc_sensor_serial pc) ++
       opt1 (t_string (B "sensorSoftwareVersion")) (pc_sensor_sw_version pc) ++
       opt1 (t_string (B "sensorFirmwareVersion")) (pc_sensor_fw_version pc) ++
       opt1 (t_string (B "sensorHardwareVersion")) (pc_sensor_hw_version pc) ++
       opt1 (t_transform (B "pose")) (pc_transform pc) ++
       opt1 (t_date_time (B "acquisitionStart")) (pc_acquisition_start pc) ++
       opt1 (t_date_time (B "acquisitionEnd")) (pc_acquisition_end pc) ++
       opt1 (t_float (B "temperature")) (pc_temperature pc) ++
       opt1 (t_float (B "relativeHumidity")) (pc_humidity pc) ++
       opt1 (t_float (B "atmosphericPressure")) (pc_atmospheric_pressure pc) ++
       [t_points pc]).

  (** ** Image2D *)
  Definition t_blob (name : xstr) (b : blob) : xnode :=
    el name [ty (B "Blob"); at_ (B "fileOffset") (dec_n (b_offset b)); at_ (B "length") (dec_n (b_length b))] [].

  Definition t_image_blob (b : image_blob) : xnode :=
    t_blob (match ib_format b with Png => B "pngImage" | Jpeg => B "jpegImage" end) (ib_data b).

  Definition t_visual_reference (v : visual_reference) : xnode :=
    t_struct (B "visualReferenceRepresentation")
      ([t_image_blob (vr_blob v)] ++ opt1 (t_blob (B "imageMask")) (vr_mask v) ++
       [t_uint (B "imageWidth") (vr_width v); t_uint (B "imageHeight") (vr_height v)]).

  Definition t_pinhole (p : pinhole) : xnode :=
    t_struct (B "pinholeRepresentation")
      ([t_image_blob (ph_blob p)] ++ opt1 (t_blob (B "imageMask")) (ph_mask p) ++
       [t_uint (B "imageWidth") (ph_width p); t_uint (B "imageHeight") (ph_height p);
        t_float (B "focalLength") (ph_focal_length p);
        t_float (B "pixelWidth") (ph_pixel_width p); t_float (B "pixelHeight") (ph_pixel_height p);
        t_float (B "principalPointX") (ph_principal_x p); t_float (B "principalPointY") (ph_principal_y p)]).

  Definition t_spherical_image (s : spherical_image) : xnode :=
    t_struct (B "sphericalRepresentation")
      ([t_image_blob (si_blob s)] ++ opt1 (t_blob (B "imageMask")) (si_mask s) ++
       [t_uint (B "imageWidth") (si_width s); t_uint (B "imageHeight") (si_height s);
        t_float (B "pixelWidth") (si_pixel_width s); t_float (B "pixelHeight") (si_pixel_height s)]).

  Definition t_cylindrical_image (c : cylindrical_image) : xnode :=
    t_struct (B "cylindricalRepresentation")
      ([t_image_blob (ci_blob c)] ++ opt1 (t_blob (B "imageMask")) (ci_mask c) ++
       [t_uint (B "imageWidth") (ci_width c); t_uint (B "imageHeight") (ci_height c);
        t_float (B "radius") (ci_radius c); t_float (B "principalPointY") (ci_principal_y c);
        t_float (B "pixelWidth") (ci_pixel_width c); t_float (B "pixelHeight") (ci_pixel_height c)]).

  Definition t_projection (p : projection) : xnode :=
    match p with
    | PPinhole x => t_pinhole x
    | PSpherical x => t_spherical_image x
    | PCylindrical x => t_cylindrical_image x
    end.

  Definition t_image (i : image) : xnode :=
    t_struct (B "vectorChild")
      (opt1 (t_string (B "guid")) (im_guid i) ++
       opt1 t_visual_reference (im_visual_reference i) ++
       opt1 t_projection (im_projection i) ++
       opt1 (t_transform (B "pose")) (im_transform i) ++
       opt1 (t_string (B "associatedData3DGuid")) (im_pointcloud_guid i) ++
       opt1 (t_string (B "name")) (im_name i) ++
       opt1 (t_string (B "description")) (im_description i) ++
       opt1 (t_date_time (B "acquisitionDateTime")) (im_acquisition i) ++
       opt1 (t_string (B "sensorVendor")) (im_sensor_vendor i) ++
       opt1 (t_string (B "sensorModel")) (im_sensor_model i) ++
       opt1 (t_string (B "sensorSerialNumber")) (im_sensor_serial i)).

  (** ** E57Root *)
  Definition t_root (m : file_meta) : xnode :=
    let r := fm_root m in
    t_struct (B "e57Root")
      ([t_string (B "formatName") (rt_format r);
        t_string (B "guid") (rt_guid r);
        t_int (B "versionMajor") (rt_major_version r);
        t_int (B "versionMinor") (rt_minor_version r)] ++
       opt1 (t_string (B "coordinateMetadata")) (rt_coordinate_metadata r) ++
       opt1 (t_string (B "e57LibraryVersion")) (rt_library_version r) ++
       opt1 (t_date_time (B "creationDateTime")) (rt_creation r) ++
       [t_vector (B "data3D") true (map t_pointcloud (fm_pointclouds m));
        t_vector (B "images2D") true (map t_image (fm_images m))]).
End WithScope.

(** the namespace declarations of the root element, in the order they are in scope *)
Definition scope_of (exts : list extension) : list xnsdecl :=
  map (fun e => mkXNs (Some (e_namespace e)) (e_url e)) exts ++ [mkXNs None E57_URI].

Definition tree_of (m : file_meta) : xdoc :=
  mkXDoc [t_root (scope_of (fm_extensions m)) (fm_extensions m) m].
