(** Reader half of the metadata round trip (property C04): the hypotheses and the conclusion of
      extract_all pf64 pf32 fdiv (tree_of m) = Ok (reader_view m)        (Proofs/XeTreeMain.v)

    [meta_ok m]            what the theorem needs of the metadata value (all of it is enforced by,
                           or is a limit of, the writer API; see the comment at each conjunct)
    [float_oracle_ok m]    the parse oracles invert the texts stored in m: for every float
                           {bits; text} occurring in m, parse text = Some bits.  Nothing else is
                           assumed about the oracles.
    [reader_view m]        m as the reader reports it.
    Everything is boolean, so that concrete instances are decided by computation.
    No proofs here. *)
From Coq Require Import Strings.String.
From Coq Require Import List.
From E57 Require Import Base.Prelude Model.Meta Model.MetaFile Model.XmlTree Model.XmlExtract Spec.MetaTree.

Local Notation "'B' s" := (ltac:(let v := eval vm_compute in (bytes_of_string s%string) in exact v))
  (at level 0, s at level 0, only parsing).

Definition ofo {A} (p : A -> bool) (o : option A) : bool := match o with Some x => p x | None => true end.

(** * The float oracles invert the stored texts *)
Section Oracle.
Variables pf64 pf32 : xstr -> option N.

Definition fo64 (f : f64t) : bool :=
  match pf64 (f64_text f) with Some b => N.eqb b (f64_bits f) | None => false end.
Definition fo32 (f : f32t) : bool :=
  match pf32 (f32_text f) with Some b => N.eqb b (f32_bits f) | None => false end.

Definition dt_fo (d : date_time) : bool := fo64 (dt_gps_time d).
Definition tr_fo (t : transform) : bool :=
  fo64 (t_rw t) && fo64 (t_rx t) && fo64 (t_ry t) && fo64 (t_rz t) && fo64 (t_tx t) && fo64 (t_ty t) && fo64 (t_tz t).
Definition cb_fo (b : cartesian_bounds) : bool :=
  ofo fo64 (cb_x_min b) && ofo fo64 (cb_x_max b) && ofo fo64 (cb_y_min b) && ofo fo64 (cb_y_max b) &&
  ofo fo64 (cb_z_min b) && ofo fo64 (cb_z_max b).
Definition sb_fo (b : spherical_bounds) : bool :=
  ofo fo64 (sb_range_min b) && ofo fo64 (sb_range_max b) && ofo fo64 (sb_elevation_min b) &&
  ofo fo64 (sb_elevation_max b) && ofo fo64 (sb_azimuth_start b) && ofo fo64 (sb_azimuth_end b).
Definition lv_fo (v : limit_value) : bool :=
  match v with LSingle f => fo32 f | LDouble f => fo64 f | _ => true end.
Definition il_fo (l : intensity_limits) : bool := ofo lv_fo (il_min l) && ofo lv_fo (il_max l).
Definition cl_fo (l : color_limits) : bool :=
  ofo lv_fo (cl_red_min l) && ofo lv_fo (cl_red_max l) && ofo lv_fo (cl_green_min l) &&
  ofo lv_fo (cl_green_max l) && ofo lv_fo (cl_blue_min l) && ofo lv_fo (cl_blue_max l).
Definition dtype_fo (d : data_type) : bool :=
  match d with
  | DSingle mn mx => ofo fo32 mn && ofo fo32 mx
  | DDouble mn mx => ofo fo64 mn && ofo fo64 mx
  | DScaledInteger _ _ s o => fo64 s && fo64 o
  | DInteger _ _ => true
  end.
Definition pc_fo (pc : pointcloud) : bool :=
  forallb (fun r => dtype_fo (r_type r)) (pc_prototype pc) &&
  ofo cb_fo (pc_cartesian_bounds pc) && ofo sb_fo (pc_spherical_bounds pc) &&
  ofo il_fo (pc_intensity_limits pc) && ofo cl_fo (pc_color_limits pc) &&
  ofo tr_fo (pc_transform pc) && ofo dt_fo (pc_acquisition_start pc) && ofo dt_fo (pc_acquisition_end pc) &&
  ofo fo64 (pc_temperature pc) && ofo fo64 (pc_humidity pc) && ofo fo64 (pc_atmospheric_pressure pc).
Definition proj_fo (p : projection) : bool :=
  match p with
  | PPinhole x => fo64 (ph_focal_length x) && fo64 (ph_pixel_width x) && fo64 (ph_pixel_height x) &&
                  fo64 (ph_principal_x x) && fo64 (ph_principal_y x)
  | PSpherical x => fo64 (si_pixel_width x) && fo64 (si_pixel_height x)
  | PCylindrical x => fo64 (ci_radius x) && fo64 (ci_principal_y x) && fo64 (ci_pixel_width x) && fo64 (ci_pixel_height x)
  end.
Definition im_fo (i : image) : bool :=
  ofo proj_fo (im_projection i) && ofo tr_fo (im_transform i) && ofo dt_fo (im_acquisition i).

Definition float_oracle_ok (m : file_meta) : bool :=
  ofo dt_fo (rt_creation (fm_root m)) && forallb pc_fo (fm_pointclouds m) && forallb im_fo (fm_images m).
End Oracle.

(** * What the theorem needs of the metadata *)

(** integers are stored in Rust's types (Meta.v uses unbounded Z / N) *)
Definition in_i64 (z : Z) : bool := ((- 2 ^ 63 <=? z) && (z <=? 2 ^ 63 - 1))%Z.
Definition in_u64 (n : N) : bool := n <? 2 ^ 64.
Definition in_u32 (n : N) : bool := n <? 2 ^ 32.

Definition is_std_record_name (local : xstr) : bool :=
  existsb (fun p => xstr_eqb (fst p) local) record_name_table.
Definition is_foreign_uri (uri : xstr) : bool := negb (is_empty uri) && negb (xstr_eqb uri E57_NAMESPACE).
(** [lookup_prefix uri] at an element with scope [sc] *)
Definition scope_prefix (sc : list xnsdecl) (uri : xstr) : option xstr :=
  lookup_prefix uri (XElem (mkXName None []) [] sc []).
Definition opt_xstr_eqb (o : option xstr) (s : xstr) : bool :=
  match o with Some x => xstr_eqb x s | None => false end.

(** An extension attribute Unknown{ns, name}:
    - ns is a registered extension (writer: Extension::validate_prototype);
    - looking its URL up among the declarations of the root gives ns back, i.e. no EARLIER extension
      has the same URL and the URL is not the XML namespace (writer: register_extension rejects
      both since 7be2bad / 0758997);
    - the URL is neither empty nor the E57 namespace (writer: Extension::validate_url since e021335;
      with such a URL <ext:cartesianX> would be read back as the standard CartesianX).
    No condition on the name (since cec9560 the reader looks for images2D among the children of
    e57Root only, so an attribute called images2D no longer hides the images). *)
Definition record_name_ok (exts : list extension) (n : record_name) : bool :=
  match n with
  | Unknown ns name =>
      match ext_uri exts ns with
      | Some u => opt_xstr_eqb (scope_prefix (scope_of exts) u) ns && is_foreign_uri u
      | None => false
      end
  | _ => true
  end.

(** integer record types: bounds are i64 and minimum <= maximum (writer: validate_prototype since 0343c43;
    the reader rejects maximum < minimum) *)
Definition dtype_ok (d : data_type) : bool :=
  match d with
  | DInteger mn mx | DScaledInteger mn mx _ _ => in_i64 mn && in_i64 mx && (mn <=? mx)%Z
  | _ => true
  end.
Definition record_ok (exts : list extension) (r : record) : bool :=
  record_name_ok exts (r_name r) && dtype_ok (r_type r).

Definition lv_ok (v : limit_value) : bool :=
  match v with LInteger z | LScaledInteger z => in_i64 z | _ => true end.
Definition il_ok (l : intensity_limits) : bool := ofo lv_ok (il_min l) && ofo lv_ok (il_max l).
Definition cl_ok (l : color_limits) : bool :=
  ofo lv_ok (cl_red_min l) && ofo lv_ok (cl_red_max l) && ofo lv_ok (cl_green_min l) &&
  ofo lv_ok (cl_green_max l) && ofo lv_ok (cl_blue_min l) && ofo lv_ok (cl_blue_max l).
Definition ib_ok (b : index_bounds) : bool :=
  ofo in_i64 (ib_row_min b) && ofo in_i64 (ib_row_max b) && ofo in_i64 (ib_column_min b) &&
  ofo in_i64 (ib_column_max b) && ofo in_i64 (ib_return_min b) && ofo in_i64 (ib_return_max b).

Definition pc_ok (exts : list extension) (pc : pointcloud) : bool :=
  in_u64 (pc_file_offset pc) && in_u64 (pc_records pc) &&
  forallb (record_ok exts) (pc_prototype pc) &&
  ofo ib_ok (pc_index_bounds pc) && ofo il_ok (pc_intensity_limits pc) && ofo cl_ok (pc_color_limits pc).

Definition blob_ok (b : blob) : bool := in_u64 (b_offset b) && in_u64 (b_length b).
Definition rep_ok (b : image_blob) (mask : option blob) (w h : N) : bool :=
  blob_ok (ib_data b) && ofo blob_ok mask && in_u32 w && in_u32 h.
Definition proj_ok (p : projection) : bool :=
  match p with
  | PPinhole x => rep_ok (ph_blob x) (ph_mask x) (ph_width x) (ph_height x)
  | PSpherical x => rep_ok (si_blob x) (si_mask x) (si_width x) (si_height x)
  | PCylindrical x => rep_ok (ci_blob x) (ci_mask x) (ci_width x) (ci_height x)
  end.
Definition im_ok (i : image) : bool :=
  ofo (fun v => rep_ok (vr_blob v) (vr_mask v) (vr_width v) (vr_height v)) (im_visual_reference i) &&
  ofo proj_ok (im_projection i).

(** No condition on strings (any byte list, also empty), on the GUIDs, on the floats, on which
    optional fields are present, on incomplete limits, on the extensions that no record uses. *)
Definition meta_ok (m : file_meta) : bool :=
  in_i64 (rt_major_version (fm_root m)) &&
  forallb (pc_ok (fm_extensions m)) (fm_pointclouds m) &&
  forallb im_ok (fm_images m).

(** * The metadata as the reader reports it
    The only difference: [root_from_document] reads the element versionMajor twice, so the minor
    version of the reader's Root is the MAJOR version of the file (the Root is private to the
    reader, no accessor exposes either number). *)
Definition reader_root (r : root) : root :=
  mkRoot (rt_format r) (rt_guid r) (rt_major_version r) (rt_major_version r)
         (rt_library_version r) (rt_creation r) (rt_coordinate_metadata r).
Definition reader_view (m : file_meta) : file_meta :=
  mkFileMeta (reader_root (fm_root m)) (fm_extensions m) (fm_pointclouds m) (fm_images m).
