(** CRC-32C (Castagnoli) as the standard defines it: bit-serial division by
    x^32 + x^28 + x^27 + x^26 + x^25 + x^23 + x^22 + x^20 + x^19 + x^18 + x^14
    + x^13 + x^11 + x^10 + x^9 + x^8 + x^6 + 1 (0x1EDC6F41), reflected
    (least-significant bit of each byte first, reflected polynomial
    0x82F63B78), initial value and final xor 0xFFFFFFFF.  Independent of the
    crate's table.  Also: page validity, bit flips and bursts.  No proofs here. *)
From E57 Require Import Base.Prelude Model.Crc.

Definition castagnoli_reflected : N := 0x82F63B78.

Definition bit_step (s : N) (b : bool) : N :=
  let s' := if b then N.lxor s 1 else s in
  if N.odd s' then N.lxor (s' / 2) castagnoli_reflected else s' / 2.

Definition byte_bits (x : N) : list bool :=
  map (N.testbit x) [0; 1; 2; 3; 4; 5; 6; 7].

Definition crc_bitwise (l : list N) : N :=
  N.lxor (fold_left bit_step (flat_map byte_bits l) 0xFFFFFFFF) 0xFFFFFFFF.

(** * Pages and alterations *)

(** A page: 1020 payload bytes then 4 checksum bytes. *)
Definition is_page (page : list N) : Prop := length page = 1024%nat /\ bytes_ok page.

Definition crc_ok (page : list N) : bool :=
  if list_eq_dec N.eq_dec (drop 1020 page) (crc_bytes (take 1020 page)) then true else false.

(** Bit [i] of a page, 0 <= i < 8192: byte i/8; within the byte either
    least-significant bit first ([msb = false], the CRC's own order) or
    most-significant first ([msb = true]). *)
Definition bit_in_byte (msb : bool) (i : N) : N :=
  if msb then 7 - i mod 8 else i mod 8.

Definition flip_bit (msb : bool) (page : list N) (i : N) : list N :=
  let j := i / 8 in
  take j page ++ [N.lxor (nth (N.to_nat j) page 0) (2 ^ bit_in_byte msb i)] ++ drop (j + 1) page.

Definition flip_bits (msb : bool) (page : list N) (l : list N) : list N :=
  fold_left (flip_bit msb) l page.

(** An error pattern: distinct bit positions inside the page. *)
Definition pattern (l : list N) : Prop := NoDup l /\ Forall (fun i => i < 8192) l.

(** A burst of span at most [w]: a non-empty pattern inside a window of [w] consecutive bits. *)
Definition burst (w : N) (l : list N) : Prop :=
  l <> [] /\ pattern l /\ exists a, Forall (fun i => a <= i < a + w) l.

Definition within_payload (l : list N) : Prop := Forall (fun i => i < 8160) l.
Definition within_checksum (l : list N) : Prop := Forall (fun i => 8160 <= i) l.
