(** Whole E57 files as ASTM E2807 lays them out (binary side; the XML text is
    a byte string here), written from the format and not from the crate:
    whole-list operations only, no cursors, no page cache, no writer or reader
    state.

    A file is a logical byte stream cut into 1020-byte payloads, each sealed
    with its CRC-32C ([paginate]).  The logical stream is a 48-byte header
    followed by sections, each starting at a multiple of four: blob sections
    (16-byte header, data, zero padding to 4), compressed-vector sections
    ([encode_section] of Spec/FormatSpec.v) and, exactly once, the XML text.
    A [file_layout] makes every choice of a producer explicit: the order of
    the sections, the position of the XML among them, extra zero bytes after a
    section, and for every compressed vector its packetisation ([layout]).

    The second half is the independent decoder: [spec_wellformed] checks
    what the format requires of the bytes, [spec_decode_file] returns the XML
    bytes, the points of every compressed vector and the bytes of every blob.
    The descriptors (what the XML says about the sections) are obtained from
    the XML bytes by a function that is a parameter here; the XML side of the
    specification supplies it.  No proofs here. *)
From E57 Require Import Base.Prelude Model.Record Spec.BitSpec Spec.PageSpec Spec.FormatSpec.

(** * Layout of a file *)

Inductive fsection :=
| FBlob (data : list N) (pad : N)
| FPc (proto : list dtype) (points : list (list rvalue)) (lay : layout) (pad : N)
| FXml.                                   (* the position of the XML text among the sections *)

Definition file_layout := list fsection.

(** number of bytes that bring [n] to the next multiple of four *)
Definition pad4n (n : N) : N := (4 - n mod 4) mod 4.

(** A blob section: id 0, seven reserved zero bytes, the length of the whole
    section (header + data, rounded up to a multiple of four) as u64, the
    data, zero padding. *)
Definition spec_blob_section (data : list N) : list N :=
  [0; 0; 0; 0; 0; 0; 0; 0] ++ le_bytes 8 (((16 + len data + 3) / 4) * 4) ++ data ++ zeros (pad4n (len data)).

(** Bytes an entry of the layout occupies in the logical stream ([xl] = length of the XML text).
    It does not depend on where the entry lies. *)
Definition fsec_len (s : fsection) (xl : N) : N :=
  match s with
  | FBlob data pad => 16 + len data + pad4n (len data) + pad
  | FPc _ _ lay pad => 32 + len (section_body lay) + pad
  | FXml => xl + pad4n xl
  end.

(** Logical start of every entry, the first one at [base]. *)
Fixpoint layout_starts (base : N) (fl : file_layout) (xl : N) : list N :=
  match fl with
  | [] => []
  | s :: r => base :: layout_starts (base + fsec_len s xl) r xl
  end.

(** Physical offset of every entry of the layout (for [FXml]: of the XML text).  These are the
    [fileOffset]s the XML has to state; they depend on the XML only through its length. *)
Definition spec_layout_offsets (fl : file_layout) (xl : N) : list N :=
  map phys_of_log (layout_starts 48 fl xl).

(** Logical start of the XML text (of the first [FXml] entry). *)
Fixpoint xml_start (base : N) (fl : file_layout) (xl : N) : N :=
  match fl with
  | [] => base
  | FXml :: _ => base
  | s :: r => xml_start (base + fsec_len s xl) r xl
  end.

(** The bytes of one entry that starts at logical offset [base].  A compressed-vector section
    states the physical offset of its first packet in its header. *)
Definition encode_fsection (base : N) (s : fsection) (x : list N) : list N :=
  match s with
  | FBlob data pad => spec_blob_section data ++ zeros pad
  | FPc _ _ lay pad => encode_section (phys_of_log (base + 32)) lay ++ zeros pad
  | FXml => x ++ zeros (pad4n (len x))
  end.

Fixpoint encode_fsections (base : N) (fl : file_layout) (x : list N) : list N :=
  match fl with
  | [] => []
  | s :: r => encode_fsection base s x ++ encode_fsections (base + fsec_len s (len x)) r x
  end.

(** The 48-byte file header: "ASTM-E57", version 1.0, physical file length, physical offset and
    logical length of the XML text, page size. *)
Definition spec_header (phys_length xml_offset xml_length : N) : list N :=
  [65; 83; 84; 77; 45; 69; 53; 55] ++ le_bytes 4 1 ++ le_bytes 4 0 ++ le_bytes 8 phys_length
  ++ le_bytes 8 xml_offset ++ le_bytes 8 xml_length ++ le_bytes 8 1024.

(** The logical stream of a file (before the zero filling of the last page). *)
Definition spec_file_log (fl : file_layout) (x : list N) : list N :=
  let body := encode_fsections 48 fl x in
  spec_header (pages_for (48 + len body) * 1024) (phys_of_log (xml_start 48 fl (len x))) (len x) ++ body.

(** The file. *)
Definition spec_encode_file (fl : file_layout) (x : list N) : list N := paginate (spec_file_log fl x).

(** What the format requires of a layout: exactly one XML entry; extra padding in multiples of
    four; every compressed vector a scene the format can represent, in a legal packetisation. *)
Definition is_xml (s : fsection) : bool := match s with FXml => true | _ => false end.

Definition fsection_ok (s : fsection) : bool :=
  match s with
  | FBlob _ pad => pad mod 4 =? 0
  | FPc proto points lay pad => (pad mod 4 =? 0) && scene_ok proto points && legal proto points lay
  | FXml => true
  end.

Definition file_layout_ok (fl : file_layout) : bool :=
  forallb fsection_ok fl && (length (filter is_xml fl) =? 1)%nat.

(** [pcs_followed]: no compressed-vector section is followed by nothing at all - no padding, no
    other entry, and ([after] = 0) no filler up to the end of the last page.  Not a requirement
    of the format and no longer a hypothesis of any theorem (Proofs/SpecReaderTail.v); kept as
    a classification of generated layouts (the corner it names once was a defect of the reader). *)
Fixpoint fsecs_len (fl : file_layout) (xl : N) : N :=
  match fl with
  | [] => 0
  | s :: r => fsec_len s xl + fsecs_len r xl
  end.

Fixpoint pcs_followed (fl : file_layout) (xl : N) (after : N) : bool :=
  match fl with
  | [] => true
  | s :: r =>
      (match s with FPc _ _ _ pad => 0 <? pad + fsecs_len r xl + after | _ => true end)
      && pcs_followed r xl after
  end.

(** zero bytes that fill the last page of the file *)
Definition spec_file_filler (fl : file_layout) (x : list N) : N :=
  let L := len (spec_file_log fl x) in pages_for L * 1020 - L.

(** * What the XML says about the sections, and what a file contains *)

Inductive descriptor :=
| DPc (file_offset records : N) (proto : list dtype)
| DBlob (offset length : N).

Inductive content :=
| CPoints (points : list (list rvalue))
| CBlob (data : list N).

Record decoded := mkDecoded { dec_xml : list N; dec_items : list content }.

(** descriptors and contents of a layout, in the order of the layout, the XML entry skipped *)
Fixpoint layout_descriptors (base : N) (fl : file_layout) (xl : N) : list descriptor :=
  match fl with
  | [] => []
  | s :: r =>
      let rest := layout_descriptors (base + fsec_len s xl) r xl in
      match s with
      | FBlob data _ => DBlob (phys_of_log base) (len data) :: rest
      | FPc proto points _ _ => DPc (phys_of_log base) (len points) proto :: rest
      | FXml => rest
      end
  end.

Fixpoint layout_contents (fl : file_layout) : list content :=
  match fl with
  | [] => []
  | FBlob data _ :: r => CBlob data :: layout_contents r
  | FPc _ points _ _ :: r => CPoints points :: layout_contents r
  | FXml :: r => layout_contents r
  end.

(** * The independent decoder *)

Definition u16_at (o : N) (l : list N) : N := le_num (slice o 2 l).
Definition u32_at (o : N) (l : list N) : N := le_num (slice o 4 l).
Definition u64_at (o : N) (l : list N) : N := le_num (slice o 8 l).

Definition bytes_eqb (a b : list N) : bool := if list_eq_dec N.eq_dec a b then true else false.

(** a physical offset that does not point into the four checksum bytes of a page *)
Definition in_payload (p : N) : bool := p mod 1024 <? 1020.

(** ** The container: pages, header, XML range *)
Definition container_ok (f : list N) : bool :=
  let log := strip_crc f in
  let xo := u64_at 24 log in
  let xl := u64_at 32 log in
  (0 <? len f) && all_pages_valid f                                  (* whole pages, every checksum valid *)
  && bytes_eqb (take 8 log) [65; 83; 84; 77; 45; 69; 53; 55]          (* "ASTM-E57" *)
  && (u32_at 8 log =? 1) && (u32_at 12 log =? 0)                     (* version 1.0 *)
  && (u64_at 40 log =? 1024)                                         (* page size *)
  && (u64_at 16 log =? len f)                                        (* the true physical length *)
  && in_payload xo && (48 <=? log_of_phys xo)                        (* XML outside checksums and header *)
  && (0 <? xl) && (log_of_phys xo + xl <=? len log).                 (* XML inside the file *)

Definition file_xml (f : list N) : list N :=
  let log := strip_crc f in slice (log_of_phys (u64_at 24 log)) (u64_at 32 log) log.

(** ** Packets of a compressed-vector section *)
Inductive pkind := KIndex | KData | KIgnored.
Definition is_data (k : pkind) : bool := match k with KData => true | _ => false end.
Definition is_index (k : pkind) : bool := match k with KIndex => true | _ => false end.

Definition sum_list (l : list N) : N := fold_right N.add 0 l.

(** Walk the packets of [body] (the bytes of a section after its header), the first one at
    position [pos] of the section: every packet has a known type, a length that is a multiple of
    four and lies inside the body; a data packet has one byte stream per record, and its length is
    its header, its stream lengths and less than four bytes of padding; an index packet is at
    least its 16-byte header.  The body must be exhausted exactly.  Result: position and kind of
    every packet. *)
Fixpoint walk_packets (fuel : nat) (nrec : nat) (pos : N) (body : list N) : option (list (N * pkind)) :=
  match fuel with
  | O => None
  | S f =>
      match body with
      | [] => Some []
      | id :: _ =>
          let total := u16_at 2 body + 1 in
          if negb (total mod 4 =? 0) || (len body <? total) then None else
          let kind :=
            if id =? 1 then
              let raw := 6 + 2 * N.of_nat nrec + sum_list (u16s nrec (drop 6 body)) in
              if (u16_at 4 body =? N.of_nat nrec) && (0 <? N.of_nat nrec) && (raw <=? total) && (total - raw <? 4)
              then Some KData else None
            else if id =? 0 then (if 16 <=? total then Some KIndex else None)
            else if id =? 2 then Some KIgnored
            else None in
          match kind with
          | None => None
          | Some k =>
              match walk_packets f nrec (pos + total) (drop total body) with
              | Some r => Some ((pos, k) :: r)
              | None => None
              end
          end
      end
  end.

(** ** One compressed-vector section: [sec] = the logical stream from the section's start [lo] on *)
Definition pc_section_ok (nrec : nat) (lo : N) (sec : list N) : bool :=
  let sl := u64_at 8 sec in
  let d_off := u64_at 16 sec in
  let i_off := u64_at 24 sec in
  (nth 0 sec 0 =? 1) && forallb (N.eqb 0) (slice 1 7 sec)            (* id 1, reserved bytes zero *)
  && (32 <=? sl) && (sl mod 4 =? 0) && (sl <=? len sec)               (* length: header + packets, inside the file *)
  && match walk_packets (S (N.to_nat sl)) nrec 32 (slice 32 (sl - 32) sec) with
     | None => false                                                  (* section_length = 32 + sum of packet lengths *)
     | Some pk =>
         let has_data := existsb (fun e => is_data (snd e)) pk in
         (* data offset: outside checksum bytes, on a packet boundary of this section, no data
            packet before it (an empty vector may also state 0, as libE57Format does) *)
         ((negb has_data && (d_off =? 0))
          || (in_payload d_off && (lo <=? log_of_phys d_off) &&
              let dr := log_of_phys d_off - lo in
              ((dr =? 32)
               || (existsb (fun e => fst e =? dr) pk || (dr =? sl))
                  && forallb (fun e => negb (is_data (snd e)) || (dr <=? fst e)) pk)))
         (* index offset: 0, or outside checksum bytes on an index packet of this section *)
         && ((i_off =? 0)
             || (in_payload i_off && (lo <=? log_of_phys i_off) &&
                 existsb (fun e => (fst e =? log_of_phys i_off - lo) && is_index (snd e)) pk))
     end.

(** ** One blob section *)
Definition blob_section_ok (blen : N) (sec : list N) : bool :=
  let sl := u64_at 8 sec in
  (nth 0 sec 1 =? 0) && forallb (N.eqb 0) (slice 1 7 sec)
  && (sl =? ((16 + blen + 3) / 4) * 4) && (sl <=? len sec).

(** ** All sections *)
Definition desc_offset (d : descriptor) : N :=
  match d with DPc off _ _ => off | DBlob off _ => off end.

Definition desc_ok (log : list N) (d : descriptor) : bool :=
  let off := desc_offset d in
  let lo := log_of_phys off in
  in_payload off && (lo mod 4 =? 0) &&
  match d with
  | DPc _ _ proto => pc_section_ok (length proto) lo (drop lo log)
  | DBlob _ length => blob_section_ok length (drop lo log)
  end.

(** logical extent (start, length) of a section, the length as its header states it *)
Definition desc_extent (log : list N) (d : descriptor) : N * N :=
  let lo := log_of_phys (desc_offset d) in (lo, u64_at 8 (drop lo log)).

Definition ext_disjoint (a b : N * N) : bool :=
  (fst a + snd a <=? fst b) || (fst b + snd b <=? fst a).

Fixpoint pairwise_disjoint (l : list (N * N)) : bool :=
  match l with
  | [] => true
  | a :: r => forallb (ext_disjoint a) r && pairwise_disjoint r
  end.

Definition sections_ok (log : list N) (descs : list descriptor) : bool :=
  forallb (desc_ok log) descs
  && pairwise_disjoint ((0, 48) :: (log_of_phys (u64_at 24 log), u64_at 32 log) :: map (desc_extent log) descs).

(** The file is well formed; [dx] extracts the section descriptors from the XML bytes. *)
Definition spec_wellformed (f : list N) (dx : list N -> list descriptor) : bool :=
  container_ok f && sections_ok (strip_crc f) (dx (file_xml f)).

(** ** Contents *)
Definition decode_desc (log : list N) (d : descriptor) : option content :=
  let lo := log_of_phys (desc_offset d) in
  match d with
  | DPc _ records proto =>
      match decode_section proto (N.to_nat records) (drop lo log) with
      | Some pts => Some (CPoints pts)
      | None => None
      end
  | DBlob _ length => Some (CBlob (slice (lo + 16) length log))
  end.

Definition spec_decode_file (f : list N) (dx : list N -> list descriptor) : option decoded :=
  if spec_wellformed f dx then
    match sequence_opt (map (decode_desc (strip_crc f)) (dx (file_xml f))) with
    | Some items => Some (mkDecoded (file_xml f) items)
    | None => None
    end
  else None.
