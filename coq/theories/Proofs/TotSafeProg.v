(** C08, programs: every read-side operation of the model - on ANY device
    (contents, size, cursor, injected fault) and ANY paged-reader state -
    never yields [Panic].  Programs are judged with the weakest-precondition
    calculus of TotWp.v under [shape_spec], which is sound for [rrun] on every
    reader state ([wp_sound_rrun_shape]). *)
From E57 Require Import Base.Prelude Model.Crc Model.Device Model.PagedReader Model.BsRead Model.Record
  Model.Prog Model.QueueReader Model.FileBin Model.ReaderOpen.
From E57 Require Import Proofs.PageSpecLemmas Proofs.TotWp Proofs.ReaderSessions Proofs.TotSafeBits.
From Coq Require Import ZifyN ZifyNat ZifyBool.

(** * [sp p Q]: under shapes only, [p] never reaches [RPanic] and returns values satisfying [Q] *)
Definition sp {A} (p : rprog A) (Q : A -> Prop) : Prop :=
  forall off, wp shape_spec p (fun a _ => Q a) off.

Lemma sp_sound {A} (p : rprog A) (Q : A -> Prop) : sp p Q -> forall s, rpost Q (snd (rrun p s)).
Proof.
  intros H s. pose proof (wp_sound_rrun_shape p (fun a _ => Q a) s (H (pr_off s))) as Hp.
  destruct (snd (rrun p s)); exact Hp.
Qed.

Lemma sp_no_panic {A} (p : rprog A) (Q : A -> Prop) : sp p Q -> forall s, snd (rrun p s) <> Panic.
Proof. intros H s. exact (rpost_no_panic Q _ (sp_sound p Q H s)). Qed.

Lemma sp_mono {A} (p : rprog A) (Q Q' : A -> Prop) : (forall a, Q a -> Q' a) -> sp p Q -> sp p Q'.
Proof. intros HQ H off. eapply wp_mono; [|apply H]. intros a o; apply HQ. Qed.

Lemma sp_bind {A B} (p : rprog A) (f : A -> rprog B) (R : A -> Prop) (Q : B -> Prop) :
  sp p R -> (forall a, R a -> sp (f a) Q) -> sp (rbind p f) Q.
Proof.
  intros H1 H2 off. apply (wp_bind_with shape_spec p f (fun a _ => R a)); [apply H1|].
  intros a off1 Ha. apply H2. exact Ha.
Qed.

Lemma sp_ret {A} (a : A) (Q : A -> Prop) : Q a -> sp (RRet a) Q.
Proof. intros H off. exact H. Qed.
Lemma sp_rret {A} (a : A) (Q : A -> Prop) : Q a -> sp (rret a) Q.
Proof. exact (sp_ret a Q). Qed.
Lemma sp_err {A} k (Q : A -> Prop) : sp (RErr k) Q.
Proof. intros off. exact I. Qed.
Lemma sp_rfail {A} k (Q : A -> Prop) : sp (rfail k) Q.
Proof. exact (sp_err k Q). Qed.
Lemma sp_rlift {A} (r : res A) (Q : A -> Prop) : rpost Q r -> sp (rlift r) Q.
Proof. intros H off. apply wp_rlift. destruct r; exact H. Qed.

Lemma sp_r_read_exact n (Q : list N -> Prop) : (forall l, Q l) -> sp (r_read_exact n) Q.
Proof. intros H off. apply (wp_r_read_exact shape_spec shape_spec_shape). intros l off' _. apply H. Qed.
Lemma sp_rd n (Q : list N -> Prop) : (forall l, Q l) -> sp (rd n) Q.
Proof. exact (sp_r_read_exact n Q). Qed.
Lemma sp_r_read e n (Q : list N -> Prop) : (forall l, Q l) -> sp (r_read e n) Q.
Proof. intros H off. apply (wp_r_read shape_spec shape_spec_shape). intros l off' _. apply H. Qed.
Lemma sp_r_seek p (Q : unit -> Prop) : Q tt -> sp (r_seek p) Q.
Proof. intros H off. apply (wp_r_seek shape_spec shape_spec_shape). intros n off' _. exact H. Qed.
Lemma sp_r_align (Q : unit -> Prop) : Q tt -> sp r_align Q.
Proof. intros H off. apply (wp_r_align shape_spec shape_spec_shape). intros off' _. exact H. Qed.

(** programs about whose result nothing needs to be known *)
Definition anyv {A} : A -> Prop := fun _ => True.
Notation spT p := (sp p anyv).

Lemma spT_bind {A B} (p : rprog A) (f : A -> rprog B) : spT p -> (forall a, spT (f a)) -> spT (rbind p f).
Proof. intros H1 H2. apply (sp_bind p f anyv); [exact H1|intros a _; apply H2]. Qed.
Lemma spT_ret {A} (a : A) : spT (RRet a). Proof. apply sp_ret. exact I. Qed.
Lemma spT_rret {A} (a : A) : spT (rret a). Proof. apply sp_ret. exact I. Qed.
Lemma spT_err {A} k : spT (@RErr A k). Proof. apply sp_err. Qed.
Lemma spT_rfail {A} k : spT (@rfail A k). Proof. apply sp_err. Qed.
Lemma spT_rd n : spT (rd n). Proof. apply sp_rd. intros; exact I. Qed.
Lemma spT_r_read_exact n : spT (r_read_exact n). Proof. apply sp_rd. intros; exact I. Qed.
Lemma spT_r_read e n : spT (r_read e n). Proof. apply sp_r_read. intros; exact I. Qed.
Lemma spT_r_seek p : spT (r_seek p). Proof. apply sp_r_seek. exact I. Qed.
Lemma spT_r_align : spT r_align. Proof. apply sp_r_align. exact I. Qed.
Lemma spT_of {A} (p : rprog A) Q : sp p Q -> spT p.
Proof. apply sp_mono. intros; exact I. Qed.

Create HintDb sp_db.
#[export] Hint Resolve spT_ret spT_rret spT_err spT_rfail spT_rd spT_r_read_exact spT_r_read spT_r_seek spT_r_align : sp_db.

Ltac sp_step :=
  first
  [ solve [auto 1 with sp_db nocore]
  | apply spT_bind; [|intros]
  | match goal with
    | |- sp (if ?c then _ else _) _ => destruct c
    | |- sp (match ?x with _ => _ end) _ => destruct x
    end ].
Ltac sp_tac := cbv zeta; repeat sp_step.

(** * Section and packet headers *)
Lemma sp_cv_header_read : spT cv_header_read.
Proof. unfold cv_header_read. sp_tac. Qed.
Lemma sp_index_header_read : spT index_header_read.
Proof. unfold index_header_read. sp_tac. Qed.
Lemma sp_data_header_read : spT data_header_read.
Proof. unfold data_header_read. sp_tac. Qed.
Lemma sp_ignored_header_read : spT ignored_header_read.
Proof. unfold ignored_header_read. sp_tac. Qed.
#[export] Hint Resolve sp_cv_header_read sp_index_header_read sp_data_header_read sp_ignored_header_read : sp_db.
Lemma sp_packet_header_read : spT packet_header_read.
Proof. unfold packet_header_read. sp_tac. Qed.
#[export] Hint Resolve sp_packet_header_read : sp_db.

(** * QueueReader *)
Lemma Forall_map_const {A B} (P : B -> Prop) (b : B) (l : list A) : P b -> Forall P (map (fun _ => b) l).
Proof. intros H. induction l; cbn; constructor; auto. Qed.

Lemma sp_qr_new fo recs proto : Forall dtype_ok proto -> sp (qr_new fo recs proto) qr_ok.
Proof.
  intros Hp. unfold qr_new.
  apply (sp_bind _ _ anyv); [apply spT_r_seek|intros _ _].
  apply (sp_bind _ _ anyv); [apply sp_cv_header_read|intros h _].
  apply (sp_bind _ _ anyv); [destruct (0 <? recs); [apply spT_r_seek|apply spT_rret]|intros _ _].
  apply sp_rret. unfold qr_ok. cbn [q_proto q_streams q_queues].
  rewrite !map_length. repeat split; [exact Hp|].
  apply Forall_map_const. exact bsr_new_ok.
Qed.

Lemma sp_read_sizes : forall n, sp (read_sizes n) (fun l => length l = n).
Proof.
  induction n as [|n IH]; cbn [read_sizes]; [apply sp_rret; reflexivity|].
  apply (sp_bind _ _ anyv); [apply spT_rd|intros b _].
  apply (sp_bind _ _ (fun l => length l = n)); [exact IH|intros r Hr].
  apply sp_rret. cbn [length]. congruence.
Qed.

Lemma sp_read_streams : forall proto sizes streams, Forall bsr_ok streams ->
  length sizes = length streams -> length proto = length streams ->
  sp (read_streams proto sizes streams) (fun r => Forall bsr_ok r /\ length r = length streams).
Proof.
  induction proto as [|t pr IH]; intros [|sz sr] [|st tr] Hs Hl Hlp; try discriminate; cbn [read_streams].
  - apply sp_rret. split; [constructor|reflexivity].
  - inversion Hs as [|? ? Hs1 Hs2]; subst. cbn [length] in Hl, Hlp. injection Hl as Hl. injection Hlp as Hlp.
    apply (sp_bind _ _ anyv); [apply spT_rd|intros data _].
    apply (sp_bind _ _ bsr_ok).
    { destruct (bit_size t =? 0); [apply sp_rret; exact Hs1|apply sp_rlift; apply bsr_append_ok; exact Hs1]. }
    intros st' Hst'.
    apply (sp_bind _ _ (fun r => Forall bsr_ok r /\ length r = length tr)); [apply IH; assumption|intros r [Hr1 Hr2]].
    apply sp_rret. split; [constructor; assumption|cbn [length]; congruence].
Qed.

Lemma sp_qr_advance q : qr_ok q -> sp (qr_advance q) qr_ok.
Proof.
  intros (Hp & Hl1 & Hl2 & Hs). unfold qr_advance.
  apply (sp_bind _ _ anyv); [apply sp_packet_header_read|intros h _].
  apply (sp_bind _ _ qr_ok).
  2:{ intros q' Hq'. apply (sp_bind _ _ anyv); [apply spT_r_align|intros _ _]. apply sp_rret. exact Hq'. }
  assert (Hq : qr_ok q) by (repeat split; assumption).
  destruct h as [pl|flag pl count|pl].
  - destruct (pl <? INDEX_HEADER_SIZE); [apply sp_rfail|].
    apply (sp_bind _ _ anyv); [apply spT_rd|intros _ _]. apply sp_rret. exact Hq.
  - destruct (negb (count =? len (q_streams q))); [apply sp_rfail|].
    apply (sp_bind _ _ (fun l => length l = length (q_proto q))); [apply sp_read_sizes|intros sizes Hsz].
    apply (sp_bind _ _ (fun r => Forall bsr_ok r /\ length r = length (q_streams q)));
      [apply sp_read_streams; [exact Hs|congruence|congruence]|intros streams [Hst1 Hst2]].
    destruct (negb (has_sized (q_proto q))); [apply sp_rfail|].
    pose proof (parse_streams_ok (q_proto q) streams (q_queues q) Hp Hst1 ltac:(congruence) Hl2) as Hps.
    apply (sp_bind _ _ (fun p => Forall bsr_ok (fst p) /\ length (fst p) = length (q_proto q) /\
                                 length (snd p) = length (q_proto q))); [apply sp_rlift; exact Hps|].
    intros [ss qs] (A1 & A2 & A3). cbn [fst snd] in *.
    apply sp_rret. unfold qr_ok. cbn [q_proto q_streams q_queues]. repeat split; assumption.
  - destruct (pl <? IGNORED_HEADER_SIZE); [apply sp_rfail|].
    apply (sp_bind _ _ anyv); [apply spT_rd|intros _ _]. apply sp_rret. exact Hq.
Qed.

Lemma sp_refill : forall fuel q, qr_ok q -> sp (refill fuel q) qr_ok.
Proof.
  induction fuel as [|f IH]; intros q Hq; cbn [refill]; [apply sp_rfail|].
  destruct (qr_available q <? 1); [|apply sp_rret; exact Hq].
  apply (sp_bind _ _ qr_ok); [apply sp_qr_advance; exact Hq|intros q' Hq'; apply IH; exact Hq'].
Qed.

(** * PointCloudReaderRaw *)
Lemma sp_raw_new fo recs proto : proto_i64 proto -> sp (raw_new fo recs proto) raw_ok.
Proof.
  intros Hp. unfold raw_new.
  apply (sp_bind _ _ qr_ok); [apply sp_qr_new; apply proto_i64_ok; exact Hp|intros q Hq].
  apply sp_rret. exact Hq.
Qed.

Lemma sp_raw_next ls it : raw_ok it -> sp (raw_next ls it) (fun p => raw_ok (fst p)).
Proof.
  intros Hit. unfold raw_next.
  destruct (ri_records it <=? ri_read it); [apply sp_rret; exact Hit|].
  apply (sp_bind _ _ qr_ok); [apply sp_refill; exact Hit|intros q (Hp & Hl1 & Hl2 & Hs)].
  pose proof (pop_fronts_ok (q_proto q) (q_queues q) Hl2) as Hpf.
  destruct (pop_fronts (q_proto q) (q_queues q)) as [[vs qs]|k|]; cbn [rpost snd] in Hpf; [|apply sp_rfail|contradiction].
  apply sp_rret. cbn [fst]. unfold raw_ok, qr_ok. cbn [ri_q q_proto q_streams q_queues].
  repeat split; [assumption|assumption|congruence|assumption].
Qed.

Lemma sp_raw_collect : forall fuel ls it acc, raw_ok it -> spT (raw_collect fuel ls it acc).
Proof.
  induction fuel as [|f IH]; intros ls it acc Hit; cbn [raw_collect]; [apply spT_rfail|].
  apply (sp_bind _ _ (fun p => raw_ok (fst p))); [apply sp_raw_next; exact Hit|intros [it' o] Hit'].
  cbn [fst] in Hit'. destruct o as [|p]; [apply spT_rret|apply IH; exact Hit'].
Qed.

Lemma sp_op_raw_all fuel ls fo recs proto : proto_i64 proto -> spT (op_raw_all fuel ls fo recs proto).
Proof.
  intros Hp. unfold op_raw_all.
  apply (sp_bind _ _ raw_ok); [apply sp_raw_new; exact Hp|intros it Hit; apply sp_raw_collect; exact Hit].
Qed.

(** * Blobs, XML section, header, CRC validation *)
Lemma sp_copy_loop : forall fuel want acc, spT (copy_loop fuel want acc).
Proof. induction fuel as [|f IH]; intros want acc; cbn [copy_loop]; sp_tac. Qed.
#[export] Hint Resolve sp_copy_loop : sp_db.

Lemma sp_blob_read ls offset length : spT (blob_read ls offset length).
Proof. unfold blob_read. sp_tac. Qed.

Lemma sp_extract_xml off ln : spT (extract_xml off ln).
Proof. unfold extract_xml. sp_tac. Qed.
#[export] Hint Resolve sp_extract_xml : sp_db.

Lemma header_parse_no_panic data : header_parse data <> Panic.
Proof.
  unfold header_parse. cbv zeta.
  repeat match goal with |- (if ?c then _ else _) <> _ => destruct c end; congruence.
Qed.

Lemma sp_header_read_paged : spT header_read_paged.
Proof.
  unfold header_read_paged. apply spT_bind; [apply spT_rd|intros data].
  apply sp_rlift. pose proof (header_parse_no_panic data). destruct (header_parse data); cbn; try exact I; congruence.
Qed.
#[export] Hint Resolve sp_header_read_paged : sp_db.

Lemma sp_open_paged : spT open_paged.
Proof. unfold open_paged. sp_tac. Qed.

Lemma sp_raw_xml_paged : spT raw_xml_paged.
Proof. unfold raw_xml_paged. sp_tac. Qed.

Lemma sp_validate_loop : forall fuel ps, spT (validate_loop fuel ps).
Proof. induction fuel as [|f IH]; intros ps; cbn [validate_loop]; sp_tac. Qed.

(** * The raw device and [PagedReader::new] *)
Lemma d_read_exact_loop_no_panic : forall fuel want acc d, snd (d_read_exact_loop fuel want acc d) <> Panic.
Proof.
  induction fuel as [|f IH]; intros want acc d; cbn [d_read_exact_loop]; [cbn; congruence|].
  destruct (want =? 0); [cbn; congruence|].
  unfold bind. pose proof (d_read_no_panic want d) as H.
  destruct (d_read want d) as [d1 [got|k|]]; cbn [snd] in *; try congruence.
  destruct got; [cbn; congruence|apply IH].
Qed.

Lemma d_read_exact_no_panic n d : snd (d_read_exact n d) <> Panic.
Proof. apply d_read_exact_loop_no_panic. Qed.

Lemma relabel_no_panic {S A} k (m : M S A) s : snd (m s) <> Panic -> snd (relabel k m s) <> Panic.
Proof. unfold relabel. destruct (m s) as [s1 [a|e|]]; cbn; congruence. Qed.

Lemma header_read_no_panic d : snd (header_read d) <> Panic.
Proof.
  unfold header_read, bind.
  pose proof (relabel_no_panic ERead (d_read_exact 48) d (d_read_exact_no_panic 48 d)) as H.
  destruct (relabel ERead (d_read_exact 48) d) as [d1 [data|k|]]; cbn [snd] in *; try congruence.
  cbv zeta.
  repeat match goal with |- snd ((if ?c then _ else _) _) <> _ => destruct c end; cbn; congruence.
Qed.

Lemma get_u64_no_panic off d : snd (get_u64 off d) <> Panic.
Proof.
  unfold get_u64, bind.
  pose proof (relabel_no_panic ERead (d_seek_start off) d (d_seek_start_no_panic off d)) as H.
  destruct (relabel ERead (d_seek_start off) d) as [d1 [x|k|]]; cbn [snd] in *; try congruence.
  pose proof (relabel_no_panic ERead (d_read_exact 8) d1 (d_read_exact_no_panic 8 d1)) as H2.
  destruct (relabel ERead (d_read_exact 8) d1) as [d2 [b|k|]]; cbn in *; congruence.
Qed.

Lemma pr_new_no_panic ps d : snd (pr_new ps d) <> Panic.
Proof.
  unfold pr_new.
  destruct (MAX_PAGE_SIZE <? ps); [cbn; congruence|].
  destruct (ps <=? CHECKSUM_SIZE); [cbn; congruence|].
  pose proof (d_seek_end_no_panic d) as H.
  destruct (d_seek_end d) as [d1 [phy|k|]]; cbn [snd] in *; try congruence.
  destruct (phy =? 0); [cbn; congruence|].
  destruct (negb (phy mod ps =? 0)); cbn; congruence.
Qed.

Lemma pr_new_relabel_no_panic ps d : res_relabel ERead (snd (pr_new ps d)) <> Panic.
Proof. pose proof (pr_new_no_panic ps d). destruct (snd (pr_new ps d)); cbn; congruence. Qed.

(** * The theorems of C08 *)

Theorem no_panic_open : forall d : dev, snd (ReaderOpen.reader_open d) <> Panic.
Proof.
  intros d. unfold ReaderOpen.reader_open.
  pose proof (header_read_no_panic d) as H1.
  destruct (header_read d) as [d1 [h0|k|]]; cbn [snd] in *; try congruence.
  pose proof (pr_new_relabel_no_panic (h_page_size h0) d1) as H2.
  destruct (pr_new (h_page_size h0) d1) as [d2 r2]. cbn [snd] in H2.
  destruct (res_relabel ERead r2) as [s|k|]; cbn [snd]; try congruence.
  pose proof (sp_no_panic open_paged anyv sp_open_paged s) as H3.
  destruct (rrun open_paged s) as [s1 [[h xml]|k|]]; cbn [snd] in *; congruence.
Qed.

Theorem no_panic_validate_crc : forall d : dev, snd (FileBin.validate_crc d) <> Panic.
Proof.
  intros d. unfold FileBin.validate_crc.
  pose proof (get_u64_no_panic 40 d) as H1.
  destruct (get_u64 40 d) as [d1 [ps|k|]]; cbn [snd] in *; try congruence.
  pose proof (pr_new_relabel_no_panic ps d1) as H2.
  destruct (pr_new ps d1) as [d2 r2]. cbn [snd] in H2.
  destruct (res_relabel ERead r2) as [s|k|]; cbn [snd]; try congruence.
  pose proof (sp_no_panic _ anyv (sp_validate_loop (S (S (N.to_nat (pr_pages s)))) ps) s) as H3.
  destruct (rrun (validate_loop (S (S (N.to_nat (pr_pages s)))) ps) s) as [s1 [u|k|]]; cbn in *; congruence.
Qed.

Theorem no_panic_raw_xml : forall d : dev, snd (ReaderOpen.raw_xml d) <> Panic.
Proof.
  intros d. unfold ReaderOpen.raw_xml.
  pose proof (get_u64_no_panic 40 d) as H1.
  destruct (get_u64 40 d) as [d1 [ps|k|]]; cbn [snd] in *; try congruence.
  pose proof (pr_new_relabel_no_panic ps d1) as H2.
  destruct (pr_new ps d1) as [d2 r2]. cbn [snd] in H2.
  destruct (res_relabel ERead r2) as [s|k|]; cbn [snd]; try congruence.
  pose proof (sp_no_panic raw_xml_paged anyv sp_raw_xml_paged s) as H3.
  destruct (rrun raw_xml_paged s) as [s1 r3]; cbn [snd] in *; exact H3.
Qed.

Theorem no_panic_blob : forall (s : pr) ls offset length,
  snd (rrun (blob_read ls offset length) s) <> Panic.
Proof. intros s ls offset length. exact (sp_no_panic _ anyv (sp_blob_read ls offset length) s). Qed.

Theorem no_panic_raw_new : forall (s : pr) fo recs proto, proto_i64 proto ->
  match snd (rrun (raw_new fo recs proto) s) with Ok it => raw_ok it | Err _ => True | Panic => False end.
Proof. intros s fo recs proto Hp. exact (sp_sound _ raw_ok (sp_raw_new fo recs proto Hp) s). Qed.

Theorem no_panic_raw_next : forall (s : pr) ls it, raw_ok it ->
  match snd (rrun (raw_next ls it) s) with Ok (it', _) => raw_ok it' | Err _ => True | Panic => False end.
Proof.
  intros s ls it Hit. pose proof (sp_sound _ _ (sp_raw_next ls it Hit) s) as H.
  destruct (snd (rrun (raw_next ls it) s)) as [[it' o]|k|]; exact H.
Qed.

Theorem no_panic_raw_collect : forall fuel (s : pr) ls it acc, raw_ok it ->
  snd (rrun (raw_collect fuel ls it acc) s) <> Panic.
Proof. intros fuel s ls it acc Hit. exact (sp_no_panic _ anyv (sp_raw_collect fuel ls it acc Hit) s). Qed.

Theorem no_panic_raw : forall (s : pr) fuel ls fo recs proto, proto_i64 proto ->
  snd (rrun (op_raw_all fuel ls fo recs proto) s) <> Panic.
Proof. intros s fuel ls fo recs proto Hp. exact (sp_no_panic _ anyv (sp_op_raw_all fuel ls fo recs proto Hp) s). Qed.

Theorem no_panic_file_raw : forall (d : dev) fuel fo recs proto, proto_i64 proto ->
  match ReaderOpen.reader_open d with
  | (_, Ok (s, _, _)) => snd (rrun (op_raw_all fuel (pr_log_size s) fo recs proto) s) <> Panic
  | (_, r) => r <> Panic
  end.
Proof.
  intros d fuel fo recs proto Hp. pose proof (no_panic_open d) as Ho.
  destruct (ReaderOpen.reader_open d) as [d' [[[s h] xml]|k|]]; cbn [snd] in Ho.
  - apply no_panic_raw. exact Hp.
  - congruence.
  - exact Ho.
Qed.

Theorem no_panic_file_blob : forall (d : dev) offset length,
  match ReaderOpen.reader_open d with
  | (_, Ok (s, _, _)) => snd (rrun (blob_read (pr_log_size s) offset length) s) <> Panic
  | (_, r) => r <> Panic
  end.
Proof.
  intros d offset length. pose proof (no_panic_open d) as Ho.
  destruct (ReaderOpen.reader_open d) as [d' [[[s h] xml]|k|]]; cbn [snd] in Ho.
  - apply no_panic_blob.
  - congruence.
  - exact Ho.
Qed.

Print Assumptions no_panic_file_raw.
Print Assumptions no_panic_file_blob.
Print Assumptions no_panic_validate_crc.
Print Assumptions no_panic_raw_xml.
