(** "One point fits a packet" ([fits_packet], the capacity clause of
    [representable_prototype]) is NOT enough for [add_pointcloud] to accept:
    the capacity check reserves one more byte per record and 500 bytes.
    Witness: X, Y, Z and 5947 extension attributes, all doubles (47600 bytes per
    point; with the packet header and 5950 stream headers 59506 + 3 <= 65535);
    every documented rule holds, the call returns Err.  By computation. *)
From Coq Require Import ZArith Lia Bool.
From E57 Require Import Base.Prelude Spec.PageSpec Model.PagedWriter Model.Prog Model.Record Model.PcWriter
  Model.Meta Model.MetaFile Model.WriterApi.
From E57 Require Import Proofs.WapiProg Proofs.WapiRules Proofs.WapiInv Proofs.WapiMain Proofs.WapiAccept.
Open Scope N_scope.

Definition w_ext : xstring := [101].                       (* e *)
Definition w_url : xstring := [104; 116; 116; 112; 58; 47; 47; 101]. (* http://e *)
Definition w_name (i : N) : xstring := [97 + i mod 26; 97 + (i / 26) mod 26; 97 + (i / 676) mod 26].
Definition w_proto : list record :=
  [mkRecord CartesianX (DDouble None None); mkRecord CartesianY (DDouble None None); mkRecord CartesianZ (DDouble None None)] ++
  map (fun i => mkRecord (Unknown w_ext (w_name (N.of_nat i))) (DDouble None None)) (seq 0 5947).
Definition w_state : wstate :=
  mkWs true (mkRoot [] [103] 1 0 None None None) [mkExtension w_ext w_url] [] [] SubNone false.

Lemma w_rules : validate_prototype w_proto = Ok tt.
Proof. vm_compute. reflexivity. Qed.
Lemma w_names : ext_validate_prototype w_proto (ws_exts w_state) = Ok tt.
Proof. vm_compute. reflexivity. Qed.
Lemma w_bits : point_bits_of w_proto = 380800 /\ len w_proto = 5950.
Proof. vm_compute. split; reflexivity. Qed.
Lemma w_capacity : get_max_packet_points (proto_dtypes w_proto) = Err EInvalid.
Proof. vm_compute. reflexivity. Qed.

Lemma w_part : rules_part w_proto.
Proof. exact (validate_prototype_ok w_proto w_rules). Qed.
Lemma w_ext_ok : forall ns name t, In (mkRecord (Unknown ns name) t) w_proto ->
     name_wf ns /\ name_wf name /\ name_start_ok name /\ registered (ws_exts w_state) ns.
Proof. exact (ext_validate_prototype_ok w_proto _ w_names). Qed.
Lemma w_fits : fits_packet w_proto.
Proof. unfold fits_packet. destruct w_bits as [-> ->]. split; [lia|]. vm_compute. discriminate. Qed.
Lemma w_margin : ~ packet_margin w_proto.
Proof. unfold packet_margin. destruct w_bits as [-> ->]. intros [_ H]. vm_compute in H. apply H. reflexivity. Qed.

Lemma w_representable : representable_prototype (ws_exts w_state) w_proto.
Proof.
  destruct w_part as (R1 & R2 & R3 & R4 & R5 & R6 & R7 & R8 & R9 & R10 & R11 & R12 & R13 & R14 & R15 & R16 & R17 & R18 & _ & R19).
  exact (conj R1 (conj R2 (conj R3 (conj R4 (conj R5 (conj R6 (conj R7 (conj R8 (conj R9 (conj R10 (conj R11 (conj R12 (conj R13 (conj R14 (conj R15 (conj R16 (conj R17 (conj R18 (conj w_ext_ok (conj w_fits R19)))))))))))))))))))).
Qed.

Lemma w_i64 : proto_i64 w_proto.
Proof.
  intros p Hp. unfold w_proto in Hp. apply in_app_or in Hp as [Hp|Hp].
  - destruct Hp as [<-|[<-|[<-|[]]]]; exact I.
  - apply in_map_iff in Hp as (i & <- & _). exact I.
Qed.

Theorem fits_packet_not_enough : forall gen_xml lib_version guid l,
  representable_call w_state (AddPointcloud guid w_proto) /\
  call_wf (AddPointcloud guid w_proto) /\
  wrun_spec (wapi_step gen_xml lib_version w_state (AddPointcloud guid w_proto)) l = (l, Ok (w_state, CrErr EInvalid)).
Proof.
  intros gen_xml lib_version guid l.
  split; [exact (conj eq_refl w_representable)|]. split; [exact w_i64|].
  apply capacity_rejected; [reflexivity|reflexivity|reflexivity|exact w_names|exact w_rules|exact w_capacity].
Qed.

Print Assumptions fits_packet_not_enough.
