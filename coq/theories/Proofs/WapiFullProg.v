(** Whole writer, part 1: a complete program - [new], then units (setters,
    [add_blob], point cloud sessions [add_pointcloud .. finalize; drop], image
    sessions [add_image .. finalize; drop]), then [finalize] - in which every
    call returned Ok performs exactly the page-layer program [file_prog items xml]
    of the binary file model (Proofs/FileRtWriter.v): same logical stream, same
    published offsets; and the point clouds and images the state machine holds
    are laid out as [explains] says.  Purely definitional: no invariant is
    needed, the hypothesis "every call returned Ok" drives the unfolding. *)
From E57 Require Import Base.Prelude Spec.PageSpec Model.PagedWriter Model.Prog Model.Record
  Model.PcWriter Model.FileBin Model.Meta Model.MetaFile Model.WriterApi Spec.FileSpec Spec.FileSpecXml.
From E57 Require Import Proofs.ProgTransfer Proofs.PcWriterLemmas Proofs.PcWriterPacket Proofs.BitWidthProofs
  Proofs.FileRtWriter Proofs.WapiProg Proofs.WapiPc Proofs.WapiRules Proofs.WapiInv Proofs.WapiMain.
From E57 Require Import Spec.BitSpec Spec.FormatSpec Proofs.WapiFullMeta.
From Coq Require Import ZifyN ZifyNat ZifyBool.
Open Scope N_scope.

Definition res_ok (r : call_result) : Prop :=
  match r with CrOk | CrBlob _ _ => True | _ => False end.

Definition is_setter (c : wcall) : Prop :=
  match c with SetCoordinateMetadata _ | SetCreation _ | RegisterExtension _ _ => True | _ => False end.
Definition is_im_body (c : wcall) : Prop :=
  match c with
  | ImSet _ | ImAddVisualReference _ _ _ _ _ | ImAddPinhole _ _ _ _ | ImAddSpherical _ _ _ _
  | ImAddCylindrical _ _ _ _ => True
  | _ => False
  end.

(** a session's limits end up complete: the caller sets them, or the prototype declares the range
    (the default limits of a float attribute without declared minimum and maximum are incomplete;
    the writer accepts that and does not write them - then the reader reports no limits at all) *)
Definition has_ilim (body : list wcall) : bool :=
  existsb (fun c => match c with PcSet (PfIntensityLimits _) => true | _ => false end) body.
Definition has_clim (body : list wcall) : bool :=
  existsb (fun c => match c with PcSet (PfColorLimits _) => true | _ => false end) body.
Definition limits_declared (proto : list record) (body : list wcall) : Prop :=
  (has_ilim body = true \/
   match default_intensity_limits proto with Some l => il_complete l = true | None => True end) /\
  (has_clim body = true \/
   forall l, default_color_limits proto = Ok (Some l) -> cl_complete l = true).

(** the grammar of the calls between [new] and the top-level [finalize] *)
Inductive units : list wcall -> Prop :=
| un_nil : units []
| un_setter c r : is_setter c -> units r -> units (c :: r)
| un_blob data r : units r -> units (AddBlob data :: r)
| un_pc guid proto body r : Forall is_pc_body body -> limits_declared proto body -> units r ->
    units (AddPointcloud guid proto :: body ++ [PcFinalize; PcDrop] ++ r)
| un_im guid ibody r : Forall is_im_body ibody -> units r ->
    units (AddImage guid :: ibody ++ [ImFinalize; ImDrop] ++ r).

Definition complete (calls : list wcall) : Prop :=
  exists guid tops, calls = NewWriter guid :: tops ++ [Finalize] /\ units tops.

(** the binary items of an image call: the data blob, then the mask blob *)
Definition mask_items (mask : option (list N)) : list item :=
  match mask with Some m => [IBlob m] | None => [] end.
Definition im_call_items (c : wcall) : list item :=
  match c with
  | ImAddVisualReference _ data _ _ mask | ImAddPinhole _ data _ mask | ImAddSpherical _ data _ mask
  | ImAddCylindrical _ data _ mask => IBlob data :: mask_items mask
  | _ => []
  end.

(** the descriptors one image call publishes, taken from the outputs of its items *)
Definition take_blobs (mask : option (list N)) (outs : list item_out) : blob * option blob * list item_out :=
  match outs with
  | OBlob o l :: rest =>
      match mask with
      | Some _ => match rest with
                  | OBlob o2 l2 :: rest' => (mkBlob o l, Some (mkBlob o2 l2), rest')
                  | _ => (mkBlob o l, None, rest)
                  end
      | None => (mkBlob o l, None, rest)
      end
  | _ => (mkBlob 0 0, None, outs)
  end.

(** the image an accepted image body builds, as a function of the calls and of the
    offsets its blobs were published at *)
Fixpoint im_ref (ibody : list wcall) (outs : list item_out) (im : image) : image :=
  match ibody with
  | [] => im
  | ImSet f :: r => im_ref r outs (im_set f im)
  | ImAddVisualReference fmt data w h mask :: r =>
      let '(b, m, outs') := take_blobs mask outs in
      im_ref r outs' (im_set_visual (mkVisRef (mkImageBlob b fmt) m w h) im)
  | ImAddPinhole fmt data p mask :: r =>
      let '(b, m, outs') := take_blobs mask outs in
      im_ref r outs' (im_set_projection
        (PPinhole (mkPinhole (mkImageBlob b fmt) m (php_width p) (php_height p) (php_focal_length p)
                             (php_pixel_width p) (php_pixel_height p) (php_principal_x p) (php_principal_y p))) im)
  | ImAddSpherical fmt data p mask :: r =>
      let '(b, m, outs') := take_blobs mask outs in
      im_ref r outs' (im_set_projection
        (PSpherical (mkSphImg (mkImageBlob b fmt) m (spp_width p) (spp_height p)
                              (spp_pixel_width p) (spp_pixel_height p))) im)
  | ImAddCylindrical fmt data p mask :: r =>
      let '(b, m, outs') := take_blobs mask outs in
      im_ref r outs' (im_set_projection
        (PCylindrical (mkCylImg (mkImageBlob b fmt) m (cyp_width p) (cyp_height p) (cyp_radius p)
                                (cyp_principal_y p) (cyp_pixel_width p) (cyp_pixel_height p))) im)
  | _ :: r => im_ref r outs im
  end.

(** How the units, the binary items, the offsets they were published at, and the
    descriptors held by the writer fit together.  [blobs]: data, offset, length of
    every [add_blob]. *)
Inductive explains : list wcall -> list item -> list item_out -> list pointcloud -> list image ->
                     list (list N * N * N) -> Prop :=
| ex_nil : explains [] [] [] [] [] []
| ex_setter c r is os pcs ims bl : is_setter c -> explains r is os pcs ims bl -> explains (c :: r) is os pcs ims bl
| ex_blob data off ln r is os pcs ims bl : explains r is os pcs ims bl ->
    explains (AddBlob data :: r) (IBlob data :: is) (OBlob off ln :: os) pcs ims ((data, off, ln) :: bl)
| ex_pc guid proto body off n pc r is os pcs ims bl :
    Forall is_pc_body body ->
    item_wf (IPc (proto_dtypes proto) (body_points body)) = true ->
    pc_limits_complete pc = true ->
    pc_guid pc = Some guid -> pc_prototype pc = proto -> pc_file_offset pc = off -> pc_records pc = n ->
    explains r is os pcs ims bl ->
    explains (AddPointcloud guid proto :: body ++ [PcFinalize; PcDrop] ++ r)
             (IPc (proto_dtypes proto) (body_points body) :: is) (OPc off n :: os) (pc :: pcs) ims bl
| ex_im guid ibody iouts r is os pcs ims bl :
    Forall is_im_body ibody -> length iouts = length (flat_map im_call_items ibody) ->
    explains r is os pcs ims bl ->
    explains (AddImage guid :: ibody ++ [ImFinalize; ImDrop] ++ r)
             (flat_map im_call_items ibody ++ is) (iouts ++ os) pcs (im_ref ibody iouts (image_new guid) :: ims) bl.

Section Prog.
Variable gen_xml : file_meta -> res (list N).
Variable lib_version : xstring.
Notation step := (wapi_step gen_xml lib_version).
Notation run := (wapi_run gen_xml lib_version).

(** * Runs of concatenated call lists *)
Lemma run_app : forall cs1 cs2 s l0,
  wrun_spec (run s (cs1 ++ cs2)) l0 =
  match wrun_spec (run s cs1) l0 with
  | (la, Ok (sa, ra)) =>
      match wrun_spec (run sa cs2) la with
      | (lb, Ok (sb, rb)) => (lb, Ok (sb, ra ++ rb))
      | (lb, Err k) => (lb, Err k)
      | (lb, Panic) => (lb, Panic)
      end
  | (la, Err k) => (la, Err k)
  | (la, Panic) => (la, Panic)
  end.
Proof.
  induction cs1 as [|c cs1 IHc]; intros cs2 s l0.
  - cbn [app wapi_run wret wrun_spec]. destruct (wrun_spec (run s cs2) l0) as [lb [[sb rb]|k|]]; reflexivity.
  - cbn [app wapi_run]. rewrite !run_bind.
    destruct (wrun_spec (step s c) l0) as [lx [[sx rx]|k|]]; cbn [fst snd]; try reflexivity.
    rewrite !run_bind, IHc.
    destruct (wrun_spec (run sx cs1) lx) as [la [[sa ra]|k|]]; cbn [fst snd wret wrun_spec]; try reflexivity.
    destruct (wrun_spec (run sa cs2) la) as [lb [[sb rb]|k|]]; cbn [fst snd wret wrun_spec]; reflexivity.
Qed.

Lemma run_cons c cs s l0 l' st' rs :
  wrun_spec (run s (c :: cs)) l0 = (l', Ok (st', rs)) ->
  exists l1 s1 r1 rs1, wrun_spec (step s c) l0 = (l1, Ok (s1, r1)) /\
    wrun_spec (run s1 cs) l1 = (l', Ok (st', rs1)) /\ rs = r1 :: rs1.
Proof.
  cbn [wapi_run]. rewrite run_bind.
  destruct (wrun_spec (step s c) l0) as [l1 [[s1 r1]|k|]] eqn:E1; cbn [fst snd]; try (intros H; inversion H; fail).
  rewrite run_bind.
  destruct (wrun_spec (run s1 cs) l1) as [l2 [[s2 rs1]|k|]] eqn:E2; cbn [fst snd wret wrun_spec]; intros H; inversion H; subst.
  exists l1, s1, r1, rs1. auto.
Qed.

Lemma run_app_ok cs1 cs2 s l0 l' st' rs :
  wrun_spec (run s (cs1 ++ cs2)) l0 = (l', Ok (st', rs)) ->
  exists la sa ra rb, wrun_spec (run s cs1) l0 = (la, Ok (sa, ra)) /\
    wrun_spec (run sa cs2) la = (l', Ok (st', rb)) /\ rs = ra ++ rb.
Proof.
  rewrite run_app.
  destruct (wrun_spec (run s cs1) l0) as [la [[sa ra]|k|]] eqn:E1; try (intros H; inversion H; fail).
  destruct (wrun_spec (run sa cs2) la) as [lb [[sb rb]|k|]] eqn:E2; intros H; inversion H; subst.
  exists la, sa, ra, rb. auto.
Qed.

(** * One step, read backwards from its Ok result *)

Definition top (st : wstate) : Prop := ws_open st = true /\ ws_sub st = SubNone.

Lemma step_setter st c l l' st' r : top st -> is_setter c ->
  wrun_spec (step st c) l = (l', Ok (st', r)) ->
  l' = l /\ top st' /\ ws_pcs st' = ws_pcs st /\ ws_imgs st' = ws_imgs st.
Proof.
  intros [Ho Hs] Hc. unfold wapi_step. rewrite Ho, Hs. cbn [negb].
  destruct c; try (destruct Hc; fail).
  - destruct (ws_root st). cbn [wret wrun_spec]. intros H. inversion H; subst. cbn. repeat split; reflexivity.
  - destruct (ws_root st). cbn [wret wrun_spec]. intros H. inversion H; subst. cbn. repeat split; reflexivity.
  - destruct (validate_name ns >> validate_name_start ns >> validate_url url) as [[]|k|];
      [|cbn [wret wrun_spec]; intros H; inversion H; subst; repeat split; assumption|cbn; intros H; inversion H].
    destruct (url_registered _ _); [cbn [wret wrun_spec]; intros H; inversion H; subst; repeat split; assumption|].
    destruct (ext_registered _ _); cbn [wret wrun_spec]; intros H; inversion H; subst; cbn; repeat split; assumption.
Qed.

Lemma step_blob st data l l' st' r : top st -> res_ok r ->
  wrun_spec (step st (AddBlob data)) l = (l', Ok (st', r)) ->
  st' = st /\ exists o n, r = CrBlob o n /\ wrun_spec (blob_write data) l = (l', Ok (o, n)).
Proof.
  intros [Ho Hs] Hr. unfold wapi_step. rewrite Ho, Hs. cbn [negb].
  destruct (ws_finalized st); [cbn [wret wrun_spec]; intros H; inversion H; subst; destruct Hr|].
  rewrite run_bind, wrun_spec_wtry.
  destruct (wrun_spec (blob_write data) l) as [l1 [[o n]|k|]]; cbn [fst snd wret wrun_spec]; intros H; inversion H; subst;
    [|destruct Hr].
  split; [reflexivity|]. exists o, n. auto.
Qed.

Lemma pc_new_ok_inv exts guid proto l l1 ps :
  wrun_spec (wtry (pc_new exts guid proto)) l = (l1, Ok (Ok ps)) ->
  ext_validate_prototype proto exts = Ok tt /\ validate_prototype proto = Ok tt /\
  wrun_spec (pcw_new (proto_dtypes proto)) l = (l1, Ok (ps_w ps)) /\
  ps_proto ps = proto /\ ps_finalized ps = false /\ pc_guid (ps_desc ps) = Some guid /\
  pc_prototype (ps_desc ps) = proto /\
  ps_custom_il ps = false /\ ps_custom_cl ps = false /\
  exists cl, default_color_limits proto = Ok cl /\
             ps_desc ps = desc_new guid proto (default_intensity_limits proto) cl.
Proof.
  rewrite wrun_spec_wtry. unfold pc_new. rewrite run_bind, run_wlift. cbn [fst snd].
  destruct (ext_validate_prototype proto exts) as [[]|k|]; cbn [fst snd]; try (intros H; inversion H; fail).
  rewrite run_bind, run_wlift. cbn [fst snd].
  destruct (validate_prototype proto) as [[]|k|]; cbn [fst snd]; try (intros H; inversion H; fail).
  rewrite run_bind.
  destruct (wrun_spec (pcw_new (proto_dtypes proto)) l) as [l2 [w|k|]]; cbn [fst snd]; try (intros H; inversion H; fail).
  rewrite run_bind, run_wlift. cbn [fst snd].
  destruct (default_color_limits proto) as [cl|k|]; cbn [fst snd wret wrun_spec]; intros H; inversion H; subst.
  cbn. repeat split; try reflexivity. exists cl. split; reflexivity.
Qed.

Lemma step_addpc st guid proto l l' st' r : top st -> res_ok r ->
  wrun_spec (step st (AddPointcloud guid proto)) l = (l', Ok (st', r)) ->
  exists ps, st' = set_sub st (SubPc ps) /\
    ext_validate_prototype proto (ws_exts st) = Ok tt /\ validate_prototype proto = Ok tt /\
    wrun_spec (pcw_new (proto_dtypes proto)) l = (l', Ok (ps_w ps)) /\
    ps_proto ps = proto /\ ps_finalized ps = false /\ pc_guid (ps_desc ps) = Some guid /\
    pc_prototype (ps_desc ps) = proto /\
    ps_custom_il ps = false /\ ps_custom_cl ps = false /\
    exists cl, default_color_limits proto = Ok cl /\
               ps_desc ps = desc_new guid proto (default_intensity_limits proto) cl.
Proof.
  intros [Ho Hs] Hr. unfold wapi_step. rewrite Ho, Hs. cbn [negb].
  destruct (ws_finalized st); [cbn [wret wrun_spec]; intros H; inversion H; subst; destruct Hr|].
  rewrite run_bind.
  destruct (wrun_spec (wtry (pc_new (ws_exts st) guid proto)) l) as [l1 [[ps|k|]|k|]] eqn:E; cbn [fst snd wret wrun_spec];
    intros H; inversion H; subst; try (destruct Hr; fail).
  exists ps. split; [reflexivity|]. apply (pc_new_ok_inv _ _ _ _ _ _ E).
Qed.

(** the descriptor metadata a setter never touches *)
Lemma pc_set_keeps f d : pc_guid (pc_set f d) = pc_guid d /\ pc_prototype (pc_set f d) = pc_prototype d.
Proof. destruct d, f; split; reflexivity. Qed.

(** the binary writer keeps its prototype *)
Lemma wbtd_proto last w l l' w' :
  wrun_spec (write_buffer_to_disk last w) l = (l', Ok w') -> w_proto w' = w_proto w.
Proof.
  rewrite wbtd_unfold, run_bind, run_wlift. cbn [fst snd].
  destruct (write_points _ _ _ _) as [[buffer streams]|k|]; cbn [fst snd]; try (intros H; inversion H; fail).
  rewrite run_bind, run_wlift. cbn [fst snd].
  destruct (stream_sizes last streams) as [sizes|k|]; cbn [fst snd]; try (intros H; inversion H; fail).
  unfold wbtd_tail. rewrite run_bind.
  destruct (0 <? fold_left N.add sizes 0).
  - cbv zeta. destruct (U16_MAX <? _); [cbn; intros H; inversion H|].
    rewrite run_bind, run_wr_gen. cbn [fst snd]. rewrite run_bind.
    match goal with |- context [wrun_spec (wr_all ?cs) ?l0] => destruct (wrun_spec (wr_all cs) l0) as [lx [[]|k|]] end;
      cbn [fst snd]; try (intros H; inversion H; fail).
    rewrite run_bind, run_wlift. cbn [fst snd].
    destruct (drain_streams last streams) as [[s' datas]|k|]; cbn [fst snd]; try (intros H; inversion H; fail).
    rewrite run_bind.
    match goal with |- context [wrun_spec (wr_all ?cs) ?l0] => destruct (wrun_spec (wr_all cs) l0) as [ly [[]|k|]] end;
      cbn [fst snd wret wrun_spec]; try (intros H; inversion H; fail).
    rewrite run_bind, run_align_gen. cbn [fst snd wret wrun_spec]. intros H. inversion H. reflexivity.
  - cbn [wret wrun_spec fst snd]. rewrite run_bind, run_align_gen. cbn [fst snd wret wrun_spec].
    intros H. inversion H. reflexivity.
Qed.

Lemma add_point_proto vs w l l' w' :
  wrun_spec (pcw_add_point vs w) l = (l', Ok w') -> w_proto w' = w_proto w.
Proof.
  unfold pcw_add_point. destruct (negb _); [cbn; intros H; inversion H|]. cbv zeta.
  destruct (_ <=? _).
  - intros H. apply wbtd_proto in H. exact H.
  - cbn [wret wrun_spec]. intros H. inversion H. reflexivity.
Qed.

Lemma pcw_new_proto dt l l' w : wrun_spec (pcw_new dt) l = (l', Ok w) ->
  w_proto w = dt /\ exists mpp, get_max_packet_points dt = Ok mpp.
Proof.
  unfold pcw_new. rewrite run_bind, run_wlift. cbn [fst snd].
  destruct (get_max_packet_points dt) as [mpp|k|]; cbn [fst snd]; try (intros H; inversion H; fail).
  rewrite run_bind, run_position. cbn [fst snd]. rewrite run_bind, run_wr_gen. cbn [fst snd].
  rewrite run_bind, run_position. cbn [fst snd wret wrun_spec]. intros H. inversion H. cbn. eauto.
Qed.

Lemma body_prog : forall body st l l' st' rs ps,
  ws_open st = true -> ws_sub st = SubPc ps -> Forall is_pc_body body ->
  wrun_spec (run st body) l = (l', Ok (st', rs)) -> Forall res_ok rs ->
  exists ps', st' = set_sub st (SubPc ps') /\
    wrun_spec (add_points (body_points body) (ps_w ps)) l = (l', Ok (ps_w ps')) /\
    ps_finalized ps' = ps_finalized ps /\ ps_proto ps' = ps_proto ps /\
    pc_guid (ps_desc ps') = pc_guid (ps_desc ps) /\ pc_prototype (ps_desc ps') = pc_prototype (ps_desc ps) /\
    w_proto (ps_w ps') = w_proto (ps_w ps) /\
    Forall (fun vs => values_ok (w_proto (ps_w ps)) vs = true) (body_points body) /\
    ps_desc ps' = body_desc body (ps_desc ps) /\
    ps_custom_il ps' = ps_custom_il ps || has_ilim body /\
    ps_custom_cl ps' = ps_custom_cl ps || has_clim body.
Proof.
  induction body as [|c body IH]; intros st l l' st' rs ps Ho Hs Hb Hrun Hok.
  - cbn [wapi_run wret wrun_spec] in Hrun. inversion Hrun; subst l' st' rs.
    exists ps. split; [destruct st; cbn in *; subst; reflexivity|]. cbn [body_points add_points wret wrun_spec body_desc has_ilim has_clim existsb].
    rewrite !orb_false_r. auto 12.
  - inversion Hb as [|? ? Hc Hb']; subst.
    destruct (run_cons _ _ _ _ _ _ _ Hrun) as (l1 & s1 & r1 & rs1 & H1 & H2 & ->).
    inversion Hok as [|? ? Hr1 Hok1]; subst.
    unfold wapi_step in H1. rewrite Ho, Hs in H1. cbn [negb] in H1.
    destruct c; try (destruct Hc; fail).
    + (* PcSet *)
      cbn [wret wrun_spec] in H1. inversion H1; subst. clear H1.
      match type of H2 with wrun_spec (wapi_run _ _ ?s0 _) _ = _ => destruct (IH s0 _ _ _ _ _ Ho eq_refl Hb' H2 Hok1) as (ps' & E & Hr & Hf & Hp & Hg & Hpr & Hwp & Hvs & Hds & Hci & Hcc) end.
      cbn [ps_w ps_finalized ps_proto ps_desc ps_custom_il ps_custom_cl] in *. destruct (pc_set_keeps f (ps_desc ps)) as [K1 K2].
      exists ps'. split; [rewrite E; destruct st; reflexivity|]. cbn [body_points body_desc].
      split; [exact Hr|]. split; [exact Hf|]. split; [exact Hp|]. split; [congruence|]. split; [congruence|].
      split; [exact Hwp|]. split; [exact Hvs|]. split; [exact Hds|].
      unfold has_ilim, has_clim. cbn [existsb]. rewrite Hci, Hcc.
      split; destruct f; cbn; rewrite ?orb_true_r, ?orb_false_r; try reflexivity;
        destruct (ps_custom_il ps), (ps_custom_cl ps); reflexivity.
    + (* PcAddPoint *)
      rewrite run_bind in H1.
      destruct (wrun_spec (pc_add_point values ps) l) as [la [[ps1 r0]|k|]] eqn:E1; cbn [fst snd wret wrun_spec] in H1;
        try (inversion H1; fail).
      inversion H1; subst. clear H1.
      assert (r1 = CrOk).
      { clear - E1 Hr1. unfold pc_add_point in E1.
        destruct (ps_finalized ps); [cbn in E1; inversion E1; subst; destruct Hr1|].
        destruct (negb _); [cbn in E1; inversion E1; subst; destruct Hr1|].
        destruct (update_bounds _ _ _) as [b1 [[]|k|]]; [|cbn in E1; inversion E1; subst; destruct Hr1|cbn in E1; inversion E1].
        rewrite run_bind, wrun_spec_wtry in E1.
        destruct (snd (wrun_spec (pcw_add_point values (ps_w ps)) l)); cbn [fst snd wret wrun_spec] in E1; inversion E1; subst;
          [reflexivity|destruct Hr1]. }
      subst r1.
      destruct (pc_add_point_ok_inv values ps l l1 ps1 E1) as (Hfin & Hv & b1 & w' & Hub & Hps1 & Hrunw).
      match type of H2 with wrun_spec (wapi_run _ _ ?s0 _) _ = _ => destruct (IH s0 _ _ _ _ _ Ho eq_refl Hb' H2 Hok1) as (ps' & E & Hr & Hf & Hp & Hg & Hpr & Hwp & Hvs & Hds & Hci & Hcc) end.
      subst ps1. cbn [ps_w ps_finalized ps_proto ps_desc ps_custom_il ps_custom_cl] in *.
      pose proof (add_point_proto _ _ _ _ _ Hrunw) as Hw'.
      exists ps'. split; [rewrite E; destruct st; reflexivity|]. cbn [body_points add_points].
      split; [rewrite run_bind, Hrunw; exact Hr|]. split; [congruence|]. split; [exact Hp|]. split; [exact Hg|].
      split; [exact Hpr|]. split; [congruence|]. split; [constructor; [exact Hv|]; rewrite <- Hw'; exact Hvs|].
      cbn [body_desc has_ilim has_clim existsb orb]. auto.
Qed.

Lemma has_ilim_false : forall body cur, has_ilim body = false -> body_ilim body cur = cur.
Proof.
  induction body as [|c r IH]; intros cur H; [reflexivity|]. unfold has_ilim in H. cbn [existsb] in H.
  apply orb_false_iff in H as [H1 H2]. destruct c; cbn [body_ilim]; try (apply IH; exact H2).
  destruct f; try discriminate; apply IH; exact H2.
Qed.
Lemma has_clim_false : forall body cur, has_clim body = false -> body_clim body cur = cur.
Proof.
  induction body as [|c r IH]; intros cur H; [reflexivity|]. unfold has_clim in H. cbn [existsb] in H.
  apply orb_false_iff in H as [H1 H2]. destruct c; cbn [body_clim]; try (apply IH; exact H2).
  destruct f; try discriminate; apply IH; exact H2.
Qed.

Lemma pc_unit st guid proto body l l' st' rs : top st -> Forall is_pc_body body -> limits_declared proto body ->
  proto_i64 proto -> Forall call_wf body ->
  wrun_spec (run st (AddPointcloud guid proto :: body ++ [PcFinalize; PcDrop])) l = (l', Ok (st', rs)) ->
  Forall res_ok rs ->
  exists off n pc,
    item_wf (IPc (proto_dtypes proto) (body_points body)) = true /\ pc_limits_complete pc = true /\
    wrun_spec (item_write (IPc (proto_dtypes proto) (body_points body))) l = (l', Ok (OPc off n)) /\
    top st' /\ ws_pcs st' = ws_pcs st ++ [pc] /\ ws_imgs st' = ws_imgs st /\
    pc_guid pc = Some guid /\ pc_prototype pc = proto /\ pc_file_offset pc = off /\ pc_records pc = n /\
    ws_exts st' = ws_exts st /\ ws_root st' = ws_root st /\ ws_finalized st' = ws_finalized st.
Proof.
  intros Ht Hb Hld Hi64 Hwfb Hrun Hok. pose proof Ht as [Ho Hs].
  destruct (run_cons _ _ _ _ _ _ _ Hrun) as (l1 & s1 & r1 & rs1 & H1 & H2 & ->).
  inversion Hok as [|? ? Hr1 Hok1]; subst.
  destruct (step_addpc _ _ _ _ _ _ _ Ht Hr1 H1) as (ps & -> & _ & Hval & Hnew & Hpp & Hfin & Hg & Hpr & Hci0 & Hcc0 & cl0 & Hcl0 & Hd0).
  destruct (run_app_ok _ _ _ _ _ _ _ H2) as (l2 & s2 & ra & rb & Hbody & Hfinal & ->).
  apply Forall_app in Hok1 as [Hoka Hokb].
  destruct (body_prog body (set_sub st (SubPc ps)) _ _ _ _ ps Ho eq_refl Hb Hbody Hoka)
    as (ps2 & -> & Hadd & Hf2 & Hp2 & Hg2 & Hpr2 & _ & Hvs & Hds2 & Hci2 & Hcc2).
  destruct (pcw_new_proto _ _ _ _ Hnew) as (Hwp & mpp & Hmpp).
  assert (Hiwf : item_wf (IPc (proto_dtypes proto) (body_points body)) = true).
  {
    cbn [item_wf]. rewrite Hmpp. cbn [is_ok]. rewrite andb_true_r.
    pose proof (accepted_type_ok proto Hval Hi64) as Hty.
    unfold scene_ok. rewrite Hty. cbn [andb]. apply andb_true_intro. split.
    + rewrite forallb_forall. intros vs Hin. rewrite Forall_forall in Hvs. specialize (Hvs vs Hin). rewrite Hwp in Hvs.
      apply values_ok_point_ok; [exact Hvs|].
      assert (G : forall bd, Forall call_wf bd -> forall v, In v (body_points bd) -> Forall value_wf v).
      { induction bd as [|c bd IHb]; intros Hw v Hv; [destruct Hv|]. inversion Hw as [|? ? Hc Hw']; subst.
        destruct c; cbn [body_points] in Hv; try (apply IHb; assumption).
        destruct Hv as [<-|Hv]; [exact Hc|apply IHb; assumption]. }
      apply (G body Hwfb vs Hin).
    + apply max_packet_points_facts in Hmpp as (_ & Hbits & _).
      rewrite point_bits_sumN in Hbits.
      destruct (existsb (fun t => 0 <? spec_bit_size t) (proto_dtypes proto)) eqn:Ee; [reflexivity|]. exfalso. apply Hbits.
      assert (Z0 : forall i, (i < length (proto_dtypes proto))%nat -> bit_size (nth i (proto_dtypes proto) TSingle) = 0).
      { intros i Hi. rewrite bit_size_spec by (rewrite forallb_forall in Hty; apply Hty; apply nth_In; exact Hi).
        destruct (0 <? spec_bit_size (nth i (proto_dtypes proto) TSingle)) eqn:E0; [|lia].
        exfalso. assert (existsb (fun t => 0 <? spec_bit_size t) (proto_dtypes proto) = true).
        { apply existsb_exists. eexists. split; [apply nth_In; exact Hi|exact E0]. } congruence. }
      clear - Z0. induction (length (proto_dtypes proto)) as [|n IHn]; [reflexivity|].
      cbn [sumN]. rewrite IHn by (intros; apply Z0; lia). rewrite Z0 by lia. reflexivity.
  }
  (* finalize, drop *)
  destruct (run_cons _ _ _ _ _ _ _ Hfinal) as (l3 & s3 & r3 & rs3 & H3 & H4 & ->).
  pose proof (Forall_inv Hokb) as Hr3.
  unfold wapi_step in H3. cbn [set_sub ws_open ws_sub] in H3. rewrite Ho in H3. cbn [negb] in H3.
  rewrite run_bind in H3. unfold pc_finalize in H3. rewrite Hf2, Hfin in H3.
  destruct (custom_limits_ok (ps_custom_il ps2) (ps_custom_cl ps2) (ps_desc ps2)) eqn:Ecl; cbn [negb] in H3;
    [|cbn [wret wrun_spec fst snd] in H3; inversion H3; subst; destruct Hr3].
  assert (Hlim : pc_limits_complete (desc_finish (ps_desc ps2) (ps_bounds ps2) 0 0) = true).
  { destruct (desc_finish_bounds (ps_desc ps2) (ps_bounds ps2) 0 0) as (_ & _ & _ & _ & D5 & D6 & _).
    unfold pc_limits_complete. rewrite D5, D6.
    destruct (body_desc_limits body (ps_desc ps)) as (L1 & L2). rewrite <- Hds2 in L1, L2.
    rewrite Hd0 in L1, L2. cbn [desc_new pc_intensity_limits pc_color_limits] in L1, L2.
    rewrite Hci0 in Hci2. rewrite Hcc0 in Hcc2. cbn [orb] in Hci2, Hcc2.
    unfold custom_limits_ok in Ecl. apply andb_prop in Ecl as [E1 E2]. destruct Hld as [Hl1 Hl2].
    apply andb_true_intro. split.
    - destruct (ps_custom_il ps2) eqn:Ec.
      + destruct (pc_intensity_limits (ps_desc ps2)); [exact E1|reflexivity].
      + rewrite L1, (has_ilim_false body _ (eq_sym Hci2)).
        destruct Hl1 as [Hl1|Hl1]; [congruence|]. destruct (default_intensity_limits proto); [exact Hl1|reflexivity].
    - destruct (ps_custom_cl ps2) eqn:Ec.
      + destruct (pc_color_limits (ps_desc ps2)); [exact E2|reflexivity].
      + rewrite L2, (has_clim_false body _ (eq_sym Hcc2)).
        destruct Hl2 as [Hl2|Hl2]; [congruence|]. destruct cl0 as [c0|]; [apply (Hl2 c0 Hcl0)|reflexivity]. }
  rewrite run_bind, wrun_spec_wtry in H3.
  destruct (wrun_spec (pcw_finalize (ps_w ps2)) l2) as [l4 [[[w2 off] cnt]|k|]] eqn:Ef; cbn [fst snd wret wrun_spec] in H3;
    inversion H3; subst; try (destruct Hr3; fail). clear H3.
  destruct (run_cons _ _ _ _ _ _ _ H4) as (l5 & s5 & r5 & rs5 & H5 & H6 & ->).
  unfold wapi_step in H5. cbn [ws_open ws_sub] in H5. cbn [negb] in H5. cbn [wret wrun_spec] in H5.
  inversion H5; subst. clear H5. cbn [wapi_run wret wrun_spec] in H6. inversion H6; subst. clear H6.
  exists off, cnt. eexists. split; [|split; [|split; [|split; [split; reflexivity|]]]].
  - exact Hiwf.
  - destruct (desc_finish_bounds (ps_desc ps2) (ps_bounds ps2) off cnt) as (_ & _ & _ & _ & D5 & D6 & _).
    destruct (desc_finish_bounds (ps_desc ps2) (ps_bounds ps2) 0 0) as (_ & _ & _ & _ & D5' & D6' & _).
    unfold pc_limits_complete in *. rewrite D5, D6. rewrite D5', D6' in Hlim. exact Hlim.
  - cbn [item_write]. rewrite run_bind, Hnew. cbn [fst snd]. rewrite run_bind, Hadd. cbn [fst snd].
    rewrite run_bind, Ef. reflexivity.
  - cbn [set_sub ws_pcs ws_imgs ws_exts ws_root ws_finalized].
    split; [reflexivity|]. split; [reflexivity|].
    destruct (ps_desc ps2) eqn:Ed. cbn in Hg2, Hpr2 |- *.
    repeat split; congruence.
Qed.

(** * Image sessions *)

Lemma items_write_app : forall a b l,
  wrun_spec (items_write (a ++ b)) l =
  match wrun_spec (items_write a) l with
  | (l1, Ok oa) => match wrun_spec (items_write b) l1 with
                   | (l2, Ok ob) => (l2, Ok (oa ++ ob))
                   | (l2, Err k) => (l2, Err k)
                   | (l2, Panic) => (l2, Panic)
                   end
  | (l1, Err k) => (l1, Err k)
  | (l1, Panic) => (l1, Panic)
  end.
Proof.
  induction a as [|i a IH]; intros b l.
  - cbn [app items_write wret wrun_spec]. destruct (wrun_spec (items_write b) l) as [l2 [ob|k|]]; reflexivity.
  - cbn [app items_write]. rewrite !run_bind.
    destruct (wrun_spec (item_write i) l) as [l1 [o|k|]]; cbn [fst snd]; try reflexivity.
    rewrite !run_bind, IH.
    destruct (wrun_spec (items_write a) l1) as [l2 [oa|k|]]; cbn [fst snd wret wrun_spec]; try reflexivity.
    destruct (wrun_spec (items_write b) l2) as [l3 [ob|k|]]; reflexivity.
Qed.

Lemma im_blobs_items data mask l l' b m :
  wrun_spec (im_blobs data mask) l = (l', Ok (b, m)) ->
  exists outs, wrun_spec (items_write (IBlob data :: mask_items mask)) l = (l', Ok outs) /\
    length outs = length (IBlob data :: mask_items mask) /\
    forall rest, take_blobs mask (outs ++ rest) = (b, m, rest).
Proof.
  unfold im_blobs. rewrite run_bind.
  destruct (wrun_spec (blob_write data) l) as [l1 [[o n]|k|]] eqn:E1; cbn [fst snd]; try (intros H; inversion H; fail).
  destruct mask as [md|]; cbn [mask_items].
  - rewrite run_bind, run_bind.
    destruct (wrun_spec (blob_write md) l1) as [l2 [[o2 n2]|k|]] eqn:E2; cbn [fst snd wret wrun_spec];
      intros H; inversion H; subst.
    exists [OBlob o n; OBlob o2 n2]. split; [|split; [reflexivity|reflexivity]].
    cbn [items_write item_write]. rewrite run_bind, run_bind, E1. cbn [fst snd wret wrun_spec].
    rewrite run_bind, run_bind, run_bind, E2. reflexivity.
  - rewrite run_bind. cbn [wret wrun_spec fst snd]. intros H. inversion H; subst.
    exists [OBlob o n]. split; [|split; [reflexivity|reflexivity]].
    cbn [items_write item_write]. rewrite run_bind, run_bind, E1. reflexivity.
Qed.

Lemma ibody_prog : forall ibody st l l' st' rs im,
  ws_open st = true -> ws_sub st = SubIm im false -> Forall is_im_body ibody ->
  wrun_spec (run st ibody) l = (l', Ok (st', rs)) -> Forall res_ok rs ->
  exists outs im',
    st' = set_sub st (SubIm im' false) /\
    wrun_spec (items_write (flat_map im_call_items ibody)) l = (l', Ok outs) /\
    length outs = length (flat_map im_call_items ibody) /\
    forall rest, im_ref ibody (outs ++ rest) im = im'.
Proof.
  induction ibody as [|c ibody IH]; intros st l l' st' rs im Ho Hs Hb Hrun Hok.
  - cbn [wapi_run wret wrun_spec] in Hrun. inversion Hrun; subst l' st' rs.
    exists [], im. split; [destruct st; cbn in *; subst; reflexivity|]. split; [reflexivity|]. split; reflexivity.
  - inversion Hb as [|? ? Hc Hb']; subst.
    destruct (run_cons _ _ _ _ _ _ _ Hrun) as (l1 & s1 & r1 & rs1 & H1 & H2 & ->).
    inversion Hok as [|? ? Hr1 Hok1]; subst.
    unfold wapi_step in H1. rewrite Ho, Hs in H1. cbn [negb] in H1.
    assert (Proj : forall data mask mk,
      wrun_spec (im_add_projection st im false data mask mk) l = (l1, Ok (s1, r1)) ->
      exists b m, wrun_spec (im_blobs data mask) l = (l1, Ok (b, m)) /\
                  s1 = set_sub st (SubIm (im_set_projection (mk b m) im) false)).
    { intros data mask mk H. unfold im_add_projection in H.
      destruct (has_projection im); [cbn [wret wrun_spec] in H; inversion H; subst; destruct Hr1|].
      rewrite run_bind, wrun_spec_wtry in H.
      destruct (wrun_spec (im_blobs data mask) l) as [lx [[b m]|k|]]; cbn [fst snd wret wrun_spec] in H;
        inversion H; subst; [|destruct Hr1]. eauto. }
    destruct c; try (destruct Hc; fail).
    + (* ImSet *)
      cbn [wret wrun_spec] in H1. inversion H1; subst. clear H1.
      match type of H2 with wrun_spec (wapi_run _ _ ?s0 _) _ = _ => destruct (IH s0 _ _ _ _ _ Ho eq_refl Hb' H2 Hok1) as (outs & im' & E & Hr & Hl & Href) end.
      exists outs, im'. split; [rewrite E; destruct st; reflexivity|]. cbn [flat_map im_call_items app im_ref]. auto.
    + (* visual reference *)
      rewrite run_bind, wrun_spec_wtry in H1.
      destruct (wrun_spec (im_blobs data mask) l) as [lx [[b m]|k|]] eqn:Eb; cbn [fst snd wret wrun_spec] in H1;
        inversion H1; subst; [|destruct Hr1]. clear H1.
      destruct (im_blobs_items _ _ _ _ _ _ Eb) as (o1 & Hw1 & Hl1 & Ht1).
      match type of H2 with wrun_spec (wapi_run _ _ ?s0 _) _ = _ => destruct (IH s0 _ _ _ _ _ Ho eq_refl Hb' H2 Hok1) as (outs & im' & E & Hr & Hl & Href) end.
      exists (o1 ++ outs), im'. split; [rewrite E; destruct st; reflexivity|].
      cbn [flat_map im_call_items]. split; [rewrite items_write_app, Hw1, Hr; reflexivity|].
      split; [rewrite !app_length; congruence|].
      intros rest. cbn [im_ref]. rewrite <- app_assoc, Ht1. apply Href.
    + destruct (Proj _ _ _ H1) as (b & m & Eb & ->).
      destruct (im_blobs_items _ _ _ _ _ _ Eb) as (o1 & Hw1 & Hl1 & Ht1).
      match type of H2 with wrun_spec (wapi_run _ _ ?s0 _) _ = _ => destruct (IH s0 _ _ _ _ _ Ho eq_refl Hb' H2 Hok1) as (outs & im' & E & Hr & Hl & Href) end.
      exists (o1 ++ outs), im'. split; [rewrite E; destruct st; reflexivity|].
      cbn [flat_map im_call_items]. split; [rewrite items_write_app, Hw1, Hr; reflexivity|].
      split; [rewrite !app_length; congruence|].
      intros rest. cbn [im_ref]. rewrite <- app_assoc, Ht1. apply Href.
    + destruct (Proj _ _ _ H1) as (b & m & Eb & ->).
      destruct (im_blobs_items _ _ _ _ _ _ Eb) as (o1 & Hw1 & Hl1 & Ht1).
      match type of H2 with wrun_spec (wapi_run _ _ ?s0 _) _ = _ => destruct (IH s0 _ _ _ _ _ Ho eq_refl Hb' H2 Hok1) as (outs & im' & E & Hr & Hl & Href) end.
      exists (o1 ++ outs), im'. split; [rewrite E; destruct st; reflexivity|].
      cbn [flat_map im_call_items]. split; [rewrite items_write_app, Hw1, Hr; reflexivity|].
      split; [rewrite !app_length; congruence|].
      intros rest. cbn [im_ref]. rewrite <- app_assoc, Ht1. apply Href.
    + destruct (Proj _ _ _ H1) as (b & m & Eb & ->).
      destruct (im_blobs_items _ _ _ _ _ _ Eb) as (o1 & Hw1 & Hl1 & Ht1).
      match type of H2 with wrun_spec (wapi_run _ _ ?s0 _) _ = _ => destruct (IH s0 _ _ _ _ _ Ho eq_refl Hb' H2 Hok1) as (outs & im' & E & Hr & Hl & Href) end.
      exists (o1 ++ outs), im'. split; [rewrite E; destruct st; reflexivity|].
      cbn [flat_map im_call_items]. split; [rewrite items_write_app, Hw1, Hr; reflexivity|].
      split; [rewrite !app_length; congruence|].
      intros rest. cbn [im_ref]. rewrite <- app_assoc, Ht1. apply Href.
Qed.

Lemma im_unit st guid ibody l l' st' rs : top st -> Forall is_im_body ibody ->
  wrun_spec (run st (AddImage guid :: ibody ++ [ImFinalize; ImDrop])) l = (l', Ok (st', rs)) ->
  Forall res_ok rs ->
  exists outs,
    wrun_spec (items_write (flat_map im_call_items ibody)) l = (l', Ok outs) /\
    length outs = length (flat_map im_call_items ibody) /\
    top st' /\ ws_pcs st' = ws_pcs st /\ ws_imgs st' = ws_imgs st ++ [im_ref ibody outs (image_new guid)] /\
    ws_exts st' = ws_exts st /\ ws_root st' = ws_root st /\ ws_finalized st' = ws_finalized st.
Proof.
  intros Ht Hb Hrun Hok. pose proof Ht as [Ho Hs].
  destruct (run_cons _ _ _ _ _ _ _ Hrun) as (l1 & s1 & r1 & rs1 & H1 & H2 & ->).
  inversion Hok as [|? ? Hr1 Hok1]; subst.
  unfold wapi_step in H1. rewrite Ho, Hs in H1. cbn [negb] in H1.
  destruct (ws_finalized st) eqn:Efin; [cbn [wret wrun_spec] in H1; inversion H1; subst; destruct Hr1|].
  cbn [wret wrun_spec] in H1. inversion H1; subst. clear H1.
  destruct (run_app_ok _ _ _ _ _ _ _ H2) as (l2 & s2 & ra & rb & Hbody & Hfinal & ->).
  apply Forall_app in Hok1 as [Hoka Hokb].
  destruct (ibody_prog ibody (set_sub st (SubIm (image_new guid) false)) _ _ _ _ (image_new guid) Ho eq_refl Hb Hbody Hoka) as (outs & im' & -> & Hw & Hl & Href).
  destruct (run_cons _ _ _ _ _ _ _ Hfinal) as (l3 & s3 & r3 & rs3 & H3 & H4 & ->).
  inversion Hokb as [|? ? Hr3 Hok3]; subst.
  unfold wapi_step in H3. cbn [set_sub ws_open ws_sub] in H3. rewrite Ho in H3. cbn [negb] in H3.
  assert (Hst3 : l3 = l2 /\ s3 = mkWs true (ws_root st) (ws_exts st) (ws_pcs st) (ws_imgs st ++ [im']) (SubIm im' true) false).
  { destruct (im_visual_reference im'), (im_projection im'); cbn [wret wrun_spec ws_root ws_exts ws_pcs ws_imgs ws_finalized] in H3;
      inversion H3; subst; try (destruct Hr3; fail); rewrite Efin; auto. }
  destruct Hst3 as [-> ->].
  destruct (run_cons _ _ _ _ _ _ _ H4) as (l5 & s5 & r5 & rs5 & H5 & H6 & ->).
  unfold wapi_step in H5. cbn [ws_open ws_sub negb wret wrun_spec] in H5.
  inversion H5; subst. clear H5. cbn [wapi_run wret wrun_spec] in H6. inversion H6; subst. clear H6.
  exists outs. split; [exact Hw|]. split; [exact Hl|]. split; [split; reflexivity|].
  cbn [set_sub ws_pcs ws_imgs ws_exts ws_root ws_finalized].
  specialize (Href []). rewrite app_nil_r in Href. rewrite Href. repeat split; reflexivity.
Qed.

(** * All units *)

Theorem units_prog : forall tops, units tops -> Forall call_wf tops ->
  forall st l l' st' rs, top st ->
  wrun_spec (run st tops) l = (l', Ok (st', rs)) -> Forall res_ok rs ->
  exists is os pcs ims bl,
    explains tops is os pcs ims bl /\
    wrun_spec (items_write is) l = (l', Ok os) /\
    top st' /\ ws_pcs st' = ws_pcs st ++ pcs /\ ws_imgs st' = ws_imgs st ++ ims /\
    ws_finalized st' = ws_finalized st.
Proof.
  induction 1 as [|c r Hc _ IH|data r _ IH|guid proto body r Hb Hld _ IH|guid ibody r Hb _ IH];
    intros Hwf st l l' st' rs Ht Hrun Hok.
  - cbn [wapi_run wret wrun_spec] in Hrun. inversion Hrun; subst.
    exists [], [], [], [], []. split; [constructor|]. split; [reflexivity|]. split; [exact Ht|].
    rewrite !app_nil_r. auto.
  - destruct (run_cons _ _ _ _ _ _ _ Hrun) as (l1 & s1 & r1 & rs1 & H1 & H2 & ->).
    inversion Hok as [|? ? Hr1 Hok1]; subst.
    destruct (step_setter _ _ _ _ _ _ Ht Hc H1) as (-> & Ht1 & Hp1 & Hi1).
    assert (Hf1 : ws_finalized s1 = ws_finalized st).
    { clear - H1 Ht Hc. destruct Ht as [Ho Hs]. unfold wapi_step in H1. rewrite Ho, Hs in H1. cbn [negb] in H1.
      destruct c; try (destruct Hc; fail).
      - destruct (ws_root st). cbn in H1. inversion H1; reflexivity.
      - destruct (ws_root st). cbn in H1. inversion H1; reflexivity.
      - destruct (_ >> _) as [[]|k|]; [|cbn in H1; inversion H1; reflexivity|cbn in H1; inversion H1].
        destruct (url_registered _ _); [cbn in H1; inversion H1; reflexivity|].
        destruct (ext_registered _ _); cbn in H1; inversion H1; reflexivity. }
    destruct (IH (Forall_inv_tail Hwf) _ _ _ _ _ Ht1 H2 Hok1) as (is & os & pcs & ims & bl & He & Hw & Ht' & Hp & Hi & Hf).
    exists is, os, pcs, ims, bl. split; [constructor; assumption|]. split; [exact Hw|]. split; [exact Ht'|].
    rewrite Hp, Hi, Hf, Hp1, Hi1, Hf1. auto.
  - destruct (run_cons _ _ _ _ _ _ _ Hrun) as (l1 & s1 & r1 & rs1 & H1 & H2 & ->).
    inversion Hok as [|? ? Hr1 Hok1]; subst.
    destruct (step_blob _ _ _ _ _ _ Ht Hr1 H1) as (-> & o & n & -> & Hbw).
    destruct (IH (Forall_inv_tail Hwf) _ _ _ _ _ Ht H2 Hok1) as (is & os & pcs & ims & bl & He & Hw & Ht' & Hp & Hi & Hf).
    exists (IBlob data :: is), (OBlob o n :: os), pcs, ims, ((data, o, n) :: bl).
    split; [constructor; exact He|]. split; [|auto].
    cbn [items_write item_write]. rewrite run_bind, run_bind, Hbw. cbn [fst snd wret wrun_spec].
    rewrite run_bind, Hw. reflexivity.
  - pose proof (Forall_inv Hwf) as Hwf1. cbn [call_wf] in Hwf1.
    apply Forall_inv_tail in Hwf. apply Forall_app in Hwf as [Hwfb Hwf]. apply Forall_app in Hwf as [_ Hwfr].
    rewrite app_comm_cons, app_assoc in Hrun.
    destruct (run_app_ok _ _ _ _ _ _ _ Hrun) as (l1 & s1 & ra & rb & Hu & Hrest & ->).
    apply Forall_app in Hok as [Hoka Hokb].
    destruct (pc_unit _ _ _ _ _ _ _ _ Ht Hb Hld Hwf1 Hwfb Hu Hoka)
      as (off & n & pc & Hiwf & Hplc & Hw1 & Ht1 & Hp1 & Hi1 & Hg & Hpr & Hoff & Hn & _ & _ & Hf1).
    destruct (IH Hwfr _ _ _ _ _ Ht1 Hrest Hokb) as (is & os & pcs & ims & bl & He & Hw & Ht' & Hp & Hi & Hf).
    exists (IPc (proto_dtypes proto) (body_points body) :: is), (OPc off n :: os), (pc :: pcs), ims, bl.
    split; [apply ex_pc; assumption|]. split.
    + cbn [items_write]. rewrite run_bind, Hw1. cbn [fst snd]. rewrite run_bind, Hw. reflexivity.
    + split; [exact Ht'|]. rewrite Hp, Hi, Hf, Hp1, Hi1, Hf1, <- app_assoc. auto.
  - apply Forall_inv_tail in Hwf. apply Forall_app in Hwf as [_ Hwf]. apply Forall_app in Hwf as [_ Hwfr].
    rewrite app_comm_cons, app_assoc in Hrun.
    destruct (run_app_ok _ _ _ _ _ _ _ Hrun) as (l1 & s1 & ra & rb & Hu & Hrest & ->).
    apply Forall_app in Hok as [Hoka Hokb].
    destruct (im_unit _ _ _ _ _ _ _ Ht Hb Hu Hoka) as (outs & Hw1 & Hl1 & Ht1 & Hp1 & Hi1 & _ & _ & Hf1).
    destruct (IH Hwfr _ _ _ _ _ Ht1 Hrest Hokb) as (is & os & pcs & ims & bl & He & Hw & Ht' & Hp & Hi & Hf).
    exists (flat_map im_call_items ibody ++ is), (outs ++ os), pcs, (im_ref ibody outs (image_new guid) :: ims), bl.
    split; [apply ex_im; assumption|]. split.
    + rewrite items_write_app, Hw1, Hw. reflexivity.
    + split; [exact Ht'|]. rewrite Hp, Hi, Hf, Hp1, Hi1, Hf1, <- app_assoc. auto.
Qed.

(** * The whole program *)

Theorem complete_prog : forall guid tops l st rs, units tops -> Forall call_wf tops ->
  wrun_spec (run ws_init (NewWriter guid :: tops ++ [Finalize])) ls_init = (l, Ok (st, rs)) ->
  Forall res_ok rs ->
  exists is os xml bl st1,
    explains tops is os (ws_pcs st) (ws_imgs st) bl /\
    gen_xml (ws_meta st1) = Ok xml /\ ws_meta st = ws_meta st1 /\ rt_guid (ws_root st1) = rt_guid (ws_root st) /\
    wrun_spec (file_prog is xml) ls_init = (l, Ok os).
Proof.
  intros guid tops l st rs Hu Hwf Hrun Hok.
  destruct (run_cons _ _ _ _ _ _ _ Hrun) as (l1 & s1 & r1 & rs1 & H1 & H2 & ->).
  inversion Hok as [|? ? Hr1 Hok1]; subst.
  unfold wapi_step in H1. cbn [ws_init ws_open negb] in H1. rewrite run_bind, wrun_spec_wtry in H1.
  destruct (wrun_spec writer_init ls_init) as [l0 [[]|k|]] eqn:Einit; cbn [fst snd wret wrun_spec] in H1;
    inversion H1; subst; try (destruct Hr1; fail). clear H1.
  destruct (run_app_ok _ _ _ _ _ _ _ H2) as (l2 & s2 & ra & rb & Htops & Hfin & ->).
  apply Forall_app in Hok1 as [Hoka Hokb].
  match type of Htops with wrun_spec (wapi_run _ _ ?s0 _) _ = _ =>
    destruct (units_prog tops Hu Hwf s0 _ _ _ _ (conj eq_refl eq_refl) Htops Hoka)
      as (is & os & pcs & ims & bl & He & Hw & Ht2 & Hp & Hi & Hf) end.
  cbn [ws_pcs ws_imgs ws_finalized app] in Hp, Hi, Hf. subst pcs ims.
  destruct (run_cons _ _ _ _ _ _ _ Hfin) as (l3 & s3 & r3 & rs3 & H3 & H4 & ->).
  inversion Hokb as [|? ? Hr3 _]; subst.
  cbn [wapi_run wret wrun_spec] in H4. inversion H4; subst. clear H4.
  destruct Ht2 as [Ho2 Hs2]. unfold wapi_step in H3. rewrite Ho2, Hs2, Hf in H3. cbn [negb] in H3.
  destruct (gen_xml (ws_meta s2)) as [xml|k|] eqn:Eg; [|cbn in H3; inversion H3; subst; destruct Hr3|cbn in H3; inversion H3].
  rewrite run_bind, wrun_spec_wtry in H3.
  destruct (wrun_spec (writer_finalize xml) l2) as [l4 [[]|k|]] eqn:Ewf; cbn [fst snd wret wrun_spec] in H3;
    inversion H3; subst; try (destruct Hr3; fail). clear H3.
  exists is, os, xml, bl, s2. cbn [ws_pcs ws_imgs].
  split; [exact He|]. split; [exact Eg|]. split; [reflexivity|]. split; [reflexivity|].
  unfold file_prog. rewrite run_bind, Einit. cbn [fst snd]. rewrite run_bind, Hw. cbn [fst snd].
  rewrite run_bind, Ewf. reflexivity.
Qed.

End Prog.

Lemma explains_limits_complete tops is os pcs ims bl : explains tops is os pcs ims bl ->
  forallb pc_limits_complete pcs = true.
Proof.
  induction 1 as [|c r is os pcs ims bl _ _ IH|data off ln r is os pcs ims bl _ IH
                  |guid proto body off n pc r is os pcs ims bl _ _ Hlc _ _ _ _ _ IH
                  |guid ibody iouts r is os pcs ims bl _ _ _ IH]; try exact IH; try reflexivity.
  cbn [forallb]. rewrite Hlc. exact IH.
Qed.

Lemma explains_items_wf tops is os pcs ims bl : explains tops is os pcs ims bl -> forallb item_wf is = true.
Proof.
  induction 1 as [|c r is os pcs ims bl _ _ IH|data off ln r is os pcs ims bl _ IH
                  |guid proto body off n pc r is os pcs ims bl _ Hwf _ _ _ _ _ _ IH
                  |guid ibody iouts r is os pcs ims bl _ _ _ IH]; try exact IH; try reflexivity.
  - cbn [forallb]. rewrite Hwf. exact IH.
  - rewrite forallb_app, IH, andb_true_r. clear. induction ibody as [|c ib IHi]; [reflexivity|].
    cbn [flat_map]. rewrite forallb_app, IHi, andb_true_r.
    destruct c; try reflexivity; cbn [im_call_items forallb item_wf mask_items]; destruct mask; reflexivity.
Qed.
