(** C09, quantitative half, pure part: the "bits held" potential of a queue
    reader ([sized_pot]: queued values of records of non-zero width times their
    width, plus the bits still pending in the bit buffers) and what
    [bsr_append], [bsr_extract], [unpack_loop], [unpack_type],
    [parse_streams] and [pop_fronts] do to it.  Records of zero width are not stored:
    their queues stay empty ([zero_bounded 0]).  No programs here. *)
From E57 Require Import Base.Prelude Model.PagedReader Model.BsRead Model.Record Model.Prog Model.QueueReader.
From E57 Require Import Proofs.PageSpecLemmas Proofs.QueueReaderLemmas Proofs.PagedReaderCache.
From Coq Require Import ZifyN ZifyNat ZifyBool.
Ltac Zify.zify_post_hook ::= Z.div_mod_to_equations.
Open Scope N_scope.

(** * Definitions *)

Definition pending (b : bsr) : N := 8 * len (br_buf b) - br_off b.

(** bits held: queued values of sized records times their width + bits pending in the buffers *)
Fixpoint sized_pot (proto : list dtype) (streams : list bsr) (queues : list (list rvalue)) : N :=
  match proto, streams, queues with
  | t :: pr, s :: sr, q :: qr =>
      (if bit_size t =? 0 then 0 else len q * bit_size t + pending s) + sized_pot pr sr qr
  | _, _, _ => 0
  end.

Fixpoint zero_bounded (B : N) (proto : list dtype) (queues : list (list rvalue)) : Prop :=
  match proto, queues with
  | t :: pr, q :: qr => (bit_size t = 0 -> len q <= B) /\ zero_bounded B pr qr
  | _, _ => True
  end.

Definition total_values (q : qr) : N := fold_right (fun x acc => len x + acc) 0 (q_queues q).
Definition zero_count (proto : list dtype) : N := len (filter (fun t => bit_size t =? 0) proto).

Definition qshape (q : qr) : Prop :=
  length (q_streams q) = length (q_proto q) /\ length (q_queues q) = length (q_proto q).

Definition qbound (off0 : N) (q : qr) (off : N) : Prop :=
  off0 <= off /\
  sized_pot (q_proto q) (q_streams q) (q_queues q) <= 8 * (off - off0) /\
  zero_bounded 0 (q_proto q) (q_queues q).       (* queues of zero-width records are empty *)

(** reader/queue states reachable from [qr_new] on a fault-free device by
    successful advances and pops; [off0] is the logical offset after [qr_new] *)
Inductive qreach (ps : N) (phys : list N) (off0 : N) : qr -> pr -> Prop :=
| QR_new s fo recs proto s' q :
    pr_inv ps phys s -> rrun (qr_new fo recs proto) s = (s', Ok q) -> off0 = pr_off s' ->
    qreach ps phys off0 q s'
| QR_adv q s q' s' :
    qreach ps phys off0 q s -> rrun (qr_advance q) s = (s', Ok q') -> qreach ps phys off0 q' s'
| QR_pop q s vs qs :
    qreach ps phys off0 q s -> pop_fronts (q_proto q) (q_queues q) = Ok (vs, qs) ->
    qreach ps phys off0 (mkQr (q_proto q) (q_streams q) qs) s.

(** * Small arithmetic, over plain variables *)

Lemma append_arith L D o : o / 8 <= L ->
  8 * (L - o / 8 + D) - (o - o / 8 * 8) <= 8 * L - o + 8 * D.
Proof.
  intros H. pose proof (N.div_mod o 8 ltac:(lia)) as E. pose proof (N.mod_lt o 8 ltac:(lia)) as Hr.
  set (c := o / 8) in *. set (r := o mod 8) in *. clearbody c r. lia.
Qed.

Lemma items_le av bits l : bits <> 0 -> av / bits + l <= l * bits + av.
Proof.
  intros Hb.
  assert (H1 : av / bits <= av) by (apply N.div_le_upper_bound; [exact Hb|nia]).
  assert (H2 : l <= l * bits) by nia.
  lia.
Qed.

Lemma mul_succ_l_ l b : (l + 1) * b = l * b + b.
Proof. ring. Qed.

(** * Bit buffers *)

Lemma pending_new : pending bsr_new = 0.
Proof. reflexivity. Qed.

Lemma pending_append s data s' :
  bsr_append s data = Ok s' -> pending s' <= pending s + 8 * len data.
Proof.
  unfold bsr_append.
  destruct (len (br_buf s) <? br_off s / 8) eqn:E; [discriminate|].
  intros H. injection H as <-. unfold pending. cbn [br_buf br_off].
  rewrite len_app, len_drop.
  apply append_arith. lia.
Qed.

Lemma available_pending s av : bsr_available s = Ok av -> av = pending s.
Proof.
  unfold bsr_available, pending.
  destruct (len (br_buf s) * 8 <? br_off s); [discriminate|].
  intros H. injection H as <-. lia.
Qed.

Lemma pending_extract s bits s1 o :
  bsr_extract s bits = Ok (s1, o) ->
  match o with Some _ => pending s1 + bits = pending s | None => s1 = s end.
Proof.
  unfold bsr_extract.
  destruct (bsr_available s) as [av|k|] eqn:Ea; [|discriminate|discriminate].
  apply available_pending in Ea.
  destruct (av <? bits) eqn:E1.
  { intros H. injection H as <- <-. reflexivity. }
  destruct (16 <? _); [discriminate|].
  destruct (len (br_buf s) <? _); [discriminate|].
  intros H. injection H as <- <-.
  unfold pending in *. cbn [br_buf br_off].
  apply N.ltb_ge in E1.
  set (L := len (br_buf s)) in *. set (o := br_off s) in *. clearbody L o.
  clear - Ea E1. lia.
Qed.

Lemma unpack_loop_pot : forall fuel bits mk s acc s' acc',
  unpack_loop fuel bits mk s acc = Ok (s', acc') ->
  exists vs, acc' = acc ++ vs /\ len vs * bits + pending s' = pending s.
Proof.
  induction fuel as [|f IH]; intros bits mk s acc s' acc'; cbn [unpack_loop].
  - intros H. injection H as <- <-. exists []. rewrite app_nil_r, (@len_nil rvalue). split; [reflexivity|lia].
  - destruct (bsr_extract s bits) as [[s1 o]|k|] eqn:Ee; [|discriminate|discriminate].
    apply pending_extract in Ee.
    destruct o as [v|].
    + intros H. apply IH in H. destruct H as (vs & -> & Hp).
      exists (mk v :: vs). split.
      * rewrite <- app_assoc. reflexivity.
      * rewrite qlen_cons.
        set (X := len vs) in *. set (P1 := pending s1) in *. set (P := pending s) in *.
        set (P' := pending s') in *. clearbody X P1 P P'.
        replace ((1 + X) * bits) with (X * bits + bits) by ring.
        set (Y := X * bits) in *. clearbody Y. lia.
    + subst s1. intros H. injection H as <- <-. exists [].
      rewrite app_nil_r, (@len_nil rvalue). split; [reflexivity|lia].
Qed.

Lemma unpack_ints_gen_pot mk mn mx s s' vs :
  unpack_ints_gen mk mn mx s = Ok (s', vs) ->
  len vs * integer_bits mn mx + pending s' = pending s.
Proof.
  unfold unpack_ints_gen, integer_bits.
  destruct (mx - mn <=? 0)%Z eqn:E; [discriminate|].
  assert (E' : (0 <? mx - mn)%Z = true) by lia. rewrite E'.
  intros H. apply unpack_loop_pot in H. destruct H as (vs' & Hv & Hp).
  cbn [app] in Hv. subst vs'. exact Hp.
Qed.

Lemma unpack_type_pot t s s' vs :
  unpack_type t s = Ok (s', vs) -> len vs * bit_size t + pending s' = pending s.
Proof.
  destruct t as [| |mn mx|mn mx]; cbn [unpack_type bit_size].
  - unfold unpack_singles. intros H. apply unpack_loop_pot in H.
    destruct H as (vs' & Hv & Hp). cbn [app] in Hv. subst vs'. exact Hp.
  - unfold unpack_doubles. intros H. apply unpack_loop_pot in H.
    destruct H as (vs' & Hv & Hp). cbn [app] in Hv. subst vs'. exact Hp.
  - apply unpack_ints_gen_pot.
  - apply unpack_ints_gen_pot.
Qed.

(** * The potential *)

Lemma sized_pot_nil_streams proto queues : sized_pot proto [] queues = 0.
Proof. destruct proto; reflexivity. Qed.

Lemma sized_pot_nil_queues proto streams : sized_pot proto streams [] = 0.
Proof. destruct proto; [reflexivity|]. destruct streams; reflexivity. Qed.

Lemma zero_bounded_mono B B' : B <= B' -> forall proto queues,
  zero_bounded B proto queues -> zero_bounded B' proto queues.
Proof.
  intros HB. induction proto as [|t pr IH]; intros queues; [auto|].
  destruct queues as [|q qr]; [auto|]. cbn [zero_bounded].
  intros [H1 H2]. split; [intros Hz; specialize (H1 Hz); lia|apply IH; exact H2].
Qed.

Lemma qbound_mono off0 q off off' : off <= off' -> qbound off0 q off -> qbound off0 q off'.
Proof.
  intros Hle (H1 & H2 & H3). split; [lia|]. split; [lia|exact H3].
Qed.

Lemma sized_pot_new proto :
  sized_pot proto (map (fun _ => bsr_new) proto) (map (fun _ => []) proto) = 0.
Proof.
  induction proto as [|t pr IH]; [reflexivity|].
  cbn [map sized_pot]. rewrite IH, pending_new, (@len_nil rvalue).
  destruct (bit_size t =? 0); lia.
Qed.

Lemma zero_bounded_new B proto : zero_bounded B proto (map (fun _ => []) proto).
Proof.
  induction proto as [|t pr IH]; [exact I|].
  cbn [map zero_bounded]. split; [intros _; rewrite (@len_nil rvalue); lia|exact IH].
Qed.

(** * [parse_streams] *)

Lemma parse_streams_pot : forall proto streams queues ss qs,
  parse_streams proto streams queues = Ok (ss, qs) ->
  sized_pot proto ss qs <= sized_pot proto streams queues /\
  (forall B, zero_bounded B proto queues -> zero_bounded B proto qs) /\
  (length streams = length proto -> length queues = length proto ->
   length ss = length proto /\ length qs = length proto).
Proof.
  induction proto as [|t pr IH]; intros streams queues ss qs.
  { cbn [parse_streams]. intros H. injection H as <- <-. cbn [sized_pot zero_bounded length].
    split; [lia|]. split; auto. }
  destruct streams as [|s sr].
  { cbn [parse_streams]. intros H. injection H as <- <-. cbn.
    split; [lia|]. split; [auto|]. intros; discriminate. }
  destruct queues as [|q qr].
  { cbn [parse_streams]. intros H. injection H as <- <-. cbn.
    split; [lia|]. split; [auto|]. intros; discriminate. }
  cbn [parse_streams].
  assert (Hone : forall s' q',
    (if bit_size t =? 0 then Ok (s, q)
     else res_map (fun '(s', vs) => (s', q ++ vs)) (unpack_type t s)) = Ok (s', q') ->
    (if bit_size t =? 0 then 0 else len q' * bit_size t + pending s')
      <= (if bit_size t =? 0 then 0 else len q * bit_size t + pending s) /\
    (forall B, (bit_size t = 0 -> len q <= B) -> (bit_size t = 0 -> len q' <= B))).
  { intros s' q'. destruct (bit_size t =? 0) eqn:Ez.
    - intros H. injection H as <- <-. split; [lia|auto].
    - destruct (unpack_type t s) as [[s1 vs]|k|] eqn:Eu; cbn [res_map]; [|discriminate|discriminate].
      intros H. injection H as <- <-. apply unpack_type_pot in Eu.
      split.
      + rewrite qlen_app. rewrite N.mul_add_distr_r.
        set (X := len q * bit_size t) in *. set (Y := len vs * bit_size t) in *. clearbody X Y. lia.
      + apply N.eqb_neq in Ez. intros; contradiction. }
  match goal with |- match ?one with _ => _ end = _ -> _ => destruct one as [[s' q']|k|] eqn:Eone end;
    [|discriminate|discriminate].
  specialize (Hone s' q' eq_refl). clear Eone. destruct Hone as [Hp Hz].
  destruct (parse_streams pr sr qr) as [[ss1 qs1]|k|] eqn:Er; [|discriminate|discriminate].
  intros H. injection H as <- <-.
  destruct (IH _ _ _ _ Er) as (IH1 & IH2 & IH3).
  cbn [sized_pot zero_bounded length].
  split; [|split].
  - set (A1 := if bit_size t =? 0 then 0 else len q' * bit_size t + pending s') in *.
    set (A2 := if bit_size t =? 0 then 0 else len q * bit_size t + pending s) in *.
    clearbody A1 A2. lia.
  - intros B [H1 H2]. split; [apply (Hz B H1)|apply IH2; assumption].
  - intros L1 L2. injection L1 as L1. injection L2 as L2.
    destruct (IH3 L1 L2) as [-> ->]. split; reflexivity.
Qed.

(** * [pop_fronts] *)

Lemma pop_fronts_pot : forall proto qs vs qs',
  pop_fronts proto qs = Ok (vs, qs') ->
  (length qs = length proto -> length qs' = length qs) /\
  (forall streams, sized_pot proto streams qs' <= sized_pot proto streams qs) /\
  (forall B, zero_bounded B proto qs -> zero_bounded B proto qs').
Proof.
  induction proto as [|t pr IH]; intros qs vs qs'.
  { cbn [pop_fronts]. intros H. injection H as <- <-.
    split; [destruct qs; [reflexivity|discriminate]|]. split; [intros; cbn; lia|auto]. }
  destruct qs as [|q r].
  { cbn [pop_fronts]. intros H. injection H as <- <-. split; [auto|]. split; [intros; lia|auto]. }
  cbn [pop_fronts].
  match goal with |- match ?one with _ => _ end = _ -> _ => destruct one as [[v q']|k|] eqn:Eone end;
    [|discriminate|discriminate].
  destruct (pop_fronts pr r) as [[vs1 r1]|k|] eqn:Er; [|discriminate|discriminate].
  intros H. injection H as <- <-.
  destruct (IH _ _ _ Er) as (IL & IP1 & IP2).
  (* what one step does to its queue *)
  assert (Hq : (bit_size t =? 0 = true /\ q' = q) \/ (bit_size t =? 0 = false /\ q = v :: q')).
  { revert Eone. clear.
    destruct t as [| |mn mx|mn mx]; cbn [bit_size].
    - change (32 =? 0) with false. destruct q as [|v0 q0]; [discriminate|].
      intros H. injection H as <- <-. right. split; reflexivity.
    - change (64 =? 0) with false. destruct q as [|v0 q0]; [discriminate|].
      intros H. injection H as <- <-. right. split; reflexivity.
    - destruct (integer_bits mn mx =? 0).
      + intros H. injection H as _ <-. left. split; reflexivity.
      + destruct q as [|v0 q0]; [discriminate|]. intros H. injection H as <- <-. right. split; reflexivity.
    - destruct (integer_bits mn mx =? 0).
      + intros H. injection H as _ <-. left. split; reflexivity.
      + destruct q as [|v0 q0]; [discriminate|]. intros H. injection H as <- <-. right. split; reflexivity. }
  split; [|split].
  - cbn [length]. intros L. injection L as L. rewrite (IL L). reflexivity.
  - intros [|s sr]; [cbn; lia|]. cbn [sized_pot]. specialize (IP1 sr).
    destruct Hq as [[Ez ->]|[Ez ->]]; rewrite Ez; [lia|].
    rewrite (qlen_cons v q').
    replace ((1 + len q') * bit_size t) with (len q' * bit_size t + bit_size t) by ring.
    set (X := len q' * bit_size t) in *. clearbody X. lia.
  - intros B. cbn [zero_bounded]. intros [H1 H2]. split; [|apply IP2; exact H2].
    intros Hz. specialize (H1 Hz).
    destruct Hq as [[Ez ->]|[Ez ->]]; [exact H1|]. rewrite qlen_cons in H1. lia.
Qed.

(** * Number of queued values from the potential *)

Lemma zero_count_cons t pr :
  zero_count (t :: pr) = (if bit_size t =? 0 then 1 else 0) + zero_count pr.
Proof.
  unfold zero_count. cbn [filter]. destruct (bit_size t =? 0); [rewrite qlen_cons|]; lia.
Qed.

Lemma values_from_pot : forall proto streams queues D,
  length streams = length proto -> length queues = length proto ->
  sized_pot proto streams queues <= D -> zero_bounded 0 proto queues ->
  Forall (fun x => len x <= D) queues /\
  fold_right (fun x acc => len x + acc) 0 queues <= sized_pot proto streams queues.
Proof.
  induction proto as [|t pr IH]; intros streams queues D L1 L2 HP HZ.
  { destruct queues; [|discriminate]. cbn. split; [constructor|lia]. }
  destruct streams as [|s sr]; [discriminate|]. destruct queues as [|q qr]; [discriminate|].
  injection L1 as L1. injection L2 as L2.
  cbn [sized_pot zero_bounded fold_right] in *. destruct HZ as [HZ1 HZ2].
  assert (HP' : sized_pot pr sr qr <= D) by lia.
  destruct (IH sr qr D L1 L2 HP' HZ2) as [IF IT].
  set (SP := sized_pot pr sr qr) in *. set (T := fold_right _ 0 qr) in *. clearbody SP T.
  destruct (bit_size t =? 0) eqn:Ez.
  - apply N.eqb_eq in Ez. specialize (HZ1 Ez).
    split; [constructor; [lia|assumption]|]. lia.
  - apply N.eqb_neq in Ez.
    assert (Hq : len q <= len q * bit_size t) by nia.
    set (X := len q * bit_size t) in *. clearbody X.
    split; [constructor; [lia|assumption]|]. lia.
Qed.
