(** One lemma per [from_node] / tree builder pair: transform, bounds, limits, record types and
    names, blobs, the points element with its prototype. *)
From Coq Require Import Strings.String.
From Coq Require Import List Bool NArith ZArith Lia.
From E57 Require Import Base.Prelude Model.Meta Model.MetaFile Model.XmlTree Model.XmlExtract
  Spec.MetaTree Spec.XeMetaOk Proofs.XeLemmas Proofs.XeExtRecords Proofs.XeTreeDec Proofs.XeTreeFind.
Import ListNotations.

Local Notation "'B' s" := (ltac:(let v := eval vm_compute in (bytes_of_string s%string) in exact v))
  (at level 0, s at level 0, only parsing).

(** * Attributes of the builders *)
Lemma attr_at a n k v l s c :
  attribute a (XElem n (at_ k v :: l) s c) = if xstr_eqb k a then Some v else attribute a (XElem n l s c).
Proof. unfold attribute. cbn [find at_ xa_name xn_ns xn_local xa_value]. destruct (xstr_eqb k a); reflexivity. Qed.
Lemma attr_nil a n s c : attribute a (XElem n [] s c) = None.
Proof. reflexivity. Qed.

Ltac eval_attrs :=
  unfold attr_is, el, ty; cbn [app];
  repeat (rewrite attr_at; eval_ifs); rewrite ?attr_nil.

(** the leaf steps: find the child, then the leaf lemma *)
Ltac step_string sc :=
  match goal with
  | |- context[opt_string ?n ?nm] =>
      let E := fresh "E" in eassert (E : find_child nm n = _) by fc;
      rewrite (opt_string_of sc _ _ _ _ E); clear E
  end.
Ltac step_f64 sc pf64 :=
  match goal with
  | |- context[opt_f64 pf64 ?n ?nm] =>
      let E := fresh "E" in eassert (E : find_child nm n = _) by fc;
      rewrite (opt_f64_of sc pf64 _ _ _ _ E) by assumption; clear E
  end.
Ltac step_req_f64 sc pf64 :=
  match goal with
  | |- context[req_f64 pf64 ?n ?nm] =>
      let E := fresh "E" in eassert (E : find_child nm n = _) by fc;
      rewrite (req_f64_of sc pf64 _ _ _ _ E) by assumption; clear E
  end.
Ltac step_i64 sc :=
  match goal with
  | |- context[opt_int parse_i64 ?n ?nm] =>
      let E := fresh "E" in eassert (E : find_child nm n = _) by fc;
      rewrite (opt_i64_of sc _ _ _ _ E) by assumption; clear E
  end.
Ltac step_u32 sc :=
  match goal with
  | |- context[req_int parse_u32 ?n ?nm] =>
      let E := fresh "E" in eassert (E : find_child nm n = _) by fc;
      rewrite (req_u32_of sc _ _ _ _ E) by assumption; clear E
  end.
Ltac step_date_time sc pf64 :=
  match goal with
  | |- context[opt_date_time pf64 ?n ?nm] =>
      let E := fresh "E" in eassert (E : find_child nm n = _) by fc;
      rewrite (opt_date_time_of sc pf64 _ _ _ _ E) by assumption; clear E
  end.

Section Struct.
Variable sc : list xnsdecl.
Variables pf64 pf32 : xstr -> option N.

(** * transform.rs *)
Lemma translation_of nm a b c :
  fo64 pf64 a = true -> fo64 pf64 b = true -> fo64 pf64 c = true ->
  translation_from_node pf64 (t_struct sc nm [t_float sc (B"x") a; t_float sc (B"y") b; t_float sc (B"z") c]) = Ok (a, b, c).
Proof.
  intros Ha Hb Hc. unfold translation_from_node, t_struct. repeat step_req_f64 sc pf64. reflexivity.
Qed.

Lemma quaternion_of nm w a b c :
  fo64 pf64 w = true -> fo64 pf64 a = true -> fo64 pf64 b = true -> fo64 pf64 c = true ->
  quaternion_from_node pf64 (t_struct sc nm [t_float sc (B"w") w; t_float sc (B"x") a; t_float sc (B"y") b; t_float sc (B"z") c]) = Ok (w, a, b, c).
Proof.
  intros Hw Ha Hb Hc. unfold quaternion_from_node, t_struct. repeat step_req_f64 sc pf64. reflexivity.
Qed.

Lemma transform_of nm t :
  tr_fo pf64 t = true -> transform_from_node pf64 (t_transform sc nm t) = Ok t.
Proof.
  intros H. unfold tr_fo in H. split_and. unfold transform_from_node, t_transform.
  assert (Et : find_child (B"translation") (t_struct sc nm
            [t_struct sc (B"rotation") [t_float sc (B"w") (t_rw t); t_float sc (B"x") (t_rx t); t_float sc (B"y") (t_ry t); t_float sc (B"z") (t_rz t)];
             t_struct sc (B"translation") [t_float sc (B"x") (t_tx t); t_float sc (B"y") (t_ty t); t_float sc (B"z") (t_tz t)]]) =
          Some (t_struct sc (B"translation") [t_float sc (B"x") (t_tx t); t_float sc (B"y") (t_ty t); t_float sc (B"z") (t_tz t)])) by (unfold t_struct at 1; fc).
  assert (Er : find_child (B"rotation") (t_struct sc nm
            [t_struct sc (B"rotation") [t_float sc (B"w") (t_rw t); t_float sc (B"x") (t_rx t); t_float sc (B"y") (t_ry t); t_float sc (B"z") (t_rz t)];
             t_struct sc (B"translation") [t_float sc (B"x") (t_tx t); t_float sc (B"y") (t_ty t); t_float sc (B"z") (t_tz t)]]) =
          Some (t_struct sc (B"rotation") [t_float sc (B"w") (t_rw t); t_float sc (B"x") (t_rx t); t_float sc (B"y") (t_ry t); t_float sc (B"z") (t_rz t)])) by (unfold t_struct at 1; fc).
  rewrite Et, Er. cbn [opt_case].
  rewrite translation_of, quaternion_of by assumption. cbn [res_bind]. destruct t; reflexivity.
Qed.

Lemma opt_transform_of n nm nm' o :
  find_child nm n = option_map (t_transform sc nm') o -> ofo (tr_fo pf64) o = true ->
  opt_transform pf64 n nm = Ok o.
Proof.
  intros E H. unfold opt_transform, opt_node. rewrite E. destruct o as [t|]; [|reflexivity].
  cbn [option_map opt_case ofo] in *. rewrite (transform_of _ _ H). reflexivity.
Qed.

(** * bounds.rs *)
Lemma cartesian_bounds_of b :
  cb_fo pf64 b = true -> cartesian_bounds_from_node pf64 (t_cartesian_bounds sc b) = Ok b.
Proof.
  intros H. unfold cb_fo in H. split_and. unfold cartesian_bounds_from_node, t_cartesian_bounds, t_struct.
  repeat step_f64 sc pf64. cbn [res_bind]. destruct b; reflexivity.
Qed.

Lemma spherical_bounds_of b :
  sb_fo pf64 b = true -> spherical_bounds_from_node pf64 (t_spherical_bounds sc b) = Ok b.
Proof.
  intros H. unfold sb_fo in H. split_and. unfold spherical_bounds_from_node, t_spherical_bounds, t_struct.
  repeat step_f64 sc pf64. cbn [res_bind]. destruct b; reflexivity.
Qed.

Lemma index_bounds_of b :
  ib_ok b = true -> index_bounds_from_node (t_index_bounds sc b) = Ok b.
Proof.
  intros H. unfold ib_ok in H. split_and. unfold index_bounds_from_node, t_index_bounds, t_struct.
  repeat step_i64 sc. cbn [res_bind]. destruct b; reflexivity.
Qed.

(** * limits.rs *)
Lemma extract_limit_of n nm nm' o :
  find_child nm n = option_map (t_limit sc nm') o -> ofo (lv_fo pf64 pf32) o = true -> ofo lv_ok o = true ->
  extract_limit pf64 pf32 n nm = Ok o.
Proof.
  intros E Hf Hk. unfold extract_limit, opt_bind. rewrite E. destruct o as [v|]; [|reflexivity].
  cbn [option_map opt_case ofo] in *.
  destruct v as [f|f|z|z]; cbn [t_limit lv_fo lv_ok] in *; rewrite opt_text_leaf.
  - eval_attrs. cbn [invalid_err res_bind]. eval_ifs. eval_attrs. eval_ifs.
    rewrite (f32_parsed_ok pf32 f Hf). reflexivity.
  - eval_attrs. cbn [invalid_err res_bind]. eval_ifs. eval_attrs. eval_ifs.
    rewrite (f64_parsed_ok pf64 f Hf). reflexivity.
  - eval_attrs. cbn [invalid_err res_bind]. eval_ifs.
    rewrite (parse_i64_dec_z z (in_i64_spec z Hk)). reflexivity.
  - eval_attrs. cbn [invalid_err res_bind]. eval_ifs.
    rewrite (parse_i64_dec_z z (in_i64_spec z Hk)). reflexivity.
Qed.

Ltac step_limit :=
  match goal with
  | |- context[extract_limit pf64 pf32 ?n ?nm] =>
      let E := fresh "E" in eassert (E : find_child nm n = _) by fc;
      rewrite (extract_limit_of _ _ _ _ E) by assumption; clear E
  end.

Lemma intensity_limits_of l :
  il_fo pf64 pf32 l = true -> il_ok l = true ->
  intensity_limits_from_node pf64 pf32 (t_intensity_limits sc l) = Ok l.
Proof.
  intros Hf Hk. unfold il_fo in Hf. unfold il_ok in Hk. split_and.
  unfold intensity_limits_from_node, t_intensity_limits, t_struct. repeat step_limit.
  cbn [res_bind]. destruct l; reflexivity.
Qed.

Lemma color_limits_of l :
  cl_fo pf64 pf32 l = true -> cl_ok l = true ->
  color_limits_from_node pf64 pf32 (t_color_limits sc l) = Ok l.
Proof.
  intros Hf Hk. unfold cl_fo in Hf. unfold cl_ok in Hk. split_and.
  unfold color_limits_from_node, t_color_limits, t_struct. repeat step_limit.
  cbn [res_bind]. destruct l; reflexivity.
Qed.

(** * blob.rs *)
Lemma blob_of nm b : blob_ok b = true -> blob_from_node (t_blob sc nm b) = Ok b.
Proof.
  intros H. unfold blob_ok in H. split_and. unfold blob_from_node, t_blob. eval_attrs.
  cbn [negb invalid_err res_bind].
  rewrite !parse_u64_dec_n by (apply in_u64_spec; assumption). cbn [invalid_err res_bind].
  rewrite !N2Z.id. destruct b; reflexivity.
Qed.

Lemma blob_from_parent_of n nm nm' o :
  find_child nm n = option_map (t_blob sc nm') o -> ofo blob_ok o = true ->
  blob_from_parent_node nm n = Ok o.
Proof.
  intros E H. unfold blob_from_parent_node, opt_node. rewrite E. destruct o as [b|]; [|reflexivity].
  cbn [option_map opt_case ofo] in *. rewrite (blob_of _ _ H). reflexivity.
Qed.

End Struct.
