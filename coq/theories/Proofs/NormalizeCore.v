(** The real-number core of C13: for format numbers [l < h] whose rounded
    width [w = R64 (h - l)] does not overflow, the value
      [y c = R32 (R64 (R64 (c - l) / w))]      (c between l and h)
    lies in [0,1], is monotone in [c], is 0 at [l] and 1 at [h], and is within
    2^-24 of [(c - l) / (h - l)]. *)
From Coq Require Import ZArith Reals Lra Lia Psatz.
From Flocq Require Import Core Plus_error Relative.
From E57 Require Import Base.Prelude Base.Floats Proofs.FltLemmas.
Local Open Scope R_scope.

Definition coreR (l h c : R) : R := R32 (R64 (R64 (c - l) / R64 (h - l))).

(** Rust's [clamp] on reals *)
Definition clampR (lo hi x : R) : R := Rmin hi (Rmax lo x).

Lemma clampR_bounds : forall lo hi x, lo <= hi -> lo <= clampR lo hi x <= hi.
Proof.
  intros lo hi x H. unfold clampR, Rmin, Rmax.
  destruct (Rle_dec lo x); destruct (Rle_dec hi _); lra.
Qed.
Lemma clampR_mono : forall lo hi x y, x <= y -> clampR lo hi x <= clampR lo hi y.
Proof.
  intros lo hi x y H. unfold clampR. apply Rle_min_compat_l. apply Rle_max_compat_l. exact H.
Qed.
Lemma clampR_id : forall lo hi x, lo <= x <= hi -> clampR lo hi x = x.
Proof.
  intros lo hi x H. unfold clampR, Rmin, Rmax.
  destruct (Rle_dec lo x); destruct (Rle_dec hi _); lra.
Qed.
Lemma clampR_quot : forall l h v, l < h ->
  clampR 0 1 ((v - l) / (h - l)) = (clampR l h v - l) / (h - l).
Proof.
  intros l h v H.
  assert (Hp : 0 < h - l) by lra.
  assert (Hi : 0 < / (h - l)) by (apply Rinv_0_lt_compat; exact Hp).
  unfold clampR, Rmin, Rmax, Rdiv.
  destruct (Rle_dec l v) as [A|A].
  - destruct (Rle_dec h v) as [B|B].
    + destruct (Rle_dec 0 ((v - l) * / (h - l))) as [C|C].
      * destruct (Rle_dec 1 _) as [D|D]; [field; lra|].
        exfalso. apply D. apply Rmult_le_reg_r with (h - l); [lra|]. rewrite Rmult_assoc, Rinv_l by lra. lra.
      * exfalso. apply C. apply Rmult_le_pos; lra.
    + destruct (Rle_dec 0 ((v - l) * / (h - l))) as [C|C].
      * destruct (Rle_dec 1 _) as [D|D]; [|reflexivity].
        exfalso. apply B. apply Rmult_le_compat_r with (r := h - l) in D; [|lra].
        rewrite Rmult_assoc, Rinv_l in D by lra. lra.
      * exfalso. apply C. apply Rmult_le_pos; lra.
  - destruct (Rle_dec h l) as [B|B]; [lra|].
    destruct (Rle_dec 0 ((v - l) * / (h - l))) as [C|C].
    + exfalso. assert (v - l < 0) by lra.
      assert ((v - l) * / (h - l) < 0); [|lra].
      replace 0 with (0 * / (h - l)) by ring. apply Rmult_lt_compat_r; lra.
    + destruct (Rle_dec 1 0); [lra|]. field. lra.
Qed.

Lemma fmt64_opp : forall x, fmt64 x -> fmt64 (- x).
Proof. intros x H. apply generic_format_opp. exact H. Qed.

(** The rounded difference of two distinct format numbers is not zero. *)
Lemma R64_sub_pos : forall l h, fmt64 l -> fmt64 h -> l < h -> 0 < R64 (h - l).
Proof.
  intros l h Fl Fh Hlh.
  assert (H0 : 0 <= R64 (h - l)) by (rewrite <- R64_0; apply R64_le; lra).
  destruct H0 as [H0|H0]; [exact H0|]. exfalso.
  symmetry in H0. unfold R64 in H0. replace (h - l) with (h + - l) in H0 by ring.
  apply round_plus_eq_0 in H0; auto with typeclass_instances; [lra|]. apply fmt64_opp; exact Fl.
Qed.

(** Rounding to binary32 of a number of the unit interval: error at most 2^-25. *)
Lemma R32_unit_error : forall q, 0 <= q <= 1 -> Rabs (R32 q - q) <= bpow radix2 (-25).
Proof.
  intros q [H0 H1].
  destruct H1 as [H1|H1].
  2:{ subst q. rewrite R32_1. replace (1 - 1) with 0 by ring. rewrite Rabs_R0. apply bpow_ge_0. }
  destruct H0 as [H0|H0].
  2:{ subst q. rewrite R32_0. replace (0 - 0) with 0 by ring. rewrite Rabs_R0. apply bpow_ge_0. }
  unfold R32. eapply Rle_trans. apply error_le_half_ulp; auto with typeclass_instances.
  rewrite ulp_neq_0 by lra.
  replace (bpow radix2 (-25)) with (/2 * bpow radix2 (-24)).
  2:{ change (bpow radix2 (-25)) with (/ IZR (Z.pow_pos 2 25)). change (bpow radix2 (-24)) with (/ IZR (Z.pow_pos 2 24)).
      replace (Z.pow_pos 2 25) with 33554432%Z by reflexivity. replace (Z.pow_pos 2 24) with 16777216%Z by reflexivity. lra. }
  apply Rmult_le_compat_l; [lra|]. apply bpow_le. unfold cexp.
  assert (Hm : (mag radix2 q <= 0)%Z).
  { apply mag_le_bpow; [lra|]. rewrite Rabs_pos_eq by lra. simpl. exact H1. }
  unfold FLT_exp. lia.
Qed.

(** Three relative errors of size [u] and one absolute error combine to at most [16 u]. *)
Lemma err_combine : forall u t e1 e2 e3 eta, 0 < u <= /4 -> 0 <= t <= 1 ->
  - u <= e1 <= u -> - u <= e2 <= u -> - u <= e3 <= u -> - (8 * u) <= eta <= 8 * u ->
  Rabs (t * ((1 + e1) * (1 + e3) / (1 + e2) - 1) + eta) <= 16 * u.
Proof.
  intros u t e1 e2 e3 eta Hu Ht H1 H2 H3 H4.
  assert (P : 0 < 1 + e2) by lra.
  set (n := e1 + e3 + e1 * e3 - e2).
  assert (E : (1 + e1) * (1 + e3) / (1 + e2) - 1 = n / (1 + e2)).
  { unfold n. field. lra. }
  rewrite E.
  assert (N : - (4 * u) <= n <= 4 * u).
  { unfold n. assert (- (u * u) <= e1 * e3 <= u * u) by nra. nra. }
  assert (X : - (8 * u) <= n / (1 + e2) <= 8 * u).
  { split.
    - apply Rmult_le_reg_r with (1 + e2); [exact P|]. unfold Rdiv. rewrite Rmult_assoc, Rinv_l by lra. nra.
    - apply Rmult_le_reg_r with (1 + e2); [exact P|]. unfold Rdiv. rewrite Rmult_assoc, Rinv_l by lra. nra. }
  set (x := n / (1 + e2)) in *.
  apply Rabs_le. split; nra.
Qed.

Lemma bpow_m52 : bpow radix2 (-52) = / 4503599627370496.
Proof. simpl. replace (Z.pow_pos 2 52) with 4503599627370496%Z by reflexivity. reflexivity. Qed.

Section Core.
Variables l h : R.
Hypothesis Fl : fmt64 l.
Hypothesis Fh : fmt64 h.
Hypothesis Hlh : l < h.
Let w := R64 (h - l).

Lemma core_w_pos : 0 < w.
Proof. apply R64_sub_pos; assumption. Qed.

Lemma core_d_bounds : forall c, l <= c <= h -> 0 <= R64 (c - l) <= w.
Proof.
  intros c [A B]. split.
  - rewrite <- R64_0. apply R64_le. lra.
  - apply R64_le. lra.
Qed.

Lemma core_q_bounds : forall c, l <= c <= h -> 0 <= R64 (R64 (c - l) / w) <= 1.
Proof.
  intros c Hc. destruct (core_d_bounds c Hc) as [A B]. pose proof core_w_pos as Hw.
  assert (Hi : 0 < / w) by (apply Rinv_0_lt_compat; exact Hw).
  split.
  - rewrite <- R64_0. apply R64_le. unfold Rdiv. apply Rmult_le_pos; lra.
  - rewrite <- R64_1. apply R64_le. unfold Rdiv.
    apply Rmult_le_reg_r with w; [exact Hw|]. rewrite Rmult_assoc, Rinv_l by lra. lra.
Qed.

Lemma core_unit : forall c, l <= c <= h -> 0 <= coreR l h c <= 1.
Proof.
  intros c Hc. destruct (core_q_bounds c Hc) as [A B]. unfold coreR. fold w. split.
  - rewrite <- R32_0. apply R32_le. exact A.
  - rewrite <- R32_1. apply R32_le. exact B.
Qed.

Lemma core_mono : forall c1 c2, c1 <= c2 -> coreR l h c1 <= coreR l h c2.
Proof.
  intros c1 c2 H. pose proof core_w_pos as Hw. unfold coreR. fold w.
  apply R32_le, R64_le. unfold Rdiv. apply Rmult_le_compat_r.
  - apply Rlt_le, Rinv_0_lt_compat. exact Hw.
  - apply R64_le. lra.
Qed.

Lemma core_at_min : coreR l h l = 0.
Proof.
  unfold coreR. replace (l - l) with 0 by ring. rewrite R64_0. unfold Rdiv. rewrite Rmult_0_l, R64_0, R32_0. reflexivity.
Qed.

Lemma core_q_at_max : R64 (R64 (h - l) / w) = 1.
Proof.
  pose proof core_w_pos as Hw. unfold w in *. unfold Rdiv. rewrite Rinv_r by lra. apply R64_1.
Qed.

Lemma core_at_max : coreR l h h = 1.
Proof. pose proof core_q_at_max as H. unfold w in H. unfold coreR. rewrite H. apply R32_1. Qed.

(** Closeness to the exact quotient. *)
Lemma core_close : forall c, fmt64 c -> l <= c <= h ->
  Rabs (coreR l h c - (c - l) / (h - l)) <= bpow radix2 (-24).
Proof.
  intros c Fc Hc. pose proof core_w_pos as Hw.
  destruct (core_q_bounds c Hc) as [Q0 Q1].
  set (q := R64 (R64 (c - l) / w)) in *.
  pose proof (R32_unit_error q (conj Q0 Q1)) as E32.
  (* the three binary64 roundings *)
  destruct (FLT_plus_error_N_ex radix2 (-1074) 53 (fun x => negb (Z.even x)) c (- l) Fc (fmt64_opp l Fl)) as (e1 & He1 & Hd).
  destruct (FLT_plus_error_N_ex radix2 (-1074) 53 (fun x => negb (Z.even x)) h (- l) Fh (fmt64_opp l Fl)) as (e2 & He2 & Hw2).
  destruct (error_N_FLT radix2 (-1074) 53 eq_refl (fun x => negb (Z.even x)) (R64 (c - l) / w)) as (e3 & eta & He3 & Heta & _ & Hq).
  change (round radix2 (FLT_exp (-1074) 53) (Znearest (fun x => negb (Z.even x)))) with R64 in Hd, Hw2, Hq.
  replace (c + - l) with (c - l) in Hd by ring. replace (h + - l) with (h - l) in Hw2 by ring.
  fold w in Hw2. fold q in Hq.
  assert (U : u_ro radix2 53 / (1 + u_ro radix2 53) <= / 9007199254740992).
  { eapply Rle_trans. apply u_rod1pu_ro_le_u_ro. unfold u_ro.
    replace (- (53) + 1)%Z with (-52)%Z by reflexivity. rewrite bpow_m52. lra. }
  assert (B1 : Rabs e1 <= / 9007199254740992) by lra.
  assert (B2 : Rabs e2 <= / 9007199254740992) by lra.
  assert (B3 : Rabs e3 <= / 9007199254740992).
  { eapply Rle_trans. exact He3. replace (- (53) + 1)%Z with (-52)%Z by reflexivity. rewrite bpow_m52. lra. }
  assert (B4 : Rabs eta <= / 1125899906842624).
  { eapply Rle_trans. exact Heta.
    apply Rle_trans with (/2 * bpow radix2 (-49)).
    - apply Rmult_le_compat_l; [lra|]. apply bpow_le. lia.
    - change (bpow radix2 (-49)) with (/ IZR (Z.pow_pos 2 49)).
      replace (Z.pow_pos 2 49) with 562949953421312%Z by reflexivity. lra. }
  set (t := (c - l) / (h - l)).
  assert (T : 0 <= t <= 1).
  { unfold t. assert (0 < / (h - l)) by (apply Rinv_0_lt_compat; lra). split.
    - unfold Rdiv. apply Rmult_le_pos; lra.
    - apply Rmult_le_reg_r with (h - l); [lra|]. unfold Rdiv. rewrite Rmult_assoc, Rinv_l by lra. lra. }
  assert (N2 : 1 + e2 <> 0).
  { apply Rabs_le_inv in B2. lra. }
  assert (Eq : q = t * ((1 + e1) * (1 + e3) / (1 + e2)) + eta).
  { rewrite Hq, Hd, Hw2. unfold t. field. split; [exact N2|lra]. }
  assert (E64 : Rabs (q - t) <= / 140737488355328).
  { rewrite Eq. replace (t * ((1 + e1) * (1 + e3) / (1 + e2)) + eta - t)
      with (t * ((1 + e1) * (1 + e3) / (1 + e2) - 1) + eta) by ring.
    apply Rabs_le_inv in B1. apply Rabs_le_inv in B2. apply Rabs_le_inv in B3. apply Rabs_le_inv in B4.
    eapply Rle_trans.
    - apply (err_combine (/ 9007199254740992)); try assumption; try lra.
    - lra. }
  unfold coreR. fold w. fold q. fold t.
  replace (R32 q - t) with ((R32 q - q) + (q - t)) by ring.
  eapply Rle_trans. apply Rabs_triang.
  replace (bpow radix2 (-24)) with (bpow radix2 (-25) + bpow radix2 (-25)).
  2:{ change (bpow radix2 (-25)) with (/ IZR (Z.pow_pos 2 25)). change (bpow radix2 (-24)) with (/ IZR (Z.pow_pos 2 24)).
      replace (Z.pow_pos 2 25) with 33554432%Z by reflexivity. replace (Z.pow_pos 2 24) with 16777216%Z by reflexivity. lra. }
  apply Rplus_le_compat; [exact E32|].
  eapply Rle_trans. exact E64.
  change (bpow radix2 (-25)) with (/ IZR (Z.pow_pos 2 25)). replace (Z.pow_pos 2 25) with 33554432%Z by reflexivity. lra.
Qed.

End Core.
