(** Refinement of [Range::normalize] (Model/Normalize.v) to its real-number
    semantics, for every range accepted by [from_min_max] and every finite value. *)
From Coq Require Import ZArith NArith Bool Reals Lra Lia.
From Flocq Require Import Core Binary Bits.
From E57 Require Import Base.Prelude Base.Floats Model.Normalize
  Proofs.FltLemmas Proofs.NormalizeCore Proofs.NormalizeHalved.
Local Open Scope R_scope.

(** A range that [from_min_max] lets through. *)
Definition accepted (rg : range) : Prop := exists lo hi, from_min_max lo hi = Ok rg.

Lemma from_min_max_ok : forall lo hi rg, from_min_max lo hi = Ok rg ->
  fin64 lo = true /\ fin64 hi = true /\ B2R64 lo <= B2R64 hi /\ rg = mkRange lo hi (f64_sub hi lo).
Proof.
  intros lo hi rg. unfold from_min_max, f64_is_finite.
  destruct (fin64 lo) eqn:Elo; cbn [negb orb]; [|discriminate].
  destruct (fin64 hi) eqn:Ehi; cbn [negb orb]; [|discriminate].
  rewrite f64_gt_fin by assumption.
  destruct (Rlt_bool_spec (B2R64 hi) (B2R64 lo)) as [C|C]; [discriminate|].
  intros E; inversion E. auto.
Qed.

Lemma from_min_max_intro : forall lo hi, fin64 lo = true -> fin64 hi = true -> B2R64 lo <= B2R64 hi ->
  from_min_max lo hi = Ok (mkRange lo hi (f64_sub hi lo)).
Proof.
  intros lo hi Hlo Hhi Hle. unfold from_min_max, f64_is_finite. rewrite Hlo, Hhi. cbn [negb orb].
  rewrite f64_gt_fin by assumption. rewrite Rlt_bool_false by exact Hle. reflexivity.
Qed.

Lemma from_min_max_err : forall lo hi, from_min_max lo hi <> Panic.
Proof. intros lo hi. unfold from_min_max. destruct (_ || _); discriminate. Qed.

(** ** clamp *)
Lemma clamp_total : forall lo hi v, fin64 lo = true -> fin64 hi = true -> B2R64 lo <= B2R64 hi ->
  exists c, f64_clamp v lo hi = Ok c.
Proof.
  intros lo hi v Hlo Hhi Hle. unfold f64_clamp. rewrite f64_le_fin by assumption.
  rewrite Rle_bool_true by exact Hle. eexists. reflexivity.
Qed.

Lemma clamp_fin : forall lo hi v, fin64 lo = true -> fin64 hi = true -> B2R64 lo <= B2R64 hi -> fin64 v = true ->
  exists c, f64_clamp v lo hi = Ok c /\ fin64 c = true /\ B2R64 c = clampR (B2R64 lo) (B2R64 hi) (B2R64 v) /\
            (B2R64 lo <= B2R64 v <= B2R64 hi -> c = v).
Proof.
  intros lo hi v Hlo Hhi Hle Hv. unfold f64_clamp. rewrite f64_le_fin by assumption.
  rewrite Rle_bool_true by exact Hle. rewrite f64_lt_fin by assumption.
  unfold clampR, Rmin, Rmax.
  destruct (Rlt_bool_spec (B2R64 v) (B2R64 lo)) as [A|A].
  - rewrite f64_gt_fin by assumption. rewrite Rlt_bool_false by exact Hle.
    exists lo. split; [reflexivity|]. split; [exact Hlo|]. split.
    + destruct (Rle_dec (B2R64 lo) (B2R64 v)); [lra|]. destruct (Rle_dec (B2R64 hi) (B2R64 lo)); lra.
    + intros [B _]. lra.
  - rewrite f64_gt_fin by assumption.
    destruct (Rlt_bool_spec (B2R64 hi) (B2R64 v)) as [B|B].
    + exists hi. split; [reflexivity|]. split; [exact Hhi|]. split.
      * destruct (Rle_dec (B2R64 lo) (B2R64 v)); [|lra]. destruct (Rle_dec (B2R64 hi) (B2R64 v)); lra.
      * intros [_ C]. lra.
    + exists v. split; [reflexivity|]. split; [exact Hv|]. split.
      * destruct (Rle_dec (B2R64 lo) (B2R64 v)); [|lra]. destruct (Rle_dec (B2R64 hi) (B2R64 v)); lra.
      * reflexivity.
Qed.

(** ** binary32 sign and value *)
Lemma pos_Bsign_false32 : forall x : binary32, fin32 x = true -> 0 < B2R32 x -> Bsign 24 128 x = false.
Proof.
  intros [s|s|s pl H|s m e H] Hf Hp; simpl in *; try lra; try discriminate.
  destruct s; [|reflexivity]. exfalso.
  assert (F2R (Float radix2 (Z.neg m) e) < 0) by (apply F2R_lt_0; simpl; lia). simpl in *. lra.
Qed.

Lemma f32_is_zero : forall y : binary32, fin32 y = true -> B2R32 y = 0 -> Bsign 24 128 y = false -> y = f32_zero.
Proof.
  intros y Hf Hr Hs. rewrite f32_zero_eq. apply B2R_Bsign_inj; auto.
Qed.

Lemma f32_is_one : forall y : binary32, fin32 y = true -> B2R32 y = 1 -> y = f32_one.
Proof.
  intros y Hf Hr. apply B2R_Bsign_inj; auto.
  - rewrite B2R_f32_one. exact Hr.
  - rewrite pos_Bsign_false32 by (auto; lra). reflexivity.
Qed.

Lemma is_nan_fin32 : forall y : binary32, fin32 y = true -> is_nan 24 128 y = false.
Proof. intros [s|s|s pl H|s m e H]; simpl; intros; try reflexivity; discriminate. Qed.

(** ** The last two steps shared by both paths: divide, convert *)
Lemma div_convert : forall d r : binary64, fin64 d = true -> fin64 r = true -> 0 < B2R64 r ->
  0 <= B2R64 d <= B2R64 r ->
  let y := f32_of_f64 (f64_div d r) in
  fin32 y = true /\ B2R32 y = R32 (R64 (B2R64 d / B2R64 r)) /\
  (B2R64 d = 0 -> Bsign 53 1024 d = false -> Bsign 24 128 y = false).
Proof.
  intros d r Hd Hr Hpos [D0 D1] y.
  assert (Hi : 0 < / B2R64 r) by (apply Rinv_0_lt_compat; exact Hpos).
  assert (Q : 0 <= R64 (B2R64 d / B2R64 r) <= 1).
  { split.
    - rewrite <- R64_0. apply R64_le. unfold Rdiv. apply Rmult_le_pos; lra.
    - rewrite <- R64_1. apply R64_le. unfold Rdiv.
      apply Rmult_le_reg_r with (B2R64 r); [exact Hpos|]. rewrite Rmult_assoc, Rinv_l by lra. lra. }
  destruct (f64_div_fin d r Hd) as (E1 & E2 & E3).
  { lra. }
  { apply Rle_lt_trans with 1. rewrite Rabs_pos_eq; lra. apply (bpow_lt radix2 0 1024). lia. }
  assert (Y : 0 <= R32 (B2R64 (f64_div d r)) <= 1).
  { rewrite E1. split.
    - rewrite <- R32_0. apply R32_le. lra.
    - rewrite <- R32_1. apply R32_le. lra. }
  destruct (f32_of_f64_fin (f64_div d r) E2) as (F1 & F2 & F3).
  { apply Rle_lt_trans with 1. rewrite Rabs_pos_eq; lra. apply (bpow_lt radix2 0 128). lia. }
  subst y. split; [exact F2|]. split; [rewrite F1, E1; reflexivity|].
  intros Z S. rewrite F3.
  - rewrite E3, S. rewrite pos_Bsign_false by assumption. reflexivity.
  - rewrite E1, Z. unfold Rdiv. rewrite Rmult_0_l. apply R64_0.
Qed.

Section Refine.
Variables lo hi : binary64.
Hypothesis Hlo : fin64 lo = true.
Hypothesis Hhi : fin64 hi = true.
Hypothesis Hle : B2R64 lo <= B2R64 hi.
Let rg := mkRange lo hi (f64_sub hi lo).
Let L := B2R64 lo.
Let H := B2R64 hi.

Lemma width_finite : Rabs (R64 (H - L)) < bpow radix2 1024 ->
  B2R64 (f64_sub hi lo) = R64 (H - L) /\ fin64 (f64_sub hi lo) = true.
Proof.
  intros Hov. destruct (f64_sub_fin hi lo Hhi Hlo Hov) as (A & B & _). split; assumption.
Qed.

Lemma width_infinite : ~ Rabs (R64 (H - L)) < bpow radix2 1024 ->
  f64_sub hi lo = B754_infinity 53 1024 false.
Proof.
  intros Hov. destruct (f64_sub_ovf hi lo Hhi Hlo Hov) as (A & B).
  destruct (Bsign 53 1024 hi) eqn:S; [|exact A]. exfalso.
  assert (S2 : Bsign 53 1024 lo = false) by (destruct (Bsign 53 1024 lo); [discriminate|reflexivity]).
  apply Bsign_true_le0 in S; [|exact Hhi]. apply Bsign_false_ge0 in S2; [|exact Hlo].
  apply Hov. fold H in S. fold L in S2. replace (H - L) with 0 by (unfold H, L in *; lra).
  rewrite R64_0, Rabs_R0. apply bpow_gt_0.
Qed.

Lemma normalize_total : forall v, exists y, normalize rg v = Ok y.
Proof.
  intros v. destruct (clamp_total lo hi v Hlo Hhi Hle) as [c Hc].
  unfold normalize, rg. cbn [rg_min rg_max rg_range]. rewrite Hc. cbn [res_bind]. eexists. reflexivity.
Qed.

Lemma normalize_degenerate : L = H -> forall v, normalize rg v = Ok f32_zero.
Proof.
  intros E v. destruct (clamp_total lo hi v Hlo Hhi Hle) as [c Hc].
  unfold normalize, rg. cbn [rg_min rg_max rg_range]. rewrite Hc. cbn [res_bind].
  assert (Z : R64 (H - L) = 0) by (replace (H - L) with 0 by lra; apply R64_0).
  destruct width_finite as (A & B).
  { rewrite Z, Rabs_R0. apply bpow_gt_0. }
  rewrite f64_gt_fin by (auto; reflexivity). rewrite B2R_f64_zero, A, Z.
  rewrite Rlt_bool_false by lra. reflexivity.
Qed.

(** Path A: the width is representable *)
Lemma normalize_A : L < H -> Rabs (R64 (H - L)) < bpow radix2 1024 ->
  forall v, fin64 v = true ->
  exists y, normalize rg v = Ok y /\ fin32 y = true /\
    B2R32 y = coreR L H (clampR L H (B2R64 v)) /\
    (B2R64 v = L -> Bsign 53 1024 v = Bsign 53 1024 lo -> Bsign 24 128 y = false).
Proof.
  intros Hlt Hov v Hv.
  destruct (clamp_fin lo hi v Hlo Hhi Hle Hv) as (c & Hc & Fc & Rc & Ic).
  fold L in Rc, Ic. fold H in Rc, Ic.
  destruct (width_finite Hov) as (Wr & Wf).
  pose proof (R64_sub_pos L H (fmt64_B2R lo) (fmt64_B2R hi) Hlt) as Wpos.
  pose proof (clampR_bounds L H (B2R64 v) Hle) as Cb. rewrite <- Rc in Cb.
  destruct (core_d_bounds L H (B2R64 c) Cb) as [D0 D1].
  destruct (f64_sub_fin c lo Fc Hlo) as (Dr & Df & Ds).
  { fold L. apply Rle_lt_trans with (R64 (H - L)).
    - rewrite Rabs_pos_eq by exact D0. exact D1.
    - rewrite Rabs_pos_eq in Hov by lra. exact Hov. }
  fold L in Dr, Ds.
  destruct (div_convert (f64_sub c lo) (f64_sub hi lo) Df Wf) as (Y1 & Y2 & Y3).
  { rewrite Wr. exact Wpos. }
  { rewrite Dr, Wr. split; assumption. }
  exists (f32_of_f64 (f64_div (f64_sub c lo) (f64_sub hi lo))).
  split.
  { unfold normalize, rg. cbn [rg_min rg_max rg_range]. rewrite Hc. cbn [res_bind].
    unfold f64_is_finite. rewrite Wf.
    rewrite f64_gt_fin by (auto; reflexivity). rewrite B2R_f64_zero, Wr.
    rewrite Rlt_bool_true by exact Wpos. reflexivity. }
  split; [exact Y1|]. split.
  { rewrite Y2, Dr, Wr, Rc. reflexivity. }
  intros Ev Sv. assert (c = v) by (apply Ic; lra). subst c. apply Y3.
  - rewrite Dr. replace (B2R64 v - L) with 0 by lra. apply R64_0.
  - rewrite Ds by lra. rewrite Sv. destruct (Bsign 53 1024 lo); reflexivity.
Qed.

(** Path B: the width overflows, halved values are used *)
Lemma f64_half_mul : forall x : binary64, fin64 x = true ->
  B2R64 (f64_mul x f64_half) = R64 (B2R64 x * / 2) /\ fin64 (f64_mul x f64_half) = true /\
  Bsign 53 1024 (f64_mul x f64_half) = Bsign 53 1024 x.
Proof.
  intros x Hx.
  generalize (Bmult_correct 53 1024 Hprec64 Hemax64 binop_nan_pl64 mode_NE x f64_half).
  change (round radix2 (SpecFloat.fexp 53 1024) (BinarySingleNaN.round_mode mode_NE)) with R64.
  rewrite B2R_f64_half.
  rewrite Rlt_bool_true.
  - rewrite Hx, fin_f64_half. intros (A & B & C). split; [exact A|]. split; [exact B|].
    change (f64_mul x f64_half) with (Bmult 53 1024 Hprec64 Hemax64 binop_nan_pl64 mode_NE x f64_half).
    rewrite C.
    + destruct (Bsign 53 1024 x); reflexivity.
    + destruct (Bmult 53 1024 Hprec64 Hemax64 binop_nan_pl64 mode_NE x f64_half); simpl in *; try reflexivity; discriminate.
  - eapply Rle_lt_trans. apply R64_half_bound. apply B2R64_abs_le_max.
    rewrite bpow_1024. pose proof u970_pos. lra.
Qed.

Lemma normalize_B : L < H -> ~ Rabs (R64 (H - L)) < bpow radix2 1024 ->
  forall v, fin64 v = true ->
  exists y, normalize rg v = Ok y /\ fin32 y = true /\
    B2R32 y = coreR (R64 (L * / 2)) (R64 (H * / 2)) (R64 (clampR L H (B2R64 v) * / 2)) /\
    (B2R64 v = L -> Bsign 53 1024 v = Bsign 53 1024 lo -> Bsign 24 128 y = false).
Proof.
  intros Hlt Hov v Hv.
  destruct (clamp_fin lo hi v Hlo Hhi Hle Hv) as (c & Hc & Fc & Rc & Ic).
  fold L in Rc, Ic. fold H in Rc, Ic.
  pose proof (width_infinite Hov) as Winf.
  assert (Hov' : ~ R64 (H - L) < bpow radix2 1024).
  { intros X. apply Hov. rewrite Rabs_pos_eq; [exact X|]. rewrite <- R64_0. apply R64_le. lra. }
  pose proof (clampR_bounds L H (B2R64 v) Hle) as Cb. rewrite <- Rc in Cb.
  destruct (f64_half_mul lo Hlo) as (ML & MLf & MLs). fold L in ML.
  destruct (f64_half_mul hi Hhi) as (MH & MHf & MHs). fold H in MH.
  destruct (f64_half_mul c Fc) as (MC & MCf & MCs).
  pose proof (halved_distinct L H (B2R64_abs_le_max lo) (B2R64_abs_le_max hi) Hov') as Dist.
  pose proof (halved_width_finite L H (B2R64_abs_le_max lo) (B2R64_abs_le_max hi)) as Wfin.
  set (ml := f64_mul lo f64_half) in *. set (mh := f64_mul hi f64_half) in *. set (mc := f64_mul c f64_half) in *.
  destruct (f64_sub_fin mh ml MHf MLf) as (Wr & Wf & _).
  { rewrite MH, ML. exact Wfin. }
  rewrite MH, ML in Wr.
  pose proof (R64_sub_pos _ _ (fmt64_R64 (L * / 2)) (fmt64_R64 (H * / 2)) Dist) as Wpos.
  assert (Cb' : R64 (L * / 2) <= B2R64 mc <= R64 (H * / 2)).
  { rewrite MC. split; apply R64_half_mono; lra. }
  destruct (core_d_bounds _ _ (B2R64 mc) Cb') as [D0 D1].
  destruct (f64_sub_fin mc ml MCf MLf) as (Dr & Df & Ds).
  { rewrite ML. apply Rle_lt_trans with (R64 (R64 (H * / 2) - R64 (L * / 2))).
    - rewrite Rabs_pos_eq by exact D0. exact D1.
    - rewrite Rabs_pos_eq in Wfin by lra. exact Wfin. }
  rewrite ML in Dr, Ds.
  destruct (div_convert (f64_sub mc ml) (f64_sub mh ml) Df Wf) as (Y1 & Y2 & Y3).
  { rewrite Wr. exact Wpos. }
  { rewrite Dr, Wr. split; assumption. }
  exists (f32_of_f64 (f64_div (f64_sub mc ml) (f64_sub mh ml))).
  split.
  { unfold normalize, rg. cbn [rg_min rg_max rg_range]. rewrite Hc. cbn [res_bind].
    rewrite Winf. reflexivity. }
  split; [exact Y1|]. split.
  { rewrite Y2, Dr, Wr, MC, Rc. reflexivity. }
  intros Ev Sv. assert (c = v) by (apply Ic; lra). subst c. apply Y3.
  - rewrite Dr, MC, Ev. replace (R64 (L * / 2) - R64 (L * / 2)) with 0 by ring. apply R64_0.
  - rewrite Ds.
    + rewrite MCs, MLs, Sv. destruct (Bsign 53 1024 lo); reflexivity.
    + rewrite MC, Ev. ring.
Qed.

End Refine.
