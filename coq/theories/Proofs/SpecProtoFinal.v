(** The sample value of every prototype element of [tree_of m] lies within the element's own
    limits: [Proofs/SpecProtoValues.v] with the IEEE sign-bit facts of [Proofs/SpecFloatSign.v]
    plugged in.  Conditions on [m] only: [meta_ok] (integer limits are i64 and ordered),
    [float_oracle_ok] (the oracles invert the stored float texts), "0" is read as +0.0, and
    [float_limits_ordered] (float limits representable, not NaN, minimum <= maximum - guaranteed by
    the writer API since /repo eaf8fc6; before, [Single{min: 5, max: 1}] was written: reported). *)
From E57 Require Import Base.Prelude Model.Meta Model.MetaFile Model.XmlTree Spec.FileSpecXml Spec.MetaTree Spec.XeMetaOk.
From E57 Require Import Proofs.SpecFloatSign Proofs.SpecProtoValues.
Open Scope N_scope.

Theorem tree_of_proto_values_ok : forall (pf64 pf32 : xstr -> option N) (m : file_meta),
  XeMetaOk.meta_ok m = true -> float_oracle_ok pf64 pf32 m = true ->
  pf64 [48] = Some 0 -> pf32 [48] = Some 0 ->
  float_limits_ordered m = true ->
  proto_values_ok pf64 pf32 (tree_of m) = true.
Proof.
  intros pf64 pf32 m Hm Hf Hz64 Hz32 Hl.
  exact (tree_of_proto_values_ok_gen pf64 pf32 not_below_zero64 not_below_zero32 Hz64 Hz32 m Hm Hf Hl).
Qed.

Print Assumptions tree_of_proto_values_ok.
