From E57 Require Import Base.Prelude Spec.PageSpec Model.PagedReader Model.Prog Model.QueueReader Model.PcWriter Model.FileBin.

Definition blob_section (data : list N) : list N :=
  zeros 8 ++ le_bytes 8 (((16 + len data + 3) / 4) * 4) ++ data ++ zeros ((4 - len data mod 4) mod 4).

Definition mk (n : N) : list N := map N.of_nat (seq 1 (N.to_nat n)).

Definition wcheck (n0 dl : N) : bool :=
  let l0 := mkLs (mk n0) n0 in
  let data := mk dl in
  let '(l1, r) := wrun_spec (blob_write data) l0 in
  match r with
  | Ok (o, l) => (o =? phys_of_log n0) && (l =? dl) &&
     (if list_eq_dec N.eq_dec (ls_data l1) (ls_data l0 ++ blob_section data) then true else false) &&
     (ls_pos l1 =? len (ls_data l1)) && (len (ls_data l1) mod 4 =? 0)
  | _ => false
  end.

Eval vm_compute in (map (fun p => wcheck (fst p) (snd p))
  [(0,0);(0,1);(0,2);(0,3);(0,4);(0,5);(4,7);(1016,0);(1016,3);(1020,0);(1020,5);(1004,0);(1004,1);(1000,4);(1000,5);(2040,1);(1000,2000);(1020,1020);(1020,1004);(1020,1003)]).

Definition rcheck (npre dl : N) (extra : N) : bool :=
  let pre := mk npre in let data := mk dl in
  let sec := blob_section data in
  let n := npre + len sec in
  let postn := (1020 - n mod 1020) mod 1020 + extra * 1020 in
  let log := pre ++ sec ++ mk postn in
  match snd (rrun_spec log (blob_read (len log) (phys_of_log (len pre)) (len data)) 0) with
  | Ok d => if list_eq_dec N.eq_dec d data then true else false
  | _ => false
  end.

Eval vm_compute in (map (fun p => rcheck (fst (fst p)) (snd (fst p)) (snd p))
  [(0,0,0);(0,1,0);(0,2,0);(0,3,1);(0,4,0);(0,5,0);(4,7,0);(1016,0,0);(1016,3,0);(1020,0,0);(1020,5,0);(1004,0,0);(1004,1,0);(1000,4,0);(1000,5,0);(2040,1,0);(1000,2000,0);(1020,1020,0);(1020,1004,0);(1020,1003,1);(1004,3000,0);(3,3000,0);(0,1004,0)]).
