(** C19, the image bytes: the bytes [program_image_bytes] attributes to the representations of a
    finished image are the data of the binary items that were published at the image's blob
    descriptors - so they are what [E57Reader::blob] returns for these descriptors
    ([reads_back] of Proofs/WapiFull.v). *)
From Coq Require Import ZArith Lia Bool.
From E57 Require Import Base.Prelude Spec.PageSpec Model.PagedWriter Model.Prog Model.Record Model.PcWriter Model.FileBin
  Model.Meta Model.MetaFile Model.WriterApi.
From E57 Require Import Proofs.WapiMain Proofs.WapiFullProg Proofs.WapiSpec Proofs.WapiAccept Proofs.WapiCopy.
Open Scope N_scope.

Definition pairs := list (FileBin.item * item_out).
Definition blob_in (P : pairs) (b : blob) (d : list N) : Prop := In (IBlob d, OBlob (b_offset b) (b_length b)) P.
Definition rep_in (P : pairs) (bs : option (blob * option blob)) (gb : option rep_bytes) : Prop :=
  match bs, gb with
  | Some (b, m), Some (d, mk) =>
      blob_in P b d /\ match m, mk with Some mb, Some md => blob_in P mb md | None, None => True | _, _ => False end
  | None, None => True
  | _, _ => False
  end.
Definition bytes_in (P : pairs) (im : image) (g : im_ghost) : Prop :=
  rep_in P (option_map rep_blobs_vr (im_visual_reference im)) (fst g) /\
  rep_in P (option_map rep_blobs_proj (im_projection im)) (snd g).

Lemma rep_in_mono P Q bs gb : incl P Q -> rep_in P bs gb -> rep_in Q bs gb.
Proof.
  intros Hi. unfold rep_in, blob_in. destruct bs as [[b m]|], gb as [[d mk]|]; auto.
  intros [H1 H2]. split; [apply Hi; exact H1|]. destruct m, mk; auto.
Qed.
Lemma bytes_in_mono P Q im g : incl P Q -> bytes_in P im g -> bytes_in Q im g.
Proof. intros Hi [H1 H2]. split; eapply rep_in_mono; eassumption. Qed.

Lemma combine_app_l {X Y : Type} (a b : list X) (oa ob : list Y) : length a = length oa ->
  combine (a ++ b) (oa ++ ob) = combine a oa ++ combine b ob.
Proof.
  revert oa. induction a as [|x a IH]; intros [|y oa] H; try discriminate H; [reflexivity|].
  cbn [app combine]. f_equal. apply IH. cbn in H. lia.
Qed.

(** one image call: its blobs are among the pairs of its items *)
Lemma call_blobs data mask outs : Forall2 same_kind (IBlob data :: mask_items mask) outs ->
  forall rest, exists b m, take_blobs mask (outs ++ rest) = (b, m, rest) /\
    rep_in (combine (IBlob data :: mask_items mask) outs) (Some (b, m)) (Some (data, mask)).
Proof.
  intros H rest. inversion H as [|i o a oa Hk Hr]; subst. destruct o as [off l|]; [|destruct Hk].
  destruct mask as [md|]; cbn [mask_items] in *.
  - inversion Hr as [|i2 o2 a2 oa2 Hk2 Hr2]; subst. inversion Hr2; subst. destruct o2 as [off2 l2|]; [|destruct Hk2].
    exists (mkBlob off l), (Some (mkBlob off2 l2)). split; [reflexivity|]. cbn. unfold blob_in. cbn. auto.
  - inversion Hr; subst. exists (mkBlob off l), None. split; [reflexivity|]. cbn. unfold blob_in. cbn. auto.
Qed.

Ltac fin_ih IH Hb' Hk2 H :=
  match goal with |- context [arun ?lv ?s ?ib] =>
    let x1 := fresh "x" in let x2 := fresh "x" in let x3 := fresh "x" in
    let E1 := fresh "E" in let E2 := fresh "E" in let E3 := fresh "E" in
    destruct (IH _ _ s _ _ _ _ Hb' Hk2 eq_refl H) as (x1 & x2 & x3 & E1 & E2 & E3);
    exists x1, x2, x3; split; [exact E1|split; [exact E2|exact E3]] end.

Lemma body_bytes lv : forall ibody outs im0 a aim fin g0 P,
  Forall is_im_body ibody -> Forall2 same_kind (flat_map im_call_items ibody) outs ->
  a_sub a = AIm aim fin g0 -> bytes_in P im0 g0 ->
  exists aim' fin' g', a_sub (arun lv a ibody) = AIm aim' fin' g' /\
    a_imgs (arun lv a ibody) = a_imgs a /\
    bytes_in (P ++ combine (flat_map im_call_items ibody) outs) (im_ref ibody outs im0) g'.
Proof.
  induction ibody as [|c ibody IH]; intros outs im0 a aim fin g0 P Hb Hk Ha Hin.
  - cbn [flat_map] in Hk. inversion Hk; subst. exists aim, fin, g0. cbn [arun im_ref flat_map combine].
    rewrite app_nil_r. auto.
  - inversion Hb as [|? ? Hc Hb']; subst. cbn [flat_map] in Hk.
    apply Forall2_app_inv_l in Hk as (o1 & o2 & Hk1 & Hk2 & ->).
    assert (Hl1 : length (im_call_items c) = length o1) by (clear - Hk1; induction Hk1; cbn; congruence).
    cbn [flat_map]. rewrite (combine_app_l _ _ _ _ Hl1), app_assoc.
    assert (Rep : forall data mask, im_call_items c = IBlob data :: mask_items mask ->
              exists b m, take_blobs mask (o1 ++ o2) = (b, m, o2) /\
                rep_in (P ++ combine (im_call_items c) o1) (Some (b, m)) (Some (data, mask))).
    { intros data mask E. rewrite E in Hk1 |- *. destruct (call_blobs data mask o1 Hk1 o2) as (b & m & T & R).
      exists b, m. split; [exact T|]. eapply rep_in_mono; [|exact R]. apply incl_appr, incl_refl. }
    assert (Hin' : bytes_in (P ++ combine (im_call_items c) o1) im0 g0) by (eapply bytes_in_mono; [apply incl_appl, incl_refl|exact Hin]).
    destruct Hin' as [V0 P0].
    destruct c; try (destruct Hc; fail); cbn [arun astep aproj call_bytes im_ref]; rewrite Ha; unfold set_asub.
    + (* ImSet *)
      cbn [im_call_items app] in *. inversion Hk1; subst. cbn [app combine] in *.
      assert (H : bytes_in (P ++ []) (im_set f im0) g0) by (split; destruct im0, f; cbn in *; assumption).
      fin_ih IH Hb' Hk2 H.
    + destruct (Rep data mask eq_refl) as (b & m & T & R). rewrite T.
      assert (H : bytes_in (P ++ combine (im_call_items (ImAddVisualReference fmt data width height mask)) o1)
                    (im_set_visual (mkVisRef (mkImageBlob b fmt) m width height) im0) (Some (data, mask), snd g0))
        by (split; [destruct im0; cbn; exact R|destruct im0; cbn in *; exact P0]).
      fin_ih IH Hb' Hk2 H.
    + destruct (Rep data mask eq_refl) as (b & m & T & R). rewrite T.
      match goal with |- context [im_ref ibody o2 ?im1] =>
        assert (H : bytes_in (P ++ combine (im_call_items (ImAddPinhole fmt data props mask)) o1) im1 (fst g0, Some (data, mask)))
          by (split; [destruct im0; cbn in *; exact V0|destruct im0; cbn; exact R]) end.
      fin_ih IH Hb' Hk2 H.
    + destruct (Rep data mask eq_refl) as (b & m & T & R). rewrite T.
      match goal with |- context [im_ref ibody o2 ?im1] =>
        assert (H : bytes_in (P ++ combine (im_call_items (ImAddSpherical fmt data props mask)) o1) im1 (fst g0, Some (data, mask)))
          by (split; [destruct im0; cbn in *; exact V0|destruct im0; cbn; exact R]) end.
      fin_ih IH Hb' Hk2 H.
    + destruct (Rep data mask eq_refl) as (b & m & T & R). rewrite T.
      match goal with |- context [im_ref ibody o2 ?im1] =>
        assert (H : bytes_in (P ++ combine (im_call_items (ImAddCylindrical fmt data props mask)) o1) im1 (fst g0, Some (data, mask)))
          by (split; [destruct im0; cbn in *; exact V0|destruct im0; cbn; exact R]) end.
      fin_ih IH Hb' Hk2 H.
Qed.

Lemma Forall2_bytes_mono P Q ims (xs : list (image * im_ghost)) : incl P Q ->
  Forall2 (fun im x => bytes_in P im (snd x)) ims xs -> Forall2 (fun im x => bytes_in Q im (snd x)) ims xs.
Proof. intros Hi H. induction H; constructor; [eapply bytes_in_mono; eassumption|assumption]. Qed.

Theorem explains_bytes lv : forall tops is os pcs ims bl, explains tops is os pcs ims bl -> Forall2 same_kind is os ->
  forall a, a_sub a = ANone ->
  exists newi, a_imgs (arun lv a tops) = a_imgs a ++ newi /\ a_sub (arun lv a tops) = ANone /\
    Forall2 (fun im x => bytes_in (combine is os) im (snd x)) ims newi.
Proof.
  induction 1 as [|c r is os pcs ims bl Hs _ IH|data off ln r is os pcs ims bl _ IH
                 |guid proto body off n pc r is os pcs ims bl Hb _ _ _ _ _ _ _ IH
                 |guid ibody iouts r is os pcs ims bl Hb Hlen _ IH]; intros Hk a Ha.
  - exists []. cbn [arun]. rewrite app_nil_r. auto.
  - cbn [arun]. assert (E : a_sub (astep lv a c) = ANone /\ a_imgs (astep lv a c) = a_imgs a).
    { destruct c; try (destruct Hs; fail); cbn [astep]; try destruct (a_root a); cbn; auto. }
    destruct E as [E1 E2]. destruct (IH Hk _ E1) as (newi & I1 & I2 & I3). exists newi. rewrite I1, E2. auto.
  - inversion Hk; subst. cbn [arun astep]. destruct (IH ltac:(assumption) _ Ha) as (newi & I1 & I2 & I3).
    exists newi. split; [exact I1|]. split; [exact I2|]. eapply Forall2_bytes_mono; [|exact I3]. cbn [combine]. apply incl_tl, incl_refl.
  - inversion Hk; subst. cbn [arun astep]. rewrite arun_app.
    match goal with |- context [arun lv ?s body] => destruct (arun_body lv body s _ eq_refl Hb) as (p' & E1 & _ & _) end.
    rewrite E1. unfold set_asub. cbn [app arun astep a_sub a_root a_exts a_pcs a_imgs a_fin]. unfold set_asub. cbn [a_sub a_root a_exts a_pcs a_imgs a_fin].
    match goal with |- context [arun lv ?s r] => destruct (IH ltac:(assumption) s eq_refl) as (newi & I1 & I2 & I3) end.
    cbn [a_imgs] in I1. exists newi. split; [exact I1|]. split; [exact I2|].
    eapply Forall2_bytes_mono; [|exact I3]. cbn [combine]. apply incl_tl, incl_refl.
  - apply Forall2_app_inv_l in Hk as (o1 & o2 & Hk1 & Hk2 & E).
    destruct (app_inj_length _ iouts o1 os o2) as [-> ->]; [rewrite Hlen; apply (same_kind_length _ _ Hk1)|exact E|].
    cbn [arun astep]. rewrite arun_app.
    assert (H0 : bytes_in [] (image_new guid) (None, None)) by (split; exact I).
    match goal with |- context [arun lv ?s ibody] =>
      destruct (body_bytes lv ibody o1 (image_new guid) s _ _ _ [] Hb Hk1 eq_refl H0) as (aim' & fin' & g' & B1 & B2 & B3) end.
    cbn [app] in B3.
    match goal with |- context [arun lv (arun lv ?s ibody) _] => set (s1 := arun lv s ibody) in * end.
    cbn [app arun astep]. rewrite B1. unfold set_asub. cbn [a_sub a_root a_exts a_pcs a_imgs a_fin].
    rewrite B2. unfold set_asub. cbn [a_imgs].
    match goal with |- context [arun lv ?s r] => destruct (IH Hk2 s eq_refl) as (newi & I1 & I2 & I3) end.
    cbn [a_imgs] in I1.
    exists ((aim', g') :: newi). split; [rewrite I1, <- app_assoc; reflexivity|]. split; [exact I2|].
    rewrite (combine_app_l _ _ _ _ (same_kind_length _ _ Hk1)). constructor.
    + cbn [snd]. eapply bytes_in_mono; [apply incl_appl, incl_refl|exact B3].
    + eapply Forall2_bytes_mono; [apply incl_appr, incl_refl|exact I3].
Qed.

Print Assumptions explains_bytes.

(** * On the whole writer *)
From E57 Require Import Model.Device Model.PagedReader Model.QueueReader Model.ReaderOpen Model.XmlGen Model.WriterFull
  Proofs.FileRtWriter Proofs.WapiProg Proofs.WapiInv Proofs.WapiFull.

Lemma Forall2_snd ims (xs : list (image * im_ghost)) P :
  Forall2 (fun im x => bytes_in P im (snd x)) ims xs -> Forall2 (fun im g => bytes_in P im g) ims (map snd xs).
Proof. induction 1; cbn [map]; constructor; assumption. Qed.

(** what [reads_back] says of a blob among the pairs *)
Lemma blob_in_reads rs0 : forall is os, Forall2 (reads_back rs0) is os ->
  forall b d, blob_in (combine is os) b d ->
  b_length b = len d /\
  forall ops, snd (rrun (blob_read (pr_log_size rs0) (b_offset b) (b_length b)) (fst (pr_run ops rs0))) = Ok d.
Proof.
  induction 1 as [|i o is os Hio _ IH]; intros b d Hin; [destruct Hin|].
  cbn [combine] in Hin. destruct Hin as [E|Hin]; [|apply IH; exact Hin].
  inversion E; subst. cbn [reads_back] in Hio. exact Hio.
Qed.

Section Whole.
Variables fmt64 fmt32 : N -> xstring.
Variable version : xstring.
Notation G := (gen_xml_full fmt64 fmt32).
Notation L := (lib_version_text version).

(** Whenever every call of a complete program returned Ok: the bytes [program_image_bytes] gives
    for the representations of every finished image are the data of the blob items published at
    the image's descriptors, in the file [file_prog is xml] the program wrote. *)
Theorem image_bytes_in_items : forall guid tops l st rs,
  units tops -> Forall call_wf tops ->
  wrun_spec (writer_run fmt64 fmt32 version (NewWriter guid :: tops ++ [Finalize])) ls_init = (l, Ok (st, rs)) ->
  Forall res_ok rs ->
  exists is os xml bl,
    explains tops is os (ws_pcs st) (ws_imgs st) bl /\
    wrun_spec (file_prog is xml) ls_init = (l, Ok os) /\
    Forall2 (fun im g => bytes_in (combine is os) im g) (ws_imgs st)
            (program_image_bytes L (NewWriter guid :: tops ++ [Finalize])).
Proof.
  intros guid tops l st rs Hu Hwf Hrun Hok.
  destruct (complete_prog G L guid tops l st rs Hu Hwf Hrun Hok) as (is & os & xml & bl & st1 & Hex & _ & _ & _ & Hfp).
  exists is, os, xml, bl. split; [exact Hex|]. split; [exact Hfp|].
  pose proof (file_prog_kinds is xml l os Hfp) as Hk.
  destruct (explains_bytes L tops is os _ _ bl Hex Hk (astep L a_init (NewWriter guid)) eq_refl) as (newi & I1 & _ & I3).
  unfold program_image_bytes. cbn [arun]. rewrite arun_app. cbn [arun].
  assert (EF : forall a, a_imgs (astep L a Finalize) = a_imgs a) by reflexivity. rewrite EF, I1. cbn [astep a_imgs app].
  apply Forall2_snd. exact I3.
Qed.

End Whole.

Print Assumptions image_bytes_in_items.
