(** The pose over the real numbers: the 3x3 matrix that [prepare_transform]
    builds from a quaternion, applied as [transform_point] applies it, is the
    quaternion conjugation q v q* (which for a unit quaternion is the rotation
    q v q^-1) followed by the translation.  The matrix and its application are
    the generic definitions of Model/SimpleIter.v, the very expressions the
    binary64 model is an instance of, read here in [R]. *)
From Coq Require Import Reals Lra.
From E57 Require Import Model.SimpleIter.
Local Open Scope R_scope.

(** Hamilton product of quaternions (w, x, y, z) = w + x i + y j + z k *)
Record quat := mkQuat { q_w : R; q_x : R; q_y : R; q_z : R }.

Definition qmul (a b : quat) : quat :=
  mkQuat (q_w a * q_w b - q_x a * q_x b - q_y a * q_y b - q_z a * q_z b)
         (q_w a * q_x b + q_x a * q_w b + q_y a * q_z b - q_z a * q_y b)
         (q_w a * q_y b - q_x a * q_z b + q_y a * q_w b + q_z a * q_x b)
         (q_w a * q_z b + q_x a * q_y b - q_y a * q_x b + q_z a * q_w b).
Definition qconj (a : quat) : quat := mkQuat (q_w a) (- q_x a) (- q_y a) (- q_z a).
Definition qnorm2 (a : quat) : R := q_w a * q_w a + q_x a * q_x a + q_y a * q_y a + q_z a * q_z a.
Definition qpure (v : vec3 R) : quat := mkQuat 0 (v_x v) (v_y v) (v_z v).
Definition qone : quat := mkQuat 1 0 0 0.

(** The code's expressions over the reals. *)
Definition rotationR (q : quat) : mat9 R := rotation_of_quat Rplus Rminus Rmult 2 (q_w q) (q_x q) (q_y q) (q_z q).
Definition apply_poseR (r : mat9 R) (t v : vec3 R) : vec3 R := apply_pose Rplus Rmult r t v.

(** For every quaternion: matrix-then-translation is conjugation-then-translation,
    and the conjugation of a pure quaternion is pure. *)
Lemma pose_is_conjugation : forall (q : quat) (t v : vec3 R),
  let c := qmul (qmul q (qpure v)) (qconj q) in
  q_w c = 0 /\
  apply_poseR (rotationR q) t v = mkVec3 (q_x c + v_x t) (q_y c + v_y t) (q_z c + v_z t).
Proof.
  intros [w x y z] [tx ty tz] [vx vy vz]. cbv zeta.
  unfold apply_poseR, rotationR, apply_pose, rotation_of_quat, qmul, qconj, qpure.
  cbn [q_w q_x q_y q_z v_x v_y v_z m0 m1 m2 m3 m4 m5 m6 m7 m8].
  split; [ring|]. f_equal; ring.
Qed.

(** For a unit quaternion the conjugate is the inverse. *)
Lemma unit_conj_is_inverse : forall q : quat, qnorm2 q = 1 ->
  qmul q (qconj q) = qone /\ qmul (qconj q) q = qone.
Proof.
  intros [w x y z]. unfold qnorm2, qmul, qconj, qone. cbn [q_w q_x q_y q_z]. intros H.
  split; f_equal; try ring; rewrite <- H; ring.
Qed.

(** The statement of C05: for a unit quaternion, [transform_point] computes the
    rotation q v q^-1 (with q^-1 the two-sided inverse of q) and then adds the
    translation.  A transposed matrix would compute q^-1 v q instead. *)
Theorem pose_is_quaternion_rotation : forall (w x y z : R) (t v : vec3 R),
  w * w + x * x + y * y + z * z = 1 ->
  let q := mkQuat w x y z in
  exists qinv : quat,
    qmul q qinv = qone /\ qmul qinv q = qone /\
    let c := qmul (qmul q (qpure v)) qinv in
    q_w c = 0 /\
    apply_pose Rplus Rmult (rotation_of_quat Rplus Rminus Rmult 2 w x y z) t v
      = mkVec3 (q_x c + v_x t) (q_y c + v_y t) (q_z c + v_z t).
Proof.
  intros w x y z t v H q. exists (qconj q).
  destruct (unit_conj_is_inverse q H) as [H1 H2]. split; [exact H1|]. split; [exact H2|].
  exact (pose_is_conjugation q t v).
Qed.

(** The transposed matrix is a different map: a quarter turn about z
    (q = (cos 45, 0, 0, sin 45), here scaled to (1,0,0,1)/sqrt 2 squared away by
    using the non-normalised (1,0,0,1), whose matrix is twice a rotation) sends
    the x axis to +y, its transpose to -y. *)
Example pose_not_transposed :
  apply_poseR (rotationR (mkQuat 1 0 0 1)) (mkVec3 0 0 0) (mkVec3 1 0 0) = mkVec3 0 2 0.
Proof.
  unfold apply_poseR, rotationR, apply_pose, rotation_of_quat.
  cbn [q_w q_x q_y q_z v_x v_y v_z m0 m1 m2 m3 m4 m5 m6 m7 m8]. f_equal; ring.
Qed.

(** A concrete unit quaternion: 120 degrees about (1,1,1) permutes the axes x -> y -> z. *)
Example pose_unit_instance :
  let q := mkQuat (1/2) (1/2) (1/2) (1/2) in
  qnorm2 q = 1 /\
  apply_poseR (rotationR q) (mkVec3 10 20 30) (mkVec3 1 0 0) = mkVec3 10 21 30.
Proof.
  cbv zeta. unfold qnorm2, apply_poseR, rotationR, apply_pose, rotation_of_quat.
  cbn [q_w q_x q_y q_z v_x v_y v_z m0 m1 m2 m3 m4 m5 m6 m7 m8].
  split; [field|]. f_equal; field.
Qed.
