(** Strict reader programs: programs that stop at the first failing page-layer
    operation.  Every read operation of the crate model is strict. *)
From E57 Require Import Base.Prelude Model.Crc Model.Device Model.PagedReader Spec.PageReadSpec Model.Prog
  Model.Record Model.QueueReader Model.FileBin Model.ReaderOpen Proofs.PagedReaderCache.
From E57 Require Import Proofs.ReaderProgSem.

(* programs that stop at the first failing page-layer operation *)
Inductive strict {A} : rprog A -> Prop :=
| strict_ret a : strict (RRet a)
| strict_err k : strict (RErr k)
| strict_panic : strict RPanic
| strict_op o k :
    (forall e, exists e', k (Err e) = RErr e') -> (k Panic = RPanic \/ exists e', k Panic = RErr e') ->
    (forall r, strict (k r)) -> strict (ROp o k).

Lemma strict_bind : forall A B (p : rprog A) (f : A -> rprog B),
  strict p -> (forall a, strict (f a)) -> strict (rbind p f).
Proof.
  intros A B p f Hp Hf. induction Hp as [a|e| |o k He Hpn Hk IH]; cbn [rbind].
  - apply Hf.
  - constructor.
  - constructor.
  - apply strict_op.
    + intros e. destruct (He e) as [e' E]. exists e'. rewrite E. reflexivity.
    + destruct Hpn as [E|[e' E]]; rewrite E; cbn [rbind]; [left|right; exists e']; reflexivity.
    + exact IH.
Qed.

Lemma strict_rlift A (r : res A) : strict (rlift r).
Proof. destruct r; constructor. Qed.

Ltac strict_prim :=
  apply strict_op;
  [ intros ?; eexists; reflexivity
  | left; reflexivity
  | intros [[| |]| |]; constructor ].

Lemma strict_r_read_exact n : strict (r_read_exact n).
Proof. unfold r_read_exact. strict_prim. Qed.
Lemma strict_r_read e n : strict (r_read e n).
Proof. unfold r_read. strict_prim. Qed.
Lemma strict_r_seek p : strict (r_seek p).
Proof. unfold r_seek. strict_prim. Qed.
Lemma strict_r_align : strict r_align.
Proof. unfold r_align. strict_prim. Qed.
Lemma strict_rd n : strict (rd n).
Proof. apply strict_r_read_exact. Qed.
Lemma strict_rret A (a : A) : strict (rret a).
Proof. constructor. Qed.
Lemma strict_rfail A k : strict (@rfail A k).
Proof. constructor. Qed.

(* one structural step; lemmas for sub-programs are tried through [auto with strict_db] *)
Create HintDb strict_db.
#[export] Hint Resolve strict_rlift strict_r_read_exact strict_r_read strict_r_seek strict_r_align
  strict_rd strict_rret strict_rfail strict_ret strict_err strict_panic : strict_db.

Ltac strict_step :=
  first
  [ solve [auto 1 with strict_db nocore]
  | apply strict_bind; [|intros]
  | match goal with
    | |- strict (if ?c then _ else _) => destruct c
    | |- strict (match ?x with _ => _ end) => destruct x
    end ].
Ltac strict_tac := cbv zeta; repeat strict_step.

Lemma strict_cv_header_read : strict cv_header_read.
Proof. unfold cv_header_read. strict_tac. Qed.
Lemma strict_index_header_read : strict index_header_read.
Proof. unfold index_header_read. strict_tac. Qed.
Lemma strict_data_header_read : strict data_header_read.
Proof. unfold data_header_read. strict_tac. Qed.
Lemma strict_ignored_header_read : strict ignored_header_read.
Proof. unfold ignored_header_read. strict_tac. Qed.
#[export] Hint Resolve strict_cv_header_read strict_index_header_read strict_data_header_read
  strict_ignored_header_read : strict_db.

Lemma strict_packet_header_read : strict packet_header_read.
Proof. unfold packet_header_read. strict_tac. Qed.
#[export] Hint Resolve strict_packet_header_read : strict_db.

Lemma strict_qr_new fo recs proto : strict (qr_new fo recs proto).
Proof. unfold qr_new. strict_tac. Qed.
#[export] Hint Resolve strict_qr_new : strict_db.

Lemma strict_read_sizes n : strict (read_sizes n).
Proof. induction n as [|n IH]; cbn [read_sizes]; strict_tac. Qed.
#[export] Hint Resolve strict_read_sizes : strict_db.

Lemma strict_read_streams : forall proto sizes streams, strict (read_streams proto sizes streams).
Proof.
  induction proto as [|t pr IH]; intros [|sz sr] [|st tr]; cbn [read_streams]; try apply strict_rret.
  pose proof (IH sr tr). strict_tac.
Qed.
#[export] Hint Resolve strict_read_streams : strict_db.

Lemma strict_qr_advance q : strict (qr_advance q).
Proof. unfold qr_advance. strict_tac. Qed.
#[export] Hint Resolve strict_qr_advance : strict_db.

Lemma strict_refill : forall fuel q, strict (refill fuel q).
Proof.
  induction fuel as [|f IH]; intros q; cbn [refill]; strict_tac.
Qed.
#[export] Hint Resolve strict_refill : strict_db.

(* every read operation of the crate model is strict *)
Lemma strict_raw_new : forall fo recs proto, strict (raw_new fo recs proto).
Proof. intros. unfold raw_new. strict_tac. Qed.

Lemma strict_raw_next : forall log_size it, strict (raw_next log_size it).
Proof. intros. unfold raw_next. strict_tac. Qed.
#[export] Hint Resolve strict_raw_new strict_raw_next : strict_db.

Lemma strict_raw_collect : forall fuel log_size it acc, strict (raw_collect fuel log_size it acc).
Proof.
  induction fuel as [|f IH]; intros log_size it acc; cbn [raw_collect]; strict_tac.
Qed.

Lemma strict_copy_loop : forall fuel want acc, strict (copy_loop fuel want acc).
Proof.
  induction fuel as [|f IH]; intros want acc; cbn [copy_loop]; strict_tac.
Qed.
#[export] Hint Resolve strict_raw_collect strict_copy_loop : strict_db.

Lemma strict_blob_read : forall log_size off ln, strict (blob_read log_size off ln).
Proof. intros. unfold blob_read. strict_tac. Qed.

Lemma strict_extract_xml off ln : strict (extract_xml off ln).
Proof. unfold extract_xml. strict_tac. Qed.
#[export] Hint Resolve strict_blob_read strict_extract_xml : strict_db.

Lemma strict_header_read_paged : strict header_read_paged.
Proof. unfold header_read_paged. strict_tac. Qed.
#[export] Hint Resolve strict_header_read_paged : strict_db.

Lemma strict_open_paged : strict open_paged.
Proof. unfold open_paged. strict_tac. Qed.

Lemma strict_raw_xml_paged : strict raw_xml_paged.
Proof. unfold raw_xml_paged. strict_tac. Qed.

Lemma strict_validate_loop : forall fuel ps, strict (validate_loop fuel ps).
Proof.
  induction fuel as [|f IH]; intros ps; cbn [validate_loop]; strict_tac.
Qed.
#[export] Hint Resolve strict_open_paged strict_raw_xml_paged strict_validate_loop : strict_db.
