(** C15, part 2: after the placeholder header every call of the writer model (blobs, point
    clouds, their patches of section headers by seeking back) issues all its page-layer
    operations at logical positions >= 48, i.e. never touches the file header ([wsp], CrashLog.v).
    The only values ever passed to [physical_seek] are positions obtained earlier from
    [physical_position]. *)
From E57 Require Import Base.Prelude Model.PagedWriter Spec.PageSpec Model.Prog Model.Record
  Model.PcWriter Model.FileBin Model.CrashImage.
From E57 Require Import Proofs.PagedWriterLemmas Proofs.CrashLog.
From Coq Require Import ZifyN ZifyNat ZifyBool.
Ltac Zify.zify_post_hook ::= Z.div_mod_to_equations.

Lemma log_phys x : log_of_phys (phys_of_log x) = x.
Proof. unfold log_of_phys, phys_of_log, PAYLOAD_SZ, PAGE_SZ. lia. Qed.

Lemma ls_pos_write l bs : ls_pos (ls_write l bs) = ls_pos l + len bs.
Proof. destruct bs as [|x r]; cbn [ls_write ls_pos]; [rewrite len_nil; lia|reflexivity]. Qed.

(** * The primitives *)

Lemma wsp_position l (Q : N -> lstream -> Prop) : 48 <= ls_pos l -> Q (phys_of_log (ls_pos l)) l -> wsp w_position l Q.
Proof. intros H1 H2. cbn. split; assumption. Qed.

Lemma wsp_wr bs l (Q : unit -> lstream -> Prop) : 48 <= ls_pos l -> Q tt (ls_write l bs) -> wsp (wr bs) l Q.
Proof. intros H1 H2. cbn. split; assumption. Qed.

Lemma wsp_seek p l (Q : unit -> lstream -> Prop) : 48 <= ls_pos l -> Q tt (mkLs (ls_data l) (log_of_phys p)) -> wsp (w_seek p) l Q.
Proof.
  intros H1 H2. cbn [w_seek wop_ wsp ls_step]. split; [exact H1|].
  destruct (ls_phys_size l <? p); [exact H1|].
  destruct (PAYLOAD_SZ <=? p mod PAGE_SZ); [exact H1|]. exact H2.
Qed.

Lemma wsp_align l (Q : unit -> lstream -> Prop) : 48 <= ls_pos l -> Q tt (ls_write l (zeros ((4 - ls_pos l mod 4) mod 4))) -> wsp w_align l Q.
Proof. intros H1 H2. cbn. split; assumption. Qed.

Lemma wsp_size l (Q : N -> lstream -> Prop) : 48 <= ls_pos l -> Q (ls_phys_size l) l -> wsp w_size l Q.
Proof. intros H1 H2. cbn. split; assumption. Qed.

Lemma wsp_flush l (Q : unit -> lstream -> Prop) : 48 <= ls_pos l -> Q tt l -> wsp w_flush l Q.
Proof. intros H1 H2. cbn. split; assumption. Qed.

Lemma wsp_lift A (r : res A) l (Q : A -> lstream -> Prop) :
  48 <= ls_pos l -> (forall a, r = Ok a -> Q a l) -> wsp (wlift r) l Q.
Proof. intros Hl H. destruct r; cbn; auto. Qed.

(** * Programs that only move forward, ending at or behind where they started *)

Definition wmono {A} (p : wprog A) (F : A -> Prop) : Prop :=
  forall l (Q : A -> lstream -> Prop), 48 <= ls_pos l ->
    (forall a l', ls_pos l <= ls_pos l' -> F a -> Q a l') -> wsp p l Q.

Lemma wmono_weaken A (p : wprog A) (F G : A -> Prop) : (forall a, F a -> G a) -> wmono p F -> wmono p G.
Proof. intros HFG Hp l Q Hl HQ. apply Hp; [exact Hl|]. intros a l' Hle Ha. apply HQ; auto. Qed.

Lemma wmono_bind A B (p : wprog A) (f : A -> wprog B) (F : A -> Prop) (G : B -> Prop) :
  wmono p F -> (forall a, F a -> wmono (f a) G) -> wmono (wbind p f) G.
Proof.
  intros Hp Hf l Q Hl HQ. apply wsp_bind. apply Hp; [exact Hl|].
  intros a l' Hle Ha. apply (Hf a Ha); [lia|].
  intros b l'' Hle' Hb. apply HQ; [lia|exact Hb].
Qed.

Lemma wmono_ret A (a : A) : wmono (wret a) (eq a).
Proof. intros l Q Hl HQ. cbn. apply HQ; [lia|reflexivity]. Qed.

Lemma wmono_fail A k (F : A -> Prop) : wmono (wfail k) F.
Proof. intros l Q Hl HQ. exact Hl. Qed.

Lemma wmono_lift A (r : res A) : wmono (wlift r) (fun a => r = Ok a).
Proof. intros l Q Hl HQ. apply wsp_lift; [exact Hl|]. intros a E. apply HQ; [lia|exact E]. Qed.

Lemma wmono_relabel A e (p : wprog A) F : wmono p F -> wmono (wrelabel e p) F.
Proof. intros Hp l Q Hl HQ. apply wsp_relabel. apply Hp; assumption. Qed.

Lemma wmono_position : wmono w_position (fun a => 48 <= log_of_phys a).
Proof.
  intros l Q Hl HQ. apply wsp_position; [exact Hl|]. apply HQ; [lia|]. rewrite log_phys. exact Hl.
Qed.

Lemma wmono_wr bs : wmono (wr bs) (fun _ => True).
Proof.
  intros l Q Hl HQ. apply wsp_wr; [exact Hl|]. apply HQ; [|exact I]. rewrite ls_pos_write. lia.
Qed.

Lemma wmono_align : wmono w_align (fun _ => True).
Proof.
  intros l Q Hl HQ. apply wsp_align; [exact Hl|]. apply HQ; [|exact I]. rewrite ls_pos_write. lia.
Qed.

Lemma wmono_size : wmono w_size (fun _ => True).
Proof. intros l Q Hl HQ. apply wsp_size; [exact Hl|]. apply HQ; [lia|exact I]. Qed.

Lemma wmono_flush : wmono w_flush (fun _ => True).
Proof. intros l Q Hl HQ. apply wsp_flush; [exact Hl|]. apply HQ; [lia|exact I]. Qed.

Lemma wmono_wr_all chunks : wmono (wr_all chunks) (fun _ => True).
Proof.
  induction chunks as [|c r IH]; cbn [wr_all].
  - eapply wmono_weaken; [|apply wmono_ret]. auto.
  - eapply wmono_bind; [apply wmono_wr|]. intros _ _. exact IH.
Qed.

Lemma wmono_header_write a b c : wmono (header_write a b c) (fun _ => True).
Proof. apply wmono_wr_all. Qed.

(** * Blobs: the section header is patched by seeking back to the recorded start *)

Lemma wmono_blob_write data : wmono (blob_write data) (fun _ => True).
Proof.
  intros l Q Hl HQ. unfold blob_write.
  apply wsp_bind, wsp_position; [exact Hl|].
  apply wsp_bind, wsp_wr; [exact Hl|]. set (l1 := ls_write l (zeros 16)).
  assert (H1 : ls_pos l <= ls_pos l1) by (unfold l1; rewrite ls_pos_write; lia).
  apply wsp_bind, wsp_wr; [lia|]. set (l2 := ls_write l1 data).
  assert (H2 : ls_pos l1 <= ls_pos l2) by (unfold l2; rewrite ls_pos_write; lia).
  apply wsp_bind, wsp_position; [lia|].
  apply wsp_bind, wsp_seek; [lia|]. rewrite log_phys. set (l3 := mkLs (ls_data l2) (ls_pos l)).
  apply wsp_bind, wsp_wr; [exact Hl|]. set (l4 := ls_write l3 _).
  assert (H4 : ls_pos l <= ls_pos l4) by (unfold l4; rewrite ls_pos_write; cbn [ls_pos l3]; lia).
  apply wsp_bind, wsp_seek; [lia|]. rewrite log_phys. set (l5 := mkLs (ls_data l4) (ls_pos l2)).
  apply wsp_bind, wsp_relabel, wsp_align; [cbn [ls_pos l5]; lia|].
  cbn [wret wsp]. apply HQ; [|exact I]. rewrite ls_pos_write. cbn [ls_pos l5]. lia.
Qed.

(** * Point clouds *)

Definition pcw_safe (w : pcw) : Prop := 48 <= log_of_phys (w_section_offset w).

Lemma wmono_pcw_new proto : wmono (pcw_new proto) pcw_safe.
Proof.
  unfold pcw_new.
  eapply wmono_bind; [apply wmono_lift|]. intros mpp _.
  eapply wmono_bind; [apply wmono_position|]. intros so Hso.
  eapply wmono_bind; [apply wmono_wr|]. intros _ _.
  eapply wmono_bind; [apply wmono_position|]. intros doff _.
  eapply wmono_weaken; [|apply wmono_ret]. intros w <-. exact Hso.
Qed.

Definition same_section (w w' : pcw) : Prop := w_section_offset w' = w_section_offset w.

Lemma wmono_write_buffer_to_disk last w : wmono (write_buffer_to_disk last w) (same_section w).
Proof.
  unfold write_buffer_to_disk. cbv zeta.
  eapply wmono_bind; [apply wmono_lift|]. intros [buffer streams] _.
  eapply wmono_bind; [apply wmono_lift|]. intros sizes _.
  eapply wmono_bind with (F := same_section w).
  - destruct (0 <? fold_left N.add sizes 0).
    + match goal with |- context [if ?c then wfail _ else _] => destruct c end; [apply wmono_fail|].
      eapply wmono_bind; [apply wmono_wr|]. intros _ _.
      eapply wmono_bind; [apply wmono_wr_all|]. intros _ _.
      eapply wmono_bind; [apply wmono_lift|]. intros [streams' datas] _.
      eapply wmono_bind; [apply wmono_wr_all|]. intros _ _.
      eapply wmono_weaken; [|apply wmono_ret]. intros w' <-. reflexivity.
    + eapply wmono_weaken; [|apply wmono_ret]. intros w' <-. reflexivity.
  - intros w1 Hw1. eapply wmono_bind; [apply wmono_align|]. intros _ _.
    eapply wmono_weaken; [|apply wmono_ret]. intros w' <-. exact Hw1.
Qed.

Lemma wmono_pcw_add_point values w : wmono (pcw_add_point values w) (same_section w).
Proof.
  unfold pcw_add_point. destruct (negb (values_ok (w_proto w) values)); [apply wmono_fail|]. cbv zeta.
  match goal with |- context [if ?c then _ else _] => destruct c end.
  - eapply wmono_weaken; [|apply wmono_write_buffer_to_disk]. intros w' H. exact H.
  - eapply wmono_weaken; [|apply wmono_ret]. intros w' <-. reflexivity.
Qed.

Lemma wmono_drain_buffer : forall fuel w, wmono (drain_buffer fuel w) (same_section w).
Proof.
  induction fuel as [|f IH]; intros w; cbn [drain_buffer]; [apply wmono_fail|].
  destruct (w_buffer w).
  - eapply wmono_weaken; [|apply wmono_ret]. intros w' <-. reflexivity.
  - eapply wmono_bind; [apply wmono_write_buffer_to_disk|]. intros w1 H1.
    eapply wmono_weaken; [|apply IH]. intros w' H. unfold same_section in *. congruence.
Qed.

Lemma wmono_add_points : forall points w, wmono (add_points points w) (same_section w).
Proof.
  induction points as [|p r IH]; intros w; cbn [add_points].
  - eapply wmono_weaken; [|apply wmono_ret]. intros w' <-. reflexivity.
  - eapply wmono_bind; [apply wmono_pcw_add_point|]. intros w1 H1.
    eapply wmono_weaken; [|apply IH]. intros w' H. unfold same_section in *. congruence.
Qed.

Lemma wmono_pcw_finalize w : pcw_safe w -> wmono (pcw_finalize w) (fun _ => True).
Proof.
  intros Hs l Q Hl HQ. unfold pcw_finalize.
  apply wsp_bind. apply (wmono_drain_buffer _ w); [exact Hl|]. intros w1 l1 Hle1 Hw1.
  apply wsp_bind. apply (wmono_write_buffer_to_disk true w1); [lia|]. intros w2 l2 Hle2 Hw2.
  assert (Hs2 : 48 <= log_of_phys (w_section_offset w2)).
  { unfold same_section, pcw_safe in *. rewrite Hw2, Hw1. exact Hs. }
  apply wsp_bind, wsp_relabel, wsp_position; [lia|].
  apply wsp_bind, wsp_relabel, wsp_seek; [lia|]. set (l3 := mkLs (ls_data l2) _).
  apply wsp_bind, wsp_wr; [exact Hs2|]. set (l4 := ls_write l3 _).
  assert (H4 : 48 <= ls_pos l4) by (unfold l4; rewrite ls_pos_write; cbn [ls_pos l3]; lia).
  apply wsp_bind, wsp_relabel, wsp_seek; [exact H4|]. rewrite log_phys.
  cbn [wret wsp]. apply HQ; [cbn [ls_pos]; lia|exact I].
Qed.

(** * Items *)

Lemma wmono_item_write i : wmono (item_write i) (fun _ => True).
Proof.
  destruct i as [data|proto points]; cbn [item_write].
  - eapply wmono_bind; [apply wmono_blob_write|]. intros [o l] _.
    eapply wmono_weaken; [|apply wmono_ret]. auto.
  - eapply wmono_bind; [apply wmono_pcw_new|]. intros w Hw.
    eapply wmono_bind; [apply wmono_add_points|]. intros w1 Hw1.
    eapply wmono_bind with (F := fun _ => True).
    + apply wmono_pcw_finalize. unfold pcw_safe, same_section in *. rewrite Hw1. exact Hw.
    + intros [[w2 o] n] _. eapply wmono_weaken; [|apply wmono_ret]. auto.
Qed.

Lemma wmono_items_write : forall is, wmono (items_write is) (fun _ => True).
Proof.
  induction is as [|i r IH]; cbn [items_write].
  - eapply wmono_weaken; [|apply wmono_ret]. auto.
  - eapply wmono_bind; [apply wmono_item_write|]. intros o _.
    eapply wmono_bind; [apply IH|]. intros os _.
    eapply wmono_weaken; [|apply wmono_ret]. auto.
Qed.

Print Assumptions wmono_items_write.
