(** The tree of a metadata value satisfies the prototype-value condition of the file-level
    specification (Spec/FileSpecXml.v, [proto_values_ok]): the text [t_record] writes into a
    prototype element (the minimum; without a minimum the maximum when that is below zero; else 0)
    lies within the limits the same element declares.

    What is needed of the metadata beyond [meta_ok] / [float_oracle_ok]: the float limits of the
    prototype records are bit patterns of their width, not NaN, and ordered ([float_limits_ordered]).
    What is needed of the float oracles beyond inverting the stored texts: they read "0" as +0.0.
    The one IEEE fact used - a float that is not NaN and not below zero is >= +0.0 - is a Section
    hypothesis here ([Hsign64], [Hsign32]); it is proved in Proofs/SpecFloatSign.v. *)
From Coq Require Import List Bool NArith ZArith Lia ZifyN ZifyBool.
From E57 Require Import Base.Prelude Base.Floats Model.Meta Model.MetaFile Model.XmlTree Model.XmlExtract
  Spec.MetaTree Spec.XeMetaOk Spec.FileSpecXml
  Proofs.XeLemmas Proofs.XeTreeDec Proofs.XeTreeFind Proofs.XeTreeStruct.
Import ListNotations.
Local Open Scope N_scope.
Ltac Zify.zify_post_hook ::= Z.div_mod_to_equations.

(** * "below zero" on the bit pattern *)
Definition below_zero_bits64 (b : N) : bool :=
  N.testbit b 63 && negb (b mod 2 ^ 63 =? 0) && (b mod 2 ^ 63 <=? 0x7ff0000000000000).
Definition below_zero_bits32 (b : N) : bool :=
  N.testbit b 31 && negb (b mod 2 ^ 31 =? 0) && (b mod 2 ^ 31 <=? 0x7f800000).

Lemma testbit63 b : b < 2 ^ 64 -> N.testbit b 63 = (2 ^ 63 <=? b).
Proof.
  intros H. rewrite N.testbit_eqb.
  change (2 ^ 63) with 9223372036854775808 in *. change (2 ^ 64) with 18446744073709551616 in *.
  destruct (9223372036854775808 <=? b) eqn:E; lia.
Qed.
Lemma testbit31 b : b < 2 ^ 32 -> N.testbit b 31 = (2 ^ 31 <=? b).
Proof.
  intros H. rewrite N.testbit_eqb.
  change (2 ^ 31) with 2147483648 in *. change (2 ^ 32) with 4294967296 in *.
  destruct (2147483648 <=? b) eqn:E; lia.
Qed.

(** [MetaTree.below_zero64/32] are these tests on the bits of a float of the right width.  (The two
    are not convertible, and they differ on numbers that are not 64-bit patterns - see
    [below_zero64_bits_any_refuted] - so the width is a hypothesis.) *)
Lemma below_zero64_bits f : f64_bits f < 2 ^ 64 -> below_zero64 f = below_zero_bits64 (f64_bits f).
Proof.
  intros H. unfold below_zero64, below_zero_bits64. rewrite (testbit63 _ H).
  change (2 ^ 63) with 9223372036854775808 in *. change (2 ^ 64) with 18446744073709551616 in *.
  lia.
Qed.
Lemma below_zero32_bits f : f32_bits f < 2 ^ 32 -> below_zero32 f = below_zero_bits32 (f32_bits f).
Proof.
  intros H. unfold below_zero32, below_zero_bits32. rewrite (testbit31 _ H).
  change (2 ^ 31) with 2147483648 in *. change (2 ^ 32) with 4294967296 in *.
  lia.
Qed.
Lemma below_zero64_bits_any_refuted :
  ~ (forall f, below_zero64 f = below_zero_bits64 (f64_bits f)).
Proof. intros H. specialize (H (mkF64 (2 ^ 64 + 2 ^ 63 + 1) [])). vm_compute in H. discriminate. Qed.
Lemma below_zero32_bits_any_refuted :
  ~ (forall f, below_zero32 f = below_zero_bits32 (f32_bits f)).
Proof. intros H. specialize (H (mkF32 (2 ^ 32 + 2 ^ 31 + 1) [])). vm_compute in H. discriminate. Qed.

(** * The condition on the metadata
    float limits of prototype records are representable, not NaN ([le b b]) and ordered *)
Definition lim64_ok (mn mx : option f64t) : bool :=
  match mn, mx with
  | Some a, Some b => (f64_bits a <? 2 ^ 64) && (f64_bits b <? 2 ^ 64) && le64 (f64_bits a) (f64_bits a) && le64 (f64_bits a) (f64_bits b)
  | Some a, None => (f64_bits a <? 2 ^ 64) && le64 (f64_bits a) (f64_bits a)
  | None, Some b => (f64_bits b <? 2 ^ 64) && le64 (f64_bits b) (f64_bits b)
  | None, None => true
  end.
Definition lim32_ok (mn mx : option f32t) : bool :=
  match mn, mx with
  | Some a, Some b => (f32_bits a <? 2 ^ 32) && (f32_bits b <? 2 ^ 32) && le32 (f32_bits a) (f32_bits a) && le32 (f32_bits a) (f32_bits b)
  | Some a, None => (f32_bits a <? 2 ^ 32) && le32 (f32_bits a) (f32_bits a)
  | None, Some b => (f32_bits b <? 2 ^ 32) && le32 (f32_bits b) (f32_bits b)
  | None, None => true
  end.
Definition dtype_limits_ok (d : data_type) : bool :=
  match d with DSingle mn mx => lim32_ok mn mx | DDouble mn mx => lim64_ok mn mx | _ => true end.
Definition float_limits_ordered (m : file_meta) : bool :=
  forallb (fun pc => forallb (fun r => dtype_limits_ok (r_type r)) (pc_prototype pc)) (fm_pointclouds m).

(** * The prototype elements of a tree, node by node *)
Definition pe_here (n : xnode) : list xnode :=
  if has_tag_name S_PROTOTYPE n then filter is_element (children n) else [].
Definition pe_node (n : xnode) : list xnode := flat_map pe_here (descendants n).

Lemma flat_map_flat_map {X Y Z} (f : Y -> list Z) (g : X -> list Y) l :
  flat_map f (flat_map g l) = flat_map (fun x => flat_map f (g x)) l.
Proof. induction l as [|x r IH]; [reflexivity|]. cbn [flat_map]. rewrite flat_map_app, IH. reflexivity. Qed.

Lemma prototype_elements_nodes d : prototype_elements d = flat_map pe_node (xd_children d).
Proof. unfold prototype_elements, doc_descendants. apply (flat_map_flat_map pe_here descendants). Qed.

Lemma pe_node_elem nm a sc ch :
  pe_node (XElem nm a sc ch) = pe_here (XElem nm a sc ch) ++ flat_map pe_node ch.
Proof.
  unfold pe_node at 1. rewrite descendants_elem. cbn [flat_map]. f_equal.
  apply (flat_map_flat_map pe_here descendants).
Qed.
Lemma pe_node_text t : pe_node (XText t) = [].
Proof. reflexivity. Qed.

Lemma pe_lines ch : flat_map pe_node (lines ch) = flat_map pe_node ch.
Proof.
  unfold lines. cbn [flat_map]. unfold nl at 1. rewrite pe_node_text. cbn [app].
  induction ch as [|c r IH]; [reflexivity|]. cbn [flat_map app].
  unfold nl at 1. rewrite pe_node_text, IH. cbn [app]. reflexivity.
Qed.
Lemma filter_lines ch : filter is_element (lines ch) = filter is_element ch.
Proof.
  unfold lines, nl. cbn [filter is_element].
  induction ch as [|c r IH]; [reflexivity|]. cbn [flat_map app filter is_element]. rewrite IH. reflexivity.
Qed.

(** ** every prototype element below a node satisfies [P] *)
Section Walk.
  Variable P : xnode -> bool.
  Definition OK (n : xnode) : Prop := forallb P (pe_node n) = true.

  Lemma OK_flat ch : Forall OK ch -> forallb P (flat_map pe_node ch) = true.
  Proof.
    induction 1 as [|c r Hc _ IH]; [reflexivity|]. cbn [flat_map]. rewrite forallb_app, Hc, IH. reflexivity.
  Qed.

  (** an element whose only child is a text, or without children: nothing to check, whatever its name *)
  Lemma OK_leaf nm a sc t : OK (XElem nm a sc [XText t]).
  Proof.
    unfold OK. rewrite pe_node_elem. cbn [flat_map]. rewrite pe_node_text. unfold pe_here.
    destruct (has_tag_name _ _); reflexivity.
  Qed.
  Lemma OK_empty nm a sc : OK (XElem nm a sc []).
  Proof. unfold OK. rewrite pe_node_elem. unfold pe_here. destruct (has_tag_name _ _); reflexivity. Qed.

  (** a container not named prototype *)
  Lemma OK_container sc name attrs ch :
    xstr_eqb name S_PROTOTYPE = false -> Forall OK ch -> OK (el sc name attrs (lines ch)).
  Proof.
    intros Hn Hch. unfold OK, el. rewrite pe_node_elem. unfold pe_here, has_tag_name, ename. cbn [xn_local].
    rewrite Hn. cbn [app]. rewrite pe_lines. apply OK_flat, Hch.
  Qed.
  (** a container that may be named prototype: its element children satisfy [P] *)
  Lemma OK_container_P sc name attrs ch :
    forallb P (filter is_element ch) = true -> Forall OK ch -> OK (el sc name attrs (lines ch)).
  Proof.
    intros Hp Hch. unfold OK, el. rewrite pe_node_elem, forallb_app, pe_lines, (OK_flat _ Hch), andb_true_r.
    unfold pe_here. destruct (has_tag_name _ _); [|reflexivity]. cbn [children]. rewrite filter_lines. exact Hp.
  Qed.

  Lemma OK_string sc name s : OK (t_string sc name s).   Proof. apply OK_leaf. Qed.
  Lemma OK_float sc name f : OK (t_float sc name f).     Proof. apply OK_leaf. Qed.
  Lemma OK_int sc name z : OK (t_int sc name z).         Proof. apply OK_leaf. Qed.
  Lemma OK_uint sc name n : OK (t_uint sc name n).       Proof. apply OK_leaf. Qed.
  Lemma OK_limit sc name v : OK (t_limit sc name v).     Proof. destruct v; apply OK_leaf. Qed.
  Lemma OK_blob sc name b : OK (t_blob sc name b).       Proof. apply OK_empty. Qed.
  Lemma OK_record sc exts r : OK (t_record sc exts r).
  Proof. unfold t_record. destruct (r_type r); apply OK_leaf. Qed.
  Lemma OK_struct sc name ch : xstr_eqb name S_PROTOTYPE = false -> Forall OK ch -> OK (t_struct sc name ch).
  Proof. apply OK_container. Qed.
  Lemma OK_vector sc name h ch : xstr_eqb name S_PROTOTYPE = false -> Forall OK ch -> OK (t_vector sc name h ch).
  Proof. apply OK_container. Qed.

  Lemma Forall_OK_opt1 {A} (f : A -> xnode) o : (forall x, OK (f x)) -> Forall OK (opt1 f o).
  Proof. intros H. destruct o; cbn [opt1]; repeat constructor. apply H. Qed.
  Lemma Forall_OK_map {A} (f : A -> xnode) l : (forall x, In x l -> OK (f x)) -> Forall OK (map f l).
  Proof. intros H. apply Forall_forall. intros y Hy. apply in_map_iff in Hy. destruct Hy as (x & <- & Hx). auto. Qed.

  Ltac fa :=
    repeat lazymatch goal with
      | |- Forall OK [] => apply Forall_nil
      | |- Forall OK (_ ++ _) => apply Forall_app; split
      | |- Forall OK (_ :: _) => apply Forall_cons
      | |- Forall OK (opt1 _ _) => apply Forall_OK_opt1; intros ?
      | |- Forall OK (map _ _) => apply Forall_OK_map; intros ? ?
      end.
  Ltac ok :=
    lazymatch goal with
    | |- OK (t_string _ _ _) => apply OK_string
    | |- OK (t_float _ _ _) => apply OK_float
    | |- OK (t_int _ _ _) => apply OK_int
    | |- OK (t_uint _ _ _) => apply OK_uint
    | |- OK (t_limit _ _ _) => apply OK_limit
    | |- OK (t_blob _ _ _) => apply OK_blob
    | |- OK (el _ _ _ [XText _]) => apply OK_leaf
    | |- OK (t_struct _ _ _) => apply OK_struct; [reflexivity|]
    | |- OK (t_vector _ _ _ _) => apply OK_vector; [reflexivity|]
    | |- _ => idtac
    end.
  Ltac walk := repeat (fa; ok).

  Lemma OK_date_time sc name d : xstr_eqb name S_PROTOTYPE = false -> OK (t_date_time sc name d).
  Proof. intros Hn. unfold t_date_time. apply OK_struct; [exact Hn|]. walk. Qed.
  Lemma OK_transform sc name t : xstr_eqb name S_PROTOTYPE = false -> OK (t_transform sc name t).
  Proof. intros Hn. unfold t_transform. apply OK_struct; [exact Hn|]. walk. Qed.
  Lemma OK_cartesian_bounds sc b : OK (t_cartesian_bounds sc b).
  Proof. unfold t_cartesian_bounds. walk. Qed.
  Lemma OK_spherical_bounds sc b : OK (t_spherical_bounds sc b).
  Proof. unfold t_spherical_bounds. walk. Qed.
  Lemma OK_index_bounds sc b : OK (t_index_bounds sc b).
  Proof. unfold t_index_bounds. walk. Qed.
  Lemma OK_intensity_limits sc l : OK (t_intensity_limits sc l).
  Proof. unfold t_intensity_limits. walk. Qed.
  Lemma OK_color_limits sc l : OK (t_color_limits sc l).
  Proof. unfold t_color_limits. walk. Qed.

  (** the one place a prototype is built: its element children are the records *)
  Lemma filter_records sc exts l : filter is_element (map (t_record sc exts) l) = map (t_record sc exts) l.
  Proof.
    induction l as [|r l IH]; [reflexivity|]. cbn [map filter].
    replace (is_element (t_record sc exts r)) with true by (unfold t_record; destruct (r_type r); reflexivity).
    rewrite IH. reflexivity.
  Qed.
  Lemma OK_points sc exts pc :
    (forall r, In r (pc_prototype pc) -> P (t_record sc exts r) = true) -> OK (t_points sc exts pc).
  Proof.
    intros H. unfold t_points. apply OK_container; [reflexivity|]. fa.
    unfold t_struct. apply OK_container_P.
    - rewrite filter_records, forallb_forall. intros y Hy. apply in_map_iff in Hy. destruct Hy as (r & <- & Hr). auto.
    - fa. apply OK_record.
  Qed.
  Lemma OK_pointcloud sc exts pc :
    (forall r, In r (pc_prototype pc) -> P (t_record sc exts r) = true) -> OK (t_pointcloud sc exts pc).
  Proof.
    intros H. unfold t_pointcloud. walk;
      lazymatch goal with
      | |- OK (t_cartesian_bounds _ _) => apply OK_cartesian_bounds
      | |- OK (t_spherical_bounds _ _) => apply OK_spherical_bounds
      | |- OK (t_index_bounds _ _) => apply OK_index_bounds
      | |- OK (t_color_limits _ _) => apply OK_color_limits
      | |- OK (t_intensity_limits _ _) => apply OK_intensity_limits
      | |- OK (t_transform _ _ _) => apply OK_transform; reflexivity
      | |- OK (t_date_time _ _ _) => apply OK_date_time; reflexivity
      | |- OK (t_points _ _ _) => apply OK_points; exact H
      end.
  Qed.

  Lemma OK_image_blob sc b : OK (t_image_blob sc b).
  Proof. unfold t_image_blob. apply OK_blob. Qed.
  Lemma OK_visual_reference sc v : OK (t_visual_reference sc v).
  Proof. unfold t_visual_reference. walk. apply OK_image_blob. Qed.
  Lemma OK_projection sc p : OK (t_projection sc p).
  Proof.
    destruct p; cbn [t_projection]; unfold t_pinhole, t_spherical_image, t_cylindrical_image; walk; apply OK_image_blob.
  Qed.
  Lemma OK_image sc i : OK (t_image sc i).
  Proof.
    unfold t_image. walk;
      lazymatch goal with
      | |- OK (t_visual_reference _ _) => apply OK_visual_reference
      | |- OK (t_projection _ _) => apply OK_projection
      | |- OK (t_transform _ _ _) => apply OK_transform; reflexivity
      | |- OK (t_date_time _ _ _) => apply OK_date_time; reflexivity
      end.
  Qed.

  Lemma OK_root sc exts m :
    (forall pc r, In pc (fm_pointclouds m) -> In r (pc_prototype pc) -> P (t_record sc exts r) = true) ->
    OK (t_root sc exts m).
  Proof.
    intros H. unfold t_root. cbv zeta. walk.
    - apply OK_date_time; reflexivity.
    - apply OK_pointcloud. intros r Hr. eapply H; eassumption.
    - apply OK_image.
  Qed.

  (** the whole tree: it is enough that every record element of every point cloud satisfies [P] *)
  Lemma tree_of_prototype_elements_forallb m :
    (forall pc r, In pc (fm_pointclouds m) -> In r (pc_prototype pc) ->
                  P (t_record (scope_of (fm_extensions m)) (fm_extensions m) r) = true) ->
    forallb P (prototype_elements (tree_of m)) = true.
  Proof.
    intros H. rewrite prototype_elements_nodes. unfold tree_of. cbn [xd_children flat_map]. rewrite app_nil_r.
    apply OK_root, H.
  Qed.
End Walk.

(** * One record *)
Lemma float_bound_none pf cmp : float_bound_ok pf None cmp = true.
Proof. reflexivity. Qed.
Lemma float_bound_some pf t b (cmp : N -> bool) :
  pf t = Some b -> cmp b = true -> float_bound_ok pf (Some t) cmp = true.
Proof. intros Hp Hc. unfold float_bound_ok. rewrite Hp. exact Hc. Qed.
Lemma float_value_ok_text pf le nm attrs sc t v :
  pf t = Some v ->
  float_bound_ok pf (attribute S_MINIMUM (XElem nm attrs sc [XText t])) (fun b => le b v) = true ->
  float_bound_ok pf (attribute S_MAXIMUM (XElem nm attrs sc [XText t])) (fun b => le v b) = true ->
  float_value_ok pf le (XElem nm attrs sc [XText t]) = true.
Proof. intros Hv H1 H2. unfold float_value_ok. cbn [node_text opt_parse]. rewrite Hv, H1, H2. reflexivity. Qed.

Lemma int_value_ok_text nm attrs sc v mn mx :
  attribute S_MINIMUM (XElem nm attrs sc [XText (dec_z v)]) = Some (dec_z mn) ->
  attribute S_MAXIMUM (XElem nm attrs sc [XText (dec_z v)]) = Some (dec_z mx) ->
  in_i64 v = true -> in_i64 mn = true -> in_i64 mx = true -> (mn <= v <= mx)%Z ->
  int_value_ok (XElem nm attrs sc [XText (dec_z v)]) = true.
Proof.
  intros H1 H2 Hv Hmn Hmx Hle. unfold int_value_ok. rewrite H1, H2. cbn [node_text opt_parse].
  rewrite !parse_i64_dec_z by (apply in_i64_spec; assumption). lia.
Qed.

Section Proto.
Variables pf64 pf32 : xstr -> option N.
(** IEEE: not NaN and not below zero is >= +0.0 (Proofs/SpecFloatSign.v) *)
Hypothesis Hsign64 : forall b, b < 2 ^ 64 -> le64 b b = true -> below_zero_bits64 b = false -> le64 0 b = true.
Hypothesis Hsign32 : forall b, b < 2 ^ 32 -> le32 b b = true -> below_zero_bits32 b = false -> le32 0 b = true.
(** the oracles read "0" as +0.0 *)
Hypothesis Hzero64 : pf64 [48] = Some 0.
Hypothesis Hzero32 : pf32 [48] = Some 0.

Lemma fo64_spec f : fo64 pf64 f = true -> pf64 (f64_text f) = Some (f64_bits f).
Proof. unfold fo64. destruct (pf64 (f64_text f)) as [b|]; [|discriminate]. intros H. apply N.eqb_eq in H. now subst. Qed.
Lemma fo32_spec f : fo32 pf32 f = true -> pf32 (f32_text f) = Some (f32_bits f).
Proof. unfold fo32. destruct (pf32 (f32_text f)) as [b|]; [|discriminate]. intros H. apply N.eqb_eq in H. now subst. Qed.

Ltac split_ok :=
  repeat match goal with
         | H : (_ && _) = true |- _ => apply andb_prop in H; destruct H
         end.

Ltac bound := first [ reflexivity | eapply float_bound_some; [eassumption | cbv beta; try eassumption] ].

(* the comparisons stay folded while hypotheses are looked up *)
Local Opaque le32 le64.

Lemma t_record_value_ok sc exts r :
  XeMetaOk.dtype_ok (r_type r) = true -> dtype_fo pf64 pf32 (r_type r) = true -> dtype_limits_ok (r_type r) = true ->
  proto_elem_ok pf64 pf32 (t_record sc exts r) = true.
Proof.
  destruct r as [nm d]. cbn [r_type]. intros Hok Hfo Hlim. unfold t_record. cbn [r_type r_name].
  destruct d as [mn mx|mn mx|mn mx scale offset|mn mx];
    cbn [XeMetaOk.dtype_ok dtype_fo dtype_limits_ok] in *.
  - (* single: minimum / maximum present or not *)
    clear Hok.
    destruct mn as [a|], mx as [b|]; cbn [ofo lim32_ok app] in *; split_ok;
      repeat match goal with H : fo32 _ _ = true |- _ => apply fo32_spec in H end;
      repeat match goal with H : (_ <? _) = true |- _ => apply N.ltb_lt in H end;
      unfold proto_elem_ok; eval_attrs; cbv beta iota.
    + apply float_value_ok_text with (v := f32_bits a); eval_attrs; [assumption|bound|bound].
    + apply float_value_ok_text with (v := f32_bits a); eval_attrs; [assumption|bound|bound].
    + (* no minimum: the maximum itself when it is below zero, else 0 (the text stays folded while
         the attributes are looked up: the test on the bits must not be evaluated on a variable) *)
      assert (Ht : exists v, pf32 (sample32 None (Some b)) = Some v /\ le32 v (f32_bits b) = true).
      { cbn [sample32]. destruct (below_zero32 b) eqn:Ez; [exists (f32_bits b)|exists 0]; (split; [assumption|]);
          [assumption|].
        apply Hsign32; try assumption. rewrite <- below_zero32_bits by assumption. exact Ez. }
      destruct Ht as (v & Hv & Hle).
      apply float_value_ok_text with (v := v); eval_attrs; [exact Hv|bound|bound].
    + apply float_value_ok_text with (v := 0); eval_attrs; [assumption|bound|bound].
  - (* double *)
    clear Hok.
    destruct mn as [a|], mx as [b|]; cbn [ofo lim64_ok app] in *; split_ok;
      repeat match goal with H : fo64 _ _ = true |- _ => apply fo64_spec in H end;
      repeat match goal with H : (_ <? _) = true |- _ => apply N.ltb_lt in H end;
      unfold proto_elem_ok; eval_attrs; cbv beta iota.
    + apply float_value_ok_text with (v := f64_bits a); eval_attrs; [assumption|bound|bound].
    + apply float_value_ok_text with (v := f64_bits a); eval_attrs; [assumption|bound|bound].
    + (* no minimum: the maximum itself when it is below zero, else 0 (the text stays folded while
         the attributes are looked up: the test on the bits must not be evaluated on a variable) *)
      assert (Ht : exists v, pf64 (sample64 None (Some b)) = Some v /\ le64 v (f64_bits b) = true).
      { cbn [sample64]. destruct (below_zero64 b) eqn:Ez; [exists (f64_bits b)|exists 0]; (split; [assumption|]);
          [assumption|].
        apply Hsign64; try assumption. rewrite <- below_zero64_bits by assumption. exact Ez. }
      destruct Ht as (v & Hv & Hle).
      apply float_value_ok_text with (v := v); eval_attrs; [exact Hv|bound|bound].
    + apply float_value_ok_text with (v := 0); eval_attrs; [assumption|bound|bound].
  - (* scaled integer: the text is the minimum *)
    clear Hfo Hlim. split_ok. unfold proto_elem_ok. eval_attrs. cbv beta iota.
    apply int_value_ok_text with (mn := mn) (mx := mx); try assumption; try (eval_attrs; reflexivity). lia.
  - (* integer *)
    clear Hfo Hlim. split_ok. unfold proto_elem_ok. eval_attrs. cbv beta iota.
    apply int_value_ok_text with (mn := mn) (mx := mx); try assumption; try (eval_attrs; reflexivity). lia.
Qed.
Local Transparent le32 le64.
(** * The whole tree *)
Lemma pc_ok_record exts pc r :
  pc_ok exts pc = true -> In r (pc_prototype pc) -> XeMetaOk.dtype_ok (r_type r) = true.
Proof.
  unfold pc_ok. intros H Hr. split_ok.
  match goal with H : forallb (record_ok _) _ = true |- _ => rewrite forallb_forall in H; specialize (H _ Hr) end.
  unfold record_ok in *. split_ok. assumption.
Qed.
Lemma pc_fo_record pc r :
  pc_fo pf64 pf32 pc = true -> In r (pc_prototype pc) -> dtype_fo pf64 pf32 (r_type r) = true.
Proof.
  unfold pc_fo. intros H Hr. split_ok.
  match goal with H : forallb _ (pc_prototype pc) = true |- _ => rewrite forallb_forall in H; exact (H _ Hr) end.
Qed.

Theorem tree_of_proto_values_ok_gen m :
  XeMetaOk.meta_ok m = true -> float_oracle_ok pf64 pf32 m = true -> float_limits_ordered m = true ->
  proto_values_ok pf64 pf32 (tree_of m) = true.
Proof.
  intros Hok Hfo Hlim. unfold proto_values_ok. apply tree_of_prototype_elements_forallb.
  intros pc r Hpc Hr.
  unfold XeMetaOk.meta_ok in Hok. unfold float_oracle_ok in Hfo. unfold float_limits_ordered in Hlim. split_ok.
  repeat match goal with H : forallb _ (fm_pointclouds m) = true |- _ => rewrite forallb_forall in H; specialize (H _ Hpc) end.
  apply t_record_value_ok.
  - eapply pc_ok_record; eassumption.
  - eapply pc_fo_record; eassumption.
  - match goal with H : forallb _ (pc_prototype pc) = true |- _ => rewrite forallb_forall in H; exact (H _ Hr) end.
Qed.
End Proto.

(** * Instances *)
From E57 Require Import Proofs.SpecXmlExample.

(** the metadata of the C03 example: integer records only, any oracle *)
Example meta2_proto_values_ok :
  proto_values_ok XmlInstance.pf XmlInstance.pf (tree_of RenderInstance.meta2) = true.
Proof. vm_compute. reflexivity. Qed.

Module FloatInstance.
  (* "0", "0.5", "120" as f32; "0", "-2", "3" as f64 *)
  Definition pf32 (t : xstr) : option N :=
    if xstr_eqb t [48] then Some 0
    else if xstr_eqb t [48; 46; 53] then Some 0x3f000000
    else if xstr_eqb t [49; 50; 48] then Some 0x42f00000
    else None.
  Definition pf64 (t : xstr) : option N :=
    if xstr_eqb t [48] then Some 0
    else if xstr_eqb t [45; 50] then Some 0xc000000000000000
    else if xstr_eqb t [51] then Some 0x4008000000000000
    else None.
  Definition proto : list record :=
    [mkRecord CartesianX (DSingle (Some (mkF32 0x3f000000 [48; 46; 53])) (Some (mkF32 0x42f00000 [49; 50; 48])));
     mkRecord CartesianY (DDouble None (Some (mkF64 0xc000000000000000 [45; 50])));
     mkRecord CartesianZ (DDouble None (Some (mkF64 0x4008000000000000 [51])))].
  Definition meta : file_meta :=
    mkFileMeta (fm_root XmlInstance.meta) [] [XmlInstance.none_pc [112; 99] 48 0 proto] [].
  (* minimum 3 above maximum -2: every hypothesis but the order *)
  Definition meta_unordered : file_meta :=
    mkFileMeta (fm_root XmlInstance.meta) []
      [XmlInstance.none_pc [112; 99] 48 0
         [mkRecord CartesianX (DDouble (Some (mkF64 0x4008000000000000 [51])) (Some (mkF64 0xc000000000000000 [45; 50])))]] [].
End FloatInstance.

(** the hypotheses of the theorem on the metadata and on the reading of "0" hold ... *)
Example float_instance_hypotheses :
  XeMetaOk.meta_ok FloatInstance.meta = true /\
  float_oracle_ok FloatInstance.pf64 FloatInstance.pf32 FloatInstance.meta = true /\
  float_limits_ordered FloatInstance.meta = true /\
  FloatInstance.pf64 [48] = Some 0 /\ FloatInstance.pf32 [48] = Some 0.
Proof. repeat split; vm_compute; reflexivity. Qed.

(** ... and so does its conclusion: the texts are 0.5 (the minimum), -2 (the maximum, below zero), 0 *)
Example float_instance_proto_values_ok :
  proto_values_ok FloatInstance.pf64 FloatInstance.pf32 (tree_of FloatInstance.meta) = true /\
  map node_text (prototype_elements (tree_of FloatInstance.meta)) = [Some [48; 46; 53]; Some [45; 50]; Some [48]].
Proof. split; vm_compute; reflexivity. Qed.

(** [float_limits_ordered] cannot be dropped: with minimum 3 and maximum -2 no text is within the limits *)
Lemma tree_of_proto_values_ok_without_order_refuted :
  ~ (forall pf64 pf32 m, pf64 [48] = Some 0 -> pf32 [48] = Some 0 ->
       XeMetaOk.meta_ok m = true -> float_oracle_ok pf64 pf32 m = true ->
       proto_values_ok pf64 pf32 (tree_of m) = true).
Proof.
  intros H. specialize (H FloatInstance.pf64 FloatInstance.pf32 FloatInstance.meta_unordered).
  vm_compute in H. specialize (H eq_refl eq_refl eq_refl eq_refl). discriminate.
Qed.

Print Assumptions t_record_value_ok.
Print Assumptions tree_of_proto_values_ok_gen.
