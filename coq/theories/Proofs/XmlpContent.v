(** The content loop of the parser model on each kind of thing the renderer writes between a
    start tag and its end tag. *)
From Coq Require Import Lia ZifyN ZifyNat ZifyBool.
From E57 Require Import Base.Prelude Model.XmlTree Model.XmlParse Spec.XmlRender
  Proofs.XmlpLex Proofs.XmlpEsc Proofs.XmlpFuel Proofs.XmlpNs Proofs.XmlpTag.

Local Open Scope N_scope.

Lemma parse_content_S : forall f scope pprefix plocal s,
  parse_content (S f) scope pprefix plocal s =
    match s with
    | [] => PErr
    | b :: r =>
      if b =? 60 then
        match r with
        | [] => PErr
        | c :: r2 =>
          if c =? 33 then
            match strip_prefix s_dashdash r2 with
            | Some r3 =>
              pbind (of_opt (parse_comment r3)) (fun '(n, rest) =>
              pbind (parse_content f scope pprefix plocal rest) (fun '(ch, cnt, rest') =>
              POk (n :: ch, cnt, rest')))
            | None =>
              match strip_prefix s_cdata_open r2 with
              | Some r3 =>
                pbind (of_opt (scan_until s_cdata_end r3)) (fun '(t, rest) =>
                pbind (parse_content f scope pprefix plocal rest) (fun '(ch, cnt, rest') =>
                POk (cons_text (process_cdata t) ch, cnt, rest')))
              | None => PErr
              end
            end
          else if c =? 63 then
            pbind (of_opt (parse_pi r2)) (fun '(n, rest) =>
            pbind (parse_content f scope pprefix plocal rest) (fun '(ch, cnt, rest') =>
            POk (n :: ch, cnt, rest')))
          else if c =? 47 then
            pbind (of_opt (scan_qname r2)) (fun '(p, l, r3) =>
            match skip_spaces r3 with
            | 62 :: rest =>
              if xstr_eqb p pprefix && xstr_eqb l plocal then POk ([], 0, rest) else PErr
            | _ => PErr
            end)
          else
            pbind (parse_element_with f (parse_content f) (Some scope) r) (fun '(n, c1, rest) =>
            pbind (parse_content f scope pprefix plocal rest) (fun '(ch, c2, rest') =>
            POk (n :: ch, c1 + c2, rest')))
        end
      else
        pbind (of_opt (scan_text s)) (fun '(t, rest) =>
        if contains s_cdata_end t then PErr else
        pbind (of_opt (process_text t)) (fun t' =>
        pbind (parse_content f scope pprefix plocal rest) (fun '(ch, cnt, rest') =>
        POk (cons_text t' ch, cnt, rest'))))
    end.
Proof. reflexivity. Qed.

(** comments *)
Lemma parse_comment_render : forall t rest, comment_ok t = true ->
  parse_comment (t ++ COMMENT_CLOSE ++ rest) = Some (XComment t, rest).
Proof.
  intros t rest H. unfold parse_comment. change COMMENT_CLOSE with s_comment_end.
  rewrite (scan_comment t rest H).
  unfold comment_ok in H. apply andb_true_iff in H. destruct H as [H H3]. apply andb_true_iff in H. destruct H as [_ H2].
  apply negb_true_iff in H2, H3. rewrite <- has_sub_contains. change s_dashdash with [45; 45]. rewrite H2.
  unfold ends_with_dash. rewrite lrev_rev, H3. reflexivity.
Qed.

Lemma content_comment : forall f sc pp pl t tail ch cnt rest, comment_ok t = true ->
  parse_content f sc pp pl tail = POk (ch, cnt, rest) ->
  parse_content (S f) sc pp pl (COMMENT_OPEN ++ t ++ COMMENT_CLOSE ++ tail) = POk (XComment t :: ch, cnt, rest).
Proof.
  intros f sc pp pl t tail ch cnt rest Ht H. rewrite parse_content_S.
  unfold COMMENT_OPEN. cbn [app]. change (60 =? 60) with true. change (33 =? 33) with true. cbv iota.
  change (strip_prefix s_dashdash (45 :: 45 :: t ++ COMMENT_CLOSE ++ tail)) with (Some (t ++ COMMENT_CLOSE ++ tail)).
  cbv iota. rewrite (parse_comment_render t tail Ht). cbn [of_opt pbind]. rewrite H. reflexivity.
Qed.

(** processing instructions *)
Lemma not_xml_sp : forall tg x, ncname tg = true -> tg <> S_XML ->
  match x with b :: _ => b = 32 \/ b = 63 | [] => False end ->
  starts_with s_xml_sp (tg ++ x) = false.
Proof.
  intros tg x Hn Hne Hx. unfold starts_with, s_xml_sp.
  destruct tg as [|b1 tg]; [discriminate|].
  cbn [ncname] in Hn. apply andb_true_iff in Hn. destruct Hn as [_ Hn].
  cbn [app strip_prefix]. destruct (120 =? b1) eqn:E1; [|reflexivity]. apply N.eqb_eq in E1. subst b1.
  destruct tg as [|b2 tg].
  { cbn [app]. destruct x as [|y x]; [reflexivity|]. destruct Hx as [Hx|Hx]; subst y; reflexivity. }
  cbn [app strip_prefix]. destruct (109 =? b2) eqn:E2; [|reflexivity]. apply N.eqb_eq in E2. subst b2.
  destruct tg as [|b3 tg].
  { cbn [app]. destruct x as [|y x]; [reflexivity|]. destruct Hx as [Hx|Hx]; subst y; reflexivity. }
  cbn [app strip_prefix]. destruct (108 =? b3) eqn:E3; [|reflexivity]. apply N.eqb_eq in E3. subst b3.
  destruct tg as [|b4 tg]; [exfalso; apply Hne; reflexivity|].
  cbn [app strip_prefix]. destruct (32 =? b4) eqn:E4; [|reflexivity]. apply N.eqb_eq in E4. subst b4.
  cbn [forallb] in Hn. repeat (apply andb_true_iff in Hn; destruct Hn as [? Hn]). discriminate.
Qed.

Definition pi_body (v : option xstr) : xstr := match v with Some v => 32 :: v | None => [] end.

Lemma parse_pi_render : forall tg v rest, pi_ok tg v = true ->
  parse_pi (tg ++ pi_body v ++ PI_CLOSE ++ rest) = Some (XPI tg v, rest).
Proof.
  intros tg v rest H. unfold pi_ok in H.
  apply andb_true_iff in H. destruct H as [H Hv]. apply andb_true_iff in H. destruct H as [Hn Hx].
  apply negb_true_iff in Hx. apply xstr_eqb_neq in Hx.
  unfold parse_pi. rewrite not_xml_sp; [| exact Hn | exact Hx | destruct v; cbn; auto].
  rewrite scan_name_render; [| exact Hn | destruct v; cbn; split; reflexivity].
  destruct v as [v|]; cbn [pi_body].
  - apply andb_true_iff in Hv. destruct Hv as [Hv Hb]. apply andb_true_iff in Hv. destruct Hv as [Hc Hs].
    apply negb_true_iff in Hs.
    destruct v as [|b v]; [discriminate|]. apply negb_true_iff in Hb.
    change ((32 :: b :: v) ++ PI_CLOSE ++ rest) with (32 :: (b :: v) ++ PI_CLOSE ++ rest).
    cbn [skip_spaces]. change (is_space 32) with true. cbv iota.
    rewrite skip_spaces_id by (cbn; rewrite <- is_blank_space; exact Hb).
    change PI_CLOSE with s_pi_end. rewrite (scan_pi_value (b :: v) rest Hc Hs). reflexivity.
  - cbn [app]. rewrite skip_spaces_id by (cbn; reflexivity).
    change PI_CLOSE with s_pi_end.
    assert (E := scan_pi_value [] rest eq_refl eq_refl). cbn [app] in E. rewrite E. reflexivity.
Qed.

Lemma content_pi : forall f sc pp pl tg v tail ch cnt rest, pi_ok tg v = true ->
  parse_content f sc pp pl tail = POk (ch, cnt, rest) ->
  parse_content (S f) sc pp pl (PI_OPEN ++ tg ++ pi_body v ++ PI_CLOSE ++ tail) = POk (XPI tg v :: ch, cnt, rest).
Proof.
  intros f sc pp pl tg v tail ch cnt rest Ht H. rewrite parse_content_S.
  unfold PI_OPEN. cbn [app]. change (60 =? 60) with true. change (63 =? 33) with false. change (63 =? 63) with true. cbv iota.
  rewrite (parse_pi_render tg v tail Ht). cbn [of_opt pbind]. rewrite H. reflexivity.
Qed.

(** character data *)
Definition not_text_head (l : list xnode) : Prop := match l with XText _ :: _ => False | _ => True end.

Lemma cons_text_plain : forall t l, not_text_head l -> cons_text t l = XText t :: l.
Proof. intros t [|[| | |] l] H; cbn in *; try reflexivity. contradiction. Qed.

Lemma content_text : forall f sc pp pl t st tail ch cnt rest, t <> [] -> text_ok t = true ->
  parse_content f sc pp pl (60 :: tail) = POk (ch, cnt, rest) ->
  parse_content (S f) sc pp pl (esc_bytes text_must st 0%nat t ++ 60 :: tail) = POk (cons_text t ch, cnt, rest).
Proof.
  intros f sc pp pl t st tail ch cnt rest Hne Hok H. rewrite parse_content_S.
  assert (Hc : chars_ok t = true) by (unfold text_ok in Hok; apply andb_true_iff in Hok; tauto).
  destruct (esc_bytes text_must st 0%nat t) as [|b r] eqn:E.
  { exfalso. apply (esc_nonempty text_must t st 0%nat Hne). exact E. }
  assert (Hb : (b =? 60) = false).
  { apply N.eqb_neq. intros Eb. apply (esc_text_no_lt t st 0%nat). rewrite E, Eb. left. reflexivity. }
  cbn [app]. rewrite Hb. change (b :: r ++ 60 :: tail) with ((b :: r) ++ 60 :: tail). rewrite <- E.
  rewrite (scan_text_render t st 0%nat tail Hc). cbn [of_opt pbind].
  rewrite text_no_cdata_end. rewrite (process_text_render t st 0%nat Hok). cbn [of_opt pbind].
  rewrite H. reflexivity.
Qed.

Lemma content_cdata_piece : forall f sc pp pl x tail ch cnt rest,
  chars_ok x = true -> existsb (N.eqb 13) x = false -> has_sub CDATA_CLOSE x = false ->
  parse_content f sc pp pl tail = POk (ch, cnt, rest) ->
  parse_content (S f) sc pp pl (CDATA_OPEN ++ x ++ CDATA_CLOSE ++ tail) = POk (cons_text x ch, cnt, rest).
Proof.
  intros f sc pp pl x tail ch cnt rest Hc H13 Hs H. rewrite parse_content_S.
  unfold CDATA_OPEN. cbn [app]. change (60 =? 60) with true. change (33 =? 33) with true. cbv iota.
  change (strip_prefix s_dashdash (91 :: 67 :: 68 :: 65 :: 84 :: 65 :: 91 :: x ++ CDATA_CLOSE ++ tail)) with (@None (list N)).
  cbv iota.
  change (strip_prefix s_cdata_open (91 :: 67 :: 68 :: 65 :: 84 :: 65 :: 91 :: x ++ CDATA_CLOSE ++ tail)) with (Some (x ++ CDATA_CLOSE ++ tail)).
  cbv iota. change CDATA_CLOSE with s_cdata_end. rewrite (scan_cdata_piece x tail Hc Hs). cbn [of_opt pbind].
  rewrite H. rewrite (process_cdata_id x H13). reflexivity.
Qed.

Lemma existsb_app_false : forall (f : N -> bool) a b, existsb f (a ++ b) = false -> existsb f a = false /\ existsb f b = false.
Proof. intros f a b H. rewrite existsb_app in H. apply orb_false_iff in H. exact H. Qed.

(** a whole text node written as CDATA sections; [pre] is what the current section already holds
    (nothing, or the '>' that follows a split) *)
Lemma content_cdata_sections : forall n t pre sc pp pl tail f ch cnt rest,
  (length t <= n)%nat -> pre = [] \/ pre = [62] ->
  chars_ok t = true -> existsb (N.eqb 13) t = false ->
  parse_content f sc pp pl tail = POk (ch, cnt, rest) ->
  exists f', parse_content f' sc pp pl (CDATA_OPEN ++ pre ++ cdata_body t ++ CDATA_CLOSE ++ tail)
             = POk (cons_text (pre ++ t) ch, cnt, rest).
Proof.
  induction n as [|n IH]; intros t pre sc pp pl tail f ch cnt rest Hlen Hpre Hc H13 H.
  - destruct t; [|cbn in Hlen; lia]. cbn [cdata_body app]. rewrite app_nil_r.
    exists (S f). replace (CDATA_OPEN ++ pre ++ CDATA_CLOSE ++ tail) with (CDATA_OPEN ++ pre ++ CDATA_CLOSE ++ tail) by reflexivity.
    apply content_cdata_piece; try assumption; destruct Hpre; subst pre; reflexivity.
  - assert (Hpre_ok : chars_ok pre = true /\ existsb (N.eqb 13) pre = false) by (destruct Hpre; subst pre; split; reflexivity).
    destruct Hpre_ok as [Pc P13].
    assert (Hpre_sub : forall x, has_sub CDATA_CLOSE (pre ++ x) = has_sub CDATA_CLOSE x).
    { intros x. destruct Hpre; subst pre; [reflexivity|]. cbn [app]. apply has_sub_gt_cons. }
    assert (Hpre_chars : forall x, chars_ok (pre ++ x) = chars_ok x).
    { intros x. destruct Hpre; subst pre; reflexivity. }
    destruct (split3_spec t) as [S1 _]. destruct (split3 t) as [p [r|]].
    + destruct S1 as (Et & Eb & Hs & Hl).
      assert (Hcr : chars_ok r = true).
      { rewrite Et in Hc. apply chars_ok_app_l in Hc. apply (chars_ok_app_l CDATA_CLOSE). exact Hc. }
      assert (Hcp : chars_ok (p ++ [93; 93]) = true).
      { rewrite Et in Hc. change (p ++ CDATA_CLOSE ++ r) with (p ++ [93; 93] ++ 62 :: r) in Hc. rewrite app_assoc in Hc.
        apply (chars_ok_prefix _ (62 :: r)); [exact Hc | cbn; lia]. }
      assert (H13' : existsb (N.eqb 13) p = false /\ existsb (N.eqb 13) r = false).
      { rewrite Et in H13. apply existsb_app_false in H13. destruct H13 as [A B].
        apply existsb_app_false in B. tauto. }
      destruct H13' as [H13p H13r].
      destruct (IH r [62] sc pp pl tail f ch cnt rest) as [f1 H1]; try assumption; [lia | right; reflexivity |].
      exists (S f1). rewrite Eb.
      replace (CDATA_OPEN ++ pre ++ (p ++ CDATA_SPLIT ++ cdata_body r) ++ CDATA_CLOSE ++ tail)
        with (CDATA_OPEN ++ (pre ++ p ++ [93; 93]) ++ CDATA_CLOSE ++ (CDATA_OPEN ++ [62] ++ cdata_body r ++ CDATA_CLOSE ++ tail)).
      2:{ unfold CDATA_SPLIT, CDATA_CLOSE, CDATA_OPEN. rewrite <- ?app_assoc. cbn [app]. rewrite <- ?app_assoc. cbn [app]. reflexivity. }
      rewrite (content_cdata_piece f1 sc pp pl (pre ++ p ++ [93; 93]) _ (cons_text ([62] ++ r) ch) cnt rest); [| | | | exact H1].
      * rewrite cons_text_twice. rewrite Et. f_equal. f_equal. rewrite <- !app_assoc. reflexivity.
      * rewrite Hpre_chars. exact Hcp.
      * rewrite existsb_app, P13. cbn [orb]. rewrite existsb_app, H13p. reflexivity.
      * rewrite Hpre_sub. exact Hs.
    + destruct S1 as (Et & Eb & Hs). subst p. rewrite Eb.
      exists (S f).
      replace (CDATA_OPEN ++ pre ++ t ++ CDATA_CLOSE ++ tail) with (CDATA_OPEN ++ (pre ++ t) ++ CDATA_CLOSE ++ tail)
        by (rewrite <- (app_assoc pre); reflexivity).
      rewrite (content_cdata_piece f sc pp pl (pre ++ t) tail ch cnt rest); [reflexivity | | | | exact H].
      * rewrite Hpre_chars. exact Hc.
      * rewrite existsb_app, P13, H13. reflexivity.
      * rewrite Hpre_sub. exact Hs.
Qed.
