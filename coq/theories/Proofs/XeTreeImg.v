(** images.rs on the trees of Spec/MetaTree.v: the four representations and [Image::from_node]. *)
From Coq Require Import Strings.String.
From Coq Require Import List Bool NArith ZArith Lia.
From E57 Require Import Base.Prelude Model.Meta Model.MetaFile Model.XmlTree Model.XmlExtract
  Spec.MetaTree Spec.XeMetaOk Proofs.XeLemmas Proofs.XeTreeDec Proofs.XeTreeFind Proofs.XeTreeStruct Proofs.XeTreePc.
Import ListNotations.

Local Notation "'B' s" := (ltac:(let v := eval vm_compute in (bytes_of_string s%string) in exact v))
  (at level 0, s at level 0, only parsing).

Ltac fc_side ::=
  intros; try match goal with v : limit_value |- _ => destruct v end;
  try match goal with v : projection |- _ => destruct v end; vm_compute; reflexivity.

Ltac step_child :=
  match goal with
  | |- context[find_child ?nm ?n] =>
      let E := fresh "E" in eassert (E : find_child nm n = _) by fc; rewrite E; clear E
  end.
Ltac step_mask sc :=
  match goal with
  | |- context[blob_from_parent_node ?nm ?n] =>
      let E := fresh "E" in eassert (E : find_child nm n = _) by fc;
      rewrite (blob_from_parent_of sc _ _ _ _ E) by assumption; clear E
  end.

Section Img.
Variable sc : list xnsdecl.
Variables pf64 : xstr -> option N.
Variable fdiv : N -> Z -> N.

Lemma opt_f64_some n nm nm' f :
  find_child nm n = Some (t_float sc nm' f) -> fo64 pf64 f = true -> opt_f64 pf64 n nm = Ok (Some f).
Proof. intros E H. apply (opt_f64_of sc pf64 n nm nm' (Some f) E H). Qed.

(** the part common to the four representations *)
Ltac rep_start :=
  unfold rep_ok, blob_ok in *; split_and;
  unfold image_blob_from_rep_node, t_struct;
  repeat step_child; cbn [opt_case];
  unfold t_image_blob; cbn [ib_format ib_data];
  rewrite blob_of by (unfold blob_ok; apply andb_true_iff; split; assumption);
  cbn [res_bind];
  step_mask sc; cbn [res_bind];
  repeat step_u32 sc; cbn [res_bind].

Lemma visual_reference_of v :
  rep_ok (vr_blob v) (vr_mask v) (vr_width v) (vr_height v) = true ->
  visual_reference_from_node (t_visual_reference sc v) = Ok v.
Proof.
  destruct v as [[data fmt] mask w h]. cbn [vr_blob vr_mask vr_width vr_height ib_data]. intros H.
  unfold visual_reference_from_node, t_visual_reference.
  destruct fmt; rep_start; rewrite !N2Z.id; reflexivity.
Qed.

Lemma pinhole_of p :
  proj_ok (PPinhole p) = true -> proj_fo pf64 (PPinhole p) = true ->
  pinhole_from_node pf64 (t_pinhole sc p) = Ok p.
Proof.
  destruct p as [[data fmt] mask w h fl pw ph px py].
  cbn [proj_ok proj_fo ph_blob ph_mask ph_width ph_height ph_focal_length ph_pixel_width ph_pixel_height ph_principal_x ph_principal_y ib_data].
  intros H Hf. split_and. unfold pinhole_from_node, t_pinhole.
  destruct fmt; rep_start; repeat step_req_f64 sc pf64; cbn [res_bind]; rewrite !N2Z.id; reflexivity.
Qed.

Lemma cylindrical_of c :
  proj_ok (PCylindrical c) = true -> proj_fo pf64 (PCylindrical c) = true ->
  cylindrical_from_node pf64 (t_cylindrical_image sc c) = Ok c.
Proof.
  destruct c as [[data fmt] mask w h r py pw ph].
  cbn [proj_ok proj_fo ci_blob ci_mask ci_width ci_height ci_radius ci_principal_y ci_pixel_width ci_pixel_height ib_data].
  intros H Hf. split_and. unfold cylindrical_from_node, t_cylindrical_image.
  destruct fmt; rep_start; repeat step_req_f64 sc pf64; cbn [res_bind]; rewrite !N2Z.id; reflexivity.
Qed.

Ltac step_f64_some :=
  match goal with
  | |- context[opt_f64 pf64 ?n ?nm] =>
      let E := fresh "E" in eassert (E : find_child nm n = _) by fc;
      rewrite (opt_f64_some _ _ _ _ E) by assumption; clear E
  end.

Lemma spherical_of s :
  proj_ok (PSpherical s) = true -> proj_fo pf64 (PSpherical s) = true ->
  spherical_from_node pf64 fdiv (t_spherical_image sc s) = Ok s.
Proof.
  destruct s as [[data fmt] mask w h pw ph].
  cbn [proj_ok proj_fo si_blob si_mask si_width si_height si_pixel_width si_pixel_height ib_data].
  intros H Hf. split_and. unfold spherical_from_node, t_spherical_image.
  unfold rep_ok, blob_ok in *; split_and. unfold t_struct.
  destruct fmt; repeat step_u32 sc; cbn [res_bind];
    unfold image_blob_from_rep_node; repeat step_child; cbn [opt_case];
    unfold t_image_blob; cbn [ib_format ib_data];
    rewrite blob_of by (unfold blob_ok; apply andb_true_iff; split; assumption);
    cbn [res_bind]; step_mask sc; cbn [res_bind];
    repeat step_f64_some; cbn [res_bind dflt]; rewrite !N2Z.id; reflexivity.
Qed.

(** [Image::from_node] *)
Lemma image_of i :
  im_ok i = true -> im_fo pf64 i = true -> image_from_node pf64 fdiv (t_image sc i) = Ok i.
Proof.
  intros Hk Hf. unfold im_ok in Hk. unfold im_fo in Hf. split_and.
  destruct i as [guid vr pj tr pcg name desc acq sv sm ss].
  cbn [im_guid im_visual_reference im_projection im_transform im_pointcloud_guid im_name im_description
       im_acquisition im_sensor_vendor im_sensor_model im_sensor_serial] in *.
  unfold image_from_node.
  assert (Etr : opt_transform pf64 (t_image sc (mkImage guid vr pj tr pcg name desc acq sv sm ss)) (B"pose") = Ok tr)
    by (eapply (opt_transform_of sc pf64); [unfold t_image, t_struct; cbn [im_guid im_visual_reference im_projection im_transform im_pointcloud_guid im_name im_description im_acquisition im_sensor_vendor im_sensor_model im_sensor_serial]; fc|assumption]).
  rewrite Etr. clear Etr.
  assert (Evr : opt_node (find_child (B"visualReferenceRepresentation") (t_image sc (mkImage guid vr pj tr pcg name desc acq sv sm ss))) visual_reference_from_node = Ok vr).
  { eapply (opt_node_of _ (t_visual_reference sc) (fun v => rep_ok (vr_blob v) (vr_mask v) (vr_width v) (vr_height v)));
      [unfold t_image, t_struct; cbn [im_guid im_visual_reference im_projection im_transform im_pointcloud_guid im_name im_description im_acquisition im_sensor_vendor im_sensor_model im_sensor_serial];
       destruct pj as [[?|?|?]|]; cbn [opt1 t_projection]; fc
      |assumption|apply visual_reference_of]. }
  rewrite Evr. clear Evr.
  assert (Epj : projection_from_image_node pf64 fdiv (t_image sc (mkImage guid vr pj tr pcg name desc acq sv sm ss)) = Ok pj).
  { unfold projection_from_image_node, t_image, t_struct.
    cbn [im_guid im_visual_reference im_projection im_transform im_pointcloud_guid im_name im_description im_acquisition im_sensor_vendor im_sensor_model im_sensor_serial].
    destruct pj as [[p|s|c]|]; cbn [opt1 t_projection ofo] in *; repeat step_child; cbn [opt_case].
    - rewrite pinhole_of by assumption. reflexivity.
    - rewrite spherical_of by assumption. reflexivity.
    - rewrite cylindrical_of by assumption. reflexivity.
    - reflexivity. }
  rewrite Epj. clear Epj.
  unfold t_image, t_struct.
  cbn [im_guid im_visual_reference im_projection im_transform im_pointcloud_guid im_name im_description im_acquisition im_sensor_vendor im_sensor_model im_sensor_serial].
  destruct pj as [[p|s|c]|]; cbn [opt1 t_projection];
    repeat step_string sc; repeat step_date_time sc pf64; reflexivity.
Qed.

End Img.
