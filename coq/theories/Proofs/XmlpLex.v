(** Lexer-level lemmas for the XML round trip: what the scanning functions of
    Model/XmlParse.v return on the pieces Spec/XmlRender.v writes (names, blanks, comments,
    processing instructions, CDATA sections and their "]]>" splitting). *)
From Coq Require Import Lia ZifyN ZifyNat ZifyBool.
From E57 Require Import Base.Prelude Model.XmlTree Model.XmlParse Spec.XmlRender.

Local Open Scope N_scope.

(** * Booleans on bytes *)
Lemma is_blank_space : forall b, is_blank b = is_space b.
Proof. reflexivity. Qed.

Lemma eqb_false_neq : forall a b : N, (a =? b) = false <-> a <> b.
Proof. intros; apply N.eqb_neq. Qed.

Lemma lrev_rev : forall l, lrev l = rev l.
Proof. intros. unfold lrev. symmetry. apply rev_alt. Qed.

(** * strip_prefix / starts_with *)
Lemma strip_prefix_app : forall p r, strip_prefix p (p ++ r) = Some r.
Proof.
  induction p as [|x p IH]; intros r; cbn [strip_prefix app]; [reflexivity|].
  rewrite N.eqb_refl. apply IH.
Qed.

Lemma starts_with_app : forall p r, starts_with p (p ++ r) = true.
Proof. intros. unfold starts_with. rewrite strip_prefix_app. reflexivity. Qed.

Lemma strip_prefix_sound : forall p s r, strip_prefix p s = Some r -> s = p ++ r.
Proof.
  induction p as [|x p IH]; intros s r H; cbn [strip_prefix] in H.
  - inversion H. reflexivity.
  - destruct s as [|y s]; [discriminate|].
    destruct (x =? y) eqn:E; [|discriminate].
    apply N.eqb_eq in E. subst y. cbn [app]. f_equal. apply IH. exact H.
Qed.

Lemma sub_at_starts_with : forall p s, sub_at p s = starts_with p s.
Proof.
  unfold starts_with.
  induction p as [|x p IH]; intros s; cbn [sub_at strip_prefix]; [reflexivity|].
  destruct s as [|y s]; [reflexivity|].
  destruct (x =? y); cbn [andb]; [apply IH | reflexivity].
Qed.

Lemma has_sub_contains : forall p s, has_sub p s = contains p s.
Proof.
  induction s as [|y s IH]; cbn [has_sub contains]; rewrite sub_at_starts_with; [reflexivity|].
  rewrite IH. reflexivity.
Qed.

Lemma has_sub_cons_false : forall p b s, has_sub p (b :: s) = false -> sub_at p (b :: s) = false /\ has_sub p s = false.
Proof. intros p b s H. cbn [has_sub] in H. apply orb_false_iff in H. exact H. Qed.

(** * Blanks *)
Lemma skip_spaces_blanks : forall w r, skip_spaces (blanks w ++ r) = skip_spaces r.
Proof.
  induction w as [|b w IH]; intros r; cbn [blanks filter app]; [reflexivity|].
  destruct (is_blank b) eqn:E; [|apply IH].
  cbn [app skip_spaces]. rewrite <- is_blank_space, E. apply IH.
Qed.

Lemma blanks1_nonempty : forall w, exists b r, blanks1 w = b :: r /\ is_space b = true /\ forallb is_space r = true.
Proof.
  intros w. unfold blanks1.
  assert (HA : forallb is_space (blanks w) = true).
  { unfold blanks. induction w as [|b w IH]; cbn [filter forallb]; [reflexivity|].
    destruct (is_blank b) eqn:E; [|exact IH]. cbn [forallb]. rewrite <- is_blank_space, E. exact IH. }
  destruct (blanks w) as [|b r]; [exists 32, []; repeat split; reflexivity|].
  cbn [forallb] in HA. apply andb_true_iff in HA. exists b, r. tauto.
Qed.

Lemma skip_spaces_all : forall w r, forallb is_space w = true -> skip_spaces (w ++ r) = skip_spaces r.
Proof.
  induction w as [|b w IH]; intros r H; cbn [app]; [reflexivity|].
  cbn [forallb] in H. apply andb_true_iff in H. destruct H as [Hb Hw].
  cbn [skip_spaces]. rewrite Hb. apply IH. exact Hw.
Qed.

Lemma skip_spaces_blanks1 : forall w r, skip_spaces (blanks1 w ++ r) = skip_spaces r.
Proof.
  intros. destruct (blanks1_nonempty w) as (b & t & E & Hb & Ht). rewrite E.
  change ((b :: t) ++ r) with (b :: (t ++ r)). cbn [skip_spaces]. rewrite Hb. apply skip_spaces_all. exact Ht.
Qed.

Lemma starts_with_space_blanks1 : forall w r, starts_with_space (blanks1 w ++ r) = true.
Proof.
  intros. destruct (blanks1_nonempty w) as (b & t & E & Hb & Ht). rewrite E. cbn [app starts_with_space]. exact Hb.
Qed.

Definition not_space_head (s : list N) : Prop := match s with b :: _ => is_space b = false | [] => True end.

Lemma skip_spaces_id : forall s, not_space_head s -> skip_spaces s = s.
Proof. intros [|b s] H; cbn [skip_spaces]; [reflexivity|]. cbn in H. rewrite H. reflexivity. Qed.

(** * Names *)
Lemma name_byte_ascii : forall b, name_byte b = true -> (b <? 128) = true /\ is_name_ascii b = true /\ b <> 58.
Proof.
  intros b H. unfold name_byte, name_start_byte, XmlRender.in_rng in H.
  unfold is_name_ascii, is_name_start_ascii, XmlParse.in_rng.
  repeat split; try lia.
Qed.

Lemma name_start_byte_ascii : forall b, name_start_byte b = true -> (b <? 128) = true /\ is_name_start_ascii b = true.
Proof.
  intros b H. unfold name_start_byte, XmlRender.in_rng in H.
  unfold is_name_start_ascii, XmlParse.in_rng. split; lia.
Qed.

(** bytes that [scan_name_run] accepts on its ASCII path *)
Definition run_byte (b : N) : bool := (b <? 128) && is_name_ascii b.

Definition stops_name (s : list N) : Prop :=
  match s with b :: _ => (b <? 128) = true /\ is_name_ascii b = false | [] => True end.

Lemma scan_name_run_ascii : forall n rest, forallb run_byte n = true -> stops_name rest ->
  scan_name_run (n ++ rest) = (n, rest).
Proof.
  induction n as [|b n IH]; intros rest Hn Hr.
  - cbn [app]. destruct rest as [|x rest]; [reflexivity|].
    cbn in Hr. destruct Hr as [H1 H2]. cbn [scan_name_run]. rewrite H1, H2. reflexivity.
  - cbn [forallb] in Hn. apply andb_true_iff in Hn. destruct Hn as [Hb Hn].
    unfold run_byte in Hb. apply andb_true_iff in Hb. destruct Hb as [H1 H2].
    cbn [app scan_name_run]. rewrite H1, H2. rewrite (IH rest Hn Hr). reflexivity.
Qed.

Lemma ncname_run : forall s, ncname s = true -> forallb run_byte s = true /\ has_colon s = false /\ first_name_start s = true /\ s <> [].
Proof.
  intros [|b r] H; [discriminate|]. cbn [ncname] in H. apply andb_true_iff in H. destruct H as [Hb Hr].
  destruct (name_start_byte_ascii b Hb) as [Hb1 Hb2].
  assert (Hb3 : name_byte b = true) by (unfold name_byte; rewrite Hb; reflexivity).
  assert (HA : forall l, forallb name_byte l = true -> forallb run_byte l = true /\ has_colon l = false).
  { induction l as [|x l IH]; intros Hl; [split; reflexivity|].
    cbn [forallb] in Hl. apply andb_true_iff in Hl. destruct Hl as [Hx Hl].
    destruct (name_byte_ascii x Hx) as (A & B & C). destruct (IH Hl) as [I1 I2].
    split.
    - cbn [forallb]. unfold run_byte at 1. rewrite A, B, I1. reflexivity.
    - unfold has_colon in *. cbn [existsb]. rewrite I2. apply N.eqb_neq in C. rewrite N.eqb_sym in C. rewrite C. reflexivity. }
  destruct (HA (b :: r)) as [A1 A2]; [cbn [forallb]; rewrite Hb3, Hr; reflexivity|].
  repeat split; try assumption; try discriminate.
  cbn [first_name_start]. rewrite Hb1. exact Hb2.
Qed.

Lemma split_colon_none : forall s, has_colon s = false -> split_colon s = (s, None).
Proof.
  induction s as [|b s IH]; intros H; [reflexivity|].
  unfold has_colon in H. cbn [existsb] in H. apply orb_false_iff in H. destruct H as [H1 H2].
  cbn [split_colon]. rewrite N.eqb_sym in H1. rewrite H1. rewrite (IH H2). reflexivity.
Qed.

Lemma split_colon_app : forall p l, has_colon p = false -> split_colon (p ++ 58 :: l) = (p, Some l).
Proof.
  induction p as [|b p IH]; intros l H.
  - cbn [app split_colon]. rewrite N.eqb_refl. reflexivity.
  - unfold has_colon in H. cbn [existsb] in H. apply orb_false_iff in H. destruct H as [H1 H2].
    cbn [app split_colon]. rewrite N.eqb_sym in H1. rewrite H1. rewrite (IH l H2). reflexivity.
Qed.

Definition prefix_str (p : option xstr) : xstr := match p with Some x => x | None => [] end.

Lemma forallb_app_intro : forall {A} (f : A -> bool) a b, forallb f a = true -> forallb f b = true -> forallb f (a ++ b) = true.
Proof. intros. rewrite forallb_app. rewrite H, H0. reflexivity. Qed.

Lemma scan_qname_render : forall pre local rest,
  match pre with Some p => ncname p = true | None => True end -> ncname local = true -> stops_name rest ->
  scan_qname (qname pre local ++ rest) = Some (prefix_str pre, local, rest).
Proof.
  intros pre local rest Hp Hl Hr.
  destruct (ncname_run local Hl) as (L1 & L2 & L3 & L4).
  unfold scan_qname. destruct pre as [p|]; cbn [qname prefix_str].
  - destruct (ncname_run p Hp) as (P1 & P2 & P3 & P4).
    rewrite (scan_name_run_ascii (p ++ 58 :: local) rest).
    + rewrite (split_colon_app p local P2). rewrite L2, P3, L3. rewrite orb_true_r. reflexivity.
    + apply forallb_app_intro; [exact P1|]. cbn [forallb]. rewrite L1. reflexivity.
    + exact Hr.
  - rewrite (scan_name_run_ascii local rest L1 Hr).
    rewrite (split_colon_none local L2). rewrite L3. reflexivity.
Qed.

Lemma scan_name_render : forall n rest, ncname n = true -> stops_name rest -> scan_name (n ++ rest) = Some (n, rest).
Proof.
  intros n rest Hn Hr. destruct (ncname_run n Hn) as (L1 & L2 & L3 & L4).
  unfold scan_name. rewrite (scan_name_run_ascii n rest L1 Hr). rewrite L3. reflexivity.
Qed.

(** * Raw content: every byte is an XML Char *)
Definition ascii_head (s : list N) : Prop := match s with x :: _ => x < 128 | [] => True end.

Lemma xco_app : forall b r tail, chars_ok (b :: r) = true -> ascii_head tail -> xml_char_ok b (r ++ tail) = true.
Proof.
  intros b r tail H Ht. cbn [chars_ok] in H.
  apply andb_true_iff in H. destruct H as [H _]. apply andb_true_iff in H. destruct H as [_ H].
  unfold xml_char_ok. destruct (b <? 32); [exact H|].
  destruct (b =? 239); [|reflexivity].
  destruct r as [|b2 [|b3 r]]; cbn [app].
  - destruct tail as [|x [|y tail]]; try reflexivity. cbn in Ht.
    destruct (x =? 191) eqn:E; [apply N.eqb_eq in E; lia | reflexivity].
  - destruct tail as [|x tail]; [reflexivity|]. cbn in Ht.
    destruct (x =? 190) eqn:E1; [apply N.eqb_eq in E1; lia|].
    destruct (x =? 191) eqn:E2; [apply N.eqb_eq in E2; lia|].
    rewrite andb_false_r. reflexivity.
  - exact H.
Qed.

Lemma chars_ok_tail : forall b r, chars_ok (b :: r) = true -> chars_ok r = true.
Proof. intros b r H. cbn [chars_ok] in H. apply andb_true_iff in H. tauto. Qed.

(** [scan_until]: the text before the first occurrence of the pattern *)
Lemma scan_until_first : forall pat t rest,
  pat <> [] -> ascii_head pat -> chars_ok t = true ->
  (forall a b, t = a ++ b -> b <> [] -> strip_prefix pat (b ++ pat ++ rest) = None) ->
  scan_until pat (t ++ pat ++ rest) = Some (t, rest).
Proof.
  intros pat t rest Hne Hpa. induction t as [|b t IH]; intros Hc Hfirst.
  - cbn [app]. destruct pat as [|x pat]; [congruence|].
    change ((x :: pat) ++ rest) with (x :: (pat ++ rest)). cbn [scan_until].
    change (x :: pat ++ rest) with ((x :: pat) ++ rest). rewrite strip_prefix_app. reflexivity.
  - change ((b :: t) ++ pat ++ rest) with (b :: (t ++ pat ++ rest)). cbn [scan_until].
    assert (H0 := Hfirst [] (b :: t) eq_refl ltac:(discriminate)).
    change ((b :: t) ++ pat ++ rest) with (b :: (t ++ pat ++ rest)) in H0. rewrite H0.
    rewrite (xco_app b t (pat ++ rest) Hc).
    + rewrite IH; [reflexivity | exact (chars_ok_tail _ _ Hc) |].
      intros a b' E Hb'. apply (Hfirst (b :: a) b'); [rewrite E; reflexivity | exact Hb'].
    + destruct pat as [|x pat]; [congruence|]. exact Hpa.
Qed.

(** comments *)
Lemma rev_head_cons : forall (b : N) r, r <> [] -> (match rev (b :: r) with 45 :: _ => true | _ => false end) = (match rev r with 45 :: _ => true | _ => false end).
Proof.
  intros b r Hr. cbn [rev]. destruct (rev r) as [|x l] eqn:E.
  - apply (f_equal (@rev N)) in E. rewrite rev_involutive in E. cbn in E. congruence.
  - reflexivity.
Qed.

Lemma comment_ok_tail : forall b r, comment_ok (b :: r) = true -> comment_ok r = true.
Proof.
  intros b r H. unfold comment_ok in *.
  apply andb_true_iff in H. destruct H as [H H3]. apply andb_true_iff in H. destruct H as [H1 H2].
  rewrite (chars_ok_tail _ _ H1). apply negb_true_iff in H2. destruct (has_sub_cons_false _ _ _ H2) as [_ H2'].
  rewrite H2'. cbn [negb andb].
  destruct r as [|x r]; [reflexivity|]. rewrite rev_head_cons in H3 by discriminate. exact H3.
Qed.

Lemma scan_comment : forall t rest, comment_ok t = true ->
  scan_until s_comment_end (t ++ s_comment_end ++ rest) = Some (t, rest).
Proof.
  intros t rest H. apply scan_until_first; [discriminate | cbn; lia | |].
  - unfold comment_ok in H. apply andb_true_iff in H. destruct H as [H _]. apply andb_true_iff in H. tauto.
  - intros a b E Hb. subst t.
    assert (Hok : comment_ok b = true).
    { clear Hb. induction a as [|x a IH]; [exact H|]. apply IH. apply (comment_ok_tail x). exact H. }
    clear H. destruct b as [|b1 r]; [congruence|].
    unfold comment_ok in Hok.
    apply andb_true_iff in Hok. destruct Hok as [Hok H3]. apply andb_true_iff in Hok. destruct Hok as [_ H2].
    apply negb_true_iff in H2. apply negb_true_iff in H3.
    unfold s_comment_end. cbn [app strip_prefix].
    destruct (45 =? b1) eqn:E1; [|reflexivity]. apply N.eqb_eq in E1. subst b1.
    destruct r as [|b2 r].
    + cbn in H3. discriminate.
    + cbn [app]. destruct (45 =? b2) eqn:E2; [|reflexivity]. apply N.eqb_eq in E2. subst b2.
      cbn in H2. discriminate.
Qed.

(** processing instructions *)
Lemma scan_pi_value : forall v rest, chars_ok v = true -> has_sub PI_CLOSE v = false ->
  scan_until s_pi_end (v ++ s_pi_end ++ rest) = Some (v, rest).
Proof.
  intros v rest Hc H. apply scan_until_first; [discriminate | cbn; lia | exact Hc |].
  intros a b E Hb. subst v.
  assert (Hs : has_sub PI_CLOSE b = false).
  { clear Hb Hc. induction a as [|x a IH]; [exact H|]. apply IH. cbn [app] in H. apply (has_sub_cons_false _ _ _ H). }
  destruct b as [|b1 r]; [congruence|].
  unfold s_pi_end. cbn [app strip_prefix].
  destruct (63 =? b1) eqn:E1; [|reflexivity]. apply N.eqb_eq in E1. subst b1.
  destruct r as [|b2 r]; [reflexivity|].
  cbn [app]. destruct (62 =? b2) eqn:E2; [|reflexivity]. apply N.eqb_eq in E2. subst b2.
  cbn in Hs. discriminate.
Qed.

(** * CDATA sections *)

(** a string without "]]>" is found back by the scanner *)
Lemma scan_cdata_piece : forall t rest, chars_ok t = true -> has_sub CDATA_CLOSE t = false ->
  scan_until s_cdata_end (t ++ s_cdata_end ++ rest) = Some (t, rest).
Proof.
  intros t rest Hc H. apply scan_until_first; [discriminate | cbn; lia | exact Hc |].
  intros a b E Hb. subst t.
  assert (Hs : has_sub CDATA_CLOSE b = false).
  { clear Hb Hc. induction a as [|x a IH]; [exact H|]. apply IH. cbn [app] in H. apply (has_sub_cons_false _ _ _ H). }
  destruct b as [|b1 r]; [congruence|].
  unfold s_cdata_end. cbn [app strip_prefix].
  destruct (93 =? b1) eqn:E1; [|reflexivity]. apply N.eqb_eq in E1. subst b1.
  destruct r as [|b2 r]; [reflexivity|].
  cbn [app]. destruct (93 =? b2) eqn:E2; [|reflexivity]. apply N.eqb_eq in E2. subst b2.
  destruct r as [|b3 r]; [reflexivity|].
  cbn [app]. destruct (62 =? b3) eqn:E3; [|reflexivity]. apply N.eqb_eq in E3. subst b3.
  cbn in Hs. discriminate.
Qed.

(** the leftmost "]]>" of a string: what precedes it, and what follows it *)
Fixpoint split3 (t : xstr) : xstr * option xstr :=
  match t with
  | [] => ([], None)
  | b1 :: r1 =>
    match r1 with
    | b2 :: b3 :: r3 =>
      if (b1 =? 93) && (b2 =? 93) && (b3 =? 62) then ([], Some r3)
      else let '(p, o) := split3 r1 in (b1 :: p, o)
    | _ => let '(p, o) := split3 r1 in (b1 :: p, o)
    end
  end.

Lemma split3_cons : forall b1 r1,
  (match r1 with b2 :: b3 :: _ => (b1 =? 93) && (b2 =? 93) && (b3 =? 62) | _ => false end) = false ->
  split3 (b1 :: r1) = (b1 :: fst (split3 r1), snd (split3 r1)) /\ cdata_body (b1 :: r1) = b1 :: cdata_body r1.
Proof.
  intros b1 r1 H. cbn [split3 cdata_body].
  destruct r1 as [|b2 [|b3 r3]].
  - split; reflexivity.
  - destruct (split3 [b2]); split; reflexivity.
  - rewrite H. destruct (split3 (b2 :: b3 :: r3)). split; reflexivity.
Qed.

Lemma split3_spec : forall t,
  match split3 t with
  | (p, None) => t = p /\ cdata_body t = t /\ has_sub CDATA_CLOSE p = false
  | (p, Some r) => t = p ++ CDATA_CLOSE ++ r /\ cdata_body t = p ++ CDATA_SPLIT ++ cdata_body r
                   /\ has_sub CDATA_CLOSE (p ++ [93; 93]) = false /\ (length r < length t)%nat
  end /\ (forall n, (n <= 2)%nat -> firstn n (fst (split3 t) ++ [93; 93]) = firstn n (t ++ [93; 93])).
Proof.
  induction t as [|b1 r1 IH].
  - cbn. split; [repeat split; reflexivity|]. intros; reflexivity.
  - destruct (match r1 with b2 :: b3 :: _ => (b1 =? 93) && (b2 =? 93) && (b3 =? 62) | _ => false end) eqn:Hs.
    + (* split here *)
      destruct r1 as [|b2 [|b3 r3]]; try discriminate.
      apply andb_true_iff in Hs. destruct Hs as [Hs E3]. apply andb_true_iff in Hs. destruct Hs as [E1 E2].
      apply N.eqb_eq in E1, E2, E3. subst b1 b2 b3.
      cbn [split3 cdata_body]. cbn [N.eqb andb]. change ((93 =? 93) && (93 =? 93) && (62 =? 62)) with true. cbv iota.
      split.
      * repeat split; try reflexivity. cbn [length]. lia.
      * intros n Hn. cbn [fst app]. destruct n as [|[|[|n]]]; try reflexivity. lia.
    + destruct (split3_cons b1 r1 Hs) as [E1 E2]. rewrite E1, E2.
      destruct IH as [IH1 IH2].
      assert (Hhead : sub_at CDATA_CLOSE (b1 :: fst (split3 r1) ++ [93; 93]) = false).
      { unfold CDATA_CLOSE. cbn [sub_at].
        destruct (93 =? b1) eqn:F1; [|reflexivity]. cbn [andb].
        assert (H2 := IH2 2%nat (le_n _)).
        destruct (fst (split3 r1) ++ [93; 93]) as [|x [|y l]] eqn:EL; try reflexivity.
        { cbn [sub_at]. rewrite andb_false_r. reflexivity. }
        cbn [firstn] in H2.
        cbn [sub_at]. destruct (93 =? x) eqn:F2; [|reflexivity]. destruct (62 =? y) eqn:F3; [|reflexivity].
        apply N.eqb_eq in F1, F2, F3. subst b1 x y. exfalso.
        destruct r1 as [|b2 [|b3 r3]]; cbn [app firstn] in H2; try (inversion H2; fail).
        inversion H2; subst. cbn in Hs. discriminate. }
      destruct (split3 r1) as [p [r|]] eqn:ES; cbn [fst snd] in *.
      * destruct IH1 as (A & B & C & D). split.
        -- repeat split.
           ++ rewrite A at 1. reflexivity.
           ++ rewrite B. reflexivity.
           ++ change ((b1 :: p) ++ [93; 93]) with (b1 :: (p ++ [93; 93])). cbn [has_sub]. rewrite Hhead, C. reflexivity.
           ++ cbn [length]. lia.
        -- intros n Hn. destruct n as [|n]; [reflexivity|]. cbn [app firstn]. f_equal. apply IH2. lia.
      * destruct IH1 as (A & B & C). split.
        -- repeat split.
           ++ rewrite A at 1. reflexivity.
           ++ rewrite B. reflexivity.
           ++ cbn [has_sub]. rewrite C.
              (* the head: use Hhead on p ++ "]]" *)
              assert (Hh : sub_at CDATA_CLOSE (b1 :: p) = false).
              { unfold CDATA_CLOSE in *. cbn [sub_at] in *.
                destruct (93 =? b1); [|reflexivity]. cbn [andb] in *.
                destruct p as [|x [|y l]]; try reflexivity.
                - cbn [sub_at]. rewrite andb_false_r. reflexivity.
                - exact Hhead. }
              rewrite Hh. reflexivity.
        -- intros n Hn. destruct n as [|n]; [reflexivity|]. cbn [app firstn]. f_equal. apply IH2. lia.
Qed.

Lemma has_sub_gt_cons : forall x, has_sub CDATA_CLOSE (62 :: x) = has_sub CDATA_CLOSE x.
Proof. intros. cbn [has_sub]. unfold CDATA_CLOSE at 1. cbn [sub_at]. reflexivity. Qed.

Lemma chars_ok_app : forall a b, chars_ok a = true -> chars_ok b = true -> ascii_head b -> chars_ok (a ++ b) = true.
Proof.
  induction a as [|x a IH]; intros b Ha Hb Hh; [exact Hb|].
  assert (Hx := xco_app x a b Ha Hh).
  cbn [app chars_ok]. rewrite (IH b (chars_ok_tail _ _ Ha) Hb Hh).
  cbn [chars_ok] in Ha. apply andb_true_iff in Ha. destruct Ha as [Ha _]. apply andb_true_iff in Ha. destruct Ha as [Hlt Ha].
  rewrite Hlt. unfold xml_char_ok in Hx.
  destruct (x <? 32); [rewrite Hx; reflexivity|].
  destruct (x =? 239); [|reflexivity].
  rewrite Hx. reflexivity.
Qed.

Lemma chars_ok_app_l : forall a b, chars_ok (a ++ b) = true -> chars_ok b = true.
Proof. induction a as [|x a IH]; intros b H; [exact H|]. apply IH. apply (chars_ok_tail x). exact H. Qed.

(** a prefix of an XML-Char string is one when what follows starts with a byte that is not
    a UTF-8 continuation of U+FFFE/U+FFFF, e.g. an ASCII byte *)
Lemma chars_ok_prefix : forall a b, chars_ok (a ++ b) = true -> ascii_head b -> chars_ok a = true.
Proof.
  induction a as [|x a IH]; intros b H Hb; [reflexivity|].
  cbn [app] in H. assert (Ht := chars_ok_tail _ _ H).
  cbn [chars_ok] in H. apply andb_true_iff in H. destruct H as [H _]. apply andb_true_iff in H. destruct H as [Hlt H].
  cbn [chars_ok]. rewrite Hlt, (IH b Ht Hb).
  destruct (x <? 32); [rewrite H; reflexivity|].
  destruct (x =? 239); [|reflexivity].
  destruct a as [|y [|z a]]; try reflexivity.
  cbn [app] in H. rewrite H. reflexivity.
Qed.

(** no CR: [process_cdata] is the identity *)
Lemma cdata_loop_id : forall t rbuf, existsb (N.eqb 13) t = false ->
  match rbuf with x :: _ => x <> 13 | [] => True end -> cdata_loop t rbuf = rev rbuf ++ t.
Proof.
  induction t as [|b t IH]; intros rbuf Ht Hr; cbn [cdata_loop]; [rewrite app_nil_r; apply lrev_rev|].
  cbn [existsb] in Ht. apply orb_false_iff in Ht. destruct Ht as [Hb Ht].
  assert (Hb' : (b =? 13) = false) by (rewrite N.eqb_sym; exact Hb).
  assert (E : push_from_text rbuf b (is_nil t) = b :: rbuf).
  { unfold push_from_text. destruct rbuf as [|x rb].
    - rewrite Hb', andb_false_r. reflexivity.
    - apply N.eqb_neq in Hr. rewrite Hr, Hb', andb_false_r. reflexivity. }
  rewrite E. rewrite IH; [| exact Ht | apply N.eqb_neq; exact Hb'].
  cbn [rev]. rewrite <- app_assoc. reflexivity.
Qed.

Lemma process_cdata_id : forall t, existsb (N.eqb 13) t = false -> process_cdata t = t.
Proof. intros t H. unfold process_cdata. rewrite cdata_loop_id; [reflexivity | exact H | exact I]. Qed.

Lemma cons_text_twice : forall a b l, cons_text a (cons_text b l) = cons_text (a ++ b) l.
Proof.
  intros a b l. unfold cons_text at 2. destruct l as [|[| t | |] r]; cbn [cons_text]; try reflexivity.
  rewrite app_assoc. reflexivity.
Qed.
