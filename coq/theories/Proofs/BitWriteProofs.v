(** B2: the write buffer holds exactly the specified bit stream. *)
From E57 Require Import Base.Prelude Model.BsWrite Model.BsRead Model.Record Spec.BitSpec.
From E57 Require Import Proofs.BitLemmas Proofs.BitWidthProofs.
From Coq Require Import ZifyN ZifyNat ZifyBool.
Ltac Zify.zify_post_hook ::= Z.div_mod_to_equations.
Open Scope N_scope.

Definition bsw_holds (b : bsw) (bits : list bool) : Prop :=
  bsw_buffer b = bytes_of_bits bits /\ bw_lbb b = N.of_nat (length bits) mod 8.

Lemma bsw_new_holds : bsw_holds bsw_new [].
Proof. split; reflexivity. Qed.

Lemma bsw_holds_rev b bits : bsw_holds b bits -> bw_rev b = rev (bytes_of_bits bits).
Proof.
  intros [H _]. unfold bsw_buffer in H. rewrite <- H, rev_involutive. reflexivity.
Qed.

(** ** Arithmetic of the single-bit OR *)

Lemma land_pow2_testbit x k : N.land x (2 ^ k) = if N.testbit x k then 2 ^ k else 0.
Proof.
  destruct (N.testbit x k) eqn:E.
  - apply N.bits_inj; intro i. rewrite N.land_spec, N.pow2_bits_eqb.
    destruct (N.eqb_spec k i) as [->|Hn]; [rewrite E; reflexivity|apply andb_false_r].
  - apply N.bits_inj_0; intro i. rewrite N.land_spec, N.pow2_bits_eqb.
    destruct (N.eqb_spec k i) as [->|Hn]; [rewrite E; reflexivity|apply andb_false_r].
Qed.

Lemma source_bit_testbit x k : negb (N.land x (2 ^ k) =? 0) = N.testbit x k.
Proof.
  rewrite land_pow2_testbit. destruct (N.testbit x k); [|reflexivity].
  pose proof (N.pow_nonzero 2 k ltac:(lia)).
  destruct (N.eqb_spec (2 ^ k) 0); [contradiction|reflexivity].
Qed.

Lemma lor_pow2_high x k : x < 2 ^ k -> N.lor x (2 ^ k) = x + 2 ^ k.
Proof.
  intros H.
  assert (Hl : N.land x (2 ^ k) = 0).
  { rewrite land_pow2_testbit.
    rewrite <- (N.mod_small x (2 ^ k) H), N.mod_pow2_bits_high by lia. reflexivity. }
  rewrite <- (N.lxor_lor _ _ Hl). symmetry. apply N.add_nocarry_lxor. exact Hl.
Qed.

(** ** Appending one bit to the packed bytes *)

Lemma bob_snoc_aligned bits c : (length bits mod 8 = 0)%nat ->
  bytes_of_bits (bits ++ [c]) = bytes_of_bits bits ++ [N.b2n c].
Proof.
  intros H. rewrite (bob_app_aligned (length bits / 8)) by lia.
  rewrite (bob_small [c]) by (discriminate || (cbn [length]; lia)).
  cbn [num_of_bits]. destruct c; cbn [N.b2n]; do 2 f_equal; lia.
Qed.

Lemma bob_snoc_unaligned bits c : (length bits mod 8 <> 0)%nat ->
  exists pre x,
    bytes_of_bits bits = pre ++ [x] /\
    x < 2 ^ N.of_nat (length bits mod 8) /\
    bytes_of_bits (bits ++ [c]) = pre ++ [x + (if c then 2 ^ N.of_nat (length bits mod 8) else 0)].
Proof.
  intros H.
  set (k := (8 * (length bits / 8))%nat).
  set (l1 := firstn k bits). set (l2 := skipn k bits).
  assert (Hl1 : length l1 = k) by (subst l1 k; rewrite firstn_length_le; lia).
  assert (Hl2 : length l2 = (length bits mod 8)%nat) by (subst l2 k; rewrite skipn_length; lia).
  assert (Hne : l2 <> []) by (intros E; rewrite E in Hl2; cbn [length] in Hl2; lia).
  assert (Hbits : bits = l1 ++ l2) by (subst l1 l2; symmetry; apply firstn_skipn).
  exists (bytes_of_bits l1), (num_of_bits l2). split; [|split].
  - rewrite Hbits at 1. rewrite (bob_app_aligned (length bits / 8)) by (subst k; lia).
    rewrite (bob_small l2) by (assumption || lia). reflexivity.
  - rewrite <- Hl2. apply num_of_bits_lt.
  - rewrite Hbits at 1. rewrite <- app_assoc.
    rewrite (bob_app_aligned (length bits / 8)) by (subst k; lia).
    rewrite (bob_small (l2 ++ [c])).
    + rewrite num_of_bits_app. unfold len. rewrite Hl2. cbn [num_of_bits].
      destruct c; do 3 f_equal; lia.
    + destruct l2; [congruence|discriminate].
    + rewrite app_length. cbn [length]. lia.
Qed.

Lemma add_bit_step s bits (c : bool) : bsw_holds s bits ->
  let tb := N.of_nat (length bits) / 8 in
  let r1 := if len (bw_rev s) <=? tb then 0 :: bw_rev s else bw_rev s in
  (len r1 <=? tb) = false /\
  exists r2, or_at_rev r1 (N.to_nat (len r1 - 1 - tb)) (if c then 2 ^ bw_lbb s else 0) = Some r2 /\
     bsw_holds (mkBsw r2 ((bw_lbb s + 1) mod 8)) (bits ++ [c]).
Proof.
  intros Hh. pose proof (bsw_holds_rev _ _ Hh) as Hr. destruct Hh as [Hb Hl].
  intros tb r1.
  assert (Hlen : len (bw_rev s) = (N.of_nat (length bits) + 7) / 8).
  { rewrite Hr. unfold len. rewrite rev_length, bob_length. lia. }
  destruct (Nat.eq_dec (length bits mod 8) 0) as [Ha|Ha].
  - (* a fresh byte is pushed *)
    assert (Hlbb : bw_lbb s = 0) by lia.
    assert (E1 : (len (bw_rev s) <=? tb) = true) by (subst tb; lia).
    subst r1. rewrite E1.
    assert (Hlen1 : len (0 :: bw_rev s) = tb + 1).
    { unfold len in *. cbn [length]. subst tb. lia. }
    split; [lia|].
    replace (N.to_nat (len (0 :: bw_rev s) - 1 - tb)) with 0%nat by lia.
    cbn [or_at_rev]. eexists; split; [reflexivity|].
    split.
    + unfold bsw_buffer. cbn [bw_rev rev]. rewrite Hr, rev_involutive, N.lor_0_l.
      rewrite bob_snoc_aligned by assumption. rewrite Hlbb.
      destruct c; reflexivity.
    + cbn [bw_lbb]. rewrite app_length. cbn [length]. lia.
  - (* OR into the last byte *)
    destruct (bob_snoc_unaligned bits c Ha) as (pre & x & Hpre & Hx & Hsnoc).
    assert (Hlbb : bw_lbb s = N.of_nat (length bits mod 8)) by lia.
    assert (E1 : (len (bw_rev s) <=? tb) = false) by (subst tb; lia).
    subst r1. rewrite E1. split; [exact E1|].
    replace (N.to_nat (len (bw_rev s) - 1 - tb)) with 0%nat by (subst tb; lia).
    rewrite Hr, Hpre, rev_app_distr. cbn [rev app or_at_rev].
    eexists; split; [reflexivity|]. split.
    + unfold bsw_buffer. cbn [bw_rev rev]. rewrite rev_involutive, Hsnoc, Hlbb.
      do 2 f_equal. destruct c; [apply lor_pow2_high; exact Hx|rewrite N.lor_0_r; lia].
    + cbn [bw_lbb]. rewrite app_length. cbn [length]. lia.
Qed.

(** ** The unaligned loop *)

Lemma firstn_S_skipn {A} (d : A) : forall bn n (L : list A), (bn < length L)%nat ->
  firstn (S n) (skipn bn L) = nth bn L d :: firstn n (skipn (S bn) L).
Proof.
  induction bn; intros n L H.
  - destruct L; [cbn [length] in H; lia|reflexivity].
  - destruct L as [|x L]; [cbn [length] in H; lia|].
    cbn [length] in H.
    change (firstn (S n) (skipn bn L) = nth bn L d :: firstn n (skipn (S bn) L)).
    apply IHbn. lia.
Qed.

Lemma add_bits_loop_holds : forall n bn data sb sbit s bits,
  bsw_holds s bits ->
  N.of_nat (length bits) = 8 * sb + sbit + N.of_nat bn ->
  N.of_nat (bn + n) <= 8 * len data ->
  exists s', add_bits_loop n (N.of_nat bn) data sb sbit s = Ok s' /\
    bsw_holds s' (bits ++ firstn n (skipn bn (bits_of_bytes data))).
Proof.
  induction n; intros bn data sb sbit s bits Hh Hpos Hdata.
  - exists s. split; [reflexivity|]. cbn [firstn]. rewrite app_nil_r. exact Hh.
  - cbn [add_bits_loop].
    unfold len in Hdata.
    rewrite (nth_error_nth' data 0) by lia.
    rewrite source_bit_testbit.
    rewrite <- bits_of_bytes_nth_byte, Nat2N.id.
    set (c := nth bn (bits_of_bytes data) false).
    replace (sb + (sbit + N.of_nat bn) / 8) with (N.of_nat (length bits) / 8) by lia.
    destruct (add_bit_step s bits c Hh) as (E1 & r2 & Hor & Hh2).
    cbv zeta in E1, Hor. rewrite E1, Hor.
    replace (N.of_nat bn + 1) with (N.of_nat (S bn)) by lia.
    destruct (IHn (S bn) data sb sbit _ _ Hh2) as (s' & Hs' & Hh');
      [rewrite app_length; cbn [length]; lia|unfold len; lia|].
    exists s'. split; [exact Hs'|].
    rewrite (firstn_S_skipn false) by (rewrite bits_of_bytes_length; lia).
    fold c. rewrite <- app_assoc in Hh'. exact Hh'.
Qed.

(** ** [add_bits] / [add_bytes] of a little-endian number *)

Lemma firstn_bits_lsb a b v : a <= b -> firstn (N.to_nat a) (bits_lsb b v) = bits_lsb a v.
Proof.
  intros H. replace b with (a + (b - a)) by lia. rewrite bits_lsb_app.
  rewrite <- (bits_lsb_length a v) at 1.
  rewrite <- (Nat.add_0_r (length (bits_lsb a v))), firstn_app_2.
  cbn [firstn]. apply app_nil_r.
Qed.

Lemma bob_bits_lsb w u : u < 2 ^ w ->
  bytes_of_bits (bits_lsb w u) = le_bytes (N.to_nat ((w + 7) / 8)) u.
Proof.
  intros H. rewrite bob_num, bits_lsb_length, num_of_bits_bits_lsb, (N.mod_small u (2 ^ w) H).
  f_equal. lia.
Qed.

Lemma add_bits_le_bytes_holds s bits k u w :
  bsw_holds s bits -> w <= 8 * N.of_nat k -> u < 2 ^ w ->
  exists s', bsw_add_bits s (le_bytes k u) w = Ok s' /\ bsw_holds s' (bits ++ bits_lsb w u).
Proof.
  intros Hh Hw Hu. pose proof (bsw_holds_rev _ _ Hh) as Hr.
  pose proof Hh as [Hb Hl].
  unfold bsw_add_bits. destruct (bw_lbb s =? 0) eqn:E.
  - (* aligned: whole bytes are appended *)
    unfold len, take. rewrite le_bytes_length.
    destruct (N.of_nat k <? (w + 7) / 8) eqn:E2; [lia|].
    eexists; split; [reflexivity|]. split.
    + unfold bsw_buffer. cbn [bw_rev].
      rewrite rev_app_distr, rev_involutive, Hr, rev_involutive.
      rewrite firstn_le_bytes by lia.
      rewrite (bob_app_aligned (length bits / 8)) by lia.
      rewrite bob_bits_lsb by assumption. reflexivity.
    + cbn [bw_lbb]. rewrite app_length, bits_lsb_length. lia.
  - (* unaligned: bit by bit *)
    assert (Hlen : len (bw_rev s) = (N.of_nat (length bits) + 7) / 8).
    { rewrite Hr. unfold len. rewrite rev_length, bob_length. lia. }
    destruct (bw_rev s) as [|x r] eqn:Er.
    { unfold len in Hlen. cbn [length] in Hlen. lia. }
    destruct (add_bits_loop_holds (N.to_nat w) 0 (le_bytes k u) (len (x :: r) - 1) (bw_lbb s) s bits Hh)
      as (s' & Hs' & Hh').
    + lia.
    + unfold len. rewrite le_bytes_length. lia.
    + exists s'. split; [exact Hs'|].
      rewrite skipn_O, bits_of_bytes_le_bytes, firstn_bits_lsb in Hh' by lia. exact Hh'.
Qed.

Lemma add_bytes_le_bytes_holds s bits k u :
  bsw_holds s bits -> u < 2 ^ (8 * N.of_nat k) ->
  exists s', bsw_add_bytes s (le_bytes k u) = Ok s' /\
             bsw_holds s' (bits ++ bits_lsb (8 * N.of_nat k) u).
Proof.
  intros Hh Hu. pose proof (bsw_holds_rev _ _ Hh) as Hr.
  pose proof Hh as [Hb Hl].
  unfold bsw_add_bytes. destruct (bw_lbb s =? 0) eqn:E.
  - eexists; split; [reflexivity|]. split.
    + unfold bsw_buffer. cbn [bw_rev].
      rewrite rev_app_distr, rev_involutive, Hr, rev_involutive.
      rewrite (bob_app_aligned (length bits / 8)) by lia.
      rewrite bob_bits_lsb by assumption. do 2 f_equal. lia.
    + cbn [bw_lbb]. rewrite app_length, bits_lsb_length. lia.
  - unfold len. rewrite le_bytes_length.
    replace (N.of_nat k * 8) with (8 * N.of_nat k) by lia.
    apply add_bits_le_bytes_holds; [assumption|lia|assumption].
Qed.

(** ** Writing one value *)

Lemma wrap_u64_small z : (0 <= z < 2 ^ 64)%Z -> wrap_u64 z = Z.to_N z.
Proof. intros H. unfold wrap_u64. rewrite Z.mod_small by exact H. reflexivity. Qed.

Lemma serialize_integer_holds mn mx i b bits :
  in_i64 mn = true -> in_i64 mx = true -> (mn <= i <= mx)%Z -> bsw_holds b bits ->
  exists b', serialize_integer i mn mx b = Ok b' /\
             bsw_holds b' (bits ++ bits_lsb (spec_width mn mx) (Z.to_N (i - mn))).
Proof.
  intros Hmn Hmx Hi Hh.
  destruct (spec_width_exact mn mx Hmn Hmx ltac:(lia)) as (Ha & _ & Hc & _).
  unfold serialize_integer. rewrite integer_bits_spec by (assumption || lia).
  apply in_i64_bounds in Hmn. apply in_i64_bounds in Hmx.
  rewrite wrap_u64_small by (change (2 ^ 64)%Z with 18446744073709551616%Z; lia).
  apply add_bits_le_bytes_holds; [assumption|lia|].
  apply N2Z.inj_lt. rewrite N2Z.inj_pow, Z2N.id by lia.
  change (Z.of_N 2) with 2%Z. lia.
Qed.

Theorem dtype_write_holds : forall t v b bits,
  type_ok t = true -> in_range t v = true -> bsw_holds b bits ->
  exists b', dtype_write t v b = Ok b' /\ bsw_holds b' (bits ++ value_bits t v).
Proof.
  intros t v b bits Ht Hv Hh. unfold in_range in Hv. unfold value_bits.
  destruct t as [| |mn mx|mn mx], v as [x|x|i|i]; cbn [stored dtype_write spec_bit_size type_ok] in *;
    try discriminate.
  - destruct (x <? 2 ^ 32) eqn:E; [|discriminate].
    apply (add_bytes_le_bytes_holds b bits 4 x Hh). change (8 * N.of_nat 4) with 32. lia.
  - destruct (x <? 2 ^ 64) eqn:E; [|discriminate].
    apply (add_bytes_le_bytes_holds b bits 8 x Hh). change (8 * N.of_nat 8) with 64. lia.
  - apply type_ok_int in Ht as (H1 & H2 & H3).
    destruct ((mn <=? i)%Z && (i <=? mx)%Z) eqn:E; [|discriminate].
    apply serialize_integer_holds; (assumption || lia).
  - apply type_ok_int in Ht as (H1 & H2 & H3).
    destruct ((mn <=? i)%Z && (i <=? mx)%Z) eqn:E; [|discriminate].
    apply serialize_integer_holds; (assumption || lia).
Qed.

(** ** Draining *)

Theorem get_full_bytes_holds : forall b bits,
  bsw_holds b bits ->
  let k := (8 * (length bits / 8))%nat in
  exists b', bsw_get_full_bytes b = Ok (b', bytes_of_bits (firstn k bits)) /\ bsw_holds b' (skipn k bits).
Proof.
  intros b bits Hh k. pose proof (bsw_holds_rev _ _ Hh) as Hr. destruct Hh as [Hb Hl].
  assert (Hlen : len (bw_rev b) = (N.of_nat (length bits) + 7) / 8).
  { rewrite Hr. unfold len. rewrite rev_length, bob_length. lia. }
  assert (Hfull : bsw_full_bytes b = Ok (N.of_nat (length bits / 8))).
  { unfold bsw_full_bytes, bsw_all_bytes.
    destruct (bw_lbb b =? 0) eqn:E; cbn [negb].
    - f_equal. lia.
    - destruct (len (bw_rev b) =? 0) eqn:E2; [lia|]. f_equal. lia. }
  unfold bsw_get_full_bytes. rewrite Hfull, Hb.
  assert (Hk : length (bytes_of_bits (firstn k bits)) = (length bits / 8)%nat).
  { rewrite bob_length, firstn_length_le by (subst k; lia). subst k. lia. }
  unfold take, drop. rewrite Nat2N.id. rewrite (bob_split bits). fold k.
  rewrite (firstn_app_exact _ _ _ Hk), (skipn_app_exact _ _ _ Hk).
  eexists; split; [reflexivity|]. split.
  - unfold bsw_buffer. cbn [bw_rev]. apply rev_involutive.
  - cbn [bw_lbb]. rewrite Hl, skipn_length. subst k. lia.
Qed.

Theorem get_all_bytes_holds : forall b bits,
  bsw_holds b bits -> bsw_get_all_bytes b = (bsw_new, bytes_of_bits bits).
Proof. intros b bits [Hb _]. unfold bsw_get_all_bytes. rewrite Hb. reflexivity. Qed.

(** ** Writing a whole stream *)

Lemma write_values_holds t : type_ok t = true -> forall vs b bits,
  Forall (fun v => in_range t v = true) vs -> bsw_holds b bits ->
  exists b', write_values t vs b = Ok b' /\ bsw_holds b' (bits ++ stream_bits t vs).
Proof.
  intros Ht. induction vs as [|v vs IH]; intros b bits Hvs Hh.
  - exists b. split; [reflexivity|]. unfold stream_bits. cbn [map concat]. rewrite app_nil_r. exact Hh.
  - inversion Hvs as [|? ? Hv Hvs']; subst.
    destruct (dtype_write_holds t v b bits Ht Hv Hh) as (b1 & Hw & Hh1).
    destruct (IH b1 _ Hvs' Hh1) as (b2 & Hw2 & Hh2).
    exists b2. split.
    + unfold write_values in *. cbn [fold_left]. rewrite Hw. exact Hw2.
    + unfold stream_bits in *. cbn [map concat]. rewrite app_assoc. exact Hh2.
Qed.

Theorem writer_stream : forall t vs,
  type_ok t = true -> Forall (fun v => in_range t v = true) vs ->
  exists b, write_values t vs bsw_new = Ok b /\ bsw_holds b (stream_bits t vs) /\
            bsw_buffer b = spec_stream_bytes t vs.
Proof.
  intros t vs Ht Hvs.
  destruct (write_values_holds t Ht vs bsw_new [] Hvs bsw_new_holds) as (b & Hw & Hh).
  cbn [app] in Hh. exists b. split; [exact Hw|]. split; [exact Hh|]. apply Hh.
Qed.
