(** C08, pure part: the bit-stream reader, the unpack loops and the queue
    functions of the read side never yield [Panic] on well-formed reader
    state ([bsr_ok]: the bit offset lies inside the buffer; [dtype_ok]: a
    record is at most 64 bits wide, which i64 limits guarantee), whatever the
    bytes are; and they keep the state well-formed. *)
From E57 Require Import Base.Prelude Model.BsRead Model.Record Model.PagedReader Model.Prog Model.QueueReader.
From E57 Require Import Proofs.PageSpecLemmas.
From Coq Require Import ZifyN ZifyNat ZifyBool.
Ltac Zify.zify_post_hook ::= Z.div_mod_to_equations.

Definition bsr_ok (b : bsr) : Prop := br_off b <= 8 * len (br_buf b).
Definition dtype_ok (t : dtype) : Prop := bit_size t <= 64.
Definition dtype_i64 (t : dtype) : Prop :=
  match t with
  | TScaled mn mx | TInteger mn mx => in_i64 mn = true /\ in_i64 mx = true
  | _ => True
  end.
Definition proto_i64 (proto : list dtype) : Prop := Forall dtype_i64 proto.
Definition qr_ok (q : qr) : Prop :=
  Forall dtype_ok (q_proto q) /\ length (q_streams q) = length (q_proto q) /\
  length (q_queues q) = length (q_proto q) /\ Forall bsr_ok (q_streams q).
Definition raw_ok (it : raw_iter) : Prop := qr_ok (ri_q it).

(** the verdict used throughout: a pure result is not [Panic] and satisfies [Q] when [Ok] *)
Definition rpost {A} (Q : A -> Prop) (r : res A) : Prop :=
  match r with Ok a => Q a | Err _ => True | Panic => False end.

Lemma rpost_no_panic {A} (Q : A -> Prop) r : rpost Q r -> r <> Panic.
Proof. destruct r; cbn; congruence. Qed.

(** * Widths *)

Lemma integer_bits_i64 mn mx : in_i64 mn = true -> in_i64 mx = true -> integer_bits mn mx <= 64.
Proof.
  unfold in_i64, I64_MIN, I64_MAX, integer_bits. intros Hmn Hmx.
  destruct (0 <? mx - mn)%Z eqn:E; [|lia].
  assert (Hr : (0 < mx - mn < 2 ^ 64)%Z) by lia.
  set (r := (mx - mn)%Z) in *. clearbody r. clear Hmn Hmx E.
  assert (Hn : 0 < Z.to_N r < 2 ^ 64) by lia.
  assert (N.log2 (Z.to_N r) < 64); [|lia].
  apply N.log2_lt_pow2; lia.
Qed.

Lemma dtype_i64_ok : forall t, dtype_i64 t -> dtype_ok t.
Proof.
  intros [| |mn mx|mn mx]; unfold dtype_i64, dtype_ok; cbn [bit_size]; intros H;
    try lia; destruct H; apply integer_bits_i64; assumption.
Qed.

Lemma proto_i64_ok proto : proto_i64 proto -> Forall dtype_ok proto.
Proof. unfold proto_i64. intros H. eapply Forall_impl; [|exact H]. exact dtype_i64_ok. Qed.

(** * ByteStreamReadBuffer *)

Lemma bsr_new_ok : bsr_ok bsr_new.
Proof. unfold bsr_ok, bsr_new. cbn. lia. Qed.

Lemma append_arith o L D : o <= 8 * L -> o / 8 <= L /\ o - o / 8 * 8 <= 8 * (L - o / 8 + D).
Proof. intros H. lia. Qed.

Lemma bsr_append_ok s data : bsr_ok s -> rpost bsr_ok (bsr_append s data).
Proof.
  unfold bsr_ok, bsr_append. intros H.
  destruct (append_arith (br_off s) (len (br_buf s)) (len data) H) as [H1 H2].
  destruct (len (br_buf s) <? br_off s / 8) eqn:E; [lia|].
  cbn [rpost br_off br_buf]. rewrite len_app, len_drop. exact H2.
Qed.

Lemma bsr_available_ok s : bsr_ok s ->
  bsr_available s = Ok (len (br_buf s) * 8 - br_off s).
Proof.
  unfold bsr_ok, bsr_available. intros H.
  destruct (len (br_buf s) * 8 <? br_off s) eqn:E; [lia|reflexivity].
Qed.

Lemma extract_arith o bits L : bits <= 64 -> o + bits <= 8 * L ->
  (o + bits + 7) / 8 - o / 8 <= 16 /\ (o + bits + 7) / 8 <= L.
Proof. intros H1 H2. lia. Qed.

Lemma bsr_extract_ok s bits : bits <= 64 -> bsr_ok s ->
  rpost (fun p => bsr_ok (fst p)) (bsr_extract s bits).
Proof.
  intros Hb Hs. unfold bsr_extract. rewrite (bsr_available_ok s Hs).
  unfold bsr_ok in Hs.
  destruct (len (br_buf s) * 8 - br_off s <? bits) eqn:E; [exact Hs|].
  assert (Hfit : br_off s + bits <= 8 * len (br_buf s)) by lia.
  destruct (extract_arith (br_off s) bits (len (br_buf s)) Hb Hfit) as [H1 H2].
  cbv zeta.
  destruct (16 <? (br_off s + bits + 7) / 8 - br_off s / 8) eqn:E1; [lia|].
  destruct (len (br_buf s) <? (br_off s + bits + 7) / 8) eqn:E2; [lia|].
  cbn [rpost fst]. unfold bsr_ok. cbn [br_off br_buf]. lia.
Qed.

(** * The unpack loops *)

Lemma unpack_loop_ok : forall fuel bits mk s acc, bits <= 64 -> bsr_ok s ->
  rpost (fun p => bsr_ok (fst p)) (unpack_loop fuel bits mk s acc).
Proof.
  induction fuel as [|f IH]; intros bits mk s acc Hb Hs; cbn [unpack_loop]; [exact Hs|].
  pose proof (bsr_extract_ok s bits Hb Hs) as He.
  destruct (bsr_extract s bits) as [[s1 [v|]]|k|]; cbn [rpost fst] in *; auto.
Qed.

Lemma unpack_ints_gen_ok mk mn mx s : integer_bits mn mx <= 64 -> integer_bits mn mx <> 0 -> bsr_ok s ->
  rpost (fun p => bsr_ok (fst p)) (unpack_ints_gen mk mn mx s).
Proof.
  unfold unpack_ints_gen, integer_bits. intros Hb Hnz Hs.
  destruct (0 <? mx - mn)%Z eqn:E; [|congruence].
  destruct (mx - mn <=? 0)%Z eqn:E2; [lia|].
  cbv zeta. apply unpack_loop_ok; assumption.
Qed.

Lemma unpack_type_ok t s : dtype_ok t -> bit_size t <> 0 -> bsr_ok s ->
  rpost (fun p => bsr_ok (fst p)) (unpack_type t s).
Proof.
  unfold dtype_ok. destruct t as [| |mn mx|mn mx]; cbn [bit_size unpack_type]; intros Hb Hnz Hs.
  - apply unpack_loop_ok; [lia|exact Hs].
  - apply unpack_loop_ok; [lia|exact Hs].
  - apply unpack_ints_gen_ok; assumption.
  - apply unpack_ints_gen_ok; assumption.
Qed.

(** * QueueReader, pure functions *)

Lemma min_queue_size_no_panic : forall proto streams queues acc,
  Forall bsr_ok streams -> min_queue_size proto streams queues acc <> Panic.
Proof.
  induction proto as [|t pr' IH]; intros streams queues acc Hs; [cbn; congruence|].
  destruct streams as [|s sr]; [cbn; congruence|].
  destruct queues as [|q qr']; [cbn; congruence|].
  inversion Hs as [|? ? Hs1 Hs2]; subst.
  cbn [min_queue_size]. cbv zeta.
  destruct (bit_size t =? 0); [apply IH; exact Hs2|].
  rewrite (bsr_available_ok s Hs1). apply IH; exact Hs2.
Qed.

(** one attribute of [parse_streams] *)
Definition parse_one (t : dtype) (s : bsr) (q : list rvalue) (mqs : N) : res (bsr * list rvalue) :=
  match t with
  | TSingle | TDouble => res_map (fun '(s', vs) => (s', q ++ vs)) (unpack_type t s)
  | TScaled mn mx =>
      if bit_size t =? 0 then Ok (s, q ++ repeat (VScaled mn) (N.to_nat (mqs - len q)))
      else res_map (fun '(s', vs) => (s', q ++ vs)) (unpack_type t s)
  | TInteger mn mx =>
      if bit_size t =? 0 then Ok (s, q ++ repeat (VInteger mn) (N.to_nat (mqs - len q)))
      else res_map (fun '(s', vs) => (s', q ++ vs)) (unpack_type t s)
  end.

Lemma res_map_bsr_ok (q : list rvalue) (r : res (bsr * list rvalue)) :
  rpost (fun p => bsr_ok (fst p)) r ->
  rpost (fun p => bsr_ok (fst p)) (res_map (fun '(s', vs) => (s', q ++ vs)) r).
Proof. destruct r as [[s' vs]|k|]; cbn; auto. Qed.

Lemma parse_one_ok t s q mqs : dtype_ok t -> bsr_ok s ->
  rpost (fun p => bsr_ok (fst p)) (parse_one t s q mqs).
Proof.
  intros Ht Hs. unfold parse_one.
  destruct t as [| |mn mx|mn mx].
  - apply res_map_bsr_ok. apply unpack_type_ok; [exact Ht|cbn; lia|exact Hs].
  - apply res_map_bsr_ok. apply unpack_type_ok; [exact Ht|cbn; lia|exact Hs].
  - destruct (bit_size (TScaled mn mx) =? 0) eqn:E; [exact Hs|].
    apply res_map_bsr_ok. apply unpack_type_ok; [exact Ht|lia|exact Hs].
  - destruct (bit_size (TInteger mn mx) =? 0) eqn:E; [exact Hs|].
    apply res_map_bsr_ok. apply unpack_type_ok; [exact Ht|lia|exact Hs].
Qed.

Lemma parse_streams_cons t pr' s sr q qr' mqs :
  parse_streams (t :: pr') (s :: sr) (q :: qr') mqs =
  match parse_one t s q mqs with
  | Ok (s', q') =>
      match parse_streams pr' sr qr' mqs with
      | Ok (ss, qs) => Ok (s' :: ss, q' :: qs)
      | Err k => Err k
      | Panic => Panic
      end
  | Err k => Err k
  | Panic => Panic
  end.
Proof. destruct t; reflexivity. Qed.

Lemma parse_streams_ok : forall proto streams queues mqs,
  Forall dtype_ok proto -> Forall bsr_ok streams ->
  length streams = length proto -> length queues = length proto ->
  rpost (fun p => Forall bsr_ok (fst p) /\ length (fst p) = length proto /\ length (snd p) = length proto)
        (parse_streams proto streams queues mqs).
Proof.
  induction proto as [|t pr' IH]; intros streams queues mqs Hp Hs Hl1 Hl2.
  - cbn. auto.
  - destruct streams as [|s sr]; [discriminate|]. destruct queues as [|q qr']; [discriminate|].
    inversion Hp as [|? ? Hp1 Hp2]; subst. inversion Hs as [|? ? Hs1 Hs2]; subst.
    cbn [length] in Hl1, Hl2. injection Hl1 as Hl1. injection Hl2 as Hl2.
    rewrite parse_streams_cons.
    pose proof (parse_one_ok t s q mqs Hp1 Hs1) as H1.
    destruct (parse_one t s q mqs) as [[s' q']|k|]; cbn [rpost fst] in H1; [|exact I|contradiction].
    specialize (IH sr qr' mqs Hp2 Hs2 Hl1 Hl2).
    destruct (parse_streams pr' sr qr' mqs) as [[ss qs]|k|]; cbn [rpost fst snd] in *; [|exact I|contradiction].
    destruct IH as (A1 & A2 & A3). cbn [length]. repeat split; [constructor; assumption|congruence|congruence].
Qed.

Lemma pop_fronts_ok : forall qs,
  rpost (fun p => length (snd p) = length qs) (pop_fronts qs).
Proof.
  induction qs as [|q r IH]; [reflexivity|].
  destruct q as [|v q]; [exact I|].
  cbn [pop_fronts]. destruct (pop_fronts r) as [[vs r']|k|]; cbn [rpost snd] in *; [|exact I|contradiction].
  cbn [length]. congruence.
Qed.
