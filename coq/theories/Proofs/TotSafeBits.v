(** C08, pure part: the bit-stream reader, the unpack loops and the queue
    functions of the read side never yield [Panic] on well-formed reader
    state ([bsr_ok]: the bit offset lies inside the buffer; [dtype_ok]: a
    record is at most 64 bits wide, which i64 limits guarantee), whatever the
    bytes are; and they keep the state well-formed. *)
From E57 Require Import Base.Prelude Model.BsRead Model.Record Model.PagedReader Model.Prog Model.QueueReader.
From E57 Require Import Proofs.PageSpecLemmas.
From Coq Require Import ZifyN ZifyNat ZifyBool.
Ltac Zify.zify_post_hook ::= Z.div_mod_to_equations.

Definition bsr_ok (b : bsr) : Prop := br_off b <= 8 * len (br_buf b).
Definition dtype_ok (t : dtype) : Prop := bit_size t <= 64.
Definition dtype_i64 (t : dtype) : Prop :=
  match t with
  | TScaled mn mx | TInteger mn mx => in_i64 mn = true /\ in_i64 mx = true
  | _ => True
  end.
Definition proto_i64 (proto : list dtype) : Prop := Forall dtype_i64 proto.
Definition qr_ok (q : qr) : Prop :=
  Forall dtype_ok (q_proto q) /\ length (q_streams q) = length (q_proto q) /\
  length (q_queues q) = length (q_proto q) /\ Forall bsr_ok (q_streams q).
Definition raw_ok (it : raw_iter) : Prop := qr_ok (ri_q it).

(** the verdict used throughout: a pure result is not [Panic] and satisfies [Q] when [Ok] *)
Definition rpost {A} (Q : A -> Prop) (r : res A) : Prop :=
  match r with Ok a => Q a | Err _ => True | Panic => False end.

Lemma rpost_no_panic {A} (Q : A -> Prop) r : rpost Q r -> r <> Panic.
Proof. destruct r; cbn; congruence. Qed.

(** * Widths *)

Lemma integer_bits_i64 mn mx : in_i64 mn = true -> in_i64 mx = true -> integer_bits mn mx <= 64.
Proof.
  unfold in_i64, I64_MIN, I64_MAX, integer_bits. intros Hmn Hmx.
  destruct (0 <? mx - mn)%Z eqn:E; [|lia].
  assert (Hr : (0 < mx - mn < 2 ^ 64)%Z) by lia.
  set (r := (mx - mn)%Z) in *. clearbody r. clear Hmn Hmx E.
  assert (Hn : 0 < Z.to_N r < 2 ^ 64) by lia.
  assert (N.log2 (Z.to_N r) < 64); [|lia].
  apply N.log2_lt_pow2; lia.
Qed.

Lemma dtype_i64_ok : forall t, dtype_i64 t -> dtype_ok t.
Proof.
  intros [| |mn mx|mn mx]; unfold dtype_i64, dtype_ok; cbn [bit_size]; intros H;
    try lia; destruct H; apply integer_bits_i64; assumption.
Qed.

Lemma proto_i64_ok proto : proto_i64 proto -> Forall dtype_ok proto.
Proof. unfold proto_i64. intros H. eapply Forall_impl; [|exact H]. exact dtype_i64_ok. Qed.

(** * ByteStreamReadBuffer *)

Lemma bsr_new_ok : bsr_ok bsr_new.
Proof. unfold bsr_ok, bsr_new. cbn. lia. Qed.

Lemma append_arith o L D : o <= 8 * L -> o / 8 <= L /\ o - o / 8 * 8 <= 8 * (L - o / 8 + D).
Proof. intros H. lia. Qed.

Lemma bsr_append_ok s data : bsr_ok s -> rpost bsr_ok (bsr_append s data).
Proof.
  unfold bsr_ok, bsr_append. intros H.
  destruct (append_arith (br_off s) (len (br_buf s)) (len data) H) as [H1 H2].
  destruct (len (br_buf s) <? br_off s / 8) eqn:E; [lia|].
  cbn [rpost br_off br_buf]. rewrite len_app, len_drop. exact H2.
Qed.

Lemma bsr_available_ok s : bsr_ok s ->
  bsr_available s = Ok (len (br_buf s) * 8 - br_off s).
Proof.
  unfold bsr_ok, bsr_available. intros H.
  destruct (len (br_buf s) * 8 <? br_off s) eqn:E; [lia|reflexivity].
Qed.

Lemma extract_arith o bits L : bits <= 64 -> o + bits <= 8 * L ->
  (o + bits + 7) / 8 - o / 8 <= 16 /\ (o + bits + 7) / 8 <= L.
Proof. intros H1 H2. lia. Qed.

Lemma bsr_extract_ok s bits : bits <= 64 -> bsr_ok s ->
  rpost (fun p => bsr_ok (fst p)) (bsr_extract s bits).
Proof.
  intros Hb Hs. unfold bsr_extract. rewrite (bsr_available_ok s Hs).
  unfold bsr_ok in Hs.
  destruct (len (br_buf s) * 8 - br_off s <? bits) eqn:E; [exact Hs|].
  assert (Hfit : br_off s + bits <= 8 * len (br_buf s)) by lia.
  destruct (extract_arith (br_off s) bits (len (br_buf s)) Hb Hfit) as [H1 H2].
  cbv zeta.
  destruct (16 <? (br_off s + bits + 7) / 8 - br_off s / 8) eqn:E1; [lia|].
  destruct (len (br_buf s) <? (br_off s + bits + 7) / 8) eqn:E2; [lia|].
  cbn [rpost fst]. unfold bsr_ok. cbn [br_off br_buf]. lia.
Qed.

(** * The unpack loops *)

Lemma unpack_loop_ok : forall fuel bits mk s acc, bits <= 64 -> bsr_ok s ->
  rpost (fun p => bsr_ok (fst p)) (unpack_loop fuel bits mk s acc).
Proof.
  induction fuel as [|f IH]; intros bits mk s acc Hb Hs; cbn [unpack_loop]; [exact Hs|].
  pose proof (bsr_extract_ok s bits Hb Hs) as He.
  destruct (bsr_extract s bits) as [[s1 [v|]]|k|]; cbn [rpost fst] in *; auto.
Qed.

Lemma unpack_ints_gen_ok mk mn mx s : integer_bits mn mx <= 64 -> integer_bits mn mx <> 0 -> bsr_ok s ->
  rpost (fun p => bsr_ok (fst p)) (unpack_ints_gen mk mn mx s).
Proof.
  unfold unpack_ints_gen, integer_bits. intros Hb Hnz Hs.
  destruct (0 <? mx - mn)%Z eqn:E; [|congruence].
  destruct (mx - mn <=? 0)%Z eqn:E2; [lia|].
  cbv zeta. apply unpack_loop_ok; assumption.
Qed.

Lemma unpack_type_ok t s : dtype_ok t -> bit_size t <> 0 -> bsr_ok s ->
  rpost (fun p => bsr_ok (fst p)) (unpack_type t s).
Proof.
  unfold dtype_ok. destruct t as [| |mn mx|mn mx]; cbn [bit_size unpack_type]; intros Hb Hnz Hs.
  - apply unpack_loop_ok; [lia|exact Hs].
  - apply unpack_loop_ok; [lia|exact Hs].
  - apply unpack_ints_gen_ok; assumption.
  - apply unpack_ints_gen_ok; assumption.
Qed.

(** * QueueReader, pure functions *)

(** one attribute of [parse_streams]: records of zero bit size are skipped *)
Definition parse_one (t : dtype) (s : bsr) (q : list rvalue) : res (bsr * list rvalue) :=
  if bit_size t =? 0 then Ok (s, q)
  else res_map (fun '(s', vs) => (s', q ++ vs)) (unpack_type t s).

Lemma res_map_bsr_ok (q : list rvalue) (r : res (bsr * list rvalue)) :
  rpost (fun p => bsr_ok (fst p)) r ->
  rpost (fun p => bsr_ok (fst p)) (res_map (fun '(s', vs) => (s', q ++ vs)) r).
Proof. destruct r as [[s' vs]|k|]; cbn; auto. Qed.

Lemma parse_one_ok t s q : dtype_ok t -> bsr_ok s ->
  rpost (fun p => bsr_ok (fst p)) (parse_one t s q).
Proof.
  intros Ht Hs. unfold parse_one.
  destruct (bit_size t =? 0) eqn:E; [exact Hs|].
  apply res_map_bsr_ok. apply unpack_type_ok; [exact Ht|lia|exact Hs].
Qed.

Lemma parse_streams_cons t pr' s sr q qr' :
  parse_streams (t :: pr') (s :: sr) (q :: qr') =
  match parse_one t s q with
  | Ok (s', q') =>
      match parse_streams pr' sr qr' with
      | Ok (ss, qs) => Ok (s' :: ss, q' :: qs)
      | Err k => Err k
      | Panic => Panic
      end
  | Err k => Err k
  | Panic => Panic
  end.
Proof. reflexivity. Qed.

Lemma parse_streams_ok : forall proto streams queues,
  Forall dtype_ok proto -> Forall bsr_ok streams ->
  length streams = length proto -> length queues = length proto ->
  rpost (fun p => Forall bsr_ok (fst p) /\ length (fst p) = length proto /\ length (snd p) = length proto)
        (parse_streams proto streams queues).
Proof.
  induction proto as [|t pr' IH]; intros streams queues Hp Hs Hl1 Hl2.
  - cbn. auto.
  - destruct streams as [|s sr]; [discriminate|]. destruct queues as [|q qr']; [discriminate|].
    inversion Hp as [|? ? Hp1 Hp2]; subst. inversion Hs as [|? ? Hs1 Hs2]; subst.
    cbn [length] in Hl1, Hl2. injection Hl1 as Hl1. injection Hl2 as Hl2.
    rewrite parse_streams_cons.
    pose proof (parse_one_ok t s q Hp1 Hs1) as H1.
    destruct (parse_one t s q) as [[s' q']|k|]; cbn [rpost fst] in H1; [|exact I|contradiction].
    specialize (IH sr qr' Hp2 Hs2 Hl1 Hl2).
    destruct (parse_streams pr' sr qr') as [[ss qs]|k|]; cbn [rpost fst snd] in *; [|exact I|contradiction].
    destruct IH as (A1 & A2 & A3). cbn [length]. repeat split; [constructor; assumption|congruence|congruence].
Qed.

(** one attribute of [pop_fronts] *)
Definition pop_one (t : dtype) (q : list rvalue) : res (rvalue * list rvalue) :=
  match t, bit_size t =? 0 with
  | TInteger mn _, true => Ok (VInteger mn, q)
  | TScaled mn _, true => Ok (VScaled mn, q)
  | _, _ => match q with
            | [] => Err EInternal
            | v :: q' => Ok (v, q')
            end
  end.

Lemma pop_one_no_panic t q : pop_one t q <> Panic.
Proof.
  unfold pop_one. destruct t as [| |mn mx|mn mx];
    try (destruct (bit_size (TScaled mn mx) =? 0)); try (destruct (bit_size (TInteger mn mx) =? 0));
    try (destruct (bit_size TSingle =? 0)); try (destruct (bit_size TDouble =? 0)); destruct q; congruence.
Qed.

Lemma pop_fronts_cons t pr' q r :
  pop_fronts (t :: pr') (q :: r) =
  match pop_one t q with
  | Ok (v, q') =>
      match pop_fronts pr' r with
      | Ok (vs, r') => Ok (v :: vs, q' :: r')
      | Err k => Err k
      | Panic => Panic
      end
  | Err k => Err k
  | Panic => Panic
  end.
Proof. reflexivity. Qed.

Lemma pop_fronts_ok : forall proto qs, length qs = length proto ->
  rpost (fun p => length (snd p) = length qs) (pop_fronts proto qs).
Proof.
  induction proto as [|t pr' IH]; intros qs Hl.
  - destruct qs; [reflexivity|discriminate].
  - destruct qs as [|q r]; [discriminate|]. cbn [length] in Hl. injection Hl as Hl.
    rewrite pop_fronts_cons.
    pose proof (pop_one_no_panic t q) as Hn.
    destruct (pop_one t q) as [[v q']|k|]; [|exact I|congruence].
    specialize (IH r Hl).
    destruct (pop_fronts pr' r) as [[vs r']|k|]; cbn [rpost snd] in *; [|exact I|contradiction].
    cbn [length]. congruence.
Qed.
