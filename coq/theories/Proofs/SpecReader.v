(** C03, binary side: the implementation-shaped reader model ([reader_open],
    [blob_read], [raw_new]/[raw_collect] over the paged reader) reads every
    file the specification-driven encoder [spec_encode_file] can emit, for
    every layout the format allows: the XML text and the header values on
    opening, then every blob and every compressed vector at the physical
    offset the layout publishes, from any reachable state of the opened
    reader. *)
From E57 Require Import Base.Prelude Model.Crc Model.Device Model.PagedReader Spec.PageSpec Spec.PageReadSpec
  Model.Prog Model.Record Model.QueueReader Model.PcWriter Model.FileBin Model.ReaderOpen
  Spec.BitSpec Spec.FormatSpec Spec.FileSpec.
From E57 Require Import Proofs.PageSpecLemmas Proofs.PagedReaderCache Proofs.PagedReaderProofs
  Proofs.ProgTransfer Proofs.ReaderProgSem Proofs.BlobProofs Proofs.QueueReaderProofs
  Proofs.FileRtWriter Proofs.FileRtReader Proofs.SpecLayout Proofs.SpecReaderTail.
From Coq Require Import ZArith Lia ZifyN ZifyNat ZifyBool.
Ltac Zify.zify_post_hook ::= Z.div_mod_to_equations.
Open Scope N_scope.

(** * Lists *)

Lemma Forall2_map_r {A B C} (R : A -> C -> Prop) (g : B -> C) : forall l l',
  Forall2 (fun a b => R a (g b)) l l' -> Forall2 R l (map g l').
Proof. induction 1; cbn [map]; constructor; assumption. Qed.

Lemma Forall2_and {A B} (P Q : A -> B -> Prop) : forall l l',
  Forall2 P l l' -> Forall2 Q l l' -> Forall2 (fun a b => P a b /\ Q a b) l l'.
Proof.
  induction 1 as [|a b l l' Hab _ IH]; intros HQ; inversion HQ; subst; constructor; auto.
Qed.

Lemma Forall2_imp {A B} (P Q : A -> B -> Prop) : (forall a b, P a b -> Q a b) ->
  forall l l', Forall2 P l l' -> Forall2 Q l l'.
Proof. intros H. induction 1; constructor; auto. Qed.

(** * The XML entry among the starts of a layout *)

Lemma layout_starts_no_xml (Q : N -> Prop) : forall fl base xl, filter is_xml fl = [] ->
  Forall2 (fun s b => s = FXml -> Q b) fl (layout_starts base fl xl).
Proof.
  induction fl as [|s r IH]; intros base xl H; cbn [layout_starts]; [constructor|].
  destruct s as [data pad|proto points lay pad|]; cbn [filter is_xml] in H; try discriminate H;
    (constructor; [discriminate|apply IH; exact H]).
Qed.

(** with at most one [FXml] entry, the start of an [FXml] entry is [xml_start] *)
Lemma layout_starts_xml : forall fl base xl, (length (filter is_xml fl) <= 1)%nat ->
  Forall2 (fun s b => s = FXml -> b = xml_start base fl xl) fl (layout_starts base fl xl).
Proof.
  induction fl as [|s r IH]; intros base xl H; cbn [layout_starts]; [constructor|].
  destruct s as [data pad|proto points lay pad|]; cbn [filter is_xml length] in H.
  - constructor; [discriminate|]. cbn [xml_start]. apply IH. exact H.
  - constructor; [discriminate|]. cbn [xml_start]. apply IH. exact H.
  - constructor; [reflexivity|]. cbn [xml_start]. apply layout_starts_no_xml.
    destruct (filter is_xml r); [reflexivity|cbn [length] in H; lia].
Qed.

(** * The entries of a layout on the logical stream *)

(** what the reader programs return on the logical stream for the entry that starts at logical
    offset [b] *)
Definition reads_fsection_spec (log : list N) (s : fsection) (b : N) : Prop :=
  match s with
  | FBlob data _ => reads_back_spec log (IBlob data) (OBlob (phys_of_log b) (len data))
  | FPc proto points _ _ => reads_back_spec log (IPc proto points) (OPc (phys_of_log b) (len points))
  | FXml => True
  end.

Section OnStream.
Variable log : list N.
Hypothesis Hmod : len log mod 1020 = 0.
Hypothesis Hsz : phys_of_log (len log) < 2 ^ 64.

(** every entry of a layout whose encoding lies in the stream at a 4-aligned position is read
    back from its start (a compressed vector may be the very last thing of the stream:
    [qr_decodes_any_layout_tail]) *)
Lemma fsections_read_spec : forall fl base pre post x,
  base = len pre ->
  log = pre ++ encode_fsections base fl x ++ post -> base mod 4 = 0 ->
  forallb fsection_ok fl = true ->
  Forall2 (reads_fsection_spec log) fl (layout_starts base fl (len x)).
Proof.
  induction fl as [|s r IH]; intros base pre post x Hbase Hlog Hal Hok;
    cbn [layout_starts]; [constructor|].
  cbn [forallb] in Hok. apply andb_prop in Hok as [Hs Hr].
  cbn [encode_fsections] in Hlog. rewrite <- app_assoc in Hlog.
  assert (HLlt : len log < 2 ^ 64)
    by (pose proof Hsz as Hsz'; unfold phys_of_log, PAYLOAD_SZ in Hsz'; lia).
  constructor.
  - subst base.
    destruct s as [data pad|proto points lay pad|]; cbn [reads_fsection_spec reads_back_spec];
      [| |exact I]; (split; [reflexivity|]).
    + cbn [encode_fsection] in Hlog. rewrite spec_blob_section_eq, <- app_assoc in Hlog.
      assert (Hb : len pre + len (blob_section data) <= len log).
      { rewrite Hlog at 1. rewrite !len_app. lia. }
      rewrite len_blob_section in Hb.
      apply (blob_read_spec data pre _ log Hlog Hmod); [lia|].
      unfold blob_section_length_fits_u64. lia.
    + cbn [encode_fsection] in Hlog. rewrite <- app_assoc in Hlog.
      apply fsection_ok_pc in Hs as (_ & Hscene & Hlegal).
      intros fuel Hfuel.
      apply (qr_decodes_any_layout_tail proto points lay pre _ log fuel Hscene Hlegal Hlog Hal);
        assumption.
  - apply (IH _ (pre ++ encode_fsection base s x) post x).
    + rewrite len_app, len_encode_fsection. subst base. reflexivity.
    + rewrite <- app_assoc. exact Hlog.
    + pose proof (fsec_len_mod4 s (len x) Hs). lia.
    + exact Hr.
Qed.

End OnStream.

(** * The theorem *)

(** what the reader model returns for one entry of the layout published at physical offset [off];
    [xo] = XML offset of the header *)
Definition reads_fsection (rs : pr) (xo : N) (s : fsection) (off : N) : Prop :=
  match s with
  | FBlob data _ =>
      forall ops, snd (rrun (blob_read (pr_log_size rs) off (len data)) (fst (pr_run ops rs))) = Ok data
  | FPc proto points _ _ =>
      forall ops fuel, (length points < fuel)%nat ->
        snd (rrun (rbind (raw_new off (len points) proto) (fun it => raw_collect fuel (pr_log_size rs) it []))
                  (fst (pr_run ops rs))) = Ok points
  | FXml => off = xo
  end.

(** the logical stream of an encoded file split at the XML text *)
Lemma spec_file_stream_xml fl x : (length (filter is_xml fl) = 1)%nat ->
  exists pre post, spec_file_stream fl x = pre ++ x ++ post /\ len pre = xml_start 48 fl (len x).
Proof.
  intros Hone. destruct (one_xml_split fl Hone) as (l1 & l2 & Efl & H1 & _).
  rewrite spec_file_stream_eq.
  set (h := spec_header _ _ _). set (z := zeros _).
  assert (Hx : xml_start 48 fl (len x) = 48 + fsecs_len l1 (len x))
    by (rewrite Efl; apply xml_start_split; exact H1).
  assert (Hh : len h = 48) by apply len_spec_header.
  rewrite Hx. clearbody h z. rewrite Efl, encode_fsections_app.
  cbn [encode_fsections encode_fsection].
  exists (h ++ encode_fsections 48 l1 x), (zeros (pad4n (len x)) ++
     encode_fsections (48 + fsecs_len l1 (len x) + fsec_len FXml (len x)) l2 x ++ z).
  split; [rewrite <- !app_assoc; reflexivity|].
  rewrite len_app, len_encode_fsections, Hh. reflexivity.
Qed.

(** C03, binary side: the reader model reads every file the specification-driven encoder can emit *)
Theorem spec_file_read_by_model : forall (fl : file_layout) (x : list N),
  file_layout_ok fl = true ->
  x <> [] ->                                   (* an empty XML text at the very end of the last payload cannot be seeked to *)
  len x <= MAX_XML_SIZE ->                     (* the reader refuses longer XML texts (documented limit) *)
  len (spec_encode_file fl x) < 2 ^ 64 ->      (* header fields and offsets are u64 *)
  let f := spec_encode_file fl x in
  let xo := phys_of_log (xml_start 48 fl (len x)) in
  exists rs d',
    reader_open (dev_init f None) = (d', Ok (rs, mkHeader 1 0 (len f) xo (len x) 1024, x)) /\
    pr_inv 1024 f rs /\
    Forall2 (reads_fsection rs xo) fl (spec_layout_offsets fl (len x)).
Proof.
  intros fl x Hlok Hxne Hxl Hsize f xo.
  destruct (file_layout_ok_spec fl Hlok) as [Hok Hone].
  pose proof (spec_size_bound fl x Hsize) as Hsz.
  pose proof (spec_file_stream_mod fl x) as Hmod.
  pose proof (spec_file_stream_eq fl x) as Hlog.
  destruct (spec_file_stream_xml fl x Hone) as (xpre & xpost & Hsplit & Hxpre).
  assert (Hlenf : len f = pages_for (48 + fsecs_len fl (len x)) * 1024)
    by (subst f; apply len_spec_encode_file).
  rewrite <- Hlenf in Hlog. change (len f < 2 ^ 64) in Hsize.
  assert (Hf : f = paginate (spec_file_stream fl x)) by (subst f; apply spec_encode_file_stream).
  fold xo in Hlog.
  set (XS := xml_start 48 fl (len x)) in *.
  set (PL := len f) in *. clearbody PL. rewrite Hf. clear Hf Hlenf f.
  set (LOG := spec_file_stream fl x) in *. clearbody LOG.
  rewrite spec_header_eq in Hlog.
  (* the XML text *)
  apply len_nonnil in Hxne.
  assert (Hslice : slice XS (len x) LOG = x).
  { rewrite Hsplit, <- Hxpre. apply slice_app_exact. reflexivity. }
  assert (Hend : XS + len x <= len LOG).
  { rewrite Hsplit, !len_app, Hxpre. lia. }
  assert (Hin : XS < len LOG) by lia.
  assert (HXO : xo < 2 ^ 64).
  { pose proof (phys_of_log_lt _ _ Hin). subst xo. lia. }
  (* opening *)
  assert (Hopen : snd (rrun_spec LOG open_paged 0) = Ok (mkHeader 1 0 PL xo (len x) 1024, x)).
  { exact (open_paged_spec LOG Hmod PL XS _ x Hlog Hsize HXO Hxl Hin Hend Hslice). }
  destruct (reader_open_paginate LOG PL xo (len x) _ Hlog Hmod) as (s0 & I0 & Hoff0 & Hro).
  pose proof (rrun_inv LOG Hmod _ open_paged s0 I0) as Hrun. rewrite Hoff0, Hopen in Hrun.
  pose proof (rrun_preserves_inv _ _ _ open_paged s0 I0) as I1.
  destruct (rrun open_paged s0) as [rs r3] eqn:Er. cbn [fst snd] in Hrun, I1. subst r3.
  exists rs, (pr_dev rs).
  split; [exact Hro|]. split; [exact I1|].
  (* the entries *)
  assert (Hrd : Forall2 (reads_fsection_spec LOG) fl (layout_starts 48 fl (len x))).
  { apply (fsections_read_spec LOG Hmod Hsz fl 48 (hdr PL xo (len x)) (zeros (spec_file_filler fl x)) x).
    - reflexivity.
    - exact Hlog.
    - reflexivity.
    - exact Hok. }
  assert (Hxs : Forall2 (fun s b => s = FXml -> b = XS) fl (layout_starts 48 fl (len x))).
  { apply layout_starts_xml. lia. }
  unfold spec_layout_offsets. apply Forall2_map_r.
  pose proof (Forall2_and _ _ _ _ Hrd Hxs) as Hboth.
  refine (Forall2_imp _ _ _ _ _ Hboth). clear - I1 Hmod.
  intros s b [Hr Hx].
  destruct s as [data pad|proto points lay pad|]; cbn [reads_fsection reads_fsection_spec] in *.
  - exact (proj2 (reads_back_of_spec LOG Hmod rs _ _ I1 Hr)).
  - exact (proj2 (reads_back_of_spec LOG Hmod rs _ _ I1 Hr)).
  - subst xo. rewrite (Hx eq_refl). reflexivity.
Qed.

(** * A section may end the file

    A zero-record compressed vector that ends the file exactly at the end of the last payload
    (its data offset is the physical size of the file): the reader does not seek there, the
    iteration yields no point.  (Before /repo 2adadd6 the seek was attempted and failed.) *)
Example spec_file_read_vector_at_file_end :
  let fl := [FXml; FPc [TSingle] [] [] 0] in let x := repeat 32 940 in
  file_layout_ok fl = true /\ x <> [] /\ len x <= MAX_XML_SIZE /\
  len (spec_encode_file fl x) = 1024 /\
  pcs_followed fl (len x) (spec_file_filler fl x) = false /\
  spec_layout_offsets fl (len x) = [phys_of_log 48; phys_of_log (48 + 940)] /\
  match reader_open (dev_init (spec_encode_file fl x) None) with
  | (_, Ok (rs, _, _)) =>
      snd (rrun (rbind (raw_new (phys_of_log (48 + 940)) 0 [TSingle])
                       (fun it => raw_collect 1 (pr_log_size rs) it [])) rs) = Ok []
  | _ => False
  end.
Proof.
  cbv zeta.
  split; [vm_compute; reflexivity|]. split; [discriminate|]. split; [vm_compute; discriminate|].
  split; [vm_compute; reflexivity|]. split; [vm_compute; reflexivity|].
  split; [vm_compute; reflexivity|]. vm_compute. reflexivity.
Qed.

(** * The hypotheses are satisfiable *)

Module SpecReadInstance.
  Definition proto := [TInteger 5 5; TInteger 0 2047; TInteger (- 2 ^ 63) (2 ^ 63 - 1); TDouble].
  Definition pts :=
    [[VInteger 5; VInteger 3; VInteger (- 2 ^ 63); VDouble 4607182418800017408];
     [VInteger 5; VInteger 2047; VInteger 77; VDouble 0];
     [VInteger 5; VInteger 1024; VInteger (2 ^ 63 - 1); VDouble 9221120237041090560]].
  Definition s1 := spec_stream_bytes (nth 1 proto TSingle) (column 1 pts).
  Definition s2 := spec_stream_bytes (nth 2 proto TSingle) (column 2 pts).
  Definition s3 := spec_stream_bytes (nth 3 proto TSingle) (column 3 pts).
  Definition lay : layout :=
    [SIndex 16; SData [[]; take 2 s1; take 9 s2; []]; SIgnored 8; SData [[]; []; []; []];
     SData [[]; drop 2 s1; drop 9 s2; s3]; SIndex 20].
  Definition blob := map (fun i => N.of_nat i mod 256) (seq 0 1019).
  Definition fl : file_layout := [FBlob blob 8; FXml; FPc proto pts lay 8; FPc proto [] [] 0].
  Definition xml := [60; 101; 53; 55; 47; 62].
End SpecReadInstance.

Example spec_file_read_by_model_instance :
  let f := spec_encode_file SpecReadInstance.fl SpecReadInstance.xml in
  len f = 2048 /\
  exists rs d',
    reader_open (dev_init f None) = (d', Ok (rs, mkHeader 1 0 2048 1096 6 1024, SpecReadInstance.xml)) /\
    pr_inv 1024 f rs /\
    Forall2 (reads_fsection rs 1096) SpecReadInstance.fl (spec_layout_offsets SpecReadInstance.fl 6).
Proof.
  cbv zeta. split; [vm_compute; reflexivity|].
  assert (Hlen : len (spec_encode_file SpecReadInstance.fl SpecReadInstance.xml) = 2048)
    by (vm_compute; reflexivity).
  destruct (spec_file_read_by_model SpecReadInstance.fl SpecReadInstance.xml) as (rs & d' & H).
  - vm_compute; reflexivity.
  - discriminate.
  - vm_compute; discriminate.
  - rewrite Hlen. reflexivity.
  - rewrite Hlen in H.
    assert (Hxo : phys_of_log (xml_start 48 SpecReadInstance.fl (len SpecReadInstance.xml)) = 1096)
      by (vm_compute; reflexivity).
    rewrite Hxo in H. exists rs, d'. exact H.
Qed.

Print Assumptions spec_file_read_by_model.
